package cluster

import (
	"bytes"
	gocontext "context"
	"encoding/json"
	"fmt"
	"io"
	"net/http"
	"net/http/httptest"
	"net/url"
	"time"

	"github.com/grpc-ecosystem/grpc-gateway/v2/runtime"
	"github.com/orda-io/orda/client/pkg/model"
	"google.golang.org/grpc"
	"google.golang.org/grpc/credentials/insecure"
)

// RESTHandler builds what server/server/rest.go serves under /api/: the generated grpc-gateway
// mux, registered from the endpoint of the environment's gRPC listener (so a REST request takes
// the same two hops as against a real server: HTTP+JSON -> gateway -> gRPC -> service).
func (e *Env) RESTHandler() (http.Handler, error) {
	addr, err := e.StartGRPC()
	if err != nil {
		return nil, err
	}
	e.mu.Lock()
	defer e.mu.Unlock()
	if e.rest != nil {
		return e.rest, nil
	}
	gw := runtime.NewServeMux()
	ctx, cancel := gocontext.WithCancel(gocontext.Background())
	e.restCancel = cancel
	if err := model.RegisterOrdaServiceHandlerFromEndpoint(ctx, gw, addr, []grpc.DialOption{grpc.WithTransportCredentials(insecure.NewCredentials())}); err != nil {
		cancel()
		return nil, err
	}
	mux := http.NewServeMux()
	mux.Handle("/api/", gw)
	e.rest = mux
	return mux, nil
}

// RESTResult is the outcome of one HTTP request against the REST API.
type RESTResult struct {
	Status   int
	Body     string
	JSON     string // PatchMessage.json of a 200 answer
	TimedOut bool
}

// PatchDocumentREST sends POST /api/v1/collections/<collection>/documents/<key> with body {"json": "<document>"}.
func (e *Env) PatchDocumentREST(collection, key, document string, d time.Duration) (*RESTResult, error) {
	h, err := e.RESTHandler()
	if err != nil {
		return nil, err
	}
	body, _ := json.Marshal(map[string]string{"json": document})
	target := "/api/v1/collections/" + url.PathEscape(collection) + "/documents/" + url.PathEscape(key)
	req := httptest.NewRequest(http.MethodPost, target, bytes.NewReader(body))
	req.Header.Set("Content-Type", "application/json")
	ctx, cancel := gocontext.WithTimeout(req.Context(), d)
	defer cancel()
	req = req.WithContext(ctx)
	rec := httptest.NewRecorder()
	done := make(chan struct{})
	go func() { defer close(done); h.ServeHTTP(rec, req) }()
	select {
	case <-done:
	case <-time.After(d + time.Second):
		return &RESTResult{TimedOut: true}, nil
	}
	res := rec.Result()
	b, _ := io.ReadAll(res.Body)
	out := &RESTResult{Status: res.StatusCode, Body: string(b)}
	if res.StatusCode == http.StatusOK {
		var m struct {
			JSON string `json:"json"`
		}
		if err := json.Unmarshal(b, &m); err != nil {
			return out, fmt.Errorf("cluster: REST answer is not JSON: %v: %s", err, b)
		}
		out.JSON = m.JSON
	}
	return out, nil
}

// CollectionREST sends PUT /api/v1/collections/<collection> (create) or .../<collection>/reset.
func (e *Env) CollectionREST(collection string, reset bool, d time.Duration) (*RESTResult, error) {
	h, err := e.RESTHandler()
	if err != nil {
		return nil, err
	}
	target := "/api/v1/collections/" + url.PathEscape(collection)
	if reset {
		target += "/reset"
	}
	req := httptest.NewRequest(http.MethodPut, target, nil)
	ctx, cancel := gocontext.WithTimeout(req.Context(), d)
	defer cancel()
	req = req.WithContext(ctx)
	rec := httptest.NewRecorder()
	done := make(chan struct{})
	go func() { defer close(done); h.ServeHTTP(rec, req) }()
	select {
	case <-done:
	case <-time.After(d + time.Second):
		return &RESTResult{TimedOut: true}, nil
	}
	res := rec.Result()
	b, _ := io.ReadAll(res.Body)
	return &RESTResult{Status: res.StatusCode, Body: string(b)}, nil
}
