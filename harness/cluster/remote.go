package cluster

import (
	"bufio"
	gocontext "context"
	"fmt"
	"net"
	"os"
	"os/exec"
	"strings"
	"sync"
	"time"

	"github.com/orda-io/orda/client/pkg/model"
	"github.com/orda-io/orda/server/managers"
	"github.com/orda-io/orda/server/mongodb"
	"github.com/orda-io/orda/server/notification"
	"github.com/orda-io/orda/server/redis"
	"github.com/orda-io/orda/server/service"
	"google.golang.org/grpc"
	"google.golang.org/grpc/credentials/insecure"
)

// A remote instance is the orda server (managers + service, exactly as buildManagers makes them)
// running in a child process: the test binary re-executed with VERIF_REMOTE_SERVER set. It shares
// nothing with the harness process but the fake MongoDB, MQTT broker and Redis it connects to.
// Protocol on the child's stdout: "ADDR <grpc host:port> <control host:port>\n" once it serves.
// The control port answers the line "B" with "1" (post-response work running) or "0".
// The child exits when its stdin is closed.

const remoteEnv = "VERIF_REMOTE_SERVER"

// RunRemoteServerIfAsked turns the process into a server instance if it was started for that
// purpose; it never returns then. Call it first thing in TestMain.
func RunRemoteServerIfAsked() {
	spec := os.Getenv(remoteEnv)
	if spec == "" {
		return
	}
	SilenceLogs()
	f := strings.Split(spec, "|") // mongo addr | db name | mqtt addr | redis addr
	if len(f) != 4 {
		fmt.Println("ERR bad spec")
		os.Exit(3)
	}
	ctx := serverContext(gocontext.Background())
	mongo, oerr := mongodb.New(ctx, &mongodb.Config{Host: f[0], OrdaDB: f[1], User: "u", Password: "p", Options: MongoURIOptions})
	if oerr != nil {
		fmt.Println("ERR mongodb.New:", oerr)
		os.Exit(3)
	}
	notifier, oerr := notification.NewNotifier(ctx, f[2])
	if oerr != nil {
		fmt.Println("ERR notifier:", oerr)
		os.Exit(3)
	}
	var rconf *redis.Config
	if f[3] != "" {
		rconf = &redis.Config{Addrs: []string{f[3]}}
	}
	rds, oerr := redis.New(ctx, rconf)
	if oerr != nil {
		fmt.Println("ERR redis:", oerr)
		os.Exit(3)
	}
	svc := service.NewOrdaService(&managers.Managers{Mongo: mongo, Notifier: notifier, Redis: rds})
	lis, err := net.Listen("tcp", "127.0.0.1:0")
	if err != nil {
		fmt.Println("ERR listen:", err)
		os.Exit(3)
	}
	ctl, err := net.Listen("tcp", "127.0.0.1:0")
	if err != nil {
		fmt.Println("ERR listen:", err)
		os.Exit(3)
	}
	gs := grpc.NewServer()
	model.RegisterOrdaServiceServer(gs, svc)
	go func() { _ = gs.Serve(lis) }()
	go func() {
		for {
			c, err := ctl.Accept()
			if err != nil {
				return
			}
			go func(c net.Conn) {
				defer c.Close()
				r := bufio.NewReader(c)
				for {
					line, err := r.ReadString('\n')
					if err != nil {
						return
					}
					if strings.TrimSpace(line) == "B" {
						if BackgroundBusy() {
							_, _ = c.Write([]byte("1\n"))
						} else {
							_, _ = c.Write([]byte("0\n"))
						}
					}
				}
			}(c)
		}
	}()
	fmt.Printf("ADDR %s %s\n", lis.Addr().String(), ctl.Addr().String())
	// serve until the parent goes away
	buf := make([]byte, 16)
	for {
		if _, err := os.Stdin.Read(buf); err != nil {
			break
		}
	}
	gs.Stop()
	os.Exit(0)
}

// RemoteInstance is the harness' handle of a server instance in a child process. It implements
// model.OrdaServiceServer by forwarding to the child over gRPC, so the request helpers treat it
// like an in-process service.
type RemoteInstance struct {
	model.UnimplementedOrdaServiceServer
	cmd   *exec.Cmd
	stdin interface{ Close() error }
	conn  *grpc.ClientConn
	cl    model.OrdaServiceClient
	mu    sync.Mutex
	ctl   net.Conn
	ctlR  *bufio.Reader
}

func startRemoteInstance(e *Env) (*RemoteInstance, error) {
	redisAddr := ""
	if e.Redis != nil {
		redisAddr = e.Redis.Addr()
	}
	cmd := exec.Command(os.Args[0], "-test.run", "^$")
	cmd.Env = append(os.Environ(), remoteEnv+"="+strings.Join([]string{e.Mongo.Addr(), e.DBName, e.MQTT.Addr(), redisAddr}, "|"))
	cmd.Stderr = RealStderr() // runtime panics and race reports of the child stay visible
	stdin, err := cmd.StdinPipe()
	if err != nil {
		return nil, err
	}
	stdout, err := cmd.StdoutPipe()
	if err != nil {
		return nil, err
	}
	if err := cmd.Start(); err != nil {
		return nil, err
	}
	r := &RemoteInstance{cmd: cmd, stdin: stdin}
	lineCh := make(chan string, 1)
	go func() {
		br := bufio.NewReader(stdout)
		line, _ := br.ReadString('\n')
		lineCh <- line
		// drain whatever else the child prints
		for {
			if _, err := br.ReadString('\n'); err != nil {
				return
			}
		}
	}()
	var line string
	select {
	case line = <-lineCh:
	case <-time.After(20 * time.Second):
		r.stop()
		return nil, fmt.Errorf("cluster: the server child process did not come up")
	}
	f := strings.Fields(line)
	if len(f) != 3 || f[0] != "ADDR" {
		r.stop()
		return nil, fmt.Errorf("cluster: server child process: %q", strings.TrimSpace(line))
	}
	conn, err := grpc.Dial(f[1], grpc.WithTransportCredentials(insecure.NewCredentials()))
	if err != nil {
		r.stop()
		return nil, err
	}
	r.conn, r.cl = conn, model.NewOrdaServiceClient(conn)
	ctl, err := net.DialTimeout("tcp", f[2], 5*time.Second)
	if err != nil {
		r.stop()
		return nil, err
	}
	r.ctl, r.ctlR = ctl, bufio.NewReader(ctl)
	return r, nil
}

func (r *RemoteInstance) stop() {
	if r.conn != nil {
		_ = r.conn.Close()
	}
	if r.ctl != nil {
		_ = r.ctl.Close()
	}
	if r.stdin != nil {
		_ = r.stdin.Close()
	}
	if r.cmd != nil && r.cmd.Process != nil {
		done := make(chan struct{})
		go func() { _ = r.cmd.Wait(); close(done) }()
		select {
		case <-done:
		case <-time.After(2 * time.Second):
			_ = r.cmd.Process.Kill()
			<-done
		}
	}
}

// busy asks the child whether post-response work (notification, snapshot update) is running there.
func (r *RemoteInstance) busy() bool {
	r.mu.Lock()
	defer r.mu.Unlock()
	if r.ctl == nil {
		return false
	}
	_ = r.ctl.SetDeadline(time.Now().Add(2 * time.Second))
	if _, err := r.ctl.Write([]byte("B\n")); err != nil {
		return false
	}
	line, err := r.ctlR.ReadString('\n')
	return err == nil && strings.TrimSpace(line) == "1"
}

func (e *Env) remotesBusy() bool {
	e.mu.Lock()
	rs := e.remotes
	e.mu.Unlock()
	for _, r := range rs {
		if r.busy() {
			return true
		}
	}
	return false
}

func (r *RemoteInstance) ProcessPushPull(ctx gocontext.Context, in *model.PushPullMessage) (*model.PushPullMessage, error) {
	return r.cl.ProcessPushPull(ctx, in)
}
func (r *RemoteInstance) ProcessClient(ctx gocontext.Context, in *model.ClientMessage) (*model.ClientMessage, error) {
	return r.cl.ProcessClient(ctx, in)
}
func (r *RemoteInstance) PatchDocument(ctx gocontext.Context, in *model.PatchMessage) (*model.PatchMessage, error) {
	return r.cl.PatchDocument(ctx, in)
}
func (r *RemoteInstance) CreateCollection(ctx gocontext.Context, in *model.CollectionMessage) (*model.CollectionMessage, error) {
	return r.cl.CreateCollection(ctx, in)
}
func (r *RemoteInstance) ResetCollection(ctx gocontext.Context, in *model.CollectionMessage) (*model.CollectionMessage, error) {
	return r.cl.ResetCollection(ctx, in)
}
func (r *RemoteInstance) TestEncodingOperation(ctx gocontext.Context, in *model.EncodingMessage) (*model.EncodingMessage, error) {
	return r.cl.TestEncodingOperation(ctx, in)
}
