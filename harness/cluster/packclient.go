package cluster

import (
	"errors"
	"fmt"
	"reflect"
	"runtime"
	"sync"
	"time"

	"github.com/orda-io/orda/client/pkg/context"
	"github.com/orda-io/orda/client/pkg/iface"
	"github.com/orda-io/orda/client/pkg/model"
	"github.com/orda-io/orda/client/pkg/orda"
	"github.com/orda-io/orda/server/wrapper"
	"google.golang.org/protobuf/proto"
)

// PackClient is an orda client that is never connected. Its datatypes are synchronised by
// building PushPullMessages from their packs, handing them to the in-process service and applying
// the response packs, so that requests and responses are values the harness can keep, drop,
// duplicate, reorder or mutate.
//
// A PackClient is not safe for concurrent use (neither is an orda datatype).
type PackClient struct {
	env        *Env
	client     orda.Client
	collection string
	alias      string

	mu         sync.Mutex
	model      *model.Client
	registered bool
	dts        []iface.Datatype
	seq        uint32
}

// NewPackClient creates a MANUALLY syncing orda client that is never connected and registers it with
// the service (ProcessClient). If the client's identity cannot be read before a datatype exists,
// registration is deferred to the first BuildRequest/Sync.
func (e *Env) NewPackClient(collection, alias string) (*PackClient, error) {
	p := e.NewUnregisteredPackClient(collection, alias)
	if p.ClientModel() != nil {
		if err := p.Register(DefaultTimeout); err != nil {
			return nil, err
		}
	}
	return p, nil
}

// NewUnregisteredPackClient is NewPackClient without the ProcessClient exchange; call Register
// (for example under a fault plan) before the first Sync, otherwise Sync registers lazily.
func (e *Env) NewUnregisteredPackClient(collection, alias string) *PackClient {
	c := orda.NewClient(&orda.ClientConfig{CollectionName: collection, SyncType: model.SyncType_MANUALLY}, alias)
	p := &PackClient{env: e, client: c, collection: collection, alias: alias}
	p.model = clientModelOf(c)
	return p
}

// clientModelOf reads the *model.Client out of orda's clientImpl (unexported field ctx).
func clientModelOf(c orda.Client) (m *model.Client) {
	defer func() {
		if recover() != nil {
			m = nil
		}
	}()
	v := reflect.ValueOf(c)
	if v.Kind() == reflect.Ptr {
		v = v.Elem()
	}
	f := v.FieldByName("ctx")
	if !f.IsValid() || f.Type() != reflect.TypeOf((*context.ClientContext)(nil)) || f.IsNil() {
		return nil
	}
	cc := (*context.ClientContext)(f.UnsafePointer())
	return cc.Client
}

// Client returns the underlying (unconnected) orda client.
func (p *PackClient) Client() orda.Client { return p.client }

// Collection returns the collection name.
func (p *PackClient) Collection() string { return p.collection }

// Alias returns the client alias.
func (p *PackClient) Alias() string { return p.alias }

// ClientModel returns the client's model (CUID, alias, collection, type, sync type), or nil if it
// is not known yet.
func (p *PackClient) ClientModel() *model.Client {
	p.mu.Lock()
	defer p.mu.Unlock()
	if p.model == nil && len(p.dts) > 0 {
		p.model = wrapper.NewDatatypeWrapper(p.dts[0].(orda.Datatype)).GetClientModel()
	}
	return p.model
}

// CUID returns the client's unique id ("" if not known yet).
func (p *PackClient) CUID() string {
	if m := p.ClientModel(); m != nil {
		return m.CUID
	}
	return ""
}

// Registered reports whether ProcessClient has succeeded for this client.
func (p *PackClient) Registered() bool {
	p.mu.Lock()
	defer p.mu.Unlock()
	return p.registered
}

// Register performs the ProcessClient exchange.
func (p *PackClient) Register(d time.Duration) error {
	m := p.ClientModel()
	if m == nil {
		return errors.New("cluster: client identity unknown before the first datatype exists")
	}
	_, err, timedOut := p.env.ProcessClient(model.NewClientMessage(m), d)
	if timedOut {
		return ErrTimeout
	}
	if err != nil {
		return err
	}
	p.mu.Lock()
	p.registered = true
	p.mu.Unlock()
	return nil
}

// Datatypes returns the datatypes created through this PackClient, in creation order.
func (p *PackClient) Datatypes() []iface.Datatype {
	p.mu.Lock()
	defer p.mu.Unlock()
	return append([]iface.Datatype(nil), p.dts...)
}

// Datatype returns the remembered datatype with the given key, or nil.
func (p *PackClient) Datatype(key string) iface.Datatype {
	p.mu.Lock()
	defer p.mu.Unlock()
	for _, dt := range p.dts {
		if dt.GetKey() == key {
			return dt
		}
	}
	return nil
}

func (p *PackClient) remember(v interface{}) {
	if v == nil || reflect.ValueOf(v).IsNil() {
		return
	}
	dt, ok := v.(iface.Datatype)
	if !ok {
		return
	}
	p.mu.Lock()
	defer p.mu.Unlock()
	for _, have := range p.dts {
		if have == dt {
			return
		}
	}
	p.dts = append(p.dts, dt)
}

// Forget removes a datatype from the set that Sync covers (the orda client still knows its key).
func (p *PackClient) Forget(dt iface.Datatype) {
	p.mu.Lock()
	defer p.mu.Unlock()
	for i, have := range p.dts {
		if have == dt {
			p.dts = append(p.dts[:i:i], p.dts[i+1:]...)
			return
		}
	}
}

// CreateCounter is client.CreateCounter, remembering the datatype.
func (p *PackClient) CreateCounter(key string, h *orda.Handlers) orda.Counter {
	d := p.client.CreateCounter(key, h)
	p.remember(d)
	return d
}

// SubscribeCounter is client.SubscribeCounter, remembering the datatype.
func (p *PackClient) SubscribeCounter(key string, h *orda.Handlers) orda.Counter {
	d := p.client.SubscribeCounter(key, h)
	p.remember(d)
	return d
}

// SubscribeOrCreateCounter is client.SubscribeOrCreateCounter, remembering the datatype.
func (p *PackClient) SubscribeOrCreateCounter(key string, h *orda.Handlers) orda.Counter {
	d := p.client.SubscribeOrCreateCounter(key, h)
	p.remember(d)
	return d
}

// CreateMap is client.CreateMap, remembering the datatype.
func (p *PackClient) CreateMap(key string, h *orda.Handlers) orda.Map {
	d := p.client.CreateMap(key, h)
	p.remember(d)
	return d
}

// SubscribeMap is client.SubscribeMap, remembering the datatype.
func (p *PackClient) SubscribeMap(key string, h *orda.Handlers) orda.Map {
	d := p.client.SubscribeMap(key, h)
	p.remember(d)
	return d
}

// SubscribeOrCreateMap is client.SubscribeOrCreateMap, remembering the datatype.
func (p *PackClient) SubscribeOrCreateMap(key string, h *orda.Handlers) orda.Map {
	d := p.client.SubscribeOrCreateMap(key, h)
	p.remember(d)
	return d
}

// CreateList is client.CreateList, remembering the datatype.
func (p *PackClient) CreateList(key string, h *orda.Handlers) orda.List {
	d := p.client.CreateList(key, h)
	p.remember(d)
	return d
}

// SubscribeList is client.SubscribeList, remembering the datatype.
func (p *PackClient) SubscribeList(key string, h *orda.Handlers) orda.List {
	d := p.client.SubscribeList(key, h)
	p.remember(d)
	return d
}

// SubscribeOrCreateList is client.SubscribeOrCreateList, remembering the datatype.
func (p *PackClient) SubscribeOrCreateList(key string, h *orda.Handlers) orda.List {
	d := p.client.SubscribeOrCreateList(key, h)
	p.remember(d)
	return d
}

// CreateDocument is client.CreateDocument, remembering the datatype.
func (p *PackClient) CreateDocument(key string, h *orda.Handlers) orda.Document {
	d := p.client.CreateDocument(key, h)
	p.remember(d)
	return d
}

// SubscribeDocument is client.SubscribeDocument, remembering the datatype.
func (p *PackClient) SubscribeDocument(key string, h *orda.Handlers) orda.Document {
	d := p.client.SubscribeDocument(key, h)
	p.remember(d)
	return d
}

// SubscribeOrCreateDocument is client.SubscribeOrCreateDocument, remembering the datatype.
func (p *PackClient) SubscribeOrCreateDocument(key string, h *orda.Handlers) orda.Document {
	d := p.client.SubscribeOrCreateDocument(key, h)
	p.remember(d)
	return d
}

// BuildRequest creates the PushPullMessage carrying the current pack of each given datatype
// (all remembered datatypes if none is given). The packs are deep copies: orda's packs alias the
// datatype's operation buffer, and ApplyPushPullPack re-slices pack.Operations in place.
// It returns nil if the client's identity is not known yet (no datatype created so far).
func (p *PackClient) BuildRequest(dts ...iface.Datatype) *model.PushPullMessage {
	if len(dts) == 0 {
		dts = p.Datatypes()
	}
	m := p.ClientModel()
	if m == nil && len(dts) > 0 {
		m = wrapper.NewDatatypeWrapper(dts[0].(orda.Datatype)).GetClientModel()
		p.mu.Lock()
		p.model = m
		p.mu.Unlock()
	}
	if m == nil {
		return nil
	}
	packs := make([]*model.PushPullPack, 0, len(dts))
	for _, dt := range dts {
		packs = append(packs, proto.Clone(dt.CreatePushPullPack()).(*model.PushPullPack))
	}
	p.mu.Lock()
	seq := p.seq
	p.seq++
	p.mu.Unlock()
	return model.NewPushPullMessage(seq, m, packs...)
}

// ApplyResponse applies every pack of resp to the remembered datatype with the same key (packs for
// unknown keys are ignored, as the real client does). Each pack is cloned first, so resp itself
// stays intact. A panic inside orda's ApplyPushPullPack is recovered and returned as an error;
// the datatype may then be half updated. Handlers are called by orda on a fresh goroutine.
func (p *PackClient) ApplyResponse(resp *model.PushPullMessage) error {
	if resp == nil {
		return nil
	}
	var errs []error
	for _, pack := range resp.PushPullPacks {
		dt := p.Datatype(pack.GetKey())
		if dt == nil {
			continue
		}
		if err := applyPack(dt, proto.Clone(pack).(*model.PushPullPack)); err != nil {
			errs = append(errs, err)
		}
	}
	return errors.Join(errs...)
}

// ApplyPanicError reports a panic raised by the client while applying a pack.
type ApplyPanicError struct {
	Key   string
	Value interface{}
	Stack string
}

func (e *ApplyPanicError) Error() string {
	return fmt.Sprintf("cluster: client panicked applying the pack of %q: %v", e.Key, e.Value)
}

func applyPack(dt iface.Datatype, pack *model.PushPullPack) (err error) {
	defer func() {
		if r := recover(); r != nil {
			buf := make([]byte, 16<<10)
			buf = buf[:runtime.Stack(buf, false)]
			err = &ApplyPanicError{Key: pack.GetKey(), Value: r, Stack: string(buf)}
		}
	}()
	dt.ApplyPushPullPack(pack)
	return nil
}

// Sync is one full exchange for all remembered datatypes: build, ProcessPushPull, apply.
// resp is the (unmodified) response, rpcErr the error returned by the service, timedOut tells that
// the service did not answer within d, applyErr reports a client-side panic while applying.
// If the client is not registered yet, Sync registers it first (a failure is returned as rpcErr).
func (p *PackClient) Sync(d time.Duration) (resp *model.PushPullMessage, rpcErr error, timedOut bool, applyErr error) {
	return p.SyncDatatypes(d)
}

// SyncDatatypes is Sync restricted to the given datatypes (all remembered ones if none is given).
func (p *PackClient) SyncDatatypes(d time.Duration, dts ...iface.Datatype) (resp *model.PushPullMessage, rpcErr error, timedOut bool, applyErr error) {
	req := p.BuildRequest(dts...)
	if req == nil {
		return nil, errors.New("cluster: nothing to sync: the client has no datatype yet"), false, nil
	}
	if !p.Registered() {
		if err := p.Register(d); err != nil {
			if errors.Is(err, ErrTimeout) {
				return nil, nil, true, nil
			}
			return nil, err, false, nil
		}
	}
	resp, rpcErr, timedOut = p.env.ProcessPushPull(req, d)
	if rpcErr != nil || timedOut || resp == nil {
		return resp, rpcErr, timedOut, nil
	}
	return resp, nil, false, p.ApplyResponse(resp)
}
