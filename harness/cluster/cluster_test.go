package cluster

import (
	"encoding/json"
	"fmt"
	"net"
	"os"
	"strings"
	"sync"
	"sync/atomic"
	"testing"
	"time"

	"github.com/orda-io/orda/client/pkg/errors"
	"github.com/orda-io/orda/client/pkg/model"
	"github.com/orda-io/orda/client/pkg/orda"
	"go.mongodb.org/mongo-driver/bson"
	"google.golang.org/protobuf/proto"

	"verif/fakemongo"
)

func TestMain(m *testing.M) {
	RunRemoteServerIfAsked()
	SilenceLogs()
	os.Exit(m.Run())
}

var keySeq int32

// uniqueKey avoids the process-global lock table of the server leaking between tests.
func uniqueKey(t *testing.T) string {
	return fmt.Sprintf("%s-%d", strings.ReplaceAll(t.Name(), "/", "_"), atomic.AddInt32(&keySeq, 1))
}

const deadline = 5 * time.Second

func newEnv(t *testing.T, collections ...string) *Env {
	t.Helper()
	t0 := time.Now()
	env, err := New(Options{})
	if err != nil {
		t.Fatalf("New: %v", err)
	}
	t.Cleanup(func() {
		env.Close()
		if u := env.Mongo.UnknownCommands(); len(u) > 0 {
			t.Errorf("orda used MongoDB features the fake does not implement: %v", u)
		}
	})
	for _, c := range collections {
		if err := env.CreateCollection(c); err != nil {
			t.Fatalf("CreateCollection(%s): %v", c, err)
		}
	}
	t.Logf("env setup incl. %d collection(s): %v", len(collections), time.Since(t0))
	return env
}

func mustSync(t *testing.T, p *PackClient) *model.PushPullMessage {
	t.Helper()
	resp, rpcErr, timedOut, applyErr := p.Sync(deadline)
	if rpcErr != nil || timedOut || applyErr != nil {
		t.Fatalf("sync of %s: rpcErr=%v timedOut=%v applyErr=%v", p.Alias(), rpcErr, timedOut, applyErr)
	}
	for _, pack := range resp.PushPullPacks {
		if pack.GetPushPullPackOption().HasErrorBit() {
			t.Fatalf("sync of %s: error pack %s", p.Alias(), pack.ToString(true))
		}
	}
	return resp
}

func field(d bson.D, key string) interface{} {
	for _, e := range d {
		if e.Key == key {
			return e.Value
		}
	}
	return nil
}

func asInt(v interface{}) int64 {
	switch x := v.(type) {
	case int32:
		return int64(x)
	case int64:
		return x
	case float64:
		return int64(x)
	}
	return -1
}

func TestPackClientsThroughRealService(t *testing.T) {
	env := newEnv(t, "col")
	key := uniqueKey(t)
	a, err := env.NewPackClient("col", "alice")
	if err != nil {
		t.Fatal(err)
	}
	b, err := env.NewPackClient("col", "bob")
	if err != nil {
		t.Fatal(err)
	}
	if !a.Registered() || !b.Registered() || a.CUID() == "" || a.CUID() == b.CUID() {
		t.Fatalf("registration: %v %v %q %q", a.Registered(), b.Registered(), a.CUID(), b.CUID())
	}
	if a.Client().IsConnected() {
		t.Fatalf("a pack client must never be connected")
	}

	ca := a.CreateCounter(key, nil)
	for i := 0; i < 3; i++ {
		if _, err := ca.Increase(); err != nil {
			t.Fatal(err)
		}
	}
	t0 := time.Now()
	mustSync(t, a)
	syncTime := time.Since(t0)
	if !env.WaitBackground(deadline) {
		t.Fatalf("background work did not finish")
	}
	t.Logf("one pushing sync: %v, incl. background work: %v", syncTime, time.Since(t0))
	if st := a.Datatypes()[0].GetState(); st != model.StateOfDatatype_SUBSCRIBED {
		t.Fatalf("A state %v", st)
	}

	cb := b.SubscribeCounter(key, nil)
	mustSync(t, b)
	if got := cb.Get(); got != 3 {
		t.Fatalf("B sees %d, want 3", got)
	}
	if _, err := cb.IncreaseBy(5); err != nil {
		t.Fatal(err)
	}
	mustSync(t, b)
	if !env.WaitBackground(deadline) {
		t.Fatalf("background work did not finish")
	}
	t0 = time.Now()
	mustSync(t, a)
	t.Logf("one pulling sync: %v", time.Since(t0))
	if got := ca.Get(); got != 8 {
		t.Fatalf("A sees %d, want 8", got)
	}
	if env.InFlight() != 0 || env.TimedOutCalls() != 0 {
		t.Fatalf("inFlight=%d timedOut=%d", env.InFlight(), env.TimedOutCalls())
	}

	// --- what the server stored ---
	dump := env.Mongo.Dump()
	duid := a.Datatypes()[0].GetDUID()
	if duid != b.Datatypes()[0].GetDUID() {
		t.Fatalf("DUIDs differ: %s vs %s", duid, b.Datatypes()[0].GetDUID())
	}
	ops := dump[env.DBName+".-_-Operations"]
	if len(ops) != 5 { // snapshot op + 3 increases + 1 increase
		t.Fatalf("operations: %d, want 5: %v", len(ops), ops)
	}
	for i, op := range ops {
		sseq := int64(i + 1)
		if asInt(field(op, "sseq")) != sseq || field(op, "_id") != fmt.Sprintf("%s:%d", duid, sseq) || field(op, "duid") != duid {
			t.Fatalf("operation %d: %v", i, op)
		}
	}
	snaps := dump[env.DBName+".-_-Snapshots"]
	if len(snaps) != 2 {
		t.Fatalf("snapshots: %d, want one per pushing sync (2): %v", len(snaps), snaps)
	}
	if last := snaps[len(snaps)-1]; field(last, "_id") != duid+":5" || asInt(field(last, "sseq")) != 5 {
		t.Fatalf("last snapshot: %v", last)
	}
	user := dump[env.DBName+".col"]
	if len(user) != 1 || field(user[0], "_id") != key || asInt(field(user[0], "counter")) != 8 || asInt(field(user[0], "_orda_ver_")) != 5 {
		t.Fatalf("user collection document: %v", user)
	}
	dts := dump[env.DBName+".-_-Datatypes"]
	if len(dts) != 1 || field(dts[0], "_id") != duid || field(dts[0], "key") != key {
		t.Fatalf("datatypes: %v", dts)
	}
	if end := asInt(field(field(dts[0], "sseq").(bson.D), "end")); end != 5 {
		t.Fatalf("sseq.end=%d want 5", end)
	}
	if n := len(dump[env.DBName+".-_-Clients"]); n != 2 {
		t.Fatalf("clients: %d", n)
	}
	// version of the user document never decreases
	prev := int64(0)
	for _, ev := range env.Mongo.History(env.DBName + ".col") {
		if ev.Verb == "insert" || ev.Verb == "delete" { // the empty placeholder of createCollection
			continue
		}
		v := asInt(field(ev.Doc, "_orda_ver_"))
		if v < prev {
			t.Fatalf("user document version went from %d to %d", prev, v)
		}
		prev = v
	}
	if prev != 5 {
		t.Fatalf("history of the user collection ends at version %d", prev)
	}

	// --- notifications: one publish per pushing sync ---
	pubs := env.MQTT.Publishes()
	if len(pubs) != 2 {
		t.Fatalf("publishes: %d want 2: %+v", len(pubs), pubs)
	}
	for i, p := range pubs {
		var n model.Notification
		if err := json.Unmarshal(p.Payload, &n); err != nil {
			t.Fatalf("payload %q: %v", p.Payload, err)
		}
		wantCUID, wantSseq := a.CUID(), uint64(4)
		if i == 1 {
			wantCUID, wantSseq = b.CUID(), 5
		}
		if p.Topic != "col/"+key || n.DUID != duid || n.CUID != wantCUID || n.Sseq != wantSseq {
			t.Fatalf("publish %d: topic=%s %+v", i, p.Topic, &n)
		}
	}
}

func TestBuildRequestAndApplyResponseAreIsolated(t *testing.T) {
	env := newEnv(t, "col")
	key := uniqueKey(t)
	a, err := env.NewPackClient("col", "alice")
	if err != nil {
		t.Fatal(err)
	}
	ca := a.CreateCounter(key, nil)
	_, _ = ca.Increase()
	req := a.BuildRequest()
	if len(req.PushPullPacks) != 1 || len(req.PushPullPacks[0].Operations) != 2 || req.Cuid != a.CUID() || req.Collection != "col" {
		t.Fatalf("request: %s", req.ToString(true))
	}
	snapshot := proto.Clone(req).(*model.PushPullMessage)
	_, _ = ca.Increase() // later local operations must not leak into a request built before
	if !proto.Equal(req, snapshot) {
		t.Fatalf("request changed after a local operation")
	}
	resp, rpcErr, timedOut := env.ProcessPushPull(req, deadline)
	if rpcErr != nil || timedOut {
		t.Fatalf("%v %v", rpcErr, timedOut)
	}
	if !proto.Equal(req, snapshot) {
		t.Fatalf("the service modified the caller's request")
	}
	respCopy := proto.Clone(resp).(*model.PushPullMessage)
	if err := a.ApplyResponse(resp); err != nil {
		t.Fatal(err)
	}
	if !proto.Equal(resp, respCopy) {
		t.Fatalf("ApplyResponse modified the response")
	}
	// duplicated response: applying it again must be harmless
	if err := a.ApplyResponse(resp); err != nil {
		t.Fatal(err)
	}
	// duplicated request (retry of a lost response): operations are not stored twice
	resp2, rpcErr, timedOut := env.ProcessPushPull(snapshot, deadline)
	if rpcErr != nil || timedOut || resp2.PushPullPacks[0].GetPushPullPackOption().HasErrorBit() {
		t.Fatalf("retry: %v %v %v", rpcErr, timedOut, resp2)
	}
	mustSync(t, a)
	env.WaitBackground(deadline)
	if n := len(env.Mongo.Dump()[env.DBName+".-_-Operations"]); n != 3 {
		t.Fatalf("operations stored: %d want 3", n)
	}
	if ca.Get() != 2 {
		t.Fatalf("counter %d", ca.Get())
	}
}

func TestRealClientsOverGRPC(t *testing.T) {
	env := newEnv(t, "rcol")
	key := uniqueKey(t)
	addr, err := env.StartGRPC()
	if err != nil {
		t.Fatal(err)
	}
	if again, _ := env.StartGRPC(); again != addr {
		t.Fatalf("StartGRPC is not idempotent: %s %s", addr, again)
	}
	var calls sync.Map
	env.SetGRPCHook(func(method string, req proto.Message) bool {
		n, _ := calls.LoadOrStore(method, new(int32))
		atomic.AddInt32(n.(*int32), 1)
		return false
	})
	c1, err := env.NewRealClient("rcol", "real1", model.SyncType_MANUALLY)
	if err != nil {
		t.Fatal(err)
	}
	if err := c1.Connect(); err != nil {
		t.Fatalf("connect: %v", err)
	}
	defer func() { _ = c1.Close() }()
	cnt1 := c1.CreateCounter(key, nil)
	_, _ = cnt1.Increase()
	_, _ = cnt1.IncreaseBy(41)
	if err := c1.Sync(); err != nil {
		t.Fatalf("sync: %v", err)
	}
	c2, err := env.NewRealClient("rcol", "real2", model.SyncType_MANUALLY)
	if err != nil {
		t.Fatal(err)
	}
	if err := c2.Connect(); err != nil {
		t.Fatalf("connect: %v", err)
	}
	defer func() { _ = c2.Close() }()
	cnt2 := c2.SubscribeCounter(key, nil)
	if err := c2.Sync(); err != nil {
		t.Fatalf("sync: %v", err)
	}
	if cnt1.Get() != 42 || cnt2.Get() != 42 {
		t.Fatalf("values %d %d", cnt1.Get(), cnt2.Get())
	}
	if !env.WaitBackground(deadline) {
		t.Fatal("background")
	}
	for _, m := range []string{"ProcessClient", "ProcessPushPull"} {
		n, ok := calls.Load(m)
		if !ok || atomic.LoadInt32(n.(*int32)) != 2 {
			t.Fatalf("hook calls for %s: %v", m, n)
		}
	}
	if env.InFlight() != 0 {
		t.Fatalf("inFlight=%d", env.InFlight())
	}

	// dropped response: the server processes the push, the client gets an error and retries later
	var dropped int32
	env.SetGRPCHook(func(method string, req proto.Message) bool {
		return method == "ProcessPushPull" && atomic.CompareAndSwapInt32(&dropped, 0, 1)
	})
	_, _ = cnt1.Increase()
	if err := c1.Sync(); err == nil {
		t.Fatalf("sync with dropped response must fail")
	}
	env.WaitBackground(deadline)
	if n := len(env.Mongo.Dump()[env.DBName+".-_-Operations"]); n != 4 {
		t.Fatalf("the dropped-response push must be stored: %d ops", n)
	}
	if err := c1.Sync(); err != nil {
		t.Fatalf("retry: %v", err)
	}
	// dropped request: nothing reaches the service
	env.SetGRPCHook(nil)
	var reqDropped int32
	env.SetGRPCRequestHook(func(method string, req proto.Message) bool {
		return method == "ProcessPushPull" && atomic.CompareAndSwapInt32(&reqDropped, 0, 1)
	})
	_, _ = cnt1.Increase()
	env.Mongo.ResetLog()
	if err := c1.Sync(); err == nil {
		t.Fatalf("sync with dropped request must fail")
	}
	if env.Mongo.CommandCount() != 0 {
		t.Fatalf("a dropped request reached MongoDB: %v", env.Mongo.CommandLog())
	}
	if err := c1.Sync(); err != nil {
		t.Fatalf("retry: %v", err)
	}
	if err := c2.Sync(); err != nil {
		t.Fatal(err)
	}
	if cnt1.Get() != 44 || cnt2.Get() != 44 {
		t.Fatalf("values %d %d", cnt1.Get(), cnt2.Get())
	}
	env.WaitBackground(deadline)
}

func TestRealtimeClientGetsNotified(t *testing.T) {
	env := newEnv(t, "ncol")
	key := uniqueKey(t)
	rt, err := env.NewRealClient("ncol", "rt", model.SyncType_REALTIME)
	if err != nil {
		t.Fatal(err)
	}
	if err := rt.Connect(); err != nil {
		t.Fatal(err)
	}
	defer func() { _ = rt.Close() }()
	w, err := env.NewPackClient("ncol", "writer")
	if err != nil {
		t.Fatal(err)
	}
	cw := w.CreateCounter(key, nil)
	_, _ = cw.IncreaseBy(7)
	mustSync(t, w)
	env.WaitBackground(deadline)

	// The realtime client applies remote operations on its own goroutines and orda's datatypes are not
	// synchronised against that, so the value is read only after a handler has signalled (channel = happens-before).
	subscribed := make(chan struct{}, 8)
	remote := make(chan struct{}, 8)
	handlers := orda.NewHandlers(
		func(dt orda.Datatype, old, new model.StateOfDatatype) {
			if new == model.StateOfDatatype_SUBSCRIBED {
				subscribed <- struct{}{}
			}
		},
		func(dt orda.Datatype, opList []interface{}) { remote <- struct{}{} },
		func(dt orda.Datatype, errs ...errors.OrdaError) { t.Errorf("client error: %v", errs) },
	)
	crt := rt.SubscribeCounter(key, handlers) // realtime: subscribes by itself
	waitChan(t, "realtime client subscribed", subscribed)
	waitUntil(t, "MQTT subscription", func() bool { return env.MQTT.Subscribers("ncol/"+key) == 1 })
	waitChan(t, "operations of the subscribe response", remote) // same goroutine as the state handler, right after it
	if got := crt.Get(); got != 7 {
		t.Fatalf("realtime client subscribed with %d want 7", got)
	}
	// hold the notification, so that the time of delivery is the harness' decision
	env.MQTT.SetHold(true)
	_, _ = cw.IncreaseBy(3)
	mustSync(t, w)
	waitUntil(t, "queued forward", func() bool { return env.MQTT.QueuedForwards() == 1 })
	select {
	case <-remote:
		t.Fatalf("realtime client received operations while the notification is held")
	case <-time.After(20 * time.Millisecond):
	}
	env.MQTT.ReleaseOne()
	waitChan(t, "remote operation at the realtime client", remote)
	if got := crt.Get(); got != 10 {
		t.Fatalf("realtime client has %d want 10", got)
	}
	env.MQTT.SetHold(false)
	env.WaitBackground(deadline)
}

func waitChan(t *testing.T, what string, ch <-chan struct{}) {
	t.Helper()
	select {
	case <-ch:
	case <-time.After(deadline):
		t.Fatalf("timeout waiting for: %s", what)
	}
}

func waitUntil(t *testing.T, what string, cond func() bool) {
	t.Helper()
	end := time.Now().Add(deadline)
	for !cond() {
		if time.Now().After(end) {
			t.Fatalf("timeout waiting for: %s", what)
		}
		time.Sleep(time.Millisecond)
	}
}

func TestRestartService(t *testing.T) {
	env := newEnv(t, "col")
	key := uniqueKey(t)
	a, _ := env.NewPackClient("col", "alice")
	ca := a.CreateCounter(key, nil)
	_, _ = ca.IncreaseBy(10)
	mustSync(t, a)
	env.WaitBackground(deadline)
	before := env.Mongo.DumpCanonical()
	oldSvc := env.Svc

	env.Mongo.StopAfter(env.Mongo.CommandCount()) // the database "dies" ...
	if _, rpcErr, timedOut, _ := a.Sync(deadline); rpcErr == nil && !timedOut {
		t.Fatalf("sync against a dead database must not succeed")
	}
	t0 := time.Now()
	if err := env.RestartService(); err != nil { // ... and everything is restarted
		t.Fatalf("RestartService: %v", err)
	}
	t.Logf("RestartService: %v", time.Since(t0))
	if env.Svc == oldSvc || env.Svc == nil || env.Managers == nil {
		t.Fatalf("service not replaced")
	}
	if after := env.Mongo.DumpCanonical(); after != before {
		t.Fatalf("restart changed the stored data:\n%s\n---\n%s", before, after)
	}
	_, _ = ca.IncreaseBy(5)
	mustSync(t, a)
	b, err := env.NewPackClient("col", "bob")
	if err != nil {
		t.Fatal(err)
	}
	cb := b.SubscribeCounter(key, nil)
	mustSync(t, b)
	if cb.Get() != 15 {
		t.Fatalf("after restart B sees %d want 15", cb.Get())
	}
	env.WaitBackground(deadline)
	if n := len(env.MQTT.Publishes()); n != 2 {
		t.Fatalf("publishes %d: the restarted service must notify through the same broker", n)
	}
}

func TestInjectedMongoFaultIsAnsweredNotHung(t *testing.T) {
	env := newEnv(t, "col")
	key := uniqueKey(t)
	a, _ := env.NewPackClient("col", "alice")
	ca := a.CreateCounter(key, nil)
	_, _ = ca.Increase()

	var fired int32
	env.Mongo.SetFaultHook(func(c *fakemongo.Cmd) fakemongo.Fault {
		if c.Verb == "update" && strings.HasSuffix(c.NS, ".-_-Datatypes") && atomic.CompareAndSwapInt32(&fired, 0, 1) {
			return fakemongo.FailBefore
		}
		return fakemongo.None
	})
	resp, rpcErr, timedOut := env.ProcessPushPull(a.BuildRequest(), deadline)
	if timedOut {
		t.Fatalf("a failing MongoDB command made the service hang")
	}
	if atomic.LoadInt32(&fired) != 1 {
		t.Fatalf("fault hook did not fire; commands: %+v", env.Mongo.CommandLog())
	}
	switch {
	case rpcErr != nil:
		t.Logf("answered with RPC error: %v", rpcErr)
	case len(resp.PushPullPacks) == 1 && resp.PushPullPacks[0].GetPushPullPackOption().HasErrorBit():
		t.Logf("answered with error pack: %s", resp.PushPullPacks[0].ToString(true))
		// NOTE: the response is deliberately not applied: orda's client panics ("Not implemented yet")
		// on an error pack of this kind.
	default:
		t.Fatalf("the service reported success although the datatype update failed: %v", resp)
	}
	env.WaitBackground(deadline)
	env.Mongo.SetFaultHook(nil)
	if env.InFlight() != 0 {
		t.Fatalf("inFlight=%d", env.InFlight())
	}
}

func TestUnansweredRequestTimesOut(t *testing.T) {
	env := newEnv(t, "col")
	key := uniqueKey(t)
	a, _ := env.NewPackClient("col", "alice")
	ca := a.CreateCounter(key, nil)
	_, _ = ca.Increase()
	req := a.BuildRequest()
	req.PushPullPacks[0].Option = uint32(model.PushPullBitNormal) // unknown DUID without create/subscribe bit
	t0 := time.Now()
	_, rpcErr, timedOut := env.ProcessPushPull(req, 300*time.Millisecond)
	if !timedOut {
		t.Logf("orda answered this request (rpcErr=%v): the known defect seems to be fixed", rpcErr)
		return
	}
	if d := time.Since(t0); d < 300*time.Millisecond || d > 3*time.Second {
		t.Fatalf("timeout after %v", d)
	}
	if env.TimedOutCalls() != 1 || env.InFlight() != 1 {
		t.Fatalf("timedOut=%d inFlight=%d", env.TimedOutCalls(), env.InFlight())
	}
	if env.Mongo.Busy() {
		t.Fatalf("fakemongo must be idle: the request is stuck inside the server, not in the database")
	}
	// the environment stays usable for other keys
	b, _ := env.NewPackClient("col", "bob")
	cb := b.CreateCounter(uniqueKey(t), nil)
	_, _ = cb.Increase()
	mustSync(t, b)
	env.WaitBackground(deadline)
}

func TestPatchDocumentAndCollections(t *testing.T) {
	env := newEnv(t, "dummy", "docs") // the first two collections both get number 1 (orda defect): keep a dummy first
	key := uniqueKey(t)
	resp, err, timedOut := env.PatchDocument(&model.PatchMessage{Collection: "docs", Key: key, Json: `{"a":1,"b":{"c":"x"}}`}, deadline)
	if err != nil || timedOut {
		t.Fatalf("PatchDocument: %v %v", err, timedOut)
	}
	var got map[string]interface{}
	if err := json.Unmarshal([]byte(resp.Json), &got); err != nil || got["a"] != float64(1) {
		t.Fatalf("patched json %q: %v", resp.Json, err)
	}
	env.WaitBackground(deadline)
	if _, err, _ := env.PatchDocument(&model.PatchMessage{Collection: "nope", Key: key, Json: `{}`}, deadline); err == nil {
		t.Fatalf("PatchDocument on a missing collection must fail")
	}
	if _, err, _ := env.ProcessClient(&model.ClientMessage{Collection: "nope", Cuid: "0123456789abcdef", ClientAlias: "x"}, deadline); err == nil {
		t.Fatalf("ProcessClient on a missing collection must fail")
	}
	if err := env.ResetCollection("docs"); err != nil {
		t.Fatalf("ResetCollection: %v", err)
	}
	if n := len(env.Mongo.Dump()[env.DBName+".-_-Operations"]); n != 0 {
		t.Fatalf("operations after reset: %d", n)
	}
}

func TestCloseFreesPorts(t *testing.T) {
	env, err := New(Options{DBName: "orda_named"})
	if err != nil {
		t.Fatal(err)
	}
	if env.DBName != "orda_named" {
		t.Fatalf("DBName %s", env.DBName)
	}
	addr, err := env.StartGRPC()
	if err != nil {
		t.Fatal(err)
	}
	if err := env.CreateCollection("c"); err != nil {
		t.Fatal(err)
	}
	if _, ok := env.Mongo.Dump()["orda_named.-_-Collections"]; !ok {
		t.Fatalf("named database not used")
	}
	env.Close()
	env.Close()
	for _, a := range []string{env.Mongo.Addr(), strings.TrimPrefix(env.MQTT.Addr(), "tcp://"), addr} {
		if c, err := net.DialTimeout("tcp", a, 200*time.Millisecond); err == nil {
			_ = c.Close()
			t.Fatalf("%s still accepts connections after Close", a)
		}
	}
}

func TestGateHoldsServerMidRequest(t *testing.T) {
	env := newEnv(t, "col")
	key := uniqueKey(t)
	a, _ := env.NewPackClient("col", "alice")
	ca := a.CreateCounter(key, nil)
	_, _ = ca.Increase()
	env.Mongo.EnableGate(func(c *fakemongo.Cmd) bool {
		return c.Verb == "insert" && strings.HasSuffix(c.NS, ".-_-Operations")
	})
	type result struct {
		resp     *model.PushPullMessage
		err      error
		timedOut bool
	}
	done := make(chan result, 1)
	req := a.BuildRequest()
	go func() {
		resp, err, timedOut := env.ProcessPushPull(req, deadline)
		done <- result{resp, err, timedOut}
	}()
	if !env.Mongo.WaitPending(1, deadline) {
		t.Fatalf("the insert of the operations never arrived")
	}
	if env.InFlight() != 1 || !env.Mongo.Busy() {
		t.Fatalf("inFlight=%d busy=%v", env.InFlight(), env.Mongo.Busy())
	}
	select {
	case r := <-done:
		t.Fatalf("answered while its insert is held: %+v", r)
	case <-time.After(20 * time.Millisecond):
	}
	if n := len(env.Mongo.Dump()[env.DBName+".-_-Operations"]); n != 0 {
		t.Fatalf("held insert was applied")
	}
	p := env.Mongo.Pending()
	env.Mongo.Release(p[0].Seq)
	r := <-done
	if r.err != nil || r.timedOut {
		t.Fatalf("%v %v", r.err, r.timedOut)
	}
	env.Mongo.DisableGate()
	if err := a.ApplyResponse(r.resp); err != nil {
		t.Fatal(err)
	}
	env.WaitBackground(deadline)
	if n := len(env.Mongo.Dump()[env.DBName+".-_-Operations"]); n != 2 {
		t.Fatalf("operations: %d", n)
	}
}
