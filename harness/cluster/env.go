// Package cluster runs the real orda server (service layer) in process on top of fakemongo and
// fakemqtt, and offers two kinds of clients: a pack-level client whose requests and responses are
// first-class values, and real orda clients over gRPC on loopback through a fault-injecting proxy.
package cluster

import (
	gocontext "context"
	"errors"
	"fmt"
	"net/http"
	"os"
	"reflect"
	"runtime"
	"strings"
	"sync"
	"sync/atomic"
	"time"
	"unsafe"

	mqtt "github.com/eclipse/paho.mqtt.golang"
	"github.com/orda-io/orda/client/pkg/context"
	"github.com/orda-io/orda/client/pkg/iface"
	"github.com/orda-io/orda/client/pkg/model"
	"github.com/orda-io/orda/server/constants"
	"github.com/orda-io/orda/server/managers"
	"github.com/orda-io/orda/server/mongodb"
	"github.com/orda-io/orda/server/notification"
	"github.com/orda-io/orda/server/redis"
	"github.com/orda-io/orda/server/service"
	"google.golang.org/grpc"
	"google.golang.org/protobuf/proto"

	"verif/fakemongo"
	"verif/fakemqtt"
	"verif/fakeredis"
)

// MongoURIOptions are the connection-string options used for the server's MongoDB client.
const MongoURIOptions = "authMechanism=PLAIN&retryWrites=false&retryReads=false&heartbeatFrequencyMS=500&serverSelectionTimeoutMS=3000&connectTimeoutMS=1000"

// DefaultTimeout is the deadline used by the helpers that do not take one.
const DefaultTimeout = 10 * time.Second

// ErrTimeout is returned by CreateCollection / ResetCollection / NewPackClient when the service does not answer in time.
var ErrTimeout = errors.New("cluster: the service did not answer within the deadline")

// PanicError is returned by the request helpers when the service method itself panicked on the
// calling goroutine. (A panic on a goroutine spawned by the server cannot be caught and ends the process.)
type PanicError struct {
	Value interface{}
	Stack string
}

func (e *PanicError) Error() string { return fmt.Sprintf("cluster: service panicked: %v", e.Value) }

// Options configures New.
type Options struct {
	// DBName is the MongoDB database name (OrdaDB). Empty means a unique generated name.
	DBName string
	// Redis: the server gets a Redis configuration (a fakeredis server), so the per-datatype locks are
	// distributed locks (redsync) instead of the process-local ones.
	Redis bool
	// Instances > 1 builds that many independent server instances (own MongoDB client, own MQTT
	// client, own Redis client) on the same database, broker and Redis - a multi-server deployment.
	// The request helpers and the gRPC proxy hand consecutive requests to the instances in turn.
	// Requires Redis (without it every instance would lock only against itself).
	Instances int
	// RemoteInstances starts that many further server instances, each in its own child PROCESS (the test
	// binary re-executed as a server, see RunRemoteServerIfAsked): nothing at all is shared with them but
	// the database, the broker and Redis - not the table of process-local locks, no package-level state.
	RemoteInstances int
}

// Env is one in-process orda server with its fake infrastructure.
type Env struct {
	Mongo    *fakemongo.Server
	MQTT     *fakemqtt.Broker
	Redis    *fakeredis.Server // nil unless Options.Redis
	Svc      *service.OrdaService
	Managers *managers.Managers
	DBName   string

	// GRPCHook, if set, is called by the gRPC proxy for every call before the real service runs.
	// Returning true makes the proxy run the service and then drop the response: the caller gets
	// an Unavailable error although the request was processed. The request is a copy.
	// Set it before the calls it should see are issued, or use SetGRPCHook while calls are running.
	GRPCHook func(method string, req proto.Message) (dropResponse bool)
	// GRPCRequestHook, if set, is called first; returning true drops the request: the service is
	// not called at all and the caller gets an Unavailable error.
	GRPCRequestHook func(method string, req proto.Message) (dropRequest bool)
	// GRPCAfterHook, if set, runs after the service handled the request, before the response is returned.
	GRPCAfterHook func(method string, req proto.Message)

	mu         sync.Mutex
	svc        *service.OrdaService
	mgrs       *managers.Managers
	instances  int
	svcs       []*service.OrdaService // all instances (svcs[0] == svc)
	mgrsAll    []*managers.Managers
	remotes    []*RemoteInstance // server instances running in child processes
	nRemotes   int
	rr         uint32
	closed     bool
	grpcSrv    *grpc.Server
	grpcAddr   string
	rest       http.Handler
	restCancel func()
	cancels    map[int]gocontext.CancelFunc
	cancelSeq  int

	inFlight int32
	timedOut int32
	restarts int32
}

var envSeq int32

// New starts fakemongo and fakemqtt and builds the orda managers and service on top of them.
func New(opts Options) (*Env, error) {
	mg, err := fakemongo.Start()
	if err != nil {
		return nil, err
	}
	br, err := fakemqtt.Start()
	if err != nil {
		mg.Close()
		return nil, err
	}
	e := &Env{Mongo: mg, MQTT: br, DBName: opts.DBName, cancels: make(map[int]gocontext.CancelFunc), instances: opts.Instances, nRemotes: opts.RemoteInstances}
	if e.instances < 1 {
		e.instances = 1
	}
	if opts.Redis || e.instances > 1 || e.nRemotes > 0 {
		rd, err := fakeredis.Start()
		if err != nil {
			br.Close()
			mg.Close()
			return nil, err
		}
		e.Redis = rd
	}
	if e.DBName == "" {
		e.DBName = fmt.Sprintf("orda_%d_%d", os.Getpid(), atomic.AddInt32(&envSeq, 1))
	}
	if err := e.buildService(); err != nil {
		br.Close()
		mg.Close()
		if e.Redis != nil {
			e.Redis.Close()
		}
		return nil, err
	}
	for i := 0; i < e.nRemotes; i++ {
		r, err := startRemoteInstance(e)
		if err != nil {
			e.Close()
			return nil, err
		}
		e.mu.Lock()
		e.remotes = append(e.remotes, r)
		e.mu.Unlock()
	}
	return e, nil
}

func serverContext(goCtx gocontext.Context) iface.OrdaContext {
	return context.NewOrdaContext(goCtx, constants.TagServer)
}

func (e *Env) buildService() error {
	var svcs []*service.OrdaService
	var all []*managers.Managers
	for i := 0; i < e.instances; i++ {
		mgrs, err := e.buildManagers()
		if err != nil {
			for _, m := range all {
				closeManagers(m)
			}
			return err
		}
		all = append(all, mgrs)
		svcs = append(svcs, service.NewOrdaService(mgrs))
	}
	e.mu.Lock()
	e.mgrs, e.svc = all[0], svcs[0]
	e.Managers, e.Svc = all[0], svcs[0]
	e.svcs, e.mgrsAll = svcs, all
	e.mu.Unlock()
	return nil
}

func (e *Env) buildManagers() (*managers.Managers, error) {
	ctx := serverContext(gocontext.Background())
	mongo, oerr := mongodb.New(ctx, &mongodb.Config{
		Host:     e.Mongo.Addr(),
		OrdaDB:   e.DBName,
		User:     "u",
		Password: "p",
		Options:  MongoURIOptions,
	})
	if oerr != nil {
		return nil, fmt.Errorf("cluster: mongodb.New: %v", oerr)
	}
	notifier, oerr := notification.NewNotifier(ctx, e.MQTT.Addr())
	if oerr != nil {
		closeMongo(mongo)
		return nil, fmt.Errorf("cluster: notification.NewNotifier: %v", oerr)
	}
	var rconf *redis.Config
	if e.Redis != nil {
		rconf = &redis.Config{Addrs: []string{e.Redis.Addr()}}
	}
	rds, oerr := redis.New(ctx, rconf)
	if oerr != nil {
		closeMongo(mongo)
		disconnectNotifier(notifier)
		return nil, fmt.Errorf("cluster: redis.New: %v", oerr)
	}
	return &managers.Managers{Mongo: mongo, Notifier: notifier, Redis: rds}, nil
}

func closeMongo(m *mongodb.RepositoryMongo) {
	if m == nil {
		return
	}
	goCtx, cancel := gocontext.WithTimeout(gocontext.Background(), 2*time.Second)
	defer cancel()
	_ = m.Close(serverContext(goCtx))
}

// disconnectNotifier closes the paho client inside the Notifier. The Notifier has no Close method
// and keeps the client in an unexported field, so it is reached through reflection.
func disconnectNotifier(n *notification.Notifier) {
	if n == nil {
		return
	}
	defer func() { _ = recover() }()
	f := reflect.ValueOf(n).Elem().FieldByName("mqttClient")
	if !f.IsValid() {
		return
	}
	v := reflect.NewAt(f.Type(), unsafe.Pointer(f.UnsafeAddr())).Elem().Interface()
	if c, ok := v.(mqtt.Client); ok && c != nil {
		c.Disconnect(0)
	}
}

func closeManagers(m *managers.Managers) {
	if m == nil {
		return
	}
	disconnectNotifier(m.Notifier)
	if m.Redis != nil {
		_ = m.Redis.Close()
	}
	closeMongo(m.Mongo)
}

// current returns the server instance that handles the next request: the only one, or the
// instances in turn.
func (e *Env) current() (model.OrdaServiceServer, *managers.Managers) {
	e.mu.Lock()
	defer e.mu.Unlock()
	n := len(e.svcs) + len(e.remotes)
	if n > 1 {
		i := int(e.rr) % n
		e.rr++
		if i < len(e.svcs) {
			return e.svcs[i], e.mgrsAll[i]
		}
		// a server instance in another process: the harness' own look into the store goes through
		// the first in-process instance's managers
		return e.remotes[i-len(e.svcs)], e.mgrsAll[0]
	}
	return e.svc, e.mgrs
}

// Instances returns the number of server instances (in this process and in child processes).
func (e *Env) Instances() int { return e.instances + e.nRemotes }

// RestartService simulates a restart of the server process: the managers and the service are thrown
// away (MongoDB client and MQTT client disconnected) and fresh ones are built against the same
// fakemongo data and the same broker. A pending fakemongo.StopAfter is lifted (Resume).
// What a real restart would also reset but this cannot: the process-global lock table in
// server/utils (a lock left locked by a crashed handler stays locked), and goroutines of the old
// service that are still blocked.
func (e *Env) RestartService() error {
	e.Mongo.Resume()
	e.mu.Lock()
	olds := e.mgrsAll
	e.mu.Unlock()
	for _, old := range olds {
		closeManagers(old)
	}
	atomic.AddInt32(&e.restarts, 1)
	return e.buildService()
}

// Close shuts everything down: the gRPC server, the MQTT and MongoDB clients of the server, and
// both fakes. Real clients have to be closed by their owner before.
func (e *Env) Close() {
	e.mu.Lock()
	if e.closed {
		e.mu.Unlock()
		return
	}
	e.closed = true
	gs := e.grpcSrv
	if e.restCancel != nil {
		e.restCancel() // closes the gateway's connection to the gRPC listener
	}
	cancels := e.cancels
	e.cancels = map[int]gocontext.CancelFunc{}
	mgrs := e.mgrsAll
	remotes := e.remotes
	e.mu.Unlock()

	for _, r := range remotes {
		r.stop()
	}
	if gs != nil {
		gs.Stop()
	}
	for _, cancel := range cancels {
		cancel()
	}
	for _, m := range mgrs {
		closeManagers(m)
	}
	e.MQTT.Close()
	e.Mongo.Close()
	if e.Redis != nil {
		e.Redis.Close()
	}
}

// InFlight returns the number of service calls (through the helpers or the gRPC proxy) that have
// been started and have not returned yet. Calls that timed out keep counting until they return.
func (e *Env) InFlight() int { return int(atomic.LoadInt32(&e.inFlight)) }

// TimedOutCalls returns how many helper calls were abandoned because the service did not answer.
func (e *Env) TimedOutCalls() int { return int(atomic.LoadInt32(&e.timedOut)) }

// ---- request helpers --------------------------------------------------------------------------

func roundTrip[M proto.Message](m M) (M, error) {
	var zero M
	if reflect.ValueOf(m).IsNil() {
		return zero, nil
	}
	b, err := proto.Marshal(m)
	if err != nil {
		return zero, err
	}
	out := m.ProtoReflect().New().Interface().(M)
	if err := proto.Unmarshal(b, out); err != nil {
		return zero, err
	}
	return out, nil
}

type callResult[R any] struct {
	resp R
	err  error
}

// call mimics what gRPC does around a unary handler: the request is a private copy, the handler
// gets a per-call context that is cancelled as soon as the handler returns, and the response is
// serialised. A handler that does not return within d is abandoned (its context stays alive until Close).
func call[Q, R proto.Message](e *Env, d time.Duration, req Q, fn func(model.OrdaServiceServer, gocontext.Context, Q) (R, error)) (R, error, bool) {
	return callWith(e, gocontext.Background(), d, req, fn)
}

// callWith is call with the per-call context derived from parent: cancelling parent is the caller
// giving up on the request (deadline, closed connection) while the handler is still at work.
func callWith[Q, R proto.Message](e *Env, parent gocontext.Context, d time.Duration, req Q, fn func(model.OrdaServiceServer, gocontext.Context, Q) (R, error)) (R, error, bool) {
	var zero R
	in, err := roundTrip(req)
	if err != nil {
		return zero, fmt.Errorf("cluster: request does not survive protobuf: %w", err), false
	}
	svc, _ := e.current()
	ctx, cancel := gocontext.WithCancel(parent)
	e.mu.Lock()
	e.cancelSeq++
	id := e.cancelSeq
	e.cancels[id] = cancel
	e.mu.Unlock()

	ch := make(chan callResult[R], 1)
	atomic.AddInt32(&e.inFlight, 1)
	go func() {
		var res callResult[R]
		defer func() {
			if r := recover(); r != nil {
				buf := make([]byte, 16<<10)
				buf = buf[:runtime.Stack(buf, false)]
				res = callResult[R]{err: &PanicError{Value: r, Stack: string(buf)}}
			}
			cancel() // gRPC cancels the handler's context when the handler returns
			e.mu.Lock()
			delete(e.cancels, id)
			e.mu.Unlock()
			atomic.AddInt32(&e.inFlight, -1)
			ch <- res
		}()
		resp, err := fn(svc, ctx, in)
		res = callResult[R]{resp: resp, err: err}
	}()

	timer := time.NewTimer(d)
	defer timer.Stop()
	select {
	case res := <-ch:
		if res.err != nil {
			return zero, res.err, false
		}
		out, err := roundTrip(res.resp)
		if err != nil {
			return zero, fmt.Errorf("cluster: response does not survive protobuf: %w", err), false
		}
		return out, nil, false
	case <-timer.C:
		atomic.AddInt32(&e.timedOut, 1)
		return zero, nil, true
	}
}

// CreateCollection calls the service's CreateCollection.
func (e *Env) CreateCollection(name string) error {
	_, err, timedOut := call(e, DefaultTimeout, &model.CollectionMessage{Collection: name},
		func(s model.OrdaServiceServer, ctx gocontext.Context, m *model.CollectionMessage) (*model.CollectionMessage, error) {
			return s.CreateCollection(ctx, m)
		})
	if timedOut {
		return ErrTimeout
	}
	return err
}

// ResetCollection calls the service's ResetCollection.
func (e *Env) ResetCollection(name string) error {
	_, err, timedOut := call(e, DefaultTimeout, &model.CollectionMessage{Collection: name},
		func(s model.OrdaServiceServer, ctx gocontext.Context, m *model.CollectionMessage) (*model.CollectionMessage, error) {
			return s.ResetCollection(ctx, m)
		})
	if timedOut {
		return ErrTimeout
	}
	return err
}

// ProcessClient calls the service's ProcessClient. The third result reports a timeout.
func (e *Env) ProcessClient(msg *model.ClientMessage, d time.Duration) (*model.ClientMessage, error, bool) {
	return call(e, d, msg, func(s model.OrdaServiceServer, ctx gocontext.Context, m *model.ClientMessage) (*model.ClientMessage, error) {
		return s.ProcessClient(ctx, m)
	})
}

// ProcessPushPull calls the service's ProcessPushPull. The third result reports a timeout.
func (e *Env) ProcessPushPull(msg *model.PushPullMessage, d time.Duration) (*model.PushPullMessage, error, bool) {
	return call(e, d, msg, func(s model.OrdaServiceServer, ctx gocontext.Context, m *model.PushPullMessage) (*model.PushPullMessage, error) {
		return s.ProcessPushPull(ctx, m)
	})
}

// ProcessPushPullCtx is ProcessPushPull with a request context the caller can cancel while the
// handler is running (what the handler sees when its client goes away or its deadline passes).
func (e *Env) ProcessPushPullCtx(parent gocontext.Context, msg *model.PushPullMessage, d time.Duration) (*model.PushPullMessage, error, bool) {
	return callWith(e, parent, d, msg, func(s model.OrdaServiceServer, ctx gocontext.Context, m *model.PushPullMessage) (*model.PushPullMessage, error) {
		return s.ProcessPushPull(ctx, m)
	})
}

// PatchDocumentCtx is PatchDocument with a request context the caller can cancel while the handler is running.
func (e *Env) PatchDocumentCtx(parent gocontext.Context, msg *model.PatchMessage, d time.Duration) (*model.PatchMessage, error, bool) {
	return callWith(e, parent, d, msg, func(s model.OrdaServiceServer, ctx gocontext.Context, m *model.PatchMessage) (*model.PatchMessage, error) {
		return s.PatchDocument(ctx, m)
	})
}

// PatchDocument calls the service's PatchDocument. The third result reports a timeout.
func (e *Env) PatchDocument(msg *model.PatchMessage, d time.Duration) (*model.PatchMessage, error, bool) {
	return call(e, d, msg, func(s model.OrdaServiceServer, ctx gocontext.Context, m *model.PatchMessage) (*model.PatchMessage, error) {
		return s.PatchDocument(ctx, m)
	})
}

// ---- background work --------------------------------------------------------------------------

var backgroundMarkers = []string{
	"PushPullHandler).finalize.func",
	"snapshot.(*Manager).UpdateSnapshot",
	"NotifyAfterPushPull",
}

// BackgroundBusy reports whether any goroutine of the process is running the server's
// post-response work (notification + snapshot update spawned by finalize).
func BackgroundBusy() bool {
	buf := make([]byte, 256<<10)
	for {
		n := runtime.Stack(buf, true)
		if n < len(buf) {
			buf = buf[:n]
			break
		}
		buf = make([]byte, 2*len(buf))
	}
	s := string(buf)
	for _, m := range backgroundMarkers {
		if strings.Contains(s, m) {
			return true
		}
	}
	return false
}

// WaitBackground waits until no goroutine is executing the server's post-response work.
// It looks at all goroutines of the process, i.e. at all Envs. It returns false on timeout.
func (e *Env) WaitBackground(timeout time.Duration) bool {
	deadline := time.Now().Add(timeout)
	pause := 50 * time.Microsecond
	for {
		if !BackgroundBusy() && !e.remotesBusy() {
			return true
		}
		if time.Now().After(deadline) {
			return false
		}
		time.Sleep(pause)
		if pause < time.Millisecond {
			pause *= 2
		}
	}
}
