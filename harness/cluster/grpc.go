package cluster

import (
	gocontext "context"
	"net"
	"sync/atomic"

	"github.com/orda-io/orda/client/pkg/model"
	"github.com/orda-io/orda/client/pkg/orda"
	"google.golang.org/grpc"
	"google.golang.org/grpc/codes"
	"google.golang.org/grpc/status"
	"google.golang.org/protobuf/proto"
)

// proxy is the OrdaServiceServer registered with the gRPC server. It forwards to the Env's current
// service (so RestartService is transparent to connected clients) and is where message faults for
// real clients are injected.
type proxy struct {
	env *Env
}

var _ model.OrdaServiceServer = (*proxy)(nil)

// SetGRPCHook replaces GRPCHook under the Env's lock (safe while calls are in flight).
func (e *Env) SetGRPCHook(h func(method string, req proto.Message) (dropResponse bool)) {
	e.mu.Lock()
	e.GRPCHook = h
	e.mu.Unlock()
}

// SetGRPCAfterHook installs a function that runs after the service handled a request and before the
// response is returned to the caller (it may block: a response that is slow on its way back).
func (e *Env) SetGRPCAfterHook(h func(method string, req proto.Message)) {
	e.mu.Lock()
	e.GRPCAfterHook = h
	e.mu.Unlock()
}

// SetGRPCRequestHook replaces GRPCRequestHook under the Env's lock.
func (e *Env) SetGRPCRequestHook(h func(method string, req proto.Message) (dropRequest bool)) {
	e.mu.Lock()
	e.GRPCRequestHook = h
	e.mu.Unlock()
}

func proxied[Q, R proto.Message](p *proxy, method string, ctx gocontext.Context, in Q,
	fn func(model.OrdaServiceServer, gocontext.Context, Q) (R, error)) (R, error) {
	var zero R
	e := p.env
	atomic.AddInt32(&e.inFlight, 1)
	defer atomic.AddInt32(&e.inFlight, -1)
	e.mu.Lock()
	reqHook, respHook := e.GRPCRequestHook, e.GRPCHook
	e.mu.Unlock()
	svc, _ := e.current()
	if reqHook != nil && reqHook(method, proto.Clone(in)) {
		return zero, status.Error(codes.Unavailable, "request dropped (injected)")
	}
	drop := respHook != nil && respHook(method, proto.Clone(in))
	out, err := fn(svc, ctx, in)
	e.mu.Lock()
	after := e.GRPCAfterHook
	e.mu.Unlock()
	if after != nil {
		// the server has handled the request; the response is still on its way
		after(method, proto.Clone(in))
	}
	if drop {
		return zero, status.Error(codes.Unavailable, "response dropped (injected)")
	}
	return out, err
}

func (p *proxy) ProcessPushPull(ctx gocontext.Context, in *model.PushPullMessage) (*model.PushPullMessage, error) {
	return proxied(p, "ProcessPushPull", ctx, in, func(s model.OrdaServiceServer, c gocontext.Context, m *model.PushPullMessage) (*model.PushPullMessage, error) {
		return s.ProcessPushPull(c, m)
	})
}

func (p *proxy) ProcessClient(ctx gocontext.Context, in *model.ClientMessage) (*model.ClientMessage, error) {
	return proxied(p, "ProcessClient", ctx, in, func(s model.OrdaServiceServer, c gocontext.Context, m *model.ClientMessage) (*model.ClientMessage, error) {
		return s.ProcessClient(c, m)
	})
}

func (p *proxy) PatchDocument(ctx gocontext.Context, in *model.PatchMessage) (*model.PatchMessage, error) {
	return proxied(p, "PatchDocument", ctx, in, func(s model.OrdaServiceServer, c gocontext.Context, m *model.PatchMessage) (*model.PatchMessage, error) {
		return s.PatchDocument(c, m)
	})
}

func (p *proxy) CreateCollection(ctx gocontext.Context, in *model.CollectionMessage) (*model.CollectionMessage, error) {
	return proxied(p, "CreateCollection", ctx, in, func(s model.OrdaServiceServer, c gocontext.Context, m *model.CollectionMessage) (*model.CollectionMessage, error) {
		return s.CreateCollection(c, m)
	})
}

func (p *proxy) ResetCollection(ctx gocontext.Context, in *model.CollectionMessage) (*model.CollectionMessage, error) {
	return proxied(p, "ResetCollection", ctx, in, func(s model.OrdaServiceServer, c gocontext.Context, m *model.CollectionMessage) (*model.CollectionMessage, error) {
		return s.ResetCollection(c, m)
	})
}

func (p *proxy) TestEncodingOperation(ctx gocontext.Context, in *model.EncodingMessage) (*model.EncodingMessage, error) {
	return proxied(p, "TestEncodingOperation", ctx, in, func(s model.OrdaServiceServer, c gocontext.Context, m *model.EncodingMessage) (*model.EncodingMessage, error) {
		return s.TestEncodingOperation(c, m)
	})
}

// StartGRPC serves the orda gRPC API on 127.0.0.1:0 through the fault proxy and returns the
// address ("127.0.0.1:port"). Calling it again returns the same address.
func (e *Env) StartGRPC() (addr string, err error) {
	e.mu.Lock()
	defer e.mu.Unlock()
	if e.grpcSrv != nil {
		return e.grpcAddr, nil
	}
	lis, err := net.Listen("tcp", "127.0.0.1:0")
	if err != nil {
		return "", err
	}
	gs := grpc.NewServer()
	model.RegisterOrdaServiceServer(gs, &proxy{env: e})
	e.grpcSrv = gs
	e.grpcAddr = lis.Addr().String()
	go func() { _ = gs.Serve(lis) }()
	return e.grpcAddr, nil
}

// NewRealClient creates a real orda client configured for this Env's gRPC endpoint (started on
// demand) and MQTT broker. The caller has to Connect it and to Close it (exactly once: closing a
// REALTIME orda client twice blocks forever in its notification manager).
func (e *Env) NewRealClient(collection, alias string, syncType model.SyncType) (orda.Client, error) {
	addr, err := e.StartGRPC()
	if err != nil {
		return nil, err
	}
	c := orda.NewClient(&orda.ClientConfig{
		ServerAddr:       addr,
		NotificationAddr: e.MQTT.Addr(),
		CollectionName:   collection,
		SyncType:         syncType,
	}, alias)
	return c, nil
}
