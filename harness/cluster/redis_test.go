package cluster

import (
	"strings"
	"sync"
	"testing"
	"time"
)

// Two server instances on one database, one broker and one Redis: clients whose requests alternate
// between the instances converge, the distributed lock is taken and released once per pack, and
// concurrent pushes of one datatype through different instances are serialised by it.
func TestTwoInstancesWithRedisLock(t *testing.T) {
	env, err := New(Options{Redis: true, Instances: 2})
	if err != nil {
		t.Fatal(err)
	}
	defer env.Close()
	if err := env.CreateCollection("dummy"); err != nil {
		t.Fatal(err)
	}
	if err := env.CreateCollection("col"); err != nil {
		t.Fatal(err)
	}
	key := uniqueKey(t)
	a, err := env.NewPackClient("col", "alice")
	if err != nil {
		t.Fatal(err)
	}
	b, err := env.NewPackClient("col", "bob")
	if err != nil {
		t.Fatal(err)
	}
	ca := a.CreateCounter(key, nil)
	_, _ = ca.Increase()
	mustSync(t, a)
	cb := b.SubscribeCounter(key, nil)
	mustSync(t, b)
	if cb.Get() != 1 {
		t.Fatalf("B sees %d", cb.Get())
	}
	env.WaitBackground(deadline)
	env.Redis.ResetLog()
	// concurrent pushes
	for round := 0; round < 5; round++ {
		_, _ = ca.IncreaseBy(10)
		_, _ = cb.IncreaseBy(100)
		var wg sync.WaitGroup
		for _, p := range []*PackClient{a, b} {
			wg.Add(1)
			go func(p *PackClient) {
				defer wg.Done()
				resp, rpcErr, timedOut, applyErr := p.Sync(deadline)
				if rpcErr != nil || timedOut || applyErr != nil {
					t.Errorf("sync: %v %v %v", rpcErr, timedOut, applyErr)
					return
				}
				for _, pack := range resp.PushPullPacks {
					if pack.GetPushPullPackOption().HasErrorBit() {
						t.Errorf("error pack %s", pack.ToString(true))
					}
				}
			}(p)
		}
		wg.Wait()
	}
	mustSync(t, a)
	mustSync(t, b)
	if ca.Get() != 551 || cb.Get() != 551 {
		t.Fatalf("A=%d B=%d want 551", ca.Get(), cb.Get())
	}
	env.WaitBackground(deadline)
	acquired, released := 0, 0
	for _, c := range env.Redis.CommandLog() {
		switch {
		case c.Name == "SET" && c.Result == "OK" && strings.Contains(c.Args[0], "PP:"):
			acquired++
		case strings.HasPrefix(c.Name, "EVAL") && c.Result == "1" && strings.Contains(c.Args[2], "PP:"):
			released++
		}
	}
	if acquired != 12 || released != 12 {
		t.Fatalf("push-pull lock acquired %d times, released %d times, want 12 each\n%v", acquired, released, env.Redis.CommandLog())
	}
	if k := env.Redis.Keys(); len(k) != 0 {
		t.Fatalf("locks left in redis: %v", k)
	}
	if u := env.Redis.UnknownCommands(); len(u) != 0 {
		t.Fatalf("orda used Redis features the fake does not implement: %v", u)
	}
	if u := env.Mongo.UnknownCommands(); len(u) != 0 {
		t.Fatalf("unknown mongo commands: %v", u)
	}
}

// One server instance in this process and one in a child process, on one database, broker and Redis.
func TestRemoteInstance(t *testing.T) {
	env, err := New(Options{Redis: true, RemoteInstances: 1})
	if err != nil {
		t.Fatal(err)
	}
	defer env.Close()
	if err := env.CreateCollection("dummy"); err != nil {
		t.Fatal(err)
	}
	if err := env.CreateCollection("col"); err != nil { // handled by the child
		t.Fatal(err)
	}
	key := uniqueKey(t)
	a, err := env.NewPackClient("col", "alice")
	if err != nil {
		t.Fatal(err)
	}
	b, err := env.NewPackClient("col", "bob")
	if err != nil {
		t.Fatal(err)
	}
	ca := a.CreateCounter(key, nil)
	_, _ = ca.Increase()
	mustSync(t, a)
	cb := b.SubscribeCounter(key, nil)
	mustSync(t, b)
	for round := 0; round < 6; round++ {
		_, _ = ca.IncreaseBy(10)
		_, _ = cb.IncreaseBy(100)
		var wg sync.WaitGroup
		for _, p := range []*PackClient{a, b} {
			wg.Add(1)
			go func(p *PackClient) {
				defer wg.Done()
				resp, rpcErr, timedOut, applyErr := p.Sync(deadline)
				if rpcErr != nil || timedOut || applyErr != nil {
					t.Errorf("sync: %v %v %v", rpcErr, timedOut, applyErr)
					return
				}
				for _, pack := range resp.PushPullPacks {
					if pack.GetPushPullPackOption().HasErrorBit() {
						t.Errorf("error pack %s", pack.ToString(true))
					}
				}
			}(p)
		}
		wg.Wait()
	}
	mustSync(t, a)
	mustSync(t, b)
	if ca.Get() != 661 || cb.Get() != 661 {
		t.Fatalf("A=%d B=%d want 661", ca.Get(), cb.Get())
	}
	if !env.WaitBackground(deadline) {
		t.Fatalf("background work did not finish")
	}
	// both processes published notifications and took the Redis lock
	conns := map[int]bool{}
	for _, c := range env.Redis.CommandLog() {
		conns[c.ConnID] = true
	}
	if len(conns) < 2 {
		t.Fatalf("only %d Redis connection(s) were used: the child process did not lock", len(conns))
	}
	if k := env.Redis.Keys(); len(k) != 0 {
		t.Fatalf("locks left in redis: %v", k)
	}
	// QoS 0: a publish can reach the broker a little after the publisher has moved on
	n := 0
	for dl := time.Now().Add(3 * time.Second); time.Now().Before(dl); time.Sleep(time.Millisecond) {
		if n = len(env.MQTT.Publishes()); n >= 13 {
			break
		}
	}
	if n != 13 {
		t.Fatalf("publishes: %d want 13 (one per pushing sync)", n)
	}
}
