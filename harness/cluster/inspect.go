package cluster

import (
	gocontext "context"
	"fmt"

	"github.com/orda-io/orda/client/pkg/iface"
	"github.com/orda-io/orda/server/snapshot"
)

// LatestDatatype rebuilds a datatype the way the server does: latest stored snapshot plus the
// operations stored after it (snapshot.Manager.GetLatestDatatype). It returns the instance and the
// server sequence number it reflects.
func LatestDatatype(e *Env, collection, key string) (iface.Datatype, uint64, error) {
	_, mgrs := e.current()
	ctx := serverContext(gocontext.Background())
	col, err := mgrs.Mongo.GetCollection(ctx, collection)
	if err != nil {
		return nil, 0, err
	}
	if col == nil {
		return nil, 0, fmt.Errorf("no collection %q", collection)
	}
	dd, err := mgrs.Mongo.GetDatatypeByKey(ctx, col.Num, key)
	if err != nil {
		return nil, 0, err
	}
	if dd == nil {
		return nil, 0, fmt.Errorf("no datatype %q in collection %q", key, collection)
	}
	dt, sseq, oerr := snapshot.NewManager(ctx, mgrs, dd, col).GetLatestDatatype()
	if oerr != nil {
		return nil, 0, oerr
	}
	return dt, sseq, nil
}
