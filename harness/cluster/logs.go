package cluster

import (
	"io"
	"os"
	"sync"

	"github.com/orda-io/orda/client/pkg/log"
	"github.com/sirupsen/logrus"
	"google.golang.org/grpc/grpclog"
)

var (
	silenceOnce    sync.Once
	originalStderr *os.File
)

// SilenceLogs mutes orda's logging unless the environment variable VERIF_VERBOSE is set.
//
// orda creates a new logrus logger bound to the then-current os.Stderr for every context, and
// offers no global level knob, so the only way to silence them is to point the os.Stderr variable at
// /dev/null before they are created. File descriptor 2 itself is left alone, so Go runtime panics
// and race reports still reach the real stderr. The package-level log.Logger (created at init time
// with the real stderr) and grpc's logger are redirected explicitly.
//
// Call it once, before any orda object exists and before other goroutines run (for example at the
// top of TestMain): assigning os.Stderr is not synchronised with concurrent readers.
// The message formatting cost remains (logrus still renders every entry).
func SilenceLogs() {
	silenceOnce.Do(func() {
		if os.Getenv("VERIF_VERBOSE") != "" {
			return
		}
		devnull, err := os.OpenFile(os.DevNull, os.O_WRONLY, 0)
		if err != nil {
			return
		}
		originalStderr = os.Stderr
		os.Stderr = devnull
		log.Logger.Logger.SetOutput(io.Discard)
		log.Logger.Logger.SetLevel(logrus.PanicLevel)
		grpclog.SetLoggerV2(grpclog.NewLoggerV2(io.Discard, io.Discard, io.Discard))
	})
}

// RealStderr returns the process's original standard error stream (for harness diagnostics that
// must stay visible after SilenceLogs).
func RealStderr() *os.File {
	if originalStderr != nil {
		return originalStderr
	}
	return os.Stderr
}
