package sim

import (
	"bytes"
	"encoding/base64"
	"encoding/json"
	"fmt"
	"math"
	"math/big"
	"reflect"
	"sort"
	"strconv"
	"time"
)

// Val is a serialisable description of a Go value handed to the orda API. It can be
// materialised as the Go value (Go) and as the JSON-ish value orda is expected to hold (JSON).
type Val struct {
	T string  `json:"t"`           // type tag, see Go()
	B bool    `json:"b,omitempty"` // bool
	S string  `json:"s,omitempty"` // string
	F float64 `json:"f,omitempty"` // floats
	I int64   `json:"i,omitempty"` // signed ints
	U uint64  `json:"u,omitempty"` // unsigned ints
	M []KV    `json:"m,omitempty"` // map / struct members (sorted by key)
	L []Val   `json:"l,omitempty"` // slice elements
}

// KV is one member of a map value.
type KV struct {
	K string `json:"k"`
	V Val    `json:"v"`
}

// Struct types used by the "struct" tags.
type TaggedStruct struct {
	Name  string                 `json:"name"`
	Count int                    `json:"count"`
	Inner map[string]interface{} `json:"inner,omitempty"`
}

// StructWithTime contains a field whose type has its own JSON encoding.
type StructWithTime struct {
	At   time.Time `json:"at"`
	Name string    `json:"name"`
}

// PlainStruct has no json tags.
type PlainStruct struct {
	Alpha string
	Beta  float64
	Gamma []interface{}
}

// Convenience constructors.
func S(s string) Val   { return Val{T: "string", S: s} }
func F(f float64) Val  { return Val{T: "float64", F: f} }
func I(i int64) Val    { return Val{T: "int", I: i} }
func B(b bool) Val     { return Val{T: "bool", B: b} }
func Nil() Val         { return Val{T: "nil"} }
func Arr(l ...Val) Val { return Val{T: "slice", L: append([]Val{}, l...)} }
func Obj(kv ...KV) Val {
	m := append([]KV{}, kv...)
	sort.SliceStable(m, func(i, j int) bool { return m[i].K < m[j].K })
	return Val{T: "map", M: m}
}

// Go materialises the Go value that is passed to the API.
func (v Val) Go() interface{} {
	switch v.T {
	case "nil":
		return nil
	case "bool":
		return v.B
	case "*bool":
		b := v.B
		return &b
	case "string":
		return v.S
	case "*string":
		s := v.S
		return &s
	case "float64":
		return v.F
	case "float32":
		return float32(v.F)
	case "*float64":
		f := v.F
		return &f
	case "*float32":
		f := float32(v.F)
		return &f
	case "int":
		return int(v.I)
	case "int8":
		return int8(v.I)
	case "int16":
		return int16(v.I)
	case "int32":
		return int32(v.I)
	case "int64":
		return v.I
	case "*int":
		x := int(v.I)
		return &x
	case "*int8":
		x := int8(v.I)
		return &x
	case "*int16":
		x := int16(v.I)
		return &x
	case "*int32":
		x := int32(v.I)
		return &x
	case "*int64":
		x := v.I
		return &x
	case "uint":
		return uint(v.U)
	case "uint8":
		return uint8(v.U)
	case "uint16":
		return uint16(v.U)
	case "uint32":
		return uint32(v.U)
	case "uint64":
		return v.U
	case "*uint":
		x := uint(v.U)
		return &x
	case "*uint8":
		x := uint8(v.U)
		return &x
	case "*uint16":
		x := uint16(v.U)
		return &x
	case "*uint32":
		x := uint32(v.U)
		return &x
	case "*uint64":
		x := v.U
		return &x
	case "map":
		m := make(map[string]interface{}, len(v.M))
		for _, kv := range v.M {
			m[kv.K] = kv.V.Go()
		}
		return m
	case "slice":
		l := make([]interface{}, 0, len(v.L))
		for _, e := range v.L {
			l = append(l, e.Go())
		}
		return l
	case "nilslice":
		var l []interface{}
		return l
	case "strslice":
		l := make([]string, 0, len(v.L))
		for _, e := range v.L {
			l = append(l, e.S)
		}
		return l
	case "mapint":
		m := make(map[string]int, len(v.M))
		for _, kv := range v.M {
			m[kv.K] = int(kv.V.I)
		}
		return m
	case "tagged":
		return TaggedStruct{Name: v.S, Count: int(v.I), Inner: Val{T: "map", M: v.M}.Go().(map[string]interface{})}
	case "*tagged":
		return &TaggedStruct{Name: v.S, Count: int(v.I), Inner: Val{T: "map", M: v.M}.Go().(map[string]interface{})}
	case "plain":
		return PlainStruct{Alpha: v.S, Beta: v.F, Gamma: Val{T: "slice", L: v.L}.Go().([]interface{})}
	case "nilptr":
		var p *int
		return p
	case "nilmap":
		var m map[string]interface{}
		return m
	case "bytes":
		return []byte(v.S)
	case "f64array":
		var a [2]float64
		for i := 0; i < 2 && i < len(v.L); i++ {
			a[i] = v.L[i].F
		}
		return a
	case "bytearray":
		return [3]byte{byte(v.U), byte(v.U >> 8), byte(v.U >> 16)}
	case "time":
		return time.Unix(v.I, 0).UTC()
	case "*time":
		t := time.Unix(v.I, 0).UTC()
		return &t
	case "intkeymap":
		return map[int]string{1: v.S, 20: "b"}
	case "rawjson":
		return json.RawMessage(`{"r":[1,"x"],"s":"` + strconv.FormatInt(v.I, 10) + `"}`)
	case "bigint":
		return big.NewInt(v.I)
	case "timestruct":
		return StructWithTime{At: time.Unix(v.I, 0).UTC(), Name: v.S}
	// values that have no JSON form at all
	case "nan":
		return math.NaN()
	case "+inf":
		return math.Inf(1)
	case "-inf":
		return math.Inf(-1)
	case "f32nan":
		return float32(math.NaN())
	case "*nan":
		f := math.NaN()
		return &f
	case "chan":
		return make(chan int)
	case "func":
		return func() {}
	case "complex":
		return complex(1, 2)
	}
	panic("sim.Val: unknown tag " + v.T)
}

// JSON returns the JSON form (float64 numbers, map[string]interface{}, []interface{}) that the
// value stands for: every number converted to float64 (a float32 becomes the float64 with the same
// shortest decimal form, which is what its JSON encoding carries), pointers dereferenced, structs by their json tags.
func (v Val) JSON() interface{} {
	return toJSON(v.Go())
}

func toJSON(x interface{}) interface{} {
	switch t := x.(type) {
	case nil:
		return nil
	case bool:
		return t
	case *bool:
		return *t
	case string:
		return t
	case *string:
		return *t
	case float64:
		return t
	case *float64:
		return *t
	case float32:
		return f32(t)
	case *float32:
		return f32(*t)
	case int:
		return float64(t)
	case int8:
		return float64(t)
	case int16:
		return float64(t)
	case int32:
		return float64(t)
	case int64:
		return float64(t)
	case *int:
		if t == nil {
			return nil
		}
		return float64(*t)
	case *int8:
		return float64(*t)
	case *int16:
		return float64(*t)
	case *int32:
		return float64(*t)
	case *int64:
		return float64(*t)
	case uint:
		return float64(t)
	case uint8:
		return float64(t)
	case uint16:
		return float64(t)
	case uint32:
		return float64(t)
	case uint64:
		return float64(t)
	case *uint:
		return float64(*t)
	case *uint8:
		return float64(*t)
	case *uint16:
		return float64(*t)
	case *uint32:
		return float64(*t)
	case *uint64:
		return float64(*t)
	case map[string]interface{}:
		if t == nil {
			return nil // encoding/json: a nil map is null
		}
		m := make(map[string]interface{}, len(t))
		for k, e := range t {
			m[k] = toJSON(e)
		}
		return m
	case []interface{}:
		if t == nil {
			return nil
		}
		l := make([]interface{}, 0, len(t))
		for _, e := range t {
			l = append(l, toJSON(e))
		}
		return l
	case []byte:
		return base64.StdEncoding.EncodeToString(t) // encoding/json: a byte slice is a base64 string
	case [2]float64:
		return []interface{}{t[0], t[1]}
	case [3]byte:
		return []interface{}{float64(t[0]), float64(t[1]), float64(t[2])} // an array (not a slice) of bytes is an array of numbers
	case []string:
		l := make([]interface{}, 0, len(t))
		for _, e := range t {
			l = append(l, e)
		}
		return l
	case map[string]int:
		m := make(map[string]interface{}, len(t))
		for k, e := range t {
			m[k] = float64(e)
		}
		return m
	case TaggedStruct:
		m := map[string]interface{}{"name": t.Name, "count": float64(t.Count)}
		if len(t.Inner) > 0 {
			m["inner"] = toJSON(t.Inner)
		}
		return m
	case *TaggedStruct:
		return toJSON(*t)
	case PlainStruct:
		return map[string]interface{}{"Alpha": t.Alpha, "Beta": t.Beta, "Gamma": toJSON(t.Gamma)}
	}
	// every other type (types with their own JSON encoding such as time.Time, big.Int, json.RawMessage; maps
	// with integer keys; structs that contain them): what encoding/json makes of it - that is what the
	// operation carries to every other replica
	b, err := json.Marshal(x)
	if err != nil {
		panic(fmt.Sprintf("sim.toJSON: unexpected %T: %v", x, err))
	}
	var out interface{}
	if err := json.Unmarshal(b, &out); err != nil {
		panic(fmt.Sprintf("sim.toJSON: %T: %v", x, err))
	}
	return out
}

// IsNil tells whether the API would see a nil interface value.
func (v Val) IsNil() bool { return v.T == "nil" }

// IsNullLike tells whether the value has no JSON form other than null: nil, a nil pointer, a nil
// slice or a nil map.
func (v Val) IsNullLike() bool {
	switch v.T {
	case "nil", "nilptr", "nilslice", "nilmap":
		return true
	}
	return false
}

// Unencodable tells whether the value, or a value nested in it, has no JSON form at all (NaN, an
// infinity, a channel, a function, a complex number): encoding/json refuses it.
func (v Val) Unencodable() bool {
	switch v.T {
	case "nan", "+inf", "-inf", "f32nan", "*nan", "chan", "func", "complex":
		return true
	}
	for _, kv := range v.M {
		if kv.V.Unencodable() {
			return true
		}
	}
	for _, e := range v.L {
		if e.Unencodable() {
			return true
		}
	}
	return false
}

// IsContainer tells whether the value becomes a JSON object or array.
func (v Val) IsContainer() bool {
	switch v.T {
	case "map", "slice", "nilslice", "strslice", "mapint", "tagged", "*tagged", "plain", "f64array", "bytearray", "intkeymap", "rawjson", "timestruct":
		return true
	}
	return false
}

// Depth is the nesting depth of the value (primitives 0).
func (v Val) Depth() int {
	d := 0
	for _, kv := range v.M {
		if x := kv.V.Depth() + 1; x > d {
			d = x
		}
	}
	for _, e := range v.L {
		if x := e.Depth() + 1; x > d {
			d = x
		}
	}
	if d == 0 && v.IsContainer() {
		return 1
	}
	return d
}

// Canon renders any Go/JSON value canonically: marshalled, re-decoded into float64-based JSON
// and marshalled again (map keys sorted by encoding/json). Unmarshalable values render as an
// error marker.
func Canon(x interface{}) string {
	b, err := json.Marshal(markJSONNumbers(x))
	if err != nil {
		return "!marshal-error:" + err.Error()
	}
	var out interface{}
	dec := json.NewDecoder(bytes.NewReader(b))
	if err := dec.Decode(&out); err != nil {
		return "!decode-error:" + err.Error()
	}
	b2, err := json.Marshal(out)
	if err != nil {
		return "!marshal-error:" + err.Error()
	}
	return string(b2)
}

// Normalize returns the float64-based JSON form of any value.
func Normalize(x interface{}) interface{} {
	x = markJSONNumbers(x)
	b, err := json.Marshal(x)
	if err != nil {
		return "!marshal-error:" + err.Error()
	}
	var out interface{}
	if err := json.Unmarshal(b, &out); err != nil {
		return "!decode-error:" + err.Error()
	}
	return out
}

// markJSONNumbers: a number that a datatype hands out as a json.Number (a decoder left in "UseNumber" mode) looks
// like a float64 in every JSON rendering; through the API it is a different value (a string type). It is made
// visible as a marker string in the generic containers (map[string]interface{}, []interface{}) the library returns.
func markJSONNumbers(x interface{}) interface{} {
	switch t := x.(type) {
	case json.Number:
		return "!json.Number(" + string(t) + ")"
	case map[string]interface{}:
		var out map[string]interface{}
		for k, v := range t {
			if nv := markJSONNumbers(v); !sameIface(nv, v) {
				if out == nil {
					out = make(map[string]interface{}, len(t))
					for k2, v2 := range t {
						out[k2] = v2
					}
				}
				out[k] = nv
			}
		}
		if out != nil {
			return out
		}
	case []interface{}:
		var out []interface{}
		for i, v := range t {
			if nv := markJSONNumbers(v); !sameIface(nv, v) {
				if out == nil {
					out = append([]interface{}{}, t...)
				}
				out[i] = nv
			}
		}
		if out != nil {
			return out
		}
	}
	return x
}

// sameIface tells whether markJSONNumbers returned its argument unchanged (only markers and rebuilt containers differ).
func sameIface(a, b interface{}) bool {
	switch a.(type) {
	case string:
		s, ok := b.(string)
		return ok && s == a.(string)
	case map[string]interface{}:
		mb, ok := b.(map[string]interface{})
		return ok && reflect.ValueOf(a).Pointer() == reflect.ValueOf(mb).Pointer()
	case []interface{}:
		sb, ok := b.([]interface{})
		return ok && len(sb) == len(a.([]interface{})) && (len(sb) == 0 || &sb[0] == &a.([]interface{})[0])
	}
	return true
}

// f32 is the float64 that the JSON encoding of a float32 carries (same shortest decimal form).
func f32(f float32) float64 {
	v, err := strconv.ParseFloat(strconv.FormatFloat(float64(f), 'g', -1, 32), 64)
	if err != nil {
		return float64(f)
	}
	return v
}

// clamped / finite are helpers for byte-decoded values (fuzzing): they bring the raw bits into
// the range of the value's type.
func (v Val) Clamped() Val {
	switch v.T {
	case "int8", "*int8":
		v.I = int64(int8(v.I))
	case "int16", "*int16":
		v.I = int64(int16(v.I))
	case "int32", "*int32":
		v.I = int64(int32(v.I))
	case "uint8", "*uint8":
		v.U = uint64(uint8(v.U))
	case "uint16", "*uint16":
		v.U = uint64(uint16(v.U))
	case "uint32", "*uint32":
		v.U = uint64(uint32(v.U))
	}
	return v
}

func (v Val) Finite() Val {
	if v.F != v.F || v.F > 3.5e38 || v.F < -3.5e38 {
		v.F = 1.25
	}
	return v
}
