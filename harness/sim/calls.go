package sim

import (
	"fmt"
	"os"
	"reflect"
	"runtime/debug"
	"sort"
	"strings"

	"github.com/orda-io/orda/client/pkg/orda"
)

// Step navigates one level into a document: by key (object) or by index (array).
type Step struct {
	K *string `json:"k,omitempty"`
	I *int    `json:"i,omitempty"`
}

// KStep / IStep build steps.
func KStep(k string) Step { return Step{K: &k} }
func IStep(i int) Step    { return Step{I: &i} }

func (s Step) String() string {
	if s.K != nil {
		return fmt.Sprintf("%q", *s.K)
	}
	return fmt.Sprintf("%d", *s.I)
}

// Call is one public API call, as data.
type Call struct {
	M    string `json:"m"`
	Path []Step `json:"path,omitempty"`
	Key  string `json:"key,omitempty"`
	Pos  int    `json:"pos,omitempty"`
	N    int    `json:"n,omitempty"`
	Vals []Val  `json:"vals,omitempty"`
	JSON string `json:"json,omitempty"`
}

func (c Call) String() string {
	var sb strings.Builder
	if len(c.Path) > 0 {
		sb.WriteString("@")
		for _, s := range c.Path {
			sb.WriteString("/" + s.String())
		}
		sb.WriteString(" ")
	}
	fmt.Fprintf(&sb, "%s(", c.M)
	fmt.Fprintf(&sb, "key=%q pos=%d n=%d", c.Key, c.Pos, c.N)
	for _, v := range c.Vals {
		fmt.Fprintf(&sb, " %s", Canon(v))
	}
	if c.JSON != "" {
		fmt.Fprintf(&sb, " json=%s", c.JSON)
	}
	sb.WriteString(")")
	return sb.String()
}

// Result of executing a call.
type Result struct {
	Ret    interface{} // normalised (float64-based JSON) return value; Documents by GetValue()
	Err    error       // error returned by the call (nil interface if none)
	Panic  interface{} // recovered panic, if any
	Stack  string      // orda frames of the panic's stack
	NavErr error       // navigation to the child document failed (call not executed)
	IsNil  bool        // the call returned a nil value / nil Document
}

func (r Result) String() string {
	switch {
	case r.Panic != nil:
		return fmt.Sprintf("PANIC(%v at %s)", r.Panic, r.Stack)
	case r.NavErr != nil:
		return fmt.Sprintf("NAVERR(%v)", r.NavErr)
	case r.Err != nil:
		return fmt.Sprintf("ERR(%v)", firstLine(r.Err.Error()))
	}
	return "OK(" + Canon(r.Ret) + ")"
}

func firstLine(s string) string {
	if i := strings.IndexByte(s, '\n'); i >= 0 {
		return s[:i]
	}
	return s
}

func goVals(vs []Val) []interface{} {
	out := make([]interface{}, 0, len(vs))
	for _, v := range vs {
		out = append(out, v.Go())
	}
	return out
}

func isNilIface(x interface{}) bool {
	if x == nil {
		return true
	}
	rv := reflect.ValueOf(x)
	switch rv.Kind() {
	case reflect.Ptr, reflect.Map, reflect.Slice, reflect.Interface, reflect.Func, reflect.Chan:
		return rv.IsNil()
	}
	return false
}

func errOf(e interface{}) error {
	if isNilIface(e) {
		return nil
	}
	return e.(error)
}

func docVal(d orda.Document) (interface{}, bool) {
	if isNilIface(d) {
		return nil, true
	}
	return Normalize(d.GetValue()), false
}

func docVals(ds []orda.Document) interface{} {
	out := make([]interface{}, 0, len(ds))
	for _, d := range ds {
		v, _ := docVal(d)
		out = append(out, v)
	}
	return out
}

// Navigate resolves a path from a root document handle by GetFromObject / GetFromArray.
func Navigate(root orda.DocumentInTx, path []Step) (doc orda.DocumentInTx, err error) {
	cur := root
	for _, s := range path {
		var next orda.Document
		var e error
		if s.K != nil {
			next, e = cur.GetFromObject(*s.K)
		} else {
			next, e = cur.GetFromArray(*s.I)
		}
		if e2 := errOf(e); e2 != nil {
			return nil, e2
		}
		if isNilIface(next) {
			return nil, fmt.Errorf("no child at %s", s)
		}
		cur = next
	}
	return cur, nil
}

// Exec runs a call against a datatype view (the datatype itself or its in-transaction view).
func Exec(kind Kind, view interface{}, c Call) (res Result) {
	defer func() {
		if p := recover(); p != nil {
			res = Result{Panic: p, Stack: ordaFrames(debug.Stack())}
		}
	}()
	// the slice handed to a variadic mutating call is overwritten as soon as the call has returned (and its
	// result has been copied): a datatype or a queued operation that kept the caller's slice would change
	// behind the library's back
	var held []interface{}
	defer func() { Poison(held) }()
	switch kind {
	case Counter:
		v := view.(orda.CounterInTx)
		switch c.M {
		case "Get":
			return Result{Ret: float64(v.Get())}
		case "Increase":
			r, e := v.Increase()
			return Result{Ret: float64(r), Err: errOf(e)}
		case "IncreaseBy":
			r, e := v.IncreaseBy(int32(c.Vals[0].I))
			return Result{Ret: float64(r), Err: errOf(e)}
		}
	case Map:
		v := view.(orda.MapInTx)
		switch c.M {
		case "Get":
			r := v.Get(c.Key)
			return Result{Ret: Normalize(r), IsNil: r == nil}
		case "Size":
			return Result{Ret: float64(v.Size())}
		case "Put":
			held = goVals(c.Vals[:1])
			r, e := v.Put(c.Key, held[0])
			return Result{Ret: Normalize(r), Err: errOf(e), IsNil: r == nil}
		case "Remove":
			r, e := v.Remove(c.Key)
			return Result{Ret: Normalize(r), Err: errOf(e), IsNil: r == nil}
		}
	case List:
		v := view.(orda.ListInTx)
		switch c.M {
		case "Size":
			return Result{Ret: float64(v.Size())}
		case "Get":
			r, e := v.Get(c.Pos)
			return Result{Ret: Normalize(r), Err: errOf(e), IsNil: r == nil}
		case "GetMany":
			r, e := v.GetMany(c.Pos, c.N)
			return Result{Ret: Normalize(r), Err: errOf(e), IsNil: r == nil}
		case "Insert":
			held = goVals(c.Vals[:1])
			r, e := v.Insert(c.Pos, held[0])
			return Result{Ret: Normalize(r), Err: errOf(e), IsNil: r == nil}
		case "InsertMany":
			held = goVals(c.Vals)
			r, e := v.InsertMany(c.Pos, held...)
			return Result{Ret: Normalize(r), Err: errOf(e), IsNil: r == nil}
		case "Update":
			held = goVals(c.Vals)
			r, e := v.Update(c.Pos, held...)
			return Result{Ret: Normalize(r), Err: errOf(e), IsNil: r == nil}
		case "Delete":
			r, e := v.Delete(c.Pos)
			return Result{Ret: Normalize(r), Err: errOf(e), IsNil: r == nil}
		case "DeleteMany":
			r, e := v.DeleteMany(c.Pos, c.N)
			return Result{Ret: Normalize(r), Err: errOf(e), IsNil: r == nil}
		}
	case Document:
		root := view.(orda.DocumentInTx)
		v, nerr := Navigate(root, c.Path)
		if nerr != nil {
			return Result{NavErr: nerr}
		}
		switch c.M {
		case "GetValue":
			return Result{Ret: Normalize(v.GetValue())}
		case "PutToObject":
			var val interface{}
			if len(c.Vals) > 0 {
				val = c.Vals[0].Go()
			}
			held = []interface{}{val}
			d, e := v.PutToObject(c.Key, val)
			r, n := docVal(d)
			return Result{Ret: r, IsNil: n, Err: errOf(e)}
		case "DeleteInObject":
			d, e := v.DeleteInObject(c.Key)
			r, n := docVal(d)
			return Result{Ret: r, IsNil: n, Err: errOf(e)}
		case "InsertToArray":
			held = goVals(c.Vals)
			d, e := v.InsertToArray(c.Pos, held...)
			r, n := docVal(d)
			return Result{Ret: r, IsNil: n, Err: errOf(e)}
		case "UpdateManyInArray":
			held = goVals(c.Vals)
			ds, e := v.UpdateManyInArray(c.Pos, held...)
			return Result{Ret: docVals(ds), IsNil: ds == nil, Err: errOf(e)}
		case "DeleteInArray":
			d, e := v.DeleteInArray(c.Pos)
			r, n := docVal(d)
			return Result{Ret: r, IsNil: n, Err: errOf(e)}
		case "DeleteManyInArray":
			ds, e := v.DeleteManyInArray(c.Pos, c.N)
			return Result{Ret: docVals(ds), IsNil: ds == nil, Err: errOf(e)}
		case "GetByPath":
			d, e := v.GetByPath(c.Key)
			r, n := docVal(d)
			return Result{Ret: r, IsNil: n, Err: errOf(e)}
		case "GetFromObject":
			d, e := v.GetFromObject(c.Key)
			r, n := docVal(d)
			return Result{Ret: r, IsNil: n, Err: errOf(e)}
		case "GetFromArray":
			d, e := v.GetFromArray(c.Pos)
			r, n := docVal(d)
			return Result{Ret: r, IsNil: n, Err: errOf(e)}
		case "GetManyFromArray":
			ds, e := v.GetManyFromArray(c.Pos, c.N)
			return Result{Ret: docVals(ds), IsNil: ds == nil, Err: errOf(e)}
		case "PatchByJSON":
			ops, e := v.PatchByJSON(c.JSON)
			return Result{Ret: float64(len(ops)), Err: errOf(e)}
		case "GetTypeOfJSON":
			return Result{Ret: float64(v.GetTypeOfJSON())}
		case "IsGarbage":
			return Result{Ret: v.IsGarbage()}
		case "ToJSONBytes":
			return Result{Ret: string(v.ToJSONBytes())}
		case "GetRootDocument":
			r, n := docVal(v.GetRootDocument())
			return Result{Ret: r, IsNil: n}
		case "GetParentDocument":
			p := v.GetParentDocument()
			// using the returned handle is part of the call
			r, n := docVal(p)
			return Result{Ret: r, IsNil: n}
		}
	}
	panic(fmt.Sprintf("sim.Exec: unknown call %s on %s", c.M, kind))
}

// Mutating tells whether a method can emit an operation.
func Mutating(m string) bool {
	switch m {
	case "Increase", "IncreaseBy", "Put", "Remove", "Insert", "InsertMany", "Update", "Delete", "DeleteMany",
		"PutToObject", "DeleteInObject", "InsertToArray", "UpdateManyInArray", "DeleteInArray", "DeleteManyInArray",
		"PatchByJSON":
		return true
	}
	return false
}

// Tx is a transaction body as data: the calls are executed in order on the in-transaction view;
// if 0 <= FailAt <= len(Calls) the body returns an error right before call number FailAt (FailAt ==
// len(Calls): after the last call). FailAt < 0 commits. StopOnErr makes the body return the
// first error a call returns.
type Tx struct {
	Tag       string `json:"tag"`
	Calls     []Call `json:"calls"`
	FailAt    int    `json:"fail_at"`
	StopOnErr bool   `json:"stop_on_err,omitempty"`
}

// ExecTx runs a transaction on the datatype.
func ExecTx(kind Kind, dt interface{}, tx Tx) (results []Result, txErr error, panicked interface{}) {
	body := func(view interface{}) error {
		for i, c := range tx.Calls {
			if tx.FailAt == i {
				return fmt.Errorf("generated failure before call %d", i)
			}
			r := Exec(kind, view, c)
			results = append(results, r)
			if r.Panic != nil {
				panic(r.Panic)
			}
			if tx.StopOnErr && (r.Err != nil || r.NavErr != nil) {
				return fmt.Errorf("call %d failed", i)
			}
		}
		if tx.FailAt == len(tx.Calls) {
			return fmt.Errorf("generated failure after the last call")
		}
		return nil
	}
	defer func() {
		if p := recover(); p != nil {
			panicked = p
		}
	}()
	switch kind {
	case Counter:
		txErr = dt.(orda.Counter).Transaction(tx.Tag, func(c orda.CounterInTx) error { return body(c) })
	case Map:
		txErr = dt.(orda.Map).Transaction(tx.Tag, func(c orda.MapInTx) error { return body(c) })
	case List:
		txErr = dt.(orda.List).Transaction(tx.Tag, func(c orda.ListInTx) error { return body(c) })
	case Document:
		txErr = dt.(orda.Document).Transaction(tx.Tag, func(c orda.DocumentInTx) error { return body(c) })
	}
	if isNilIface(txErr) {
		txErr = nil
	}
	return
}

// ---------------------------------------------------------------------------------------------
// Observation

// View is the canonical readable state of a replica.
type View struct {
	JSON  string // canonical ToJSON()
	Size  int    // Size() for map/list, -1 otherwise
	Reads string // canonical element reads
}

func (v View) String() string {
	return fmt.Sprintf("json=%s size=%d reads=%s", v.JSON, v.Size, v.Reads)
}

// Observe reads everything readable through the public API. keys is the pool of map keys to
// probe. A panic while reading is reported in Reads.
func Observe(kind Kind, dt interface{}, keys []string) (v View) {
	defer func() {
		if p := recover(); p != nil {
			v.Reads = fmt.Sprintf("!PANIC while reading: %v", p)
		}
	}()
	v.Size = -1
	v.JSON = Canon(dt.(orda.Datatype).ToJSON())
	var sb strings.Builder
	switch kind {
	case Counter:
		fmt.Fprintf(&sb, "get=%d", dt.(orda.Counter).Get())
	case Map:
		m := dt.(orda.Map)
		v.Size = m.Size()
		ks := append([]string{}, keys...)
		sort.Strings(ks)
		for _, k := range ks {
			fmt.Fprintf(&sb, "%q=%s;", k, Canon(m.Get(k)))
		}
	case List:
		l := dt.(orda.List)
		v.Size = l.Size()
		for i := 0; i < v.Size; i++ {
			x, e := l.Get(i)
			if errOf(e) != nil {
				fmt.Fprintf(&sb, "[%d]=ERR;", i)
			} else {
				fmt.Fprintf(&sb, "[%d]=%s;", i, Canon(x))
			}
		}
		if v.Size > 0 {
			xs, e := l.GetMany(0, v.Size)
			if errOf(e) != nil {
				sb.WriteString("many=ERR")
			} else {
				sb.WriteString("many=" + Canon(xs))
			}
		}
		_, e := l.Get(v.Size)
		fmt.Fprintf(&sb, ";past-end-err=%v", errOf(e) != nil)
	case Document:
		d := dt.(orda.Document)
		sb.WriteString("value=" + Canon(d.GetValue()) + ";")
		walkDoc(&sb, d, "", 0)
	}
	v.Reads = sb.String()
	return v
}

func walkDoc(sb *strings.Builder, d orda.Document, path string, depth int) {
	if depth > 8 {
		return
	}
	switch val := Normalize(d.GetValue()).(type) {
	case map[string]interface{}:
		ks := make([]string, 0, len(val))
		for k := range val {
			ks = append(ks, k)
		}
		sort.Strings(ks)
		for _, k := range ks {
			c, e := d.GetFromObject(k)
			p := path + "/" + k
			if errOf(e) != nil || isNilIface(c) {
				fmt.Fprintf(sb, "%s=MISSING;", p)
				continue
			}
			fmt.Fprintf(sb, "%s=%s;", p, Canon(c.GetValue()))
			walkDoc(sb, c, p, depth+1)
		}
	case []interface{}:
		for i := range val {
			c, e := d.GetFromArray(i)
			p := fmt.Sprintf("%s/%d", path, i)
			if errOf(e) != nil || isNilIface(c) {
				fmt.Fprintf(sb, "%s=MISSING;", p)
				continue
			}
			fmt.Fprintf(sb, "%s=%s;", p, Canon(c.GetValue()))
			walkDoc(sb, c, p, depth+1)
		}
		if len(val) > 0 {
			cs, e := d.GetManyFromArray(0, len(val))
			if errOf(e) != nil {
				fmt.Fprintf(sb, "%s/many=ERR;", path)
			} else {
				fmt.Fprintf(sb, "%s/many=%s;", path, Canon(docVals(cs)))
			}
		}
	}
}

// Call executes a call on replica i and records what it emitted.
func (w *World) Call(i int, c Call) (Result, int) {
	r := w.Reps[i]
	res := Exec(w.Kind, r.DT, c)
	if res.Panic != nil {
		r.Panics++
	}
	fresh := r.noteEmitted()
	return res, len(fresh)
}

// Transaction executes a transaction on replica i and records what it emitted.
func (w *World) Transaction(i int, tx Tx) ([]Result, error, interface{}, int) {
	r := w.Reps[i]
	rs, err, p := ExecTx(w.Kind, r.DT, tx)
	if p != nil {
		r.Panics++
	}
	fresh := r.noteEmitted()
	return rs, err, p, len(fresh)
}

// ResultOfDoc builds the Result of a call that returns (Document, error).
func ResultOfDoc(d orda.Document, e interface{}) Result {
	r, n := docVal(d)
	return Result{Ret: r, IsNil: n, Err: errOf(e)}
}

// IsNilDoc tells whether a Document interface holds nothing usable.
func IsNilDoc(d orda.Document) bool { return isNilIface(d) }

// repoMarker is the path prefix of orda's source files in stack traces (/repo/, or the checkout
// named by VERIF_REPO when the checks are built against another copy of the repository).
var repoMarker = func() string {
	if alt := os.Getenv("VERIF_REPO"); alt != "" {
		return strings.TrimRight(alt, "/") + "/"
	}
	return "/repo/"
}()

// ordaFrames keeps the first few stack lines that name orda source files.
func ordaFrames(stack []byte) string {
	var out []string
	for _, l := range strings.Split(string(stack), "\n") {
		if strings.Contains(l, repoMarker) && !strings.Contains(l, "harness") {
			out = append(out, strings.TrimSpace(strings.Split(l, " +0x")[0]))
			if len(out) == 4 {
				break
			}
		}
	}
	return strings.Join(out, " < ")
}

// Poison overwrites the elements of the slice that was handed to a variadic call (`f(buf...)` passes
// the caller's slice itself; an application that refills one batch buffer does exactly this). Nested
// maps / slices / pointer targets inside the values are NOT touched: orda keeps such values by
// reference in its local state, and whether a caller may modify them afterwards is not specified.
func Poison(vals []interface{}) {
	for i := range vals {
		vals[i] = "\u2620 overwritten by the caller after the call"
	}
}
