// Package sim is layer L0 of the harness: replicas of one orda datatype (real client-library
// instances obtained through the public API) plus a simulated server log. No server code runs.
// The only schedules it can produce are the ones the real system can produce: one total log
// order, every replica receives the other replicas' operations in log order, interleaved with
// its own calls (DESIGN.md §3.2).
package sim

import (
	crand "crypto/rand"
	"encoding/binary"
	"fmt"
	"io"
	"os"
	"sync"

	"github.com/orda-io/orda/client/pkg/errors"
	"github.com/orda-io/orda/client/pkg/iface"
	ordalog "github.com/orda-io/orda/client/pkg/log"
	"github.com/orda-io/orda/client/pkg/model"
	"github.com/orda-io/orda/client/pkg/orda"
	"github.com/sirupsen/logrus"
	"google.golang.org/protobuf/proto"
)

// Kind of datatype.
type Kind string

// Kinds.
const (
	Counter  Kind = "counter"
	Map      Kind = "map"
	List     Kind = "list"
	Document Kind = "document"
)

// AllKinds in a fixed order.
var AllKinds = []Kind{Counter, Map, List, Document}

// ---------------------------------------------------------------------------------------------
// deterministic identifiers: orda draws CUIDs/DUIDs from crypto/rand.Reader via gonanoid.

type detReader struct {
	mu    sync.Mutex
	state uint64
}

func (d *detReader) Read(p []byte) (int, error) {
	d.mu.Lock()
	defer d.mu.Unlock()
	var buf [8]byte
	for i := 0; i < len(p); i += 8 {
		// splitmix64
		d.state += 0x9E3779B97F4A7C15
		z := d.state
		z = (z ^ (z >> 30)) * 0xBF58476D1CE4E5B9
		z = (z ^ (z >> 27)) * 0x94D049BB133111EB
		z ^= z >> 31
		binary.LittleEndian.PutUint64(buf[:], z)
		copy(p[i:], buf[:])
	}
	return len(p), nil
}

var origRand io.Reader

// SeedIDs makes every CUID/DUID created from now on a function of seed.
func SeedIDs(seed uint64) {
	if origRand == nil {
		origRand = crand.Reader
	}
	crand.Reader = &detReader{state: seed*2654435761 + 1}
}

// Silence points os.Stderr at /dev/null so that the logrus loggers orda creates (each bound to
// the os.Stderr of the moment) do not dominate the run time. Go runtime panics still go to fd 2.
func Silence() {
	if os.Getenv("VERIF_VERBOSE") != "" {
		return
	}
	if f, err := os.OpenFile(os.DevNull, os.O_WRONLY, 0); err == nil {
		os.Stderr = f
	}
	// the package-level logger was bound to the real stderr at init time
	ordalog.Logger.Logger.SetOutput(io.Discard)
	ordalog.Logger.Logger.SetLevel(logrus.PanicLevel)
}

// ---------------------------------------------------------------------------------------------

// Replica is one client-library instance of the datatype.
type Replica struct {
	Idx    int
	CUID   string
	Client orda.Client
	DT     iface.Datatype

	pushed   int // own buffer operations already appended to the log
	pulled   int // log prefix whose foreign operations were delivered (or captured for delivery)
	inflight bool
	infFrom  int
	infTo    int

	// Seen is every operation applied at this replica, in application order (own operations at
	// the moment they were emitted, foreign ones at delivery).
	Seen []*model.Operation
	// Emitted is the copy of the replica's own emitted operations taken right after each call.
	Emitted []*model.Operation
	// Panics counts recovered panics of API calls.
	Panics int
	skip   map[string]bool
}

// World is a set of replicas of one datatype and the server log.
type World struct {
	Kind     Kind
	Key      string
	Reps     []*Replica
	Log      []*model.Operation
	LogOwner []int
	Max      int
}

// NewWorld creates n replicas; replica 0 creates the datatype, the others subscribe and receive
// the log from operation 1 before they may issue local calls.
func NewWorld(kind Kind, n int, max int) *World {
	w := &World{Kind: kind, Key: "k", Max: max}
	for i := 0; i < n; i++ {
		w.addReplica()
	}
	return w
}

func (w *World) NewInstance(alias string, create bool) (orda.Client, iface.Datatype) {
	c := orda.NewClient(orda.NewLocalClientConfig("col"), alias)
	var d orda.Datatype
	switch w.Kind {
	case Counter:
		if create {
			d = c.CreateCounter(w.Key, nil)
		} else {
			d = c.SubscribeCounter(w.Key, nil)
		}
	case Map:
		if create {
			d = c.CreateMap(w.Key, nil)
		} else {
			d = c.SubscribeMap(w.Key, nil)
		}
	case List:
		if create {
			d = c.CreateList(w.Key, nil)
		} else {
			d = c.SubscribeList(w.Key, nil)
		}
	case Document:
		if create {
			d = c.CreateDocument(w.Key, nil)
		} else {
			d = c.SubscribeDocument(w.Key, nil)
		}
	}
	return c, d.(iface.Datatype)
}

func (w *World) addReplica() *Replica {
	i := len(w.Reps)
	c, dt := w.NewInstance(fmt.Sprintf("r%d", i), i == 0)
	r := &Replica{Idx: i, Client: c, DT: dt, CUID: dt.GetCUID()}
	w.Reps = append(w.Reps, r)
	r.noteEmitted()
	// first sync: creator pushes its snapshot operation, subscribers receive the whole log.
	w.SyncStart(i)
	w.SyncFinish(i)
	dt.SetState(model.StateOfDatatype_SUBSCRIBED)
	return r
}

// Join adds a late subscriber that receives the whole log in one delivery.
func (w *World) Join() *Replica {
	if len(w.Reps) >= w.Max {
		return nil
	}
	return w.addReplica()
}

// Buffer returns the operations the replica has emitted so far (the pack built from checkpoint
// 0 contains every operation since localBuffer is never trimmed).
func (r *Replica) Buffer() []*model.Operation {
	return r.DT.CreatePushPullPack().Operations
}

// noteEmitted copies newly emitted operations into Emitted and Seen; returns them.
func (r *Replica) noteEmitted() []*model.Operation {
	buf := r.Buffer()
	var fresh []*model.Operation
	for i := len(r.Emitted); i < len(buf); i++ {
		c := proto.Clone(buf[i]).(*model.Operation)
		r.Emitted = append(r.Emitted, c)
		r.Seen = append(r.Seen, c)
		fresh = append(fresh, c)
	}
	return fresh
}

// SyncStart appends the replica's unpushed operations to the log and captures the range of the
// log the response will carry.
func (w *World) SyncStart(i int) bool {
	r := w.Reps[i]
	if r.inflight {
		return false
	}
	buf := r.Buffer()
	for j := r.pushed; j < len(buf); j++ {
		w.Log = append(w.Log, proto.Clone(buf[j]).(*model.Operation))
		w.LogOwner = append(w.LogOwner, i)
	}
	r.pushed = len(buf)
	r.inflight = true
	r.infFrom = r.pulled
	r.infTo = len(w.Log)
	r.pulled = len(w.Log)
	return true
}

// SyncFinish delivers the captured range (foreign operations only) to the replica.
func (w *World) SyncFinish(i int) (delivered int, err errors.OrdaError, panicked interface{}) {
	r := w.Reps[i]
	if !r.inflight {
		return 0, nil, nil
	}
	r.inflight = false
	var ops []*model.Operation
	for j := r.infFrom; j < r.infTo; j++ {
		if w.LogOwner[j] == i || r.skip[opID(w.Log[j])] {
			continue
		}
		ops = append(ops, proto.Clone(w.Log[j]).(*model.Operation))
	}
	if len(ops) == 0 {
		return 0, nil, nil
	}
	for _, op := range ops {
		r.Seen = append(r.Seen, proto.Clone(op).(*model.Operation))
	}
	func() {
		defer func() {
			if p := recover(); p != nil {
				panicked = p
				r.Panics++
			}
		}()
		_, err = r.DT.ReceiveRemoteModelOperations(ops, true)
	}()
	return len(ops), err, panicked
}

// InFlight tells whether replica i has an outstanding sync.
func (w *World) InFlight(i int) bool { return w.Reps[i].inflight }

// Unpushed is the number of own operations not yet in the log.
func (w *World) Unpushed(i int) int { return len(w.Reps[i].Buffer()) - w.Reps[i].pushed }

// Behind is the number of log entries the replica has not captured yet.
func (w *World) Behind(i int) int { return len(w.Log) - w.Reps[i].pulled }

// Quiesce finishes outstanding syncs and runs two full rounds so that every replica has every
// operation. It returns the first delivery problem, if any.
func (w *World) Quiesce() (err error) {
	note := func(i int, e errors.OrdaError, p interface{}) {
		if err != nil {
			return
		}
		if p != nil {
			err = fmt.Errorf("replica %d: panic while applying remote operations: %v", i, p)
		} else if e != nil {
			err = fmt.Errorf("replica %d: error while applying remote operations: %v", i, e)
		}
	}
	for i := range w.Reps {
		_, e, p := w.SyncFinish(i)
		note(i, e, p)
	}
	for round := 0; round < 2; round++ {
		for i := range w.Reps {
			w.SyncStart(i)
			_, e, p := w.SyncFinish(i)
			note(i, e, p)
		}
	}
	return err
}

// ServerCopy builds a fresh instance and feeds it the whole log at once, the way
// snapshot.Manager.GetLatestDatatype does on the server.
func (w *World) ServerCopy() (dt iface.Datatype, err error) {
	_, dt = w.NewInstance("server", true)
	var ops []*model.Operation
	for _, op := range w.Log {
		ops = append(ops, proto.Clone(op).(*model.Operation))
	}
	defer func() {
		if p := recover(); p != nil {
			err = fmt.Errorf("server copy: panic while replaying the log: %v", p)
		}
	}()
	if len(ops) > 0 {
		if _, e := dt.ReceiveRemoteModelOperations(ops, false); e != nil {
			return dt, fmt.Errorf("server copy: %v", e)
		}
	}
	return dt, nil
}

// AllOps returns every operation in the log (clones).
func (w *World) AllOps() []*model.Operation {
	out := make([]*model.Operation, 0, len(w.Log))
	for _, op := range w.Log {
		out = append(out, proto.Clone(op).(*model.Operation))
	}
	return out
}

// DeliveredPrefix returns x such that every foreign operation of log[0:x) has been applied at
// replica i (operations captured by an outstanding sync are not applied yet).
func (w *World) DeliveredPrefix(i int) int {
	r := w.Reps[i]
	if r.inflight {
		return r.infFrom
	}
	return r.pulled
}

// SkipNext makes replica i treat the next n not-yet-delivered log entries owned by owner as
// already delivered (used when the harness has delivered them directly).
func (w *World) SkipNext(i, owner, n int) {
	r := w.Reps[i]
	if r.skip == nil {
		r.skip = map[string]bool{}
	}
	src := w.Reps[owner]
	em := src.Emitted
	for _, op := range em[len(em)-n:] {
		r.skip[opID(op)] = true
	}
}

func opID(op *model.Operation) string { return fmt.Sprintf("%s:%d", op.ID.CUID, op.ID.Seq) }

// NoteEmitted records operations emitted outside World.Call (calls made through child handles).
func (r *Replica) NoteEmitted() int { return len(r.noteEmitted()) }
