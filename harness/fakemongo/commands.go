package fakemongo

import (
	"fmt"
	"sort"
	"strings"
	"time"

	"go.mongodb.org/mongo-driver/bson"
	"go.mongodb.org/mongo-driver/bson/primitive"
)

// apply executes a counted command. s.mu is held.
func (s *Server) apply(c *Cmd, db string) bson.D {
	switch c.Verb {
	case "insert":
		return s.cmdInsert(c)
	case "find":
		return s.cmdFind(c)
	case "update":
		return s.cmdUpdate(c)
	case "delete":
		return s.cmdDelete(c)
	case "findAndModify":
		return s.cmdFindAndModify(c)
	case "listCollections":
		return s.cmdListCollections(c, db)
	case "createIndexes":
		return s.cmdCreateIndexes(c)
	case "drop":
		return s.cmdDrop(c)
	case "commitTransaction", "abortTransaction":
		return okReply()
	}
	return errorReply(59, "CommandNotFound", "no such command: '"+c.Verb+"'")
}

func (s *Server) unsupported(feature string) {
	s.unknown = append(s.unknown, feature)
}

func (s *Server) now() primitive.DateTime {
	if s.sameMs {
		return s.fixedNow
	}
	return primitive.NewDateTimeFromTime(time.Now())
}

func (s *Server) coll(ns string, create bool) *collection {
	c := s.colls[ns]
	if c == nil && create {
		c = &collection{}
		s.colls[ns] = c
	}
	return c
}

func (s *Server) record(c *Cmd, verb string, doc bson.D) {
	s.writeSeq++
	s.history[c.NS] = append(s.history[c.NS], WriteEvent{Seq: s.writeSeq, Cmd: c.Seq, NS: c.NS, Verb: verb, Doc: cloneDoc(doc)})
}

func errReplyOf(e *cmdError) bson.D { return errorReply(e.code, e.codeName, e.msg) }

func writeError(index int, e *cmdError) bson.D {
	return bson.D{{Key: "index", Value: int32(index)}, {Key: "code", Value: e.code}, {Key: "errmsg", Value: e.msg}}
}

func dupKeyError(ns string, id interface{}) *cmdError {
	coll := ns
	return &cmdError{code: 11000, codeName: "DuplicateKey",
		msg: fmt.Sprintf("E11000 duplicate key error collection: %s index: _id_ dup key: { _id: %s }", coll, idString(id))}
}

func (col *collection) findByID(id interface{}) int {
	for i, d := range col.docs {
		if cur, ok := lookup(d, "_id"); ok && valuesEqual(cur, id) {
			return i
		}
	}
	return -1
}

func getDocs(body bson.D, key string) ([]bson.D, bool) {
	v, ok := lookup(body, key)
	if !ok {
		return nil, false
	}
	arr, ok := v.(bson.A)
	if !ok {
		return nil, false
	}
	out := make([]bson.D, 0, len(arr))
	for _, e := range arr {
		d, ok := e.(bson.D)
		if !ok {
			return nil, false
		}
		out = append(out, d)
	}
	return out, true
}

func getDoc(body bson.D, key string) bson.D {
	v, _ := lookup(body, key)
	d, _ := v.(bson.D)
	return d
}

func isOrdered(body bson.D) bool {
	if v, ok := lookup(body, "ordered"); ok {
		return truthy(v)
	}
	return true
}

// ---- insert -----------------------------------------------------------------------------------

func (s *Server) cmdInsert(c *Cmd) bson.D {
	docs, ok := getDocs(c.Body, "documents")
	if !ok {
		return errReplyOf(errFailedToParse("insert needs a documents array"))
	}
	n, werrs, _ := s.insertRange(c, docs, 0, len(docs), isOrdered(c.Body))
	return insertReply(n, werrs)
}

func insertReply(n int, werrs bson.A) bson.D {
	reply := bson.D{{Key: "n", Value: int32(n)}}
	if len(werrs) > 0 {
		reply = append(reply, bson.E{Key: "writeErrors", Value: werrs})
	}
	return okReply(reply...)
}

// insertRange inserts docs[from:to] one by one (as a server without a multi-document transaction does);
// stop = an ordered insert met a write error and must not continue.
func (s *Server) insertRange(c *Cmd, docs []bson.D, from, to int, ordered bool) (n int, werrs bson.A, stop bool) {
	col := s.coll(c.NS, true)
	for i := from; i < to; i++ {
		doc := cloneDoc(docs[i])
		id, has := lookup(doc, "_id")
		if !has {
			id = primitive.NewObjectID()
			doc = append(bson.D{{Key: "_id", Value: id}}, doc...)
		} else if _, isArr := id.(bson.A); isArr {
			werrs = append(werrs, writeError(i, errBadValue("The '_id' value cannot be of type array")))
			if ordered {
				return n, werrs, true
			}
			continue
		}
		if col.findByID(id) >= 0 {
			werrs = append(werrs, writeError(i, dupKeyError(c.NS, id)))
			if ordered {
				return n, werrs, true
			}
			continue
		}
		col.docs = append(col.docs, doc)
		s.record(c, "insert", doc)
		n++
	}
	return n, werrs, false
}

// ---- find -------------------------------------------------------------------------------------

func (s *Server) selectDocs(ns string, filter, sortSpec bson.D) ([]int, *cmdError) {
	col := s.coll(ns, false)
	if col == nil {
		return nil, nil
	}
	var idx []int
	for i, d := range col.docs {
		ok, err := matches(d, filter)
		if err != nil {
			return nil, err
		}
		if ok {
			idx = append(idx, i)
		}
	}
	if len(sortSpec) > 0 {
		if len(sortSpec) > 1 {
			s.unsupported("sort:multi-key")
			return nil, errBadValue("fakemongo: only single-key sort is supported")
		}
		key := sortSpec[0].Key
		if strings.Contains(key, ".") || strings.HasPrefix(key, "$") {
			s.unsupported("sort:" + key)
			return nil, errBadValue("fakemongo: unsupported sort key %q", key)
		}
		dir, ok := toInt64(sortSpec[0].Value)
		if !ok || (dir != 1 && dir != -1) {
			return nil, errBadValue("bad sort specification")
		}
		sort.SliceStable(idx, func(a, b int) bool {
			va, _ := lookup(col.docs[idx[a]], key)
			vb, _ := lookup(col.docs[idx[b]], key)
			cmp := compareValues(va, vb)
			if dir < 0 {
				return cmp > 0
			}
			return cmp < 0
		})
	}
	return idx, nil
}

func (s *Server) cmdFind(c *Cmd) bson.D {
	filter := getDoc(c.Body, "filter")
	if p := getDoc(c.Body, "projection"); len(p) > 0 {
		s.unsupported("find:projection")
		return errReplyOf(errBadValue("fakemongo: projection is not supported"))
	}
	idx, err := s.selectDocs(c.NS, filter, getDoc(c.Body, "sort"))
	if err != nil {
		if strings.HasPrefix(err.msg, "fakemongo:") {
			s.unsupported("find:" + err.msg)
		}
		return errReplyOf(err)
	}
	if v, ok := lookup(c.Body, "skip"); ok {
		if n, ok := toInt64(v); ok && n > 0 {
			if int(n) >= len(idx) {
				idx = nil
			} else {
				idx = idx[n:]
			}
		}
	}
	if v, ok := lookup(c.Body, "limit"); ok {
		if n, ok := toInt64(v); ok && n != 0 {
			if n < 0 {
				n = -n
			}
			if int(n) < len(idx) {
				idx = idx[:n]
			}
		}
	}
	batch := make(bson.A, 0, len(idx))
	col := s.coll(c.NS, false)
	for _, i := range idx {
		batch = append(batch, cloneDoc(col.docs[i]))
	}
	return okReply(bson.E{Key: "cursor", Value: bson.D{
		{Key: "firstBatch", Value: batch},
		{Key: "id", Value: int64(0)},
		{Key: "ns", Value: c.NS},
	}})
}

// ---- update -----------------------------------------------------------------------------------

type updateResult struct {
	matched, modified int
	upsertedID        interface{}
	upserted          bool
}

func (s *Server) updateOne(c *Cmd, q, u bson.D, multi, upsert bool, sortSpec bson.D) (updateResult, []bson.D, *cmdError) {
	var res updateResult
	var pre []bson.D
	idx, err := s.selectDocs(c.NS, q, sortSpec)
	if err != nil {
		return res, nil, err
	}
	if len(idx) == 0 {
		if !upsert {
			return res, nil, nil
		}
		base := equalityFields(q)
		doc, _, err := applyUpdate(base, u, true, s.now())
		if err != nil {
			return res, nil, err
		}
		id, has := lookup(doc, "_id")
		if !has {
			id = primitive.NewObjectID()
			doc = append(bson.D{{Key: "_id", Value: id}}, doc...)
		} else if len(doc) > 0 && doc[0].Key != "_id" {
			// MongoDB stores _id first
			nd := bson.D{{Key: "_id", Value: id}}
			for _, e := range doc {
				if e.Key != "_id" {
					nd = append(nd, e)
				}
			}
			doc = nd
		}
		col := s.coll(c.NS, true)
		if col.findByID(id) >= 0 {
			return res, nil, dupKeyError(c.NS, id)
		}
		col.docs = append(col.docs, doc)
		s.record(c, "upsert", doc)
		res.upserted, res.upsertedID = true, id
		return res, nil, nil
	}
	if !multi {
		idx = idx[:1]
	} else if !isOperatorDoc(u) {
		return res, nil, errFailedToParse("multi update is not supported for replacement-style update")
	}
	col := s.coll(c.NS, false)
	for _, i := range idx {
		old := col.docs[i]
		post, touchesDate, err := applyUpdate(old, u, false, s.now())
		if err != nil {
			return res, pre, err
		}
		res.matched++
		pre = append(pre, old)
		changed := !identical(old, post)
		if !changed && touchesDate && !s.sameMs {
			changed = true // advancing clock: a written datetime is never the stored one
		}
		if changed {
			res.modified++
			col.docs[i] = post
			verb := "update"
			if !isOperatorDoc(u) {
				verb = "replace"
			}
			s.record(c, verb, post)
		}
	}
	return res, pre, nil
}

func (s *Server) cmdUpdate(c *Cmd) bson.D {
	stmts, ok := getDocs(c.Body, "updates")
	if !ok {
		return errReplyOf(errFailedToParse("update needs an updates array"))
	}
	ordered := isOrdered(c.Body)
	var n, nModified int
	var upserted, werrs bson.A
	for i, st := range stmts {
		q := getDoc(st, "q")
		uv, _ := lookup(st, "u")
		u, isDoc := uv.(bson.D)
		if !isDoc {
			s.unsupported("update:pipeline")
			werrs = append(werrs, writeError(i, errBadValue("fakemongo: only document updates are supported")))
			if ordered {
				break
			}
			continue
		}
		if _, has := lookup(st, "arrayFilters"); has {
			s.unsupported("update:arrayFilters")
		}
		mv, _ := lookup(st, "multi")
		uv2, _ := lookup(st, "upsert")
		res, _, err := s.updateOne(c, q, u, truthy(mv), truthy(uv2), nil)
		if err != nil {
			if strings.HasPrefix(err.msg, "fakemongo:") {
				s.unsupported("update:" + err.msg)
			}
			werrs = append(werrs, writeError(i, err))
			if ordered {
				break
			}
			continue
		}
		n += res.matched
		nModified += res.modified
		if res.upserted {
			n++
			upserted = append(upserted, bson.D{{Key: "index", Value: int32(i)}, {Key: "_id", Value: res.upsertedID}})
		}
	}
	reply := bson.D{{Key: "n", Value: int32(n)}, {Key: "nModified", Value: int32(nModified)}}
	if len(upserted) > 0 {
		reply = append(reply, bson.E{Key: "upserted", Value: upserted})
	}
	if len(werrs) > 0 {
		reply = append(reply, bson.E{Key: "writeErrors", Value: werrs})
	}
	return okReply(reply...)
}

// ---- delete -----------------------------------------------------------------------------------

func (s *Server) cmdDelete(c *Cmd) bson.D {
	stmts, ok := getDocs(c.Body, "deletes")
	if !ok {
		return errReplyOf(errFailedToParse("delete needs a deletes array"))
	}
	ordered := isOrdered(c.Body)
	n := 0
	var werrs bson.A
	for i, st := range stmts {
		q := getDoc(st, "q")
		limit := int64(0)
		if v, ok := lookup(st, "limit"); ok {
			limit, _ = toInt64(v)
		}
		idx, err := s.selectDocs(c.NS, q, nil)
		if err != nil {
			if strings.HasPrefix(err.msg, "fakemongo:") {
				s.unsupported("delete:" + err.msg)
			}
			werrs = append(werrs, writeError(i, err))
			if ordered {
				break
			}
			continue
		}
		if limit == 1 && len(idx) > 1 {
			idx = idx[:1]
		}
		if len(idx) == 0 {
			continue
		}
		col := s.coll(c.NS, false)
		del := make(map[int]bool, len(idx))
		for _, j := range idx {
			del[j] = true
		}
		kept := make([]bson.D, 0, len(col.docs)-len(idx))
		for j, d := range col.docs {
			if del[j] {
				s.record(c, "delete", d)
				n++
			} else {
				kept = append(kept, d)
			}
		}
		col.docs = kept
	}
	reply := bson.D{{Key: "n", Value: int32(n)}}
	if len(werrs) > 0 {
		reply = append(reply, bson.E{Key: "writeErrors", Value: werrs})
	}
	return okReply(reply...)
}

// ---- findAndModify ----------------------------------------------------------------------------

func (s *Server) cmdFindAndModify(c *Cmd) bson.D {
	q := getDoc(c.Body, "query")
	sortSpec := getDoc(c.Body, "sort")
	if f := getDoc(c.Body, "fields"); len(f) > 0 {
		s.unsupported("findAndModify:fields")
		return errReplyOf(errBadValue("fakemongo: projection is not supported"))
	}
	newV, _ := lookup(c.Body, "new")
	upV, _ := lookup(c.Body, "upsert")
	rmV, _ := lookup(c.Body, "remove")
	returnNew, upsert, remove := truthy(newV), truthy(upV), truthy(rmV)

	if remove {
		idx, err := s.selectDocs(c.NS, q, sortSpec)
		if err != nil {
			return errReplyOf(err)
		}
		if len(idx) == 0 {
			return okReply(
				bson.E{Key: "lastErrorObject", Value: bson.D{{Key: "n", Value: int32(0)}}},
				bson.E{Key: "value", Value: nil})
		}
		col := s.coll(c.NS, false)
		d := col.docs[idx[0]]
		col.docs = append(col.docs[:idx[0]:idx[0]], col.docs[idx[0]+1:]...)
		s.record(c, "delete", d)
		return okReply(
			bson.E{Key: "lastErrorObject", Value: bson.D{{Key: "n", Value: int32(1)}}},
			bson.E{Key: "value", Value: cloneDoc(d)})
	}

	uv, _ := lookup(c.Body, "update")
	u, isDoc := uv.(bson.D)
	if !isDoc {
		s.unsupported("findAndModify:pipeline")
		return errReplyOf(errBadValue("fakemongo: only document updates are supported"))
	}
	res, pre, err := s.updateOne(c, q, u, false, upsert, sortSpec)
	if err != nil {
		if strings.HasPrefix(err.msg, "fakemongo:") {
			s.unsupported("findAndModify:" + err.msg)
		}
		return errReplyOf(err)
	}
	switch {
	case res.upserted:
		var value interface{}
		if returnNew {
			col := s.coll(c.NS, false)
			value = cloneDoc(col.docs[col.findByID(res.upsertedID)])
		}
		return okReply(
			bson.E{Key: "lastErrorObject", Value: bson.D{
				{Key: "n", Value: int32(1)},
				{Key: "updatedExisting", Value: false},
				{Key: "upserted", Value: res.upsertedID},
			}},
			bson.E{Key: "value", Value: value})
	case res.matched == 0:
		return okReply(
			bson.E{Key: "lastErrorObject", Value: bson.D{{Key: "n", Value: int32(0)}, {Key: "updatedExisting", Value: false}}},
			bson.E{Key: "value", Value: nil})
	}
	var value bson.D
	if returnNew {
		id, _ := lookup(pre[0], "_id")
		col := s.coll(c.NS, false)
		value = cloneDoc(col.docs[col.findByID(id)])
	} else {
		value = cloneDoc(pre[0])
	}
	return okReply(
		bson.E{Key: "lastErrorObject", Value: bson.D{{Key: "n", Value: int32(1)}, {Key: "updatedExisting", Value: true}}},
		bson.E{Key: "value", Value: value})
}

// ---- catalog ----------------------------------------------------------------------------------

func (s *Server) cmdListCollections(c *Cmd, db string) bson.D {
	filter := getDoc(c.Body, "filter")
	nameOnlyV, _ := lookup(c.Body, "nameOnly")
	nameOnly := truthy(nameOnlyV)
	var names []string
	prefix := db + "."
	for ns := range s.colls {
		if strings.HasPrefix(ns, prefix) {
			names = append(names, ns[len(prefix):])
		}
	}
	sort.Strings(names)
	batch := bson.A{}
	for _, name := range names {
		entry := bson.D{{Key: "name", Value: name}, {Key: "type", Value: "collection"}}
		if !nameOnly {
			entry = append(entry,
				bson.E{Key: "options", Value: bson.D{}},
				bson.E{Key: "info", Value: bson.D{{Key: "readOnly", Value: false}}},
				bson.E{Key: "idIndex", Value: bson.D{{Key: "v", Value: int32(2)}, {Key: "key", Value: bson.D{{Key: "_id", Value: int32(1)}}}, {Key: "name", Value: "_id_"}}},
			)
		}
		ok, err := matches(entry, filter)
		if err != nil {
			s.unsupported("listCollections:" + err.msg)
			return errReplyOf(err)
		}
		if ok {
			batch = append(batch, entry)
		}
	}
	return okReply(bson.E{Key: "cursor", Value: bson.D{
		{Key: "id", Value: int64(0)},
		{Key: "ns", Value: db + ".$cmd.listCollections"},
		{Key: "firstBatch", Value: batch},
	}})
}

func (s *Server) cmdCreateIndexes(c *Cmd) bson.D {
	specs, ok := getDocs(c.Body, "indexes")
	if !ok {
		return errReplyOf(errFailedToParse("createIndexes needs an indexes array"))
	}
	created := s.coll(c.NS, false) == nil
	col := s.coll(c.NS, true)
	before := len(col.indexes) + 1
	for _, spec := range specs {
		name, _ := lookup(spec, "name")
		dup := false
		for _, have := range col.indexes {
			if hn, _ := lookup(have, "name"); valuesEqual(hn, name) {
				dup = true
				break
			}
		}
		if !dup {
			col.indexes = append(col.indexes, cloneDoc(spec))
		}
	}
	return okReply(
		bson.E{Key: "createdCollectionAutomatically", Value: created},
		bson.E{Key: "numIndexesBefore", Value: int32(before)},
		bson.E{Key: "numIndexesAfter", Value: int32(len(col.indexes) + 1)},
	)
}

func (s *Server) cmdDrop(c *Cmd) bson.D {
	col := s.coll(c.NS, false)
	if col == nil {
		return errorReply(26, "NamespaceNotFound", "ns not found")
	}
	delete(s.colls, c.NS)
	s.record(c, "drop", nil)
	return okReply(
		bson.E{Key: "nIndexesWas", Value: int32(len(col.indexes) + 1)},
		bson.E{Key: "ns", Value: c.NS},
	)
}

// ---- introspection ----------------------------------------------------------------------------

// Dump returns a deep copy of every collection: namespace → documents in insertion order.
func (s *Server) Dump() map[string][]bson.D {
	s.mu.Lock()
	defer s.mu.Unlock()
	out := make(map[string][]bson.D, len(s.colls))
	for ns, col := range s.colls {
		docs := make([]bson.D, len(col.docs))
		for i, d := range col.docs {
			docs[i] = cloneDoc(d)
		}
		out[ns] = docs
	}
	return out
}

// Indexes returns the index specifications recorded for a namespace (they are not enforced).
func (s *Server) Indexes(ns string) []bson.D {
	s.mu.Lock()
	defer s.mu.Unlock()
	col := s.colls[ns]
	if col == nil {
		return nil
	}
	out := make([]bson.D, len(col.indexes))
	for i, d := range col.indexes {
		out[i] = cloneDoc(d)
	}
	return out
}

// DumpCanonical renders all collections deterministically: namespaces sorted, documents sorted by
// the string form of their _id, every datetime (recursively) replaced by a constant, canonical
// extended JSON. Two equal stores give equal strings regardless of timestamps and insertion order.
func (s *Server) DumpCanonical() string {
	dump := s.Dump()
	nss := make([]string, 0, len(dump))
	for ns := range dump {
		nss = append(nss, ns)
	}
	sort.Strings(nss)
	var b strings.Builder
	for _, ns := range nss {
		docs := dump[ns]
		type row struct{ key, text string }
		rows := make([]row, 0, len(docs))
		for _, d := range docs {
			id, _ := lookup(d, "_id")
			canon := replaceDates(d, primitive.DateTime(0)).(bson.D)
			js, err := bson.MarshalExtJSON(canon, true, false)
			text := string(js)
			if err != nil {
				text = fmt.Sprintf("%v", canon)
			}
			rows = append(rows, row{key: fmt.Sprintf("%T:%s", id, idString(id)), text: text})
		}
		sort.SliceStable(rows, func(i, j int) bool {
			if rows[i].key != rows[j].key {
				return rows[i].key < rows[j].key
			}
			return rows[i].text < rows[j].text
		})
		fmt.Fprintf(&b, "== %s (%d)\n", ns, len(rows))
		for _, r := range rows {
			b.WriteString(r.text)
			b.WriteByte('\n')
		}
	}
	return b.String()
}

// summarize gives a one-line description of a command for the log.
func summarize(body bson.D) string {
	const max = 240
	short := func(v interface{}) string {
		var text string
		if d, ok := v.(bson.D); ok {
			js, err := bson.MarshalExtJSON(d, false, false)
			if err == nil {
				text = string(js)
			}
		}
		if text == "" {
			text = fmt.Sprintf("%v", v)
		}
		if len(text) > max {
			text = text[:max] + "…"
		}
		return text
	}
	if len(body) == 0 {
		return ""
	}
	switch body[0].Key {
	case "insert":
		docs, _ := getDocs(body, "documents")
		ids := make([]string, 0, len(docs))
		for _, d := range docs {
			id, _ := lookup(d, "_id")
			ids = append(ids, idString(id))
		}
		return fmt.Sprintf("n=%d ids=[%s]", len(docs), strings.Join(ids, ","))
	case "find":
		out := "filter=" + short(getDoc(body, "filter"))
		if sp := getDoc(body, "sort"); len(sp) > 0 {
			out += " sort=" + short(sp)
		}
		if l, ok := lookup(body, "limit"); ok {
			out += fmt.Sprintf(" limit=%v", l)
		}
		return out
	case "update":
		stmts, _ := getDocs(body, "updates")
		parts := make([]string, 0, len(stmts))
		for _, st := range stmts {
			u, _ := lookup(st, "u")
			up, _ := lookup(st, "upsert")
			parts = append(parts, fmt.Sprintf("q=%s u=%s upsert=%v", short(getDoc(st, "q")), short(u), truthy(up)))
		}
		return strings.Join(parts, "; ")
	case "delete":
		stmts, _ := getDocs(body, "deletes")
		parts := make([]string, 0, len(stmts))
		for _, st := range stmts {
			l, _ := lookup(st, "limit")
			parts = append(parts, fmt.Sprintf("q=%s limit=%v", short(getDoc(st, "q")), l))
		}
		return strings.Join(parts, "; ")
	case "findAndModify":
		u, _ := lookup(body, "update")
		up, _ := lookup(body, "upsert")
		return fmt.Sprintf("query=%s update=%s upsert=%v", short(getDoc(body, "query")), short(u), truthy(up))
	case "listCollections":
		return "filter=" + short(getDoc(body, "filter"))
	case "createIndexes":
		specs, _ := getDocs(body, "indexes")
		names := make([]string, 0, len(specs))
		for _, sp := range specs {
			n, _ := lookup(sp, "name")
			names = append(names, fmt.Sprintf("%v", n))
		}
		return "indexes=" + strings.Join(names, ",")
	}
	return ""
}
