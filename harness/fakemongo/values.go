package fakemongo

import (
	"bytes"
	"fmt"
	"math"
	"reflect"
	"strings"
	"time"

	"go.mongodb.org/mongo-driver/bson"
	"go.mongodb.org/mongo-driver/bson/primitive"
)

// ---- generic helpers on decoded BSON values ---------------------------------------------------

func cloneValue(v interface{}) interface{} {
	switch x := v.(type) {
	case bson.D:
		return cloneDoc(x)
	case bson.A:
		out := make(bson.A, len(x))
		for i := range x {
			out[i] = cloneValue(x[i])
		}
		return out
	case primitive.Binary:
		return primitive.Binary{Subtype: x.Subtype, Data: append([]byte(nil), x.Data...)}
	case []byte:
		return append([]byte(nil), x...)
	default:
		return v // scalars are immutable
	}
}

func cloneDoc(d bson.D) bson.D {
	if d == nil {
		return nil
	}
	out := make(bson.D, len(d))
	for i, e := range d {
		out[i] = bson.E{Key: e.Key, Value: cloneValue(e.Value)}
	}
	return out
}

func lookup(d bson.D, key string) (interface{}, bool) {
	for _, e := range d {
		if e.Key == key {
			return e.Value, true
		}
	}
	return nil, false
}

func setField(d bson.D, key string, v interface{}) bson.D {
	for i := range d {
		if d[i].Key == key {
			d[i].Value = v
			return d
		}
	}
	return append(d, bson.E{Key: key, Value: v})
}

func unsetField(d bson.D, key string) bson.D {
	for i := range d {
		if d[i].Key == key {
			return append(d[:i:i], d[i+1:]...)
		}
	}
	return d
}

func asNumber(v interface{}) (f float64, i int64, isInt bool, ok bool) {
	switch x := v.(type) {
	case int32:
		return float64(x), int64(x), true, true
	case int64:
		return float64(x), x, true, true
	case int:
		return float64(x), int64(x), true, true
	case float64:
		return x, 0, false, true
	}
	return 0, 0, false, false
}

// typeRank follows the BSON comparison order of MongoDB closely enough for single-key sorts.
func typeRank(v interface{}) int {
	switch v.(type) {
	case nil, primitive.Null:
		return 1
	case int32, int64, int, float64:
		return 2
	case string:
		return 3
	case bson.D:
		return 4
	case bson.A:
		return 5
	case primitive.Binary, []byte:
		return 6
	case primitive.ObjectID:
		return 7
	case bool:
		return 8
	case primitive.DateTime, time.Time:
		return 9
	case primitive.Timestamp:
		return 10
	}
	return 20
}

func canonBytes(v interface{}) []byte {
	t, b, err := bson.MarshalValue(v)
	if err != nil {
		return []byte(fmt.Sprintf("%T:%v", v, v))
	}
	return append([]byte{byte(t)}, b...)
}

func dateMillis(v interface{}) int64 {
	switch x := v.(type) {
	case primitive.DateTime:
		return int64(x)
	case time.Time:
		return x.UnixNano() / int64(time.Millisecond)
	}
	return 0
}

// compareValues orders two values; values of different BSON type classes order by class.
func compareValues(a, b interface{}) int {
	ra, rb := typeRank(a), typeRank(b)
	if ra != rb {
		if ra < rb {
			return -1
		}
		return 1
	}
	switch ra {
	case 1:
		return 0
	case 2:
		fa, ia, aint, _ := asNumber(a)
		fb, ib, bint, _ := asNumber(b)
		if aint && bint {
			switch {
			case ia < ib:
				return -1
			case ia > ib:
				return 1
			}
			return 0
		}
		switch {
		case fa < fb:
			return -1
		case fa > fb:
			return 1
		case fa == fb:
			return 0
		}
		// NaN involved: NaN sorts lowest
		an, bn := math.IsNaN(fa), math.IsNaN(fb)
		switch {
		case an && bn:
			return 0
		case an:
			return -1
		}
		return 1
	case 3:
		return strings.Compare(a.(string), b.(string))
	case 8:
		ab, bb := a.(bool), b.(bool)
		switch {
		case ab == bb:
			return 0
		case !ab:
			return -1
		}
		return 1
	case 9:
		da, db := dateMillis(a), dateMillis(b)
		switch {
		case da < db:
			return -1
		case da > db:
			return 1
		}
		return 0
	case 7:
		oa, ob := a.(primitive.ObjectID), b.(primitive.ObjectID)
		return bytes.Compare(oa[:], ob[:])
	}
	return bytes.Compare(canonBytes(a), canonBytes(b))
}

// valuesEqual is the equality used by query predicates: numbers compare across numeric types,
// everything else has to be the same BSON type and value (embedded documents: same field order).
func valuesEqual(a, b interface{}) bool {
	ra, rb := typeRank(a), typeRank(b)
	if ra != rb {
		return false
	}
	switch ra {
	case 1:
		return true
	case 2, 3, 7, 8, 9:
		return compareValues(a, b) == 0
	case 4:
		da, db := a.(bson.D), b.(bson.D)
		if len(da) != len(db) {
			return false
		}
		for i := range da {
			if da[i].Key != db[i].Key || !valuesEqual(da[i].Value, db[i].Value) {
				return false
			}
		}
		return true
	case 5:
		aa, ab := a.(bson.A), b.(bson.A)
		if len(aa) != len(ab) {
			return false
		}
		for i := range aa {
			if !valuesEqual(aa[i], ab[i]) {
				return false
			}
		}
		return true
	}
	return bytes.Equal(canonBytes(a), canonBytes(b))
}

// identical is the strict (type-aware) comparison used to decide nModified.
func identical(a, b interface{}) bool {
	switch x := a.(type) {
	case bson.D:
		y, ok := b.(bson.D)
		if !ok || len(x) != len(y) {
			return false
		}
		for i := range x {
			if x[i].Key != y[i].Key || !identical(x[i].Value, y[i].Value) {
				return false
			}
		}
		return true
	case bson.A:
		y, ok := b.(bson.A)
		if !ok || len(x) != len(y) {
			return false
		}
		for i := range x {
			if !identical(x[i], y[i]) {
				return false
			}
		}
		return true
	case float64:
		y, ok := b.(float64)
		return ok && (x == y || (math.IsNaN(x) && math.IsNaN(y)))
	}
	if a == nil || b == nil {
		return typeRank(a) == 1 && typeRank(b) == 1
	}
	if reflect.TypeOf(a) != reflect.TypeOf(b) {
		return false
	}
	return reflect.DeepEqual(a, b)
}

func containsDate(v interface{}) bool {
	switch x := v.(type) {
	case primitive.DateTime, time.Time:
		return true
	case bson.D:
		for _, e := range x {
			if containsDate(e.Value) {
				return true
			}
		}
	case bson.A:
		for _, e := range x {
			if containsDate(e) {
				return true
			}
		}
	}
	return false
}

func replaceDates(v interface{}, with primitive.DateTime) interface{} {
	switch x := v.(type) {
	case primitive.DateTime, time.Time:
		return with
	case bson.D:
		out := make(bson.D, len(x))
		for i, e := range x {
			out[i] = bson.E{Key: e.Key, Value: replaceDates(e.Value, with)}
		}
		return out
	case bson.A:
		out := make(bson.A, len(x))
		for i, e := range x {
			out[i] = replaceDates(e, with)
		}
		return out
	}
	return v
}

func truthy(v interface{}) bool {
	switch x := v.(type) {
	case nil:
		return false
	case bool:
		return x
	case int32:
		return x != 0
	case int64:
		return x != 0
	case float64:
		return x != 0
	}
	return true
}

func toInt64(v interface{}) (int64, bool) {
	f, i, isInt, ok := asNumber(v)
	if !ok {
		return 0, false
	}
	if isInt {
		return i, true
	}
	return int64(f), true
}

func isOperatorDoc(d bson.D) bool {
	return len(d) > 0 && strings.HasPrefix(d[0].Key, "$")
}

// ---- query matching ---------------------------------------------------------------------------

type cmdError struct {
	code     int32
	codeName string
	msg      string
}

func (e *cmdError) Error() string { return e.msg }

func errBadValue(format string, a ...interface{}) *cmdError {
	return &cmdError{code: 2, codeName: "BadValue", msg: fmt.Sprintf(format, a...)}
}

func errFailedToParse(format string, a ...interface{}) *cmdError {
	return &cmdError{code: 9, codeName: "FailedToParse", msg: fmt.Sprintf(format, a...)}
}

// matches evaluates the narrow query language: top-level fields with an equality value or a
// document of $eq/$gte/$gt/$lte/$lt/$ne/$exists/$in operators. Anything else is an error, so that a caller
// relying on unimplemented semantics is told so instead of getting a wrong answer.
func matches(doc, filter bson.D) (bool, *cmdError) {
	for _, cond := range filter {
		if strings.HasPrefix(cond.Key, "$") {
			return false, errBadValue("fakemongo: unsupported top-level query operator %s", cond.Key)
		}
		if strings.Contains(cond.Key, ".") {
			return false, errBadValue("fakemongo: unsupported dotted path in query: %s", cond.Key)
		}
		val, present := lookup(doc, cond.Key)
		if ops, ok := cond.Value.(bson.D); ok && isOperatorDoc(ops) {
			for _, op := range ops {
				ok, err := matchOp(val, present, op)
				if err != nil {
					return false, err
				}
				if !ok {
					return false, nil
				}
			}
			continue
		}
		if !matchEq(val, present, cond.Value) {
			return false, nil
		}
	}
	return true, nil
}

func matchEq(val interface{}, present bool, want interface{}) bool {
	if !present {
		return typeRank(want) == 1 // {f: null} matches a missing field
	}
	if valuesEqual(val, want) {
		return true
	}
	// array field containing the value
	if arr, ok := val.(bson.A); ok {
		if _, wantArr := want.(bson.A); !wantArr {
			for _, e := range arr {
				if valuesEqual(e, want) {
					return true
				}
			}
		}
	}
	return false
}

func matchOp(val interface{}, present bool, op bson.E) (bool, *cmdError) {
	switch op.Key {
	case "$exists":
		return present == truthy(op.Value), nil
	case "$eq":
		return matchEq(val, present, op.Value), nil
	case "$ne":
		return !matchEq(val, present, op.Value), nil
	case "$gte", "$gt", "$lte", "$lt":
		if !present || typeRank(val) != typeRank(op.Value) {
			return false, nil // comparison operators only match within the same type bracket
		}
		c := compareValues(val, op.Value)
		switch op.Key {
		case "$gte":
			return c >= 0, nil
		case "$gt":
			return c > 0, nil
		case "$lte":
			return c <= 0, nil
		default:
			return c < 0, nil
		}
	case "$in":
		arr, ok := op.Value.(bson.A)
		if !ok {
			return false, errBadValue("$in needs an array")
		}
		for _, w := range arr {
			if matchEq(val, present, w) {
				return true, nil
			}
		}
		return false, nil
	}
	return false, errBadValue("fakemongo: unsupported query operator %s", op.Key)
}

// equalityFields returns the filter's plain equality conditions (used to seed an upserted document).
func equalityFields(filter bson.D) bson.D {
	var out bson.D
	for _, cond := range filter {
		if strings.HasPrefix(cond.Key, "$") {
			continue
		}
		if ops, ok := cond.Value.(bson.D); ok && isOperatorDoc(ops) {
			if len(ops) == 1 && ops[0].Key == "$eq" {
				out = append(out, bson.E{Key: cond.Key, Value: cloneValue(ops[0].Value)})
			}
			continue
		}
		out = append(out, bson.E{Key: cond.Key, Value: cloneValue(cond.Value)})
	}
	return out
}

// ---- updates ----------------------------------------------------------------------------------

// applyUpdate returns the post-image of doc under the update specification u.
// touchesDate reports whether the update writes any datetime (for the advancing clock mode).
func applyUpdate(doc bson.D, u bson.D, isInsert bool, now primitive.DateTime) (out bson.D, touchesDate bool, err *cmdError) {
	if !isOperatorDoc(u) {
		// replacement document
		for _, e := range u {
			if strings.HasPrefix(e.Key, "$") {
				return nil, false, errFailedToParse("unknown top level operator or mixed replacement: %s", e.Key)
			}
		}
		out = bson.D{}
		oldID, hasOld := lookup(doc, "_id")
		newID, hasNew := lookup(u, "_id")
		if hasOld {
			if hasNew && !valuesEqual(oldID, newID) {
				return nil, false, &cmdError{code: 66, codeName: "ImmutableField",
					msg: "After applying the update, the (immutable) field '_id' was found to have been altered"}
			}
			out = append(out, bson.E{Key: "_id", Value: oldID})
		} else if hasNew {
			out = append(out, bson.E{Key: "_id", Value: cloneValue(newID)})
		}
		for _, e := range u {
			if e.Key == "_id" {
				continue
			}
			out = append(out, bson.E{Key: e.Key, Value: cloneValue(e.Value)})
		}
		return out, containsDate(u), nil
	}
	out = cloneDoc(doc)
	for _, op := range u {
		args, ok := op.Value.(bson.D)
		if !ok {
			return nil, false, errFailedToParse("Modifiers operate on fields but we found type %T instead (%s)", op.Value, op.Key)
		}
		for _, a := range args {
			if strings.Contains(a.Key, ".") || strings.HasPrefix(a.Key, "$") {
				return nil, false, errBadValue("fakemongo: unsupported field path in update: %q", a.Key)
			}
			if a.Key == "_id" && op.Key != "$setOnInsert" {
				if old, has := lookup(out, "_id"); has && !valuesEqual(old, a.Value) {
					return nil, false, &cmdError{code: 66, codeName: "ImmutableField",
						msg: "Performing an update on the path '_id' would modify the immutable field '_id'"}
				}
			}
		}
		switch op.Key {
		case "$set":
			for _, a := range args {
				out = setField(out, a.Key, cloneValue(a.Value))
			}
			if containsDate(args) {
				touchesDate = true
			}
		case "$setOnInsert":
			if isInsert {
				for _, a := range args {
					out = setField(out, a.Key, cloneValue(a.Value))
				}
			}
		case "$unset":
			for _, a := range args {
				out = unsetField(out, a.Key)
			}
		case "$inc":
			for _, a := range args {
				nv, e := incValue(out, a.Key, a.Value)
				if e != nil {
					return nil, false, e
				}
				out = setField(out, a.Key, nv)
			}
		case "$currentDate":
			for _, a := range args {
				switch spec := a.Value.(type) {
				case bool:
				case bson.D:
					if t, _ := lookup(spec, "$type"); t != "date" {
						return nil, false, errBadValue("fakemongo: $currentDate supports only the date type")
					}
				default:
					return nil, false, errBadValue("$currentDate: bad specification for %s", a.Key)
				}
				out = setField(out, a.Key, now)
			}
			touchesDate = true
		default:
			return nil, false, errFailedToParse("Unknown modifier: %s", op.Key)
		}
	}
	return out, touchesDate, nil
}

func incValue(doc bson.D, key string, by interface{}) (interface{}, *cmdError) {
	bf, bi, bint, ok := asNumber(by)
	if !ok {
		return nil, &cmdError{code: 14, codeName: "TypeMismatch", msg: "Cannot increment with non-numeric argument: {" + key + "}"}
	}
	cur, present := lookup(doc, key)
	if !present {
		return by, nil
	}
	cf, ci, cint, ok := asNumber(cur)
	if !ok {
		return nil, &cmdError{code: 14, codeName: "TypeMismatch",
			msg: fmt.Sprintf("Cannot apply $inc to a value of non-numeric type. field '%s' has type %T", key, cur)}
	}
	if !cint || !bint {
		return cf + bf, nil
	}
	sum := ci + bi
	_, cur32 := cur.(int32)
	_, by32 := by.(int32)
	if cur32 && by32 && sum >= math.MinInt32 && sum <= math.MaxInt32 {
		return int32(sum), nil
	}
	return sum, nil
}

// idString renders an _id for error messages and canonical ordering.
func idString(id interface{}) string {
	switch x := id.(type) {
	case string:
		return fmt.Sprintf("%q", x)
	case primitive.ObjectID:
		return "ObjectId('" + x.Hex() + "')"
	case nil:
		return "null"
	}
	return fmt.Sprintf("%v", id)
}
