// Package fakemongo is an in-memory MongoDB wire-protocol server for tests.
//
// It listens on a loopback TCP port and speaks just enough of the protocol (legacy OP_QUERY
// handshake and OP_MSG commands) for go.mongodb.org/mongo-driver v1.10.x and for everything the
// orda server does with MongoDB. Semantics follow MongoDB's documented behaviour for the narrow
// subset that is implemented; anything outside that subset is answered with an error and recorded
// in UnknownCommands so that a test run relying on it can be flagged instead of silently passing.
//
// Besides the data path the server offers harness controls: a command log, a write history,
// fault injection, a gate that holds commands until the harness releases them, per-command
// latency, and a clock mode that removes the dependence of nModified on the wall clock.
package fakemongo

import (
	"fmt"
	"net"
	"sync"
	"sync/atomic"
	"time"

	"go.mongodb.org/mongo-driver/bson"
	"go.mongodb.org/mongo-driver/bson/primitive"
)

// Fault is the outcome a fault hook chooses for a command.
type Fault int

const (
	// None lets the command run normally.
	None Fault = iota
	// FailBefore answers with a command error and does not apply the command.
	FailBefore
	// ApplyThenError applies the command and then answers with a command error.
	ApplyThenError
	// ApplyThenDrop applies the command and closes the connection without answering.
	ApplyThenDrop
	// DropBefore closes the connection without applying the command.
	DropBefore
	// ApplyPartThenError: an insert of more documents than SetPartialDocs(n) stores its first n documents and
	// then answers with a command error (an ordered bulk insert that is interrupted keeps what it has written).
	// Any other command is not applied at all (FailBefore).
	ApplyPartThenError
	// ApplyPartThenStop: the same, but instead of answering the server dies: the connection is closed and every
	// later command is dropped until Resume(). Any other command: the server dies before applying it.
	ApplyPartThenStop
)

func (f Fault) String() string {
	switch f {
	case None:
		return "None"
	case FailBefore:
		return "FailBefore"
	case ApplyThenError:
		return "ApplyThenError"
	case ApplyThenDrop:
		return "ApplyThenDrop"
	case DropBefore:
		return "DropBefore"
	case ApplyPartThenError:
		return "ApplyPartThenError"
	case ApplyPartThenStop:
		return "ApplyPartThenStop"
	}
	return fmt.Sprintf("Fault(%d)", int(f))
}

// Error used for injected command failures (FailBefore, ApplyThenError).
//
// The default code is 11601 (Interrupted), a plain command error. Code 11600
// (InterruptedAtShutdown) is available through SetFaultError, but it belongs to the driver's
// "node is shutting down" list: on receiving it the Go driver marks the server Unknown, clears
// the connection pool and waits for the next heartbeat (rate limited to one per 500 ms) before it
// selects the server again, i.e. every injected error costs ~0.5 s of wall clock (measured).
const (
	DefaultFaultCode      int32 = 11601
	DefaultFaultCodeName        = "Interrupted"
	DefaultFaultMessage         = "interrupted at shutdown (injected)"
	ShutdownFaultCode     int32 = 11600
	ShutdownFaultCodeName       = "InterruptedAtShutdown"
)

// Cmd describes a counted (non-handshake) command as seen by hooks and by the gate.
// Hooks must treat Body as read-only.
type Cmd struct {
	Seq    int    // 1-based arrival number among counted commands (restarts after ResetLog)
	Verb   string // insert, find, update, delete, findAndModify, listCollections, createIndexes, drop, commitTransaction, abortTransaction
	NS     string // "db.collection" ("db" alone for listCollections, "" for commit/abortTransaction on admin)
	ConnID int
	Body   bson.D
	// Applied is set on commands that are held by the reply gate: they have been executed, the
	// reply has not been sent yet (a late reply: what the caller will see is already old).
	Applied bool
	// Partial > 0 on an insert that is held in the middle (see SetInsertSplit): its first Partial documents are
	// stored and visible to every reader, the others are not yet.
	Partial int

	release chan struct{}
}

// String renders a short description.
func (c *Cmd) String() string {
	return fmt.Sprintf("#%d %s %s (conn %d)", c.Seq, c.Verb, c.NS, c.ConnID)
}

// CmdRecord is one entry of the command log.
type CmdRecord struct {
	Seq        int
	Verb       string
	NS         string
	Summary    string
	Start, End time.Time
	ConnID     int
	// Outcome is "ok", "error:<code>", or the name of the injected fault / "stopped" / "closed".
	Outcome string
	// NDocs is the number of documents of an insert (0 for other commands).
	NDocs int
}

// WriteEvent is one applied write.
type WriteEvent struct {
	Seq  int    // global, monotonically increasing write number (never reset)
	Cmd  int    // Seq of the command that performed the write
	NS   string // namespace
	Verb string // insert, update, replace, upsert, delete, drop
	Doc  bson.D // post-image, or the deleted document; nil for drop
}

var countedVerbs = map[string]bool{
	"insert": true, "find": true, "update": true, "delete": true, "findAndModify": true,
	"listCollections": true, "createIndexes": true, "drop": true,
	"commitTransaction": true, "abortTransaction": true,
}

type collection struct {
	docs    []bson.D
	indexes []bson.D
}

// Server is the fake MongoDB server.
type Server struct {
	ln   net.Listener
	addr string
	done chan struct{}
	wg   sync.WaitGroup

	replyID int32
	connSeq int32

	connMu sync.Mutex
	conns  map[net.Conn]struct{}
	closed bool

	// mu guards the store, the logs and the control settings.
	mu          sync.Mutex
	colls       map[string]*collection
	history     map[string][]WriteEvent
	writeSeq    int
	cmdLog      []*CmdRecord
	inflight    int
	seq         int
	unknown     []string
	sameMs      bool
	fixedNow    primitive.DateTime
	faultHook   func(c *Cmd) Fault
	latencyHook func(c *Cmd) time.Duration
	stopEnabled bool
	stopAfter   int
	faultCode   int32
	faultName   string
	faultMsg    string
	handshakes  int
	insertSplit func(c *Cmd, ndocs int) int
	partialDocs int

	// gmu guards the gate.
	gmu         sync.Mutex
	gateOn      bool
	gateFilter  func(c *Cmd) bool
	replyFilter func(c *Cmd) bool
	pending     []*Cmd
	gateChanged chan struct{}
}

// Start launches a server on 127.0.0.1:0.
func Start() (*Server, error) {
	ln, err := net.Listen("tcp", "127.0.0.1:0")
	if err != nil {
		return nil, err
	}
	s := &Server{
		ln:          ln,
		addr:        ln.Addr().String(),
		done:        make(chan struct{}),
		conns:       make(map[net.Conn]struct{}),
		colls:       make(map[string]*collection),
		history:     make(map[string][]WriteEvent),
		fixedNow:    primitive.NewDateTimeFromTime(time.Date(2020, 1, 1, 0, 0, 0, 0, time.UTC)),
		faultCode:   DefaultFaultCode,
		faultName:   DefaultFaultCodeName,
		faultMsg:    DefaultFaultMessage,
		gateChanged: make(chan struct{}),
	}
	s.wg.Add(1)
	go s.acceptLoop()
	return s, nil
}

// Addr returns "127.0.0.1:port".
func (s *Server) Addr() string { return s.addr }

// Close stops the listener, closes every connection, releases gated commands and waits for the
// connection goroutines to end. The stored data stays readable through Dump / History.
func (s *Server) Close() {
	s.connMu.Lock()
	if s.closed {
		s.connMu.Unlock()
		return
	}
	s.closed = true
	close(s.done)
	_ = s.ln.Close()
	for c := range s.conns {
		_ = c.Close()
	}
	s.connMu.Unlock()
	s.DisableGate()
	s.wg.Wait()
}

func (s *Server) acceptLoop() {
	defer s.wg.Done()
	for {
		c, err := s.ln.Accept()
		if err != nil {
			return
		}
		s.connMu.Lock()
		if s.closed {
			s.connMu.Unlock()
			_ = c.Close()
			return
		}
		s.conns[c] = struct{}{}
		s.wg.Add(1)
		s.connMu.Unlock()
		id := int(atomic.AddInt32(&s.connSeq, 1))
		go s.serve(c, id)
	}
}

func (s *Server) serve(c net.Conn, connID int) {
	defer s.wg.Done()
	defer func() {
		_ = c.Close()
		s.connMu.Lock()
		delete(s.conns, c)
		s.connMu.Unlock()
	}()
	if tc, ok := c.(*net.TCPConn); ok {
		_ = tc.SetNoDelay(true)
	}
	for {
		req, err := readRequest(c)
		if err != nil {
			return
		}
		reply, keep := s.handle(req, connID)
		if !keep {
			return
		}
		if req.moreToCome || reply == nil {
			continue
		}
		out, err := encodeReply(req, atomic.AddInt32(&s.replyID, 1), reply)
		if err != nil {
			return
		}
		if _, err := c.Write(out); err != nil {
			return
		}
	}
}

func (s *Server) isDone() bool {
	select {
	case <-s.done:
		return true
	default:
		return false
	}
}

func errorReply(code int32, codeName, msg string) bson.D {
	return bson.D{{Key: "ok", Value: float64(0)}, {Key: "errmsg", Value: msg}, {Key: "code", Value: code}, {Key: "codeName", Value: codeName}}
}

func okReply(fields ...bson.E) bson.D {
	return append(bson.D(fields), bson.E{Key: "ok", Value: float64(1)})
}

// handle processes one request. keep=false means: close the connection without replying.
func (s *Server) handle(req *request, connID int) (reply bson.D, keep bool) {
	if len(req.body) == 0 {
		return errorReply(59, "CommandNotFound", "no such command: ''"), true
	}
	verb := req.body[0].Key
	db, _ := lookup(req.body, "$db")
	dbName, _ := db.(string)
	if dbName == "" && req.legacyNS != "" {
		for i := 0; i < len(req.legacyNS); i++ {
			if req.legacyNS[i] == '.' {
				dbName = req.legacyNS[:i]
				break
			}
		}
	}

	if !countedVerbs[verb] {
		return s.handleUncounted(verb, dbName, req.body), true
	}

	cmd := &Cmd{Verb: verb, ConnID: connID, Body: req.body}
	switch verb {
	case "commitTransaction", "abortTransaction":
		cmd.NS = ""
	case "listCollections":
		cmd.NS = dbName
	default:
		coll, _ := req.body[0].Value.(string)
		cmd.NS = dbName + "." + coll
	}

	rec := &CmdRecord{Verb: verb, NS: cmd.NS, Summary: summarize(req.body), Start: time.Now(), ConnID: connID, Outcome: "pending"}
	if verb == "insert" {
		if docs, ok := getDocs(req.body, "documents"); ok {
			rec.NDocs = len(docs)
		}
	}
	s.mu.Lock()
	s.seq++
	cmd.Seq = s.seq
	rec.Seq = cmd.Seq
	s.cmdLog = append(s.cmdLog, rec)
	s.inflight++
	latency := s.latencyHook
	s.mu.Unlock()

	finish := func(outcome string) {
		s.mu.Lock()
		rec.End = time.Now()
		rec.Outcome = outcome
		s.inflight--
		s.mu.Unlock()
	}

	if s.stopped(cmd) {
		finish("stopped")
		return nil, false
	}
	if latency != nil {
		if d := latency(cmd); d > 0 {
			select {
			case <-time.After(d):
			case <-s.done:
			}
		}
	}
	s.waitGate(cmd)
	if s.isDone() {
		finish("closed")
		return nil, false
	}
	if s.stopped(cmd) {
		finish("stopped")
		return nil, false
	}

	s.mu.Lock()
	hook := s.faultHook
	s.mu.Unlock()
	fault := None
	if hook != nil {
		fault = hook(cmd)
	}

	switch fault {
	case FailBefore:
		finish(fault.String())
		return s.injectedError(), true
	case DropBefore:
		finish(fault.String())
		return nil, false
	case ApplyPartThenError, ApplyPartThenStop:
		s.mu.Lock()
		if docs, ok := getDocs(cmd.Body, "documents"); ok && verb == "insert" && len(docs) > s.partialDocs && s.partialDocs > 0 {
			s.insertRange(cmd, docs, 0, s.partialDocs, isOrdered(cmd.Body))
			cmd.Partial = s.partialDocs
		}
		if fault == ApplyPartThenStop {
			s.stopEnabled, s.stopAfter = true, cmd.Seq-1
		}
		s.mu.Unlock()
		finish(fmt.Sprintf("%s(%d)", fault, cmd.Partial))
		if fault == ApplyPartThenStop {
			return nil, false
		}
		return s.injectedError(), true
	}

	s.mu.Lock()
	split := s.insertSplit
	s.mu.Unlock()
	splitDone := false
	if verb == "insert" && split != nil {
		if docs, ok := getDocs(cmd.Body, "documents"); ok {
			if k := split(cmd, len(docs)); k > 0 && k < len(docs) {
				// an insert of several documents is not atomic for readers: store the first k, wait, store the rest
				ordered := isOrdered(cmd.Body)
				s.mu.Lock()
				n, werrs, stop := s.insertRange(cmd, docs, 0, k, ordered)
				s.mu.Unlock()
				if !stop {
					cmd.Partial = k
					s.holdPartial(cmd)
					if s.isDone() {
						finish("closed")
						return nil, false
					}
					s.mu.Lock()
					n2, w2, _ := s.insertRange(cmd, docs, k, len(docs), ordered)
					s.mu.Unlock()
					n, werrs = n+n2, append(werrs, w2...)
				}
				reply = insertReply(n, werrs)
				splitDone = true
			}
		}
	}
	if !splitDone {
		s.mu.Lock()
		reply = s.apply(cmd, dbName)
		s.mu.Unlock()
	}

	s.waitReplyGate(cmd)

	switch fault {
	case ApplyThenError:
		finish(fault.String())
		return s.injectedError(), true
	case ApplyThenDrop:
		finish(fault.String())
		return nil, false
	}
	outcome := "ok"
	if okv, _ := lookup(reply, "ok"); okv != float64(1) {
		code, _ := lookup(reply, "code")
		outcome = fmt.Sprintf("error:%v", code)
	} else if _, has := lookup(reply, "writeErrors"); has {
		outcome = "writeErrors"
	}
	finish(outcome)
	return reply, true
}

func (s *Server) injectedError() bson.D {
	s.mu.Lock()
	defer s.mu.Unlock()
	return errorReply(s.faultCode, s.faultName, s.faultMsg)
}

func (s *Server) stopped(c *Cmd) bool {
	s.mu.Lock()
	defer s.mu.Unlock()
	return s.stopEnabled && c.Seq > s.stopAfter
}

func (s *Server) handleUncounted(verb, dbName string, body bson.D) bson.D {
	switch verb {
	case "isMaster", "ismaster", "hello":
		s.mu.Lock()
		s.handshakes++
		s.mu.Unlock()
		return s.helloReply(verb == "hello")
	case "saslStart", "saslContinue":
		return okReply(
			bson.E{Key: "conversationId", Value: int32(1)},
			bson.E{Key: "done", Value: true},
			bson.E{Key: "payload", Value: primitive.Binary{Data: []byte{}}},
		)
	case "ping", "endSessions", "killCursors", "killSessions", "refreshSessions":
		return okReply()
	case "buildInfo", "buildinfo":
		return okReply(
			bson.E{Key: "version", Value: "5.0.0-fakemongo"},
			bson.E{Key: "versionArray", Value: bson.A{int32(5), int32(0), int32(0), int32(0)}},
		)
	}
	s.mu.Lock()
	s.unknown = append(s.unknown, verb)
	s.mu.Unlock()
	return errorReply(59, "CommandNotFound", fmt.Sprintf("no such command: '%s'", verb))
}

func (s *Server) helloReply(modern bool) bson.D {
	primaryKey := "ismaster"
	if modern {
		primaryKey = "isWritablePrimary"
	}
	return okReply(
		bson.E{Key: primaryKey, Value: true},
		bson.E{Key: "helloOk", Value: true},
		bson.E{Key: "secondary", Value: false},
		bson.E{Key: "setName", Value: "fakers"},
		bson.E{Key: "setVersion", Value: int32(1)},
		bson.E{Key: "hosts", Value: bson.A{s.addr}},
		bson.E{Key: "me", Value: s.addr},
		bson.E{Key: "primary", Value: s.addr},
		bson.E{Key: "maxBsonObjectSize", Value: int32(16 * 1024 * 1024)},
		bson.E{Key: "maxMessageSizeBytes", Value: int32(maxMessageSize)},
		bson.E{Key: "maxWriteBatchSize", Value: int32(100000)},
		bson.E{Key: "localTime", Value: primitive.NewDateTimeFromTime(time.Now())},
		bson.E{Key: "logicalSessionTimeoutMinutes", Value: int32(30)},
		bson.E{Key: "connectionId", Value: int32(1)},
		bson.E{Key: "minWireVersion", Value: int32(0)},
		bson.E{Key: "maxWireVersion", Value: int32(13)},
		bson.E{Key: "readOnly", Value: false},
	)
}

// ---- gate -------------------------------------------------------------------------------------

func (s *Server) gateSignalLocked() {
	close(s.gateChanged)
	s.gateChanged = make(chan struct{})
}

func (s *Server) waitGate(c *Cmd) {
	s.gmu.Lock()
	if !s.gateOn || (s.gateFilter != nil && !s.gateFilter(c)) {
		s.gmu.Unlock()
		return
	}
	c.release = make(chan struct{})
	s.pending = append(s.pending, c)
	s.gateSignalLocked()
	s.gmu.Unlock()
	select {
	case <-c.release:
	case <-s.done:
	}
}

// waitReplyGate holds an executed command before its reply is sent (see EnableReplyGate).
func (s *Server) waitReplyGate(c *Cmd) {
	s.gmu.Lock()
	if s.replyFilter == nil || !s.replyFilter(c) {
		s.gmu.Unlock()
		return
	}
	c.Applied = true
	c.release = make(chan struct{})
	s.pending = append(s.pending, c)
	s.gateSignalLocked()
	s.gmu.Unlock()
	select {
	case <-c.release:
	case <-s.done:
	}
}

// holdPartial blocks an insert between two of its documents until it is released (Release / DisableGate / Close).
func (s *Server) holdPartial(c *Cmd) {
	s.gmu.Lock()
	c.release = make(chan struct{})
	s.pending = append(s.pending, c)
	s.gateSignalLocked()
	s.gmu.Unlock()
	select {
	case <-c.release:
	case <-s.done:
	}
}

// SetInsertSplit installs a hook that may split an insert of several documents: when it returns k with
// 0 < k < ndocs the first k documents are stored, the command then waits in Pending() (Partial = k) until it
// is released, and only then stores the others. A real server inserts the documents of one insert command one
// by one and, outside a multi-document transaction, every reader may see any prefix of them. nil = off.
func (s *Server) SetInsertSplit(h func(c *Cmd, ndocs int) int) {
	s.mu.Lock()
	s.insertSplit = h
	s.mu.Unlock()
}

// EnableReplyGate makes every later command for which filter returns true block AFTER it has been
// executed and before its reply is sent, until it is released (Release / DisableGate). Such commands
// appear in Pending() with Applied set. The filter runs with the gate's lock held.
func (s *Server) EnableReplyGate(filter func(c *Cmd) bool) {
	s.gmu.Lock()
	s.replyFilter = filter
	s.gmu.Unlock()
}

// EnableGate makes every later command for which filter returns true (nil = all) block on arrival
// until it is released. The filter is called with the gate's lock held and must not call back
// into the gate methods.
func (s *Server) EnableGate(filter func(c *Cmd) bool) {
	s.gmu.Lock()
	s.gateOn = true
	s.gateFilter = filter
	s.gmu.Unlock()
}

// DisableGate switches the gate off and releases every blocked command (in arrival order).
func (s *Server) DisableGate() {
	s.gmu.Lock()
	s.gateOn = false
	s.gateFilter = nil
	s.replyFilter = nil
	for _, c := range s.pending {
		close(c.release)
	}
	s.pending = nil
	s.gateSignalLocked()
	s.gmu.Unlock()
}

// Pending returns the blocked commands in arrival order.
func (s *Server) Pending() []*Cmd {
	s.gmu.Lock()
	defer s.gmu.Unlock()
	return append([]*Cmd(nil), s.pending...)
}

// Release lets the blocked command with the given Seq proceed. It reports whether it was pending.
func (s *Server) Release(seq int) bool {
	s.gmu.Lock()
	defer s.gmu.Unlock()
	for i, c := range s.pending {
		if c.Seq == seq {
			s.pending = append(s.pending[:i:i], s.pending[i+1:]...)
			close(c.release)
			s.gateSignalLocked()
			return true
		}
	}
	return false
}

// WaitPending waits until at least n commands are blocked at the gate.
func (s *Server) WaitPending(n int, timeout time.Duration) bool {
	deadline := time.NewTimer(timeout)
	defer deadline.Stop()
	for {
		s.gmu.Lock()
		have := len(s.pending)
		ch := s.gateChanged
		s.gmu.Unlock()
		if have >= n {
			return true
		}
		select {
		case <-ch:
		case <-deadline.C:
			return false
		case <-s.done:
			return false
		}
	}
}

// ---- controls ---------------------------------------------------------------------------------

// SetSameMillisecond selects the clock mode. false (default) = "advancing": an update whose $set
// carries a datetime value, or that has a $currentDate, always counts as a modification
// (nModified=1), as on a real server when consecutive requests are at least 1 ms apart.
// true = "same millisecond": datetimes are compared literally and $currentDate writes one fixed instant.
func (s *Server) SetSameMillisecond(on bool) {
	s.mu.Lock()
	s.sameMs = on
	s.mu.Unlock()
}

// SetFaultHook installs the fault plan. The hook runs on the connection goroutine right before a
// counted command would be applied (after latency and gate), without any server lock held.
func (s *Server) SetFaultHook(h func(c *Cmd) Fault) {
	s.mu.Lock()
	s.faultHook = h
	s.mu.Unlock()
}

// SetFaultError overrides the command error used by FailBefore / ApplyThenError
// (see DefaultFaultCode / ShutdownFaultCode for the trade-off).
func (s *Server) SetFaultError(code int32, codeName, msg string) {
	s.mu.Lock()
	s.faultCode, s.faultName, s.faultMsg = code, codeName, msg
	s.mu.Unlock()
}

// SetLatencyHook installs a per-command delay applied on arrival (before the gate).
func (s *Server) SetLatencyHook(h func(c *Cmd) time.Duration) {
	s.mu.Lock()
	s.latencyHook = h
	s.mu.Unlock()
}

// SetPartialDocs sets how many documents an insert hit by ApplyPartThenError / ApplyPartThenStop stores.
func (s *Server) SetPartialDocs(n int) {
	s.mu.Lock()
	s.partialDocs = n
	s.mu.Unlock()
}

// StopAfter simulates the death of the server: commands with Seq > seq get their connection closed
// without being applied, until Resume. Handshake and heartbeat commands keep being answered.
func (s *Server) StopAfter(seq int) {
	s.mu.Lock()
	s.stopEnabled = true
	s.stopAfter = seq
	s.mu.Unlock()
}

// Resume cancels StopAfter.
func (s *Server) Resume() {
	s.mu.Lock()
	s.stopEnabled = false
	s.mu.Unlock()
}

// UnknownCommands lists everything the fake was asked to do but does not implement
// (unknown command verbs and unsupported features such as "find:projection").
func (s *Server) UnknownCommands() []string {
	s.mu.Lock()
	defer s.mu.Unlock()
	return append([]string(nil), s.unknown...)
}

// CommandLog returns the counted commands received since the last ResetLog, in arrival order.
func (s *Server) CommandLog() []CmdRecord {
	s.mu.Lock()
	defer s.mu.Unlock()
	out := make([]CmdRecord, len(s.cmdLog))
	for i, r := range s.cmdLog {
		out[i] = *r
	}
	return out
}

// ResetLog clears the command log and restarts Seq numbering at 1. The write history is kept.
func (s *Server) ResetLog() {
	s.mu.Lock()
	s.cmdLog = nil
	s.seq = 0
	s.mu.Unlock()
}

// CommandCount returns the number of counted commands received since the last ResetLog
// (equal to the Seq of the most recent one).
func (s *Server) CommandCount() int {
	s.mu.Lock()
	defer s.mu.Unlock()
	return s.seq
}

// HandshakeCount returns the number of isMaster/hello commands answered so far.
func (s *Server) HandshakeCount() int {
	s.mu.Lock()
	defer s.mu.Unlock()
	return s.handshakes
}

// Busy reports whether a counted command is currently being processed or held at the gate.
func (s *Server) Busy() bool {
	s.mu.Lock()
	defer s.mu.Unlock()
	return s.inflight > 0
}

// History returns every write applied to the namespace, in application order.
func (s *Server) History(ns string) []WriteEvent {
	s.mu.Lock()
	defer s.mu.Unlock()
	src := s.history[ns]
	out := make([]WriteEvent, len(src))
	for i, e := range src {
		out[i] = e
		out[i].Doc = cloneDoc(e.Doc)
	}
	return out
}
