package fakemongo

import (
	"context"
	"errors"
	"fmt"
	"sort"
	"strings"
	"sync"
	"sync/atomic"
	"testing"
	"time"

	"go.mongodb.org/mongo-driver/bson"
	"go.mongodb.org/mongo-driver/bson/primitive"
	"go.mongodb.org/mongo-driver/mongo"
	"go.mongodb.org/mongo-driver/mongo/options"
	"pgregory.net/rapid"
)

const testURIOptions = "authMechanism=PLAIN&retryWrites=false&retryReads=false&heartbeatFrequencyMS=500&serverSelectionTimeoutMS=3000&connectTimeoutMS=1000"

func connect(t testing.TB, s *Server) *mongo.Client {
	t.Helper()
	ctx, cancel := context.WithTimeout(context.Background(), 5*time.Second)
	defer cancel()
	uri := fmt.Sprintf("mongodb://u:p@%s/?%s", s.Addr(), testURIOptions)
	cl, err := mongo.Connect(ctx, options.Client().ApplyURI(uri))
	if err != nil {
		t.Fatalf("connect: %v", err)
	}
	if err := cl.Ping(ctx, nil); err != nil {
		t.Fatalf("ping: %v", err)
	}
	return cl
}

func startPair(t testing.TB) (*Server, *mongo.Client) {
	t.Helper()
	s, err := Start()
	if err != nil {
		t.Fatal(err)
	}
	cl := connect(t, s)
	t.Cleanup(func() {
		ctx, cancel := context.WithTimeout(context.Background(), 2*time.Second)
		defer cancel()
		_ = cl.Disconnect(ctx)
		s.Close()
		if u := s.UnknownCommands(); len(u) > 0 {
			t.Errorf("fake received unknown commands: %v", u)
		}
	})
	return s, cl
}

var bg = context.Background()

// ---------------------------------------------------------------------------------------------
// Model-based test: random command sequences through the real driver against a tiny Go model.
// ---------------------------------------------------------------------------------------------

type modelDoc struct {
	id     string
	fields map[string]int64 // every non-_id field is a number in this test; "b" style strings are encoded as numbers too
}

type model struct {
	docs []*modelDoc // insertion order
}

func (m *model) find(id string) int {
	for i, d := range m.docs {
		if d.id == id {
			return i
		}
	}
	return -1
}

func (m *model) where(field string, pred func(v int64) bool) []int {
	var out []int
	for i, d := range m.docs {
		if v, ok := d.fields[field]; ok && pred(v) {
			out = append(out, i)
		}
	}
	return out
}

func (d *modelDoc) clone() *modelDoc {
	c := &modelDoc{id: d.id, fields: map[string]int64{}}
	for k, v := range d.fields {
		c.fields[k] = v
	}
	return c
}

func (d *modelDoc) String() string {
	keys := make([]string, 0, len(d.fields))
	for k := range d.fields {
		keys = append(keys, k)
	}
	sort.Strings(keys)
	var b strings.Builder
	fmt.Fprintf(&b, "{_id:%s", d.id)
	for _, k := range keys {
		fmt.Fprintf(&b, " %s:%d", k, d.fields[k])
	}
	b.WriteString("}")
	return b.String()
}

func renderBSON(d bson.D) string {
	md := &modelDoc{fields: map[string]int64{}}
	for _, e := range d {
		if e.Key == "_id" {
			md.id = fmt.Sprint(e.Value)
			continue
		}
		n, ok := toInt64(e.Value)
		if !ok {
			return fmt.Sprintf("non-numeric field %s=%v", e.Key, e.Value)
		}
		md.fields[e.Key] = n
	}
	return md.String()
}

func renderModelDocs(m *model, idx []int) []string {
	out := make([]string, len(idx))
	for i, j := range idx {
		out[i] = m.docs[j].String()
	}
	return out
}

func renderCursor(t *rapid.T, cur *mongo.Cursor, err error) []string {
	if err != nil {
		t.Fatalf("find: %v", err)
	}
	var docs []bson.D
	if err := cur.All(bg, &docs); err != nil {
		t.Fatalf("cursor: %v", err)
	}
	out := make([]string, len(docs))
	for i, d := range docs {
		out[i] = renderBSON(d)
	}
	return out
}

func sameStrings(a, b []string) bool {
	if len(a) != len(b) {
		return false
	}
	for i := range a {
		if a[i] != b[i] {
			return false
		}
	}
	return true
}

var modelCollSeq int32

func TestModelBased(t *testing.T) {
	s, cl := startPair(t)
	db := cl.Database("modeldb")
	idGen := rapid.SampledFrom([]string{"a", "b", "c", "d", "e", "f"})
	valGen := rapid.Int32Range(0, 4)

	rapid.Check(t, func(t *rapid.T) {
		name := fmt.Sprintf("c%d", atomic.AddInt32(&modelCollSeq, 1))
		coll := db.Collection(name)
		ns := "modeldb." + name
		m := &model{}
		steps := rapid.IntRange(1, 40).Draw(t, "steps")
		for step := 0; step < steps; step++ {
			switch rapid.IntRange(0, 9).Draw(t, "cmd") {
			case 0: // insertOne
				id, a, b := idGen.Draw(t, "id"), valGen.Draw(t, "a"), valGen.Draw(t, "b")
				_, err := coll.InsertOne(bg, bson.D{{Key: "_id", Value: id}, {Key: "a", Value: a}, {Key: "b", Value: int64(b)}})
				if m.find(id) >= 0 {
					if !mongo.IsDuplicateKeyError(err) {
						t.Fatalf("insert duplicate %s: want duplicate key error, got %v", id, err)
					}
				} else {
					if err != nil {
						t.Fatalf("insert %s: %v", id, err)
					}
					m.docs = append(m.docs, &modelDoc{id: id, fields: map[string]int64{"a": int64(a), "b": int64(b)}})
				}
			case 1: // ordered insertMany
				n := rapid.IntRange(1, 4).Draw(t, "n")
				var docs []interface{}
				wantInserted := 0
				stopped := false
				for i := 0; i < n; i++ {
					id, a := idGen.Draw(t, "id"), valGen.Draw(t, "a")
					docs = append(docs, bson.D{{Key: "_id", Value: id}, {Key: "a", Value: a}})
					if stopped {
						continue
					}
					if m.find(id) >= 0 {
						stopped = true
						continue
					}
					m.docs = append(m.docs, &modelDoc{id: id, fields: map[string]int64{"a": int64(a)}})
					wantInserted++
				}
				res, err := coll.InsertMany(bg, docs)
				if stopped {
					var bwe mongo.BulkWriteException
					if !errors.As(err, &bwe) || len(bwe.WriteErrors) != 1 || bwe.WriteErrors[0].Index != wantInserted || bwe.WriteErrors[0].Code != 11000 {
						t.Fatalf("insertMany: want one duplicate write error at %d, got %v", wantInserted, err)
					}
				} else if err != nil {
					t.Fatalf("insertMany: %v", err)
				}
				if got := len(res.InsertedIDs); got != wantInserted {
					t.Fatalf("insertMany inserted %d, want %d", got, wantInserted)
				}
			case 2: // find by _id
				id := idGen.Draw(t, "id")
				var got bson.D
				err := coll.FindOne(bg, bson.D{{Key: "_id", Value: id}}).Decode(&got)
				if i := m.find(id); i < 0 {
					if err != mongo.ErrNoDocuments {
						t.Fatalf("findOne missing %s: %v", id, err)
					}
				} else if err != nil || renderBSON(got) != m.docs[i].String() {
					t.Fatalf("findOne %s: got %v %v want %v", id, renderBSON(got), err, m.docs[i])
				}
			case 3: // find eq on a field (int64 query value against int32 storage)
				a := valGen.Draw(t, "a")
				cur, err := coll.Find(bg, bson.D{{Key: "a", Value: int64(a)}})
				got := renderCursor(t, cur, err)
				want := renderModelDocs(m, m.where("a", func(v int64) bool { return v == int64(a) }))
				if !sameStrings(got, want) {
					t.Fatalf("find a=%d: got %v want %v", a, got, want)
				}
			case 4: // range find with sort and limit
				lo, hi := valGen.Draw(t, "lo"), valGen.Draw(t, "hi")
				dir := rapid.SampledFrom([]int{1, -1}).Draw(t, "dir")
				limit := rapid.IntRange(0, 3).Draw(t, "limit")
				opt := options.Find().SetSort(bson.D{{Key: "a", Value: dir}})
				if limit > 0 {
					opt.SetLimit(int64(limit))
				}
				cur, err := coll.Find(bg, bson.D{{Key: "a", Value: bson.D{{Key: "$gte", Value: lo}}}, {Key: "a", Value: bson.D{{Key: "$lte", Value: float64(hi)}}}}, opt)
				got := renderCursor(t, cur, err)
				idx := m.where("a", func(v int64) bool { return v >= int64(lo) && v <= int64(hi) })
				sort.SliceStable(idx, func(x, y int) bool {
					if dir > 0 {
						return m.docs[idx[x]].fields["a"] < m.docs[idx[y]].fields["a"]
					}
					return m.docs[idx[x]].fields["a"] > m.docs[idx[y]].fields["a"]
				})
				if limit > 0 && len(idx) > limit {
					idx = idx[:limit]
				}
				if want := renderModelDocs(m, idx); !sameStrings(got, want) {
					t.Fatalf("range find [%d,%d] dir %d limit %d: got %v want %v", lo, hi, dir, limit, got, want)
				}
			case 5: // updateOne by _id with $set, maybe upsert
				id, b := idGen.Draw(t, "id"), valGen.Draw(t, "b")
				upsert := rapid.Bool().Draw(t, "upsert")
				res, err := coll.UpdateOne(bg, bson.D{{Key: "_id", Value: id}}, bson.D{{Key: "$set", Value: bson.D{{Key: "b", Value: int64(b)}}}}, options.Update().SetUpsert(upsert))
				if err != nil {
					t.Fatalf("updateOne: %v", err)
				}
				var wantMatched, wantModified, wantUpserted int64
				if i := m.find(id); i >= 0 {
					wantMatched = 1
					if old, ok := m.docs[i].fields["b"]; !ok || old != int64(b) {
						wantModified = 1
					}
					m.docs[i].fields["b"] = int64(b)
				} else if upsert {
					wantUpserted = 1
					m.docs = append(m.docs, &modelDoc{id: id, fields: map[string]int64{"b": int64(b)}})
				}
				if res.MatchedCount != wantMatched || res.ModifiedCount != wantModified || res.UpsertedCount != wantUpserted {
					t.Fatalf("updateOne %s b=%d upsert=%v: got %+v want matched=%d modified=%d upserted=%d", id, b, upsert, res, wantMatched, wantModified, wantUpserted)
				}
				if wantUpserted == 1 && res.UpsertedID != id {
					t.Fatalf("upsertedID %v want %v", res.UpsertedID, id)
				}
			case 6: // updateOne by field → first match in insertion order; upsert copies the equality field
				a, b := valGen.Draw(t, "a"), valGen.Draw(t, "b")
				res, err := coll.UpdateOne(bg, bson.D{{Key: "a", Value: a}}, bson.D{{Key: "$set", Value: bson.D{{Key: "b", Value: int64(b)}}}})
				if err != nil {
					t.Fatalf("updateOne by a: %v", err)
				}
				idx := m.where("a", func(v int64) bool { return v == int64(a) })
				var wantMatched, wantModified int64
				if len(idx) > 0 {
					wantMatched = 1
					d := m.docs[idx[0]]
					if old, ok := d.fields["b"]; !ok || old != int64(b) {
						wantModified = 1
					}
					d.fields["b"] = int64(b)
				}
				if res.MatchedCount != wantMatched || res.ModifiedCount != wantModified {
					t.Fatalf("updateOne a=%d: got %+v want matched=%d modified=%d", a, res, wantMatched, wantModified)
				}
			case 7: // deleteOne by _id
				id := idGen.Draw(t, "id")
				res, err := coll.DeleteOne(bg, bson.D{{Key: "_id", Value: id}})
				if err != nil {
					t.Fatalf("deleteOne: %v", err)
				}
				var want int64
				if i := m.find(id); i >= 0 {
					want = 1
					m.docs = append(m.docs[:i:i], m.docs[i+1:]...)
				}
				if res.DeletedCount != want {
					t.Fatalf("deleteOne %s: deleted %d want %d", id, res.DeletedCount, want)
				}
			case 8: // deleteMany by field
				a := valGen.Draw(t, "a")
				res, err := coll.DeleteMany(bg, bson.D{{Key: "a", Value: a}})
				if err != nil {
					t.Fatalf("deleteMany: %v", err)
				}
				var kept []*modelDoc
				var want int64
				for _, d := range m.docs {
					if v, ok := d.fields["a"]; ok && v == int64(a) {
						want++
					} else {
						kept = append(kept, d)
					}
				}
				m.docs = kept
				if res.DeletedCount != want {
					t.Fatalf("deleteMany a=%d: deleted %d want %d", a, res.DeletedCount, want)
				}
			case 9: // findOneAndUpdate $inc, maybe upsert, maybe return new
				id := idGen.Draw(t, "id")
				k := rapid.Int32Range(1, 3).Draw(t, "k")
				upsert := rapid.Bool().Draw(t, "upsert")
				after := rapid.Bool().Draw(t, "after")
				opt := options.FindOneAndUpdate().SetUpsert(upsert)
				if after {
					opt.SetReturnDocument(options.After)
				}
				var got bson.D
				err := coll.FindOneAndUpdate(bg, bson.D{{Key: "_id", Value: id}}, bson.D{{Key: "$inc", Value: bson.D{{Key: "n", Value: k}}}}, opt).Decode(&got)
				i := m.find(id)
				var want *modelDoc
				switch {
				case i >= 0:
					pre := m.docs[i].clone()
					m.docs[i].fields["n"] += int64(k)
					want = pre
					if after {
						want = m.docs[i]
					}
				case upsert:
					m.docs = append(m.docs, &modelDoc{id: id, fields: map[string]int64{"n": int64(k)}})
					if after {
						want = m.docs[len(m.docs)-1]
					}
				}
				if want == nil {
					if err != mongo.ErrNoDocuments {
						t.Fatalf("findOneAndUpdate %s: want ErrNoDocuments, got %v / %v", id, renderBSON(got), err)
					}
				} else if err != nil || renderBSON(got) != want.String() {
					t.Fatalf("findOneAndUpdate %s: got %v (%v) want %v", id, renderBSON(got), err, want)
				}
			}
		}
		// final state: fake's dump equals the model, in insertion order
		docs := s.Dump()[ns]
		got := make([]string, len(docs))
		for i, d := range docs {
			got[i] = renderBSON(d)
		}
		all := make([]int, len(m.docs))
		for i := range all {
			all[i] = i
		}
		if want := renderModelDocs(m, all); !sameStrings(got, want) {
			t.Fatalf("final dump: got %v want %v", got, want)
		}
	})
}

// ---------------------------------------------------------------------------------------------
// Scripted tests
// ---------------------------------------------------------------------------------------------

func TestInsertManyOrderedStopsAtDuplicate(t *testing.T) {
	s, cl := startPair(t)
	coll := cl.Database("d").Collection("c")
	if _, err := coll.InsertOne(bg, bson.D{{Key: "_id", Value: "k2"}, {Key: "v", Value: 0}}); err != nil {
		t.Fatal(err)
	}
	res, err := coll.InsertMany(bg, []interface{}{
		bson.D{{Key: "_id", Value: "k1"}},
		bson.D{{Key: "_id", Value: "k2"}},
		bson.D{{Key: "_id", Value: "k3"}},
	})
	var bwe mongo.BulkWriteException
	if !errors.As(err, &bwe) || len(bwe.WriteErrors) != 1 || bwe.WriteErrors[0].Index != 1 || bwe.WriteErrors[0].Code != 11000 {
		t.Fatalf("want one E11000 at index 1, got %v", err)
	}
	if !strings.Contains(bwe.WriteErrors[0].Message, "E11000 duplicate key error") {
		t.Fatalf("message: %s", bwe.WriteErrors[0].Message)
	}
	if len(res.InsertedIDs) != 1 {
		t.Fatalf("InsertedIDs=%v", res.InsertedIDs)
	}
	if n := len(s.Dump()["d.c"]); n != 2 {
		t.Fatalf("docs=%d want 2 (k2,k1); k3 must not be inserted", n)
	}
	// auto-generated _id
	r1, err := coll.InsertOne(bg, bson.D{{Key: "x", Value: 1}})
	if err != nil {
		t.Fatal(err)
	}
	if _, ok := r1.InsertedID.(primitive.ObjectID); !ok {
		t.Fatalf("InsertedID %T", r1.InsertedID)
	}
	// unordered continues
	_, err = coll.InsertMany(bg, []interface{}{
		bson.D{{Key: "_id", Value: "k1"}}, bson.D{{Key: "_id", Value: "k4"}},
	}, options.InsertMany().SetOrdered(false))
	if !errors.As(err, &bwe) || len(bwe.WriteErrors) != 1 || bwe.WriteErrors[0].Index != 0 {
		t.Fatalf("unordered: %v", err)
	}
	if n := len(s.Dump()["d.c"]); n != 4 {
		t.Fatalf("docs=%d want 4", n)
	}
}

func TestReplaceOneUpsert(t *testing.T) {
	s, cl := startPair(t)
	coll := cl.Database("d").Collection("real")
	res, err := coll.ReplaceOne(bg, bson.D{{Key: "_id", Value: "key"}}, bson.M{"counter": int32(1), "_orda_ver_": uint64(1)}, options.Replace().SetUpsert(true))
	if err != nil {
		t.Fatal(err)
	}
	if res.UpsertedCount != 1 || res.MatchedCount != 0 || res.ModifiedCount != 0 || res.UpsertedID != "key" {
		t.Fatalf("first replace: %+v", res)
	}
	res, err = coll.ReplaceOne(bg, bson.D{{Key: "_id", Value: "key"}}, bson.M{"counter": int32(5), "_orda_ver_": uint64(2)}, options.Replace().SetUpsert(true))
	if err != nil {
		t.Fatal(err)
	}
	if res.UpsertedCount != 0 || res.MatchedCount != 1 || res.ModifiedCount != 1 {
		t.Fatalf("second replace: %+v", res)
	}
	res, err = coll.ReplaceOne(bg, bson.D{{Key: "_id", Value: "key"}}, bson.D{{Key: "counter", Value: int32(5)}, {Key: "_orda_ver_", Value: int64(2)}}, options.Replace().SetUpsert(true))
	if err != nil {
		t.Fatal(err)
	}
	docs := s.Dump()["d.real"]
	if len(docs) != 1 || docs[0][0].Key != "_id" || docs[0][0].Value != "key" {
		t.Fatalf("dump: %v", docs)
	}
	var got struct {
		ID      string `bson:"_id"`
		Counter int32  `bson:"counter"`
		Ver     int64  `bson:"_orda_ver_"`
	}
	if err := coll.FindOne(bg, bson.D{{Key: "_id", Value: "key"}}).Decode(&got); err != nil || got.Counter != 5 || got.Ver != 2 {
		t.Fatalf("got %+v %v", got, err)
	}
	// replacement may not change _id
	_, err = coll.ReplaceOne(bg, bson.D{{Key: "_id", Value: "key"}}, bson.D{{Key: "_id", Value: "other"}, {Key: "counter", Value: 1}})
	var we mongo.WriteException
	if !errors.As(err, &we) || len(we.WriteErrors) != 1 || we.WriteErrors[0].Code != 66 {
		t.Fatalf("want ImmutableField, got %v", err)
	}
	h := s.History("d.real")
	if len(h) < 2 || h[0].Verb != "upsert" || h[1].Verb != "replace" {
		t.Fatalf("history: %+v", h)
	}
	for i := 1; i < len(h); i++ {
		if h[i].Seq <= h[i-1].Seq {
			t.Fatalf("history seq not increasing: %+v", h)
		}
	}
}

type clientDoc struct {
	Alias     string    `bson:"alias"`
	Num       int32     `bson:"colNum"`
	CreatedAt time.Time `bson:"createdAt"`
}

type nested struct {
	Begin uint64 `bson:"begin"`
	End   uint64 `bson:"end"`
}

type bigDoc struct {
	Key       string             `bson:"key"`
	Num       int32              `bson:"colNum"`
	Sseq      nested             `bson:"sseq"`
	Visible   bool               `bson:"visible"`
	UpdatedAt time.Time          `bson:"updatedAt"`
	Clients   map[string]*nested `bson:"rwClients"`
}

func TestUpdateOneCountsAndClockModes(t *testing.T) {
	s, cl := startPair(t)
	coll := cl.Database("d").Collection("clients")
	up := options.Update().SetUpsert(true)
	fixed := time.Date(2021, 5, 5, 5, 5, 5, 0, time.UTC)

	// upsert: equality fields of the filter are copied
	res, err := coll.UpdateOne(bg, bson.D{{Key: "_id", Value: "c1"}, {Key: "kind", Value: "x"}}, bson.D{{Key: "$set", Value: bson.D{{Key: "alias", Value: "a"}}}}, up)
	if err != nil || res.UpsertedCount != 1 || res.MatchedCount != 0 || res.ModifiedCount != 0 || res.UpsertedID != "c1" {
		t.Fatalf("upsert: %+v %v", res, err)
	}
	d := s.Dump()["d.clients"][0]
	if v, _ := lookup(d, "kind"); v != "x" {
		t.Fatalf("equality field not copied: %v", d)
	}
	// unchanged $set without dates: matched 1, modified 0 in both modes
	res, err = coll.UpdateOne(bg, bson.D{{Key: "_id", Value: "c1"}}, bson.D{{Key: "$set", Value: bson.D{{Key: "alias", Value: "a"}}}}, up)
	if err != nil || res.MatchedCount != 1 || res.ModifiedCount != 0 || res.UpsertedCount != 0 {
		t.Fatalf("noop: %+v %v", res, err)
	}
	// changed value
	res, err = coll.UpdateOne(bg, bson.D{{Key: "_id", Value: "c1"}}, bson.D{{Key: "$set", Value: bson.D{{Key: "alias", Value: "b"}}}}, up)
	if err != nil || res.MatchedCount != 1 || res.ModifiedCount != 1 {
		t.Fatalf("change: %+v %v", res, err)
	}
	// no match, no upsert
	res, err = coll.UpdateOne(bg, bson.D{{Key: "_id", Value: "zz"}}, bson.D{{Key: "$set", Value: bson.D{{Key: "alias", Value: "b"}}}})
	if err != nil || res.MatchedCount != 0 || res.ModifiedCount != 0 || res.UpsertedCount != 0 {
		t.Fatalf("nomatch: %+v %v", res, err)
	}

	// the shape orda uses for clients: $set with a datetime + $currentDate
	ordaUpdate := func() bson.D {
		return bson.D{
			{Key: "$set", Value: bson.D{{Key: "alias", Value: "b"}, {Key: "createdAt", Value: fixed}}},
			{Key: "$currentDate", Value: bson.D{{Key: "updatedAt", Value: true}}},
		}
	}
	for i := 0; i < 3; i++ { // advancing: always modified, however fast the calls follow each other
		res, err = coll.UpdateOne(bg, bson.D{{Key: "_id", Value: "c1"}}, ordaUpdate(), up)
		if err != nil || res.MatchedCount != 1 || res.ModifiedCount != 1 {
			t.Fatalf("advancing %d: %+v %v", i, res, err)
		}
	}
	// $set of a struct with many fields, nested documents and a datetime: same rule
	big := bigDoc{Key: "k", Num: 1, Sseq: nested{1, 2}, Visible: true, UpdatedAt: fixed, Clients: map[string]*nested{"cu": {3, 4}}}
	res, err = coll.UpdateOne(bg, bson.D{{Key: "_id", Value: "duid"}}, bson.D{{Key: "$set", Value: big}}, up)
	if err != nil || res.UpsertedCount != 1 {
		t.Fatalf("big upsert: %+v %v", res, err)
	}
	res, err = coll.UpdateOne(bg, bson.D{{Key: "_id", Value: "duid"}}, bson.D{{Key: "$set", Value: big}}, up)
	if err != nil || res.MatchedCount != 1 || res.ModifiedCount != 1 {
		t.Fatalf("big advancing: %+v %v", res, err)
	}
	var back struct {
		ID  string `bson:"_id"`
		Big bigDoc `bson:",inline"`
	}
	if err := coll.FindOne(bg, bson.D{{Key: "_id", Value: "duid"}}).Decode(&back); err != nil || back.Big.Key != "k" || back.Big.Sseq.End != 2 || back.Big.Clients["cu"].Begin != 3 || !back.Big.UpdatedAt.Equal(fixed) {
		t.Fatalf("big roundtrip: %+v %v", back, err)
	}

	s.SetSameMillisecond(true)
	res, err = coll.UpdateOne(bg, bson.D{{Key: "_id", Value: "duid"}}, bson.D{{Key: "$set", Value: big}}, up)
	if err != nil || res.MatchedCount != 1 || res.ModifiedCount != 0 {
		t.Fatalf("big same-ms: %+v %v", res, err)
	}
	// first same-ms update writes the fixed instant (modified), the following ones are no-ops
	res, err = coll.UpdateOne(bg, bson.D{{Key: "_id", Value: "c1"}}, ordaUpdate(), up)
	if err != nil || res.MatchedCount != 1 {
		t.Fatalf("same-ms first: %+v %v", res, err)
	}
	for i := 0; i < 2; i++ {
		res, err = coll.UpdateOne(bg, bson.D{{Key: "_id", Value: "c1"}}, ordaUpdate(), up)
		if err != nil || res.MatchedCount != 1 || res.ModifiedCount != 0 || res.UpsertedCount != 0 {
			t.Fatalf("same-ms %d: %+v %v", i, res, err)
		}
	}
	s.SetSameMillisecond(false)
	res, err = coll.UpdateOne(bg, bson.D{{Key: "_id", Value: "c1"}}, ordaUpdate(), up)
	if err != nil || res.ModifiedCount != 1 {
		t.Fatalf("advancing again: %+v %v", res, err)
	}

	// $inc through update and type mismatch error
	if _, err = coll.UpdateOne(bg, bson.D{{Key: "_id", Value: "c1"}}, bson.D{{Key: "$inc", Value: bson.D{{Key: "alias", Value: 1}}}}); err == nil {
		t.Fatalf("want type mismatch")
	}
	// unknown modifier is an error, not silently ignored
	if _, err = coll.UpdateOne(bg, bson.D{{Key: "_id", Value: "c1"}}, bson.D{{Key: "$push", Value: bson.D{{Key: "l", Value: 1}}}}); err == nil {
		t.Fatalf("want unknown modifier error")
	}
}

func TestFindOneSortAndOperators(t *testing.T) {
	_, cl := startPair(t)
	coll := cl.Database("d").Collection("snaps")
	for i, sseq := range []uint64{3, 10, 7} {
		_, err := coll.InsertOne(bg, bson.M{"_id": fmt.Sprintf("duid:%d", sseq), "colNum": int32(1), "duid": "duid", "sseq": sseq, "i": i})
		if err != nil {
			t.Fatal(err)
		}
	}
	_, _ = coll.InsertOne(bg, bson.M{"_id": "other:99", "colNum": int32(2), "duid": "other", "sseq": uint64(99)})
	var got struct {
		ID   string `bson:"_id"`
		Sseq uint64 `bson:"sseq"`
	}
	err := coll.FindOne(bg, bson.D{{Key: "colNum", Value: int32(1)}, {Key: "duid", Value: "duid"}}, options.FindOne().SetSort(bson.D{{Key: "sseq", Value: -1}})).Decode(&got)
	if err != nil || got.Sseq != 10 {
		t.Fatalf("sort -1: %+v %v", got, err)
	}
	err = coll.FindOne(bg, bson.D{{Key: "duid", Value: "duid"}}, options.FindOne().SetSort(bson.D{{Key: "sseq", Value: 1}})).Decode(&got)
	if err != nil || got.Sseq != 3 {
		t.Fatalf("sort 1: %+v %v", got, err)
	}
	// the filter orda's GetOperations builds: duid eq, sseq $gte (uint64 → int64) with sort
	cur, err := coll.Find(bg, bson.D{{Key: "duid", Value: "duid"}, {Key: "sseq", Value: bson.D{{Key: "$gte", Value: uint64(4)}}}}, options.Find().SetSort(bson.D{{Key: "sseq", Value: 1}}))
	if err != nil {
		t.Fatal(err)
	}
	var rows []struct {
		Sseq uint64 `bson:"sseq"`
	}
	if err := cur.All(bg, &rows); err != nil || len(rows) != 2 || rows[0].Sseq != 7 || rows[1].Sseq != 10 {
		t.Fatalf("gte: %+v %v", rows, err)
	}
	cur, err = coll.Find(bg, bson.D{{Key: "sseq", Value: bson.D{{Key: "$gte", Value: 4}}}, {Key: "sseq", Value: bson.D{{Key: "$lte", Value: 9.5}}}})
	if err != nil {
		t.Fatal(err)
	}
	if err := cur.All(bg, &rows); err != nil || len(rows) != 1 || rows[0].Sseq != 7 {
		t.Fatalf("gte+lte: %+v %v", rows, err)
	}
	cur, err = coll.Find(bg, bson.D{{Key: "i", Value: bson.D{{Key: "$exists", Value: true}}}})
	if err != nil {
		t.Fatal(err)
	}
	if err := cur.All(bg, &rows); err != nil || len(rows) != 3 {
		t.Fatalf("exists: %+v %v", rows, err)
	}
	cur, err = coll.Find(bg, bson.D{{Key: "i", Value: bson.D{{Key: "$exists", Value: false}}}})
	if err != nil {
		t.Fatal(err)
	}
	if err := cur.All(bg, &rows); err != nil || len(rows) != 1 {
		t.Fatalf("not exists: %+v %v", rows, err)
	}
	if err := coll.FindOne(bg, bson.D{{Key: "_id", Value: "nope"}}).Err(); err != mongo.ErrNoDocuments {
		t.Fatalf("want ErrNoDocuments, got %v", err)
	}
}

func TestListCollectionsAndDrop(t *testing.T) {
	s, cl := startPair(t)
	db := cl.Database("cat")
	for _, n := range []string{"-_-Clients", "hello", "world"} {
		if _, err := db.Collection(n).InsertOne(bg, bson.D{{Key: "_id", Value: 1}}); err != nil {
			t.Fatal(err)
		}
	}
	if _, err := cl.Database("otherdb").Collection("zzz").InsertOne(bg, bson.D{}); err != nil {
		t.Fatal(err)
	}
	names, err := db.ListCollectionNames(bg, bson.D{})
	if err != nil || strings.Join(names, ",") != "-_-Clients,hello,world" {
		t.Fatalf("names %v %v", names, err)
	}
	names, err = db.ListCollectionNames(bg, bson.D{{Key: "name", Value: "hello"}})
	if err != nil || len(names) != 1 || names[0] != "hello" {
		t.Fatalf("filtered %v %v", names, err)
	}
	names, err = db.ListCollectionNames(bg, bson.D{{Key: "name", Value: "nope"}})
	if err != nil || len(names) != 0 {
		t.Fatalf("filtered none %v %v", names, err)
	}
	// deleting the last document keeps the collection (orda's createCollection relies on it)
	if _, err := db.Collection("hello").DeleteOne(bg, bson.D{{Key: "_id", Value: 1}}); err != nil {
		t.Fatal(err)
	}
	names, _ = db.ListCollectionNames(bg, bson.D{{Key: "name", Value: "hello"}})
	if len(names) != 1 {
		t.Fatalf("collection vanished after last delete")
	}
	idx, err := db.Collection("hello").Indexes().CreateMany(bg, []mongo.IndexModel{
		{Keys: bson.D{{Key: "colNum", Value: 1}}}, {Keys: bson.D{{Key: "duid", Value: 1}, {Key: "sseq", Value: -1}}},
	})
	if err != nil || len(idx) != 2 || len(s.Indexes("cat.hello")) != 2 {
		t.Fatalf("createIndexes %v %v", idx, err)
	}
	if err := db.Collection("hello").Drop(bg); err != nil {
		t.Fatal(err)
	}
	if err := db.Collection("never-existed").Drop(bg); err != nil {
		t.Fatalf("drop of missing collection must be swallowed by the driver: %v", err)
	}
	names, _ = db.ListCollectionNames(bg, bson.D{})
	if strings.Join(names, ",") != "-_-Clients,world" {
		t.Fatalf("after drop %v", names)
	}
	if _, ok := s.Dump()["cat.hello"]; ok {
		t.Fatalf("dump still has dropped collection")
	}
}

func TestFindAndModifyCounter(t *testing.T) {
	_, cl := startPair(t)
	coll := cl.Database("d").Collection("-_-ColNumGenerator")
	upd := bson.M{"$inc": bson.M{"num": 1}}
	opts := options.FindOneAndUpdate().SetUpsert(true)
	var doc struct {
		ID  string `bson:"_id"`
		Num int32  `bson:"num"`
	}
	// first call upserts → value null → ErrNoDocuments (pre-image semantics)
	if err := coll.FindOneAndUpdate(bg, bson.D{{Key: "_id", Value: "collectionID"}}, upd, opts).Decode(&doc); err != mongo.ErrNoDocuments {
		t.Fatalf("first: %v %+v", err, doc)
	}
	for want := int32(1); want <= 3; want++ {
		if err := coll.FindOneAndUpdate(bg, bson.D{{Key: "_id", Value: "collectionID"}}, upd, opts).Decode(&doc); err != nil || doc.Num != want {
			t.Fatalf("pre-image want %d: %+v %v", want, doc, err)
		}
	}
	if err := coll.FindOneAndUpdate(bg, bson.D{{Key: "_id", Value: "collectionID"}}, upd, options.FindOneAndUpdate().SetReturnDocument(options.After)).Decode(&doc); err != nil || doc.Num != 5 {
		t.Fatalf("post-image: %+v %v", doc, err)
	}
	if err := coll.FindOneAndDelete(bg, bson.D{{Key: "_id", Value: "collectionID"}}).Decode(&doc); err != nil || doc.Num != 5 {
		t.Fatalf("findOneAndDelete: %+v %v", doc, err)
	}
}

func TestSessionsAndTransactions(t *testing.T) {
	s, cl := startPair(t)
	coll := cl.Database("d").Collection("tx")

	// exactly what orda's doTransaction does: the body runs on the non-session context
	session, err := cl.StartSession()
	if err != nil {
		t.Fatal(err)
	}
	if err := session.StartTransaction(); err != nil {
		t.Fatal(err)
	}
	err = mongo.WithSession(bg, session, func(sc mongo.SessionContext) error {
		if _, err := coll.InsertOne(bg, bson.D{{Key: "_id", Value: "outside"}}); err != nil {
			return err
		}
		return session.CommitTransaction(sc)
	})
	if err != nil {
		t.Fatalf("orda-style transaction: %v", err)
	}
	session.EndSession(bg)

	// a real transaction: commands carry lsid / txnNumber / startTransaction / autocommit
	s.ResetLog()
	session, err = cl.StartSession()
	if err != nil {
		t.Fatal(err)
	}
	_, err = session.WithTransaction(bg, func(sc mongo.SessionContext) (interface{}, error) {
		if _, err := coll.InsertOne(sc, bson.D{{Key: "_id", Value: "inside"}}); err != nil {
			return nil, err
		}
		_, err := coll.UpdateOne(sc, bson.D{{Key: "_id", Value: "inside"}}, bson.D{{Key: "$set", Value: bson.D{{Key: "v", Value: 1}}}})
		return nil, err
	})
	if err != nil {
		t.Fatalf("WithTransaction: %v", err)
	}
	session.EndSession(bg)
	var verbs []string
	for _, r := range s.CommandLog() {
		verbs = append(verbs, r.Verb)
	}
	if strings.Join(verbs, ",") != "insert,update,commitTransaction" {
		t.Fatalf("command log: %v", verbs)
	}
	// abort is accepted as a no-op (the fake has no rollback, like orda's usage has no transaction)
	session, _ = cl.StartSession()
	_ = session.StartTransaction()
	_ = mongo.WithSession(bg, session, func(sc mongo.SessionContext) error {
		_, _ = coll.InsertOne(sc, bson.D{{Key: "_id", Value: "aborted"}})
		return session.AbortTransaction(sc)
	})
	session.EndSession(bg)
	if n := len(s.Dump()["d.tx"]); n != 3 {
		t.Fatalf("docs=%d want 3", n)
	}
}

func TestFaults(t *testing.T) {
	s, cl := startPair(t)
	coll := cl.Database("d").Collection("f")
	var target atomic.Value // Fault
	target.Store(None)
	var seen []string
	var mu sync.Mutex
	s.SetFaultHook(func(c *Cmd) Fault {
		mu.Lock()
		seen = append(seen, c.Verb+" "+c.NS)
		mu.Unlock()
		if c.Verb == "insert" {
			return target.Load().(Fault)
		}
		return None
	})
	count := func() int { return len(s.Dump()["d.f"]) }

	// FailBefore: command error, nothing applied
	target.Store(FailBefore)
	_, err := coll.InsertOne(bg, bson.D{{Key: "_id", Value: 1}})
	var ce mongo.CommandError
	if !errors.As(err, &ce) || ce.Code != DefaultFaultCode || !strings.Contains(ce.Message, "injected") {
		t.Fatalf("FailBefore: %v", err)
	}
	if count() != 0 {
		t.Fatalf("FailBefore applied the insert")
	}

	// ApplyThenError: applied, caller sees a plain command error
	target.Store(ApplyThenError)
	t0 := time.Now()
	_, err = coll.InsertOne(bg, bson.D{{Key: "_id", Value: 2}})
	if !errors.As(err, &ce) || ce.Code != DefaultFaultCode {
		t.Fatalf("ApplyThenError: %v", err)
	}
	if count() != 1 {
		t.Fatalf("ApplyThenError did not apply")
	}
	target.Store(None)
	if _, err = coll.InsertOne(bg, bson.D{{Key: "_id", Value: 3}}); err != nil {
		t.Fatalf("insert after faults: %v", err)
	}
	cheap := time.Since(t0)
	t.Logf("error reply with default code %d + next command: %v", DefaultFaultCode, cheap)
	if cheap > 300*time.Millisecond {
		t.Errorf("the default injected error must not make the driver re-discover the server (took %v)", cheap)
	}

	// the realistic "node is shutting down" code: same outcome for the caller, but the driver
	// marks the server unknown and needs a heartbeat before the next command
	s.SetFaultError(ShutdownFaultCode, ShutdownFaultCodeName, DefaultFaultMessage)
	target.Store(FailBefore)
	t0 = time.Now()
	_, err = coll.InsertOne(bg, bson.D{{Key: "_id", Value: 30}})
	if !errors.As(err, &ce) || ce.Code != 11600 {
		t.Fatalf("custom fault error: %v", err)
	}
	target.Store(None)
	if _, err = coll.InsertOne(bg, bson.D{{Key: "_id", Value: 31}}); err != nil {
		t.Fatal(err)
	}
	t.Logf("error reply with code 11600 + next command: %v", time.Since(t0))
	s.SetFaultError(DefaultFaultCode, DefaultFaultCodeName, DefaultFaultMessage)

	// ApplyThenDrop: applied, connection closed
	target.Store(ApplyThenDrop)
	_, err = coll.InsertOne(bg, bson.D{{Key: "_id", Value: 4}})
	if !mongo.IsNetworkError(err) {
		t.Fatalf("ApplyThenDrop: want a network error, got %v", err)
	}
	if count() != 4 {
		t.Fatalf("ApplyThenDrop did not apply, count=%d", count())
	}
	// DropBefore: not applied, connection closed
	target.Store(DropBefore)
	t0 = time.Now()
	_, err = coll.InsertOne(bg, bson.D{{Key: "_id", Value: 5}})
	if !mongo.IsNetworkError(err) {
		t.Fatalf("DropBefore: want a network error, got %v", err)
	}
	if count() != 4 {
		t.Fatalf("DropBefore applied, count=%d", count())
	}
	target.Store(None)
	if _, err = coll.InsertOne(bg, bson.D{{Key: "_id", Value: 5}}); err != nil {
		t.Fatalf("insert after drops: %v", err)
	}
	t.Logf("dropped connection + next command: %v", time.Since(t0))
	mu.Lock()
	defer mu.Unlock()
	for _, v := range seen {
		if !strings.HasPrefix(v, "insert d.f") {
			t.Fatalf("hook saw %q; heartbeats and handshakes must not reach the hook", v)
		}
	}
	outcomes := map[string]int{}
	for _, r := range s.CommandLog() {
		outcomes[r.Outcome]++
	}
	for _, o := range []string{"FailBefore", "ApplyThenError", "ApplyThenDrop", "DropBefore", "ok"} {
		if outcomes[o] == 0 {
			t.Fatalf("command log lacks outcome %s: %v", o, outcomes)
		}
	}
}

func TestStopAfterAndResume(t *testing.T) {
	s, cl := startPair(t)
	coll := cl.Database("d").Collection("s")
	s.ResetLog()
	s.StopAfter(2)
	for i := 1; i <= 2; i++ {
		if _, err := coll.InsertOne(bg, bson.D{{Key: "_id", Value: i}}); err != nil {
			t.Fatalf("insert %d before the stop point: %v", i, err)
		}
	}
	for i := 3; i <= 4; i++ {
		ctx, cancel := context.WithTimeout(bg, 5*time.Second)
		_, err := coll.InsertOne(ctx, bson.D{{Key: "_id", Value: i}})
		cancel()
		if err == nil {
			t.Fatalf("insert %d after the stop point succeeded", i)
		}
	}
	if n := len(s.Dump()["d.s"]); n != 2 {
		t.Fatalf("docs=%d want 2", n)
	}
	s.Resume()
	if _, err := coll.InsertOne(bg, bson.D{{Key: "_id", Value: 9}}); err != nil {
		t.Fatalf("insert after Resume: %v", err)
	}
	if got := s.CommandCount(); got != 5 {
		t.Fatalf("CommandCount=%d want 5", got)
	}
	log := s.CommandLog()
	if log[2].Outcome != "stopped" || log[3].Outcome != "stopped" || log[4].Outcome != "ok" {
		t.Fatalf("log: %+v", log)
	}
}

func TestGate(t *testing.T) {
	s, cl := startPair(t)
	coll := cl.Database("d").Collection("g")
	s.EnableGate(func(c *Cmd) bool { return c.Verb == "insert" })
	// not matching the filter → passes
	if err := coll.FindOne(bg, bson.D{}).Err(); err != mongo.ErrNoDocuments {
		t.Fatal(err)
	}
	var wg sync.WaitGroup
	errs := make([]error, 3)
	for i := 0; i < 3; i++ {
		wg.Add(1)
		go func(i int) {
			defer wg.Done()
			_, errs[i] = coll.InsertOne(bg, bson.D{{Key: "_id", Value: fmt.Sprintf("g%d", i)}})
		}(i)
		if !s.WaitPending(i+1, 5*time.Second) {
			t.Fatalf("command %d did not reach the gate", i)
		}
	}
	if s.WaitPending(4, 50*time.Millisecond) {
		t.Fatalf("WaitPending(4) must time out")
	}
	if !s.Busy() {
		t.Fatalf("Busy() must be true while commands are gated")
	}
	p := s.Pending()
	if len(p) != 3 || p[0].Seq >= p[1].Seq || p[1].Seq >= p[2].Seq {
		t.Fatalf("pending: %v", p)
	}
	if len(s.Dump()["d.g"]) != 0 {
		t.Fatalf("gated commands were applied")
	}
	idOf := func(c *Cmd) string {
		docs, _ := getDocs(c.Body, "documents")
		id, _ := lookup(docs[0], "_id")
		return id.(string)
	}
	// release in the order 3rd, 1st; the 2nd by DisableGate
	wantOrder := []string{idOf(p[2]), idOf(p[0]), idOf(p[1])}
	waitDocs := func(n int) {
		deadline := time.Now().Add(5 * time.Second)
		for len(s.Dump()["d.g"]) < n {
			if time.Now().After(deadline) {
				t.Fatalf("timeout waiting for %d docs", n)
			}
			time.Sleep(time.Millisecond)
		}
	}
	if !s.Release(p[2].Seq) || s.Release(p[2].Seq) {
		t.Fatalf("Release must succeed exactly once")
	}
	waitDocs(1)
	s.Release(p[0].Seq)
	waitDocs(2)
	if got := len(s.Pending()); got != 1 {
		t.Fatalf("pending=%d want 1", got)
	}
	s.DisableGate()
	wg.Wait()
	for i, err := range errs {
		if err != nil {
			t.Fatalf("insert %d: %v", i, err)
		}
	}
	var got []string
	for _, e := range s.History("d.g") {
		id, _ := lookup(e.Doc, "_id")
		got = append(got, id.(string))
	}
	if strings.Join(got, ",") != strings.Join(wantOrder, ",") {
		t.Fatalf("apply order %v want %v", got, wantOrder)
	}
	if s.Busy() {
		t.Fatalf("Busy() after all commands finished")
	}
}

func TestLatencyHookAndCommandLog(t *testing.T) {
	s, cl := startPair(t)
	coll := cl.Database("d").Collection("l")
	s.SetLatencyHook(func(c *Cmd) time.Duration {
		if c.Verb == "find" {
			return 30 * time.Millisecond
		}
		return 0
	})
	s.ResetLog()
	_, _ = coll.InsertOne(bg, bson.D{{Key: "_id", Value: "x"}})
	t0 := time.Now()
	_ = coll.FindOne(bg, bson.D{{Key: "_id", Value: "x"}}).Err()
	if d := time.Since(t0); d < 30*time.Millisecond {
		t.Fatalf("latency hook not applied: %v", d)
	}
	log := s.CommandLog()
	if len(log) != 2 || log[0].Seq != 1 || log[0].Verb != "insert" || log[0].NS != "d.l" || log[1].Verb != "find" ||
		!strings.Contains(log[1].Summary, `"_id":"x"`) || log[1].End.Sub(log[1].Start) < 30*time.Millisecond || log[0].ConnID == 0 {
		t.Fatalf("log: %+v", log)
	}
	if s.CommandCount() != 2 {
		t.Fatalf("count %d", s.CommandCount())
	}
}

func TestUnknownCommandIsCounted(t *testing.T) {
	s, err := Start()
	if err != nil {
		t.Fatal(err)
	}
	defer s.Close()
	cl := connect(t, s)
	defer func() { _ = cl.Disconnect(bg) }()
	err = cl.Database("d").RunCommand(bg, bson.D{{Key: "collStats", Value: "x"}}).Err()
	var ce mongo.CommandError
	if !errors.As(err, &ce) || ce.Code != 59 {
		t.Fatalf("want code 59, got %v", err)
	}
	if _, err := cl.Database("d").Collection("c").CountDocuments(bg, bson.D{}); err == nil {
		t.Fatalf("aggregate is not implemented and must fail loudly")
	}
	u := s.UnknownCommands()
	if len(u) != 2 || u[0] != "collStats" || u[1] != "aggregate" {
		t.Fatalf("unknown: %v", u)
	}
}

func TestDumpCanonicalIgnoresDatesAndOrder(t *testing.T) {
	s, cl := startPair(t)
	coll := cl.Database("d").Collection("c")
	_, _ = coll.InsertOne(bg, bson.D{{Key: "_id", Value: "b"}, {Key: "at", Value: time.Now()}, {Key: "sub", Value: bson.D{{Key: "at", Value: time.Now()}, {Key: "l", Value: bson.A{time.Now(), 1}}}}})
	_, _ = coll.InsertOne(bg, bson.D{{Key: "_id", Value: "a"}, {Key: "bin", Value: []byte{1, 2}}})
	c1 := s.DumpCanonical()
	if !strings.HasPrefix(c1, "== d.c (2)\n{\"_id\":\"a\"") {
		t.Fatalf("canonical:\n%s", c1)
	}
	time.Sleep(2 * time.Millisecond)
	_, _ = coll.DeleteOne(bg, bson.D{{Key: "_id", Value: "b"}})
	if s.DumpCanonical() == c1 {
		t.Fatalf("canonical dump did not notice a delete")
	}
	_, _ = coll.InsertOne(bg, bson.D{{Key: "_id", Value: "b"}, {Key: "at", Value: time.Now()}, {Key: "sub", Value: bson.D{{Key: "at", Value: time.Now()}, {Key: "l", Value: bson.A{time.Now(), 1}}}}})
	if c2 := s.DumpCanonical(); c2 != c1 {
		t.Fatalf("canonical dumps differ:\n%s\n---\n%s", c1, c2)
	}
	// Dump is a deep copy
	d := s.Dump()
	d["d.c"][0][0].Value = "mutated"
	if s.DumpCanonical() != c1 {
		t.Fatalf("Dump is not a deep copy")
	}
}

func TestManyConcurrentConnections(t *testing.T) {
	s, cl := startPair(t)
	coll := cl.Database("d").Collection("conc")
	var wg sync.WaitGroup
	const workers, per = 16, 25
	for w := 0; w < workers; w++ {
		wg.Add(1)
		go func(w int) {
			defer wg.Done()
			for i := 0; i < per; i++ {
				id := fmt.Sprintf("%d-%d", w, i)
				if _, err := coll.InsertOne(bg, bson.D{{Key: "_id", Value: id}, {Key: "w", Value: w}}); err != nil {
					t.Errorf("insert: %v", err)
					return
				}
				if _, err := coll.UpdateOne(bg, bson.D{{Key: "_id", Value: "shared"}}, bson.D{{Key: "$inc", Value: bson.D{{Key: "n", Value: 1}}}}, options.Update().SetUpsert(true)); err != nil {
					// concurrent upserts of the same _id may legitimately collide exactly like on a real server
					if !mongo.IsDuplicateKeyError(err) {
						t.Errorf("update: %v", err)
						return
					}
				}
				_ = s.CommandCount()
				_ = s.Pending()
			}
		}(w)
	}
	wg.Wait()
	docs := s.Dump()["d.conc"]
	if len(docs) != workers*per+1 {
		t.Fatalf("docs=%d", len(docs))
	}
	var shared struct {
		N int `bson:"n"`
	}
	if err := coll.FindOne(bg, bson.D{{Key: "_id", Value: "shared"}}).Decode(&shared); err != nil || shared.N != workers*per {
		t.Fatalf("shared counter %d (%v), want %d: updates are not atomic", shared.N, err, workers*per)
	}
}

func TestCloseReleasesEverything(t *testing.T) {
	s, err := Start()
	if err != nil {
		t.Fatal(err)
	}
	cl := connect(t, s)
	coll := cl.Database("d").Collection("c")
	s.EnableGate(nil)
	done := make(chan error, 1)
	go func() {
		ctx, cancel := context.WithTimeout(bg, 3*time.Second)
		defer cancel()
		_, err := coll.InsertOne(ctx, bson.D{{Key: "_id", Value: 1}})
		done <- err
	}()
	if !s.WaitPending(1, 5*time.Second) {
		t.Fatal("not pending")
	}
	s.Close()
	s.Close() // idempotent
	select {
	case err := <-done:
		if err == nil {
			t.Fatalf("insert succeeded although the server was closed")
		}
	case <-time.After(5 * time.Second):
		t.Fatalf("gated command not released by Close")
	}
	if len(s.Dump()["d.c"]) != 0 {
		t.Fatalf("command applied during Close")
	}
	ctx, cancel := context.WithTimeout(bg, 2*time.Second)
	defer cancel()
	_ = cl.Disconnect(ctx)
}
