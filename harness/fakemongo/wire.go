package fakemongo

import (
	"encoding/binary"
	"errors"
	"fmt"
	"io"

	"go.mongodb.org/mongo-driver/bson"
)

// MongoDB wire protocol op codes used by the Go driver v1.10.x.
const (
	opReply = 1
	opQuery = 2004
	opMsg   = 2013
)

const maxMessageSize = 48 * 1000 * 1000

// request is one decoded wire message.
type request struct {
	requestID int32
	opCode    int32
	// body is the command document. For OP_MSG the kind-1 document sequences are folded into
	// the body as arrays under their identifier (documents / updates / deletes).
	body bson.D
	// moreToCome is set when the sender does not expect a reply (OP_MSG flag bit 1).
	moreToCome bool
	// legacyNS is the fullCollectionName of an OP_QUERY ("admin.$cmd").
	legacyNS string
}

func readRequest(r io.Reader) (*request, error) {
	var hdr [16]byte
	if _, err := io.ReadFull(r, hdr[:]); err != nil {
		return nil, err
	}
	length := int32(binary.LittleEndian.Uint32(hdr[0:4]))
	if length < 16 || length > maxMessageSize {
		return nil, fmt.Errorf("fakemongo: bad message length %d", length)
	}
	req := &request{
		requestID: int32(binary.LittleEndian.Uint32(hdr[4:8])),
		opCode:    int32(binary.LittleEndian.Uint32(hdr[12:16])),
	}
	payload := make([]byte, length-16)
	if _, err := io.ReadFull(r, payload); err != nil {
		return nil, err
	}
	switch req.opCode {
	case opMsg:
		if err := parseOpMsg(req, payload); err != nil {
			return nil, err
		}
	case opQuery:
		if err := parseOpQuery(req, payload); err != nil {
			return nil, err
		}
	default:
		return nil, fmt.Errorf("fakemongo: unsupported opcode %d", req.opCode)
	}
	return req, nil
}

func readDoc(b []byte) (bson.Raw, []byte, error) {
	if len(b) < 5 {
		return nil, nil, errors.New("fakemongo: short document")
	}
	l := int(int32(binary.LittleEndian.Uint32(b[0:4])))
	if l < 5 || l > len(b) {
		return nil, nil, errors.New("fakemongo: bad document length")
	}
	return bson.Raw(b[:l]), b[l:], nil
}

func readCString(b []byte) (string, []byte, error) {
	for i, c := range b {
		if c == 0 {
			return string(b[:i]), b[i+1:], nil
		}
	}
	return "", nil, errors.New("fakemongo: unterminated cstring")
}

func decodeDoc(raw bson.Raw) (bson.D, error) {
	var d bson.D
	if err := bson.Unmarshal(raw, &d); err != nil {
		return nil, err
	}
	return d, nil
}

func parseOpMsg(req *request, p []byte) error {
	if len(p) < 4 {
		return errors.New("fakemongo: short OP_MSG")
	}
	flags := binary.LittleEndian.Uint32(p[0:4])
	p = p[4:]
	if flags&1 != 0 { // checksumPresent
		if len(p) < 4 {
			return errors.New("fakemongo: short OP_MSG checksum")
		}
		p = p[:len(p)-4]
	}
	req.moreToCome = flags&2 != 0
	var body bson.D
	var seqs []bson.E
	haveBody := false
	for len(p) > 0 {
		kind := p[0]
		p = p[1:]
		switch kind {
		case 0:
			raw, rest, err := readDoc(p)
			if err != nil {
				return err
			}
			p = rest
			d, err := decodeDoc(raw)
			if err != nil {
				return err
			}
			body = d
			haveBody = true
		case 1:
			if len(p) < 4 {
				return errors.New("fakemongo: short sequence section")
			}
			size := int(int32(binary.LittleEndian.Uint32(p[0:4])))
			if size < 4 || size > len(p) {
				return errors.New("fakemongo: bad sequence section size")
			}
			sec := p[4:size]
			p = p[size:]
			ident, sec, err := readCString(sec)
			if err != nil {
				return err
			}
			arr := bson.A{}
			for len(sec) > 0 {
				raw, rest, err := readDoc(sec)
				if err != nil {
					return err
				}
				sec = rest
				d, err := decodeDoc(raw)
				if err != nil {
					return err
				}
				arr = append(arr, d)
			}
			seqs = append(seqs, bson.E{Key: ident, Value: arr})
		default:
			return fmt.Errorf("fakemongo: unknown OP_MSG section kind %d", kind)
		}
	}
	if !haveBody {
		return errors.New("fakemongo: OP_MSG without body section")
	}
	req.body = append(body, seqs...)
	return nil
}

func parseOpQuery(req *request, p []byte) error {
	if len(p) < 4 {
		return errors.New("fakemongo: short OP_QUERY")
	}
	p = p[4:] // flags
	ns, p, err := readCString(p)
	if err != nil {
		return err
	}
	req.legacyNS = ns
	if len(p) < 8 {
		return errors.New("fakemongo: short OP_QUERY")
	}
	p = p[8:] // numberToSkip, numberToReturn
	raw, _, err := readDoc(p)
	if err != nil {
		return err
	}
	d, err := decodeDoc(raw)
	if err != nil {
		return err
	}
	// The driver wraps the command in {$query: cmd, $readPreference: ...} when it has a read preference.
	if len(d) > 0 && d[0].Key == "$query" {
		if inner, ok := d[0].Value.(bson.D); ok {
			d = inner
		}
	}
	req.body = d
	return nil
}

func appendInt32(b []byte, v int32) []byte {
	return append(b, byte(v), byte(v>>8), byte(v>>16), byte(v>>24))
}

func appendInt64(b []byte, v int64) []byte {
	for i := 0; i < 8; i++ {
		b = append(b, byte(v>>(8*i)))
	}
	return b
}

// encodeReply builds the reply wire message for req carrying doc.
func encodeReply(req *request, replyID int32, doc bson.D) ([]byte, error) {
	raw, err := bson.Marshal(doc)
	if err != nil {
		return nil, err
	}
	var out []byte
	switch req.opCode {
	case opQuery:
		out = make([]byte, 0, 36+len(raw))
		out = appendInt32(out, int32(36+len(raw)))
		out = appendInt32(out, replyID)
		out = appendInt32(out, req.requestID)
		out = appendInt32(out, opReply)
		out = appendInt32(out, 8) // responseFlags: AwaitCapable
		out = appendInt64(out, 0) // cursorID
		out = appendInt32(out, 0) // startingFrom
		out = appendInt32(out, 1) // numberReturned
		out = append(out, raw...)
	default:
		out = make([]byte, 0, 21+len(raw))
		out = appendInt32(out, int32(21+len(raw)))
		out = appendInt32(out, replyID)
		out = appendInt32(out, req.requestID)
		out = appendInt32(out, opMsg)
		out = appendInt32(out, 0) // flagBits
		out = append(out, 0)      // section kind 0
		out = append(out, raw...)
	}
	return out, nil
}
