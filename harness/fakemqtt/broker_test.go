package fakemqtt

import (
	"fmt"
	"strings"
	"sync"
	"testing"
	"time"

	mqtt "github.com/eclipse/paho.mqtt.golang"
)

func newClient(t *testing.T, b *Broker, id, user string) mqtt.Client {
	t.Helper()
	opts := mqtt.NewClientOptions().AddBroker(b.Addr()).SetUsername(user).SetAutoReconnect(false)
	if id != "" {
		opts.SetClientID(id)
	}
	c := mqtt.NewClient(opts)
	tok := c.Connect()
	if !tok.WaitTimeout(5*time.Second) || tok.Error() != nil {
		t.Fatalf("connect: %v", tok.Error())
	}
	t.Cleanup(func() { c.Disconnect(0) })
	return c
}

type inbox struct {
	mu   sync.Mutex
	msgs []string
	ch   chan struct{}
}

func newInbox() *inbox { return &inbox{ch: make(chan struct{}, 1024)} }

func (i *inbox) handler(_ mqtt.Client, m mqtt.Message) {
	i.mu.Lock()
	i.msgs = append(i.msgs, m.Topic()+"="+string(m.Payload()))
	i.mu.Unlock()
	i.ch <- struct{}{}
}

func (i *inbox) wait(t *testing.T, n int) []string {
	t.Helper()
	deadline := time.After(5 * time.Second)
	for {
		i.mu.Lock()
		if len(i.msgs) >= n {
			out := append([]string(nil), i.msgs...)
			i.mu.Unlock()
			return out
		}
		i.mu.Unlock()
		select {
		case <-i.ch:
		case <-deadline:
			t.Fatalf("timeout waiting for %d messages, have %v", n, i.msgs)
		}
	}
}

func (i *inbox) count() int {
	i.mu.Lock()
	defer i.mu.Unlock()
	return len(i.msgs)
}

func subscribe(t *testing.T, c mqtt.Client, topic string, in *inbox) {
	t.Helper()
	tok := c.Subscribe(topic, 0, in.handler)
	if !tok.WaitTimeout(5*time.Second) || tok.Error() != nil {
		t.Fatalf("subscribe: %v", tok.Error())
	}
}

func publish(t *testing.T, c mqtt.Client, topic, payload string) {
	t.Helper()
	tok := c.Publish(topic, 0, false, []byte(payload))
	if !tok.WaitTimeout(5*time.Second) || tok.Error() != nil {
		t.Fatalf("publish: %v", tok.Error())
	}
}

func waitFor(t *testing.T, what string, cond func() bool) {
	t.Helper()
	deadline := time.Now().Add(5 * time.Second)
	for !cond() {
		if time.Now().After(deadline) {
			t.Fatalf("timeout waiting for %s", what)
		}
		time.Sleep(time.Millisecond)
	}
}

func TestPublishSubscribe(t *testing.T) {
	b, err := Start()
	if err != nil {
		t.Fatal(err)
	}
	defer b.Close()
	if !strings.HasPrefix(b.Addr(), "tcp://127.0.0.1:") {
		t.Fatalf("addr %s", b.Addr())
	}
	server := newClient(t, b, "", "Orda-Server")
	c1 := newClient(t, b, "cuid1", "alice")
	c2 := newClient(t, b, "cuid2", "bob")
	in1, in2 := newInbox(), newInbox()
	subscribe(t, c1, "col/key", in1)
	subscribe(t, c2, "col/key", in2)
	subscribe(t, c2, "col/other", in2)
	if n := b.Subscribers("col/key"); n != 2 {
		t.Fatalf("subscribers=%d", n)
	}

	publish(t, server, "col/key", `{"sseq":1}`)
	publish(t, server, "col/other", `{"sseq":2}`)
	publish(t, server, "col/nobody", "x")
	publish(t, server, "col/ke", "prefix must not match")
	if got := in1.wait(t, 1); got[0] != `col/key={"sseq":1}` {
		t.Fatalf("c1 got %v", got)
	}
	if got := in2.wait(t, 2); got[0] != `col/key={"sseq":1}` || got[1] != `col/other={"sseq":2}` {
		t.Fatalf("c2 got %v", got)
	}
	waitFor(t, "4 recorded publishes", func() bool { return len(b.Publishes()) == 4 })
	pubs := b.Publishes()
	for i, p := range pubs {
		if p.Seq != i+1 || p.ClientID != "Orda-Server" {
			t.Fatalf("publish %d: %+v", i, p)
		}
	}
	if pubs[0].Topic != "col/key" || string(pubs[0].Payload) != `{"sseq":1}` {
		t.Fatalf("publish 0: %+v", pubs[0])
	}
	// a client's own id is recorded when it publishes
	publish(t, c1, "col/nobody", "y")
	waitFor(t, "5th publish", func() bool { return len(b.Publishes()) == 5 })
	if p := b.Publishes()[4]; p.ClientID != "cuid1" {
		t.Fatalf("client id: %+v", p)
	}
	// unsubscribe
	if tok := c1.Unsubscribe("col/key"); !tok.WaitTimeout(5*time.Second) || tok.Error() != nil {
		t.Fatalf("unsubscribe: %v", tok.Error())
	}
	b.ResetPublishes()
	publish(t, server, "col/key", "after-unsub")
	in2.wait(t, 3)
	time.Sleep(20 * time.Millisecond)
	if in1.count() != 1 {
		t.Fatalf("c1 received after unsubscribe: %d", in1.count())
	}
	if pubs := b.Publishes(); len(pubs) != 1 || pubs[0].Seq != 1 {
		t.Fatalf("after reset: %+v", pubs)
	}
	// large payload exercises the multi-byte remaining length
	big := strings.Repeat("z", 70000)
	publish(t, server, "col/key", big)
	if got := in2.wait(t, 4); got[3] != "col/key="+big {
		t.Fatalf("big payload corrupted (len %d)", len(got[3]))
	}
}

func TestHoldAndRelease(t *testing.T) {
	b, err := Start()
	if err != nil {
		t.Fatal(err)
	}
	defer b.Close()
	server := newClient(t, b, "", "srv")
	c1 := newClient(t, b, "c1", "a")
	c2 := newClient(t, b, "c2", "b")
	in1, in2 := newInbox(), newInbox()
	subscribe(t, c1, "t", in1)
	subscribe(t, c2, "t", in2)

	b.SetHold(true)
	for i := 1; i <= 3; i++ {
		publish(t, server, "t", fmt.Sprint(i))
	}
	waitFor(t, "6 queued forwards", func() bool { return b.QueuedForwards() == 6 })
	time.Sleep(20 * time.Millisecond)
	if in1.count()+in2.count() != 0 {
		t.Fatalf("delivered while held")
	}
	if len(b.Publishes()) != 3 {
		t.Fatalf("publishes must be recorded while held")
	}
	if !b.ReleaseOne() || !b.ReleaseOne() {
		t.Fatal("ReleaseOne")
	}
	waitFor(t, "first publish at both", func() bool { return in1.count() == 1 && in2.count() == 1 })
	if b.QueuedForwards() != 4 {
		t.Fatalf("queued=%d", b.QueuedForwards())
	}
	b.ReleaseAll()
	if got := in1.wait(t, 3); strings.Join(got, ",") != "t=1,t=2,t=3" {
		t.Fatalf("c1 order %v", got)
	}
	in2.wait(t, 3)
	if b.ReleaseOne() {
		t.Fatalf("ReleaseOne on empty queue")
	}
	publish(t, server, "t", "4")
	waitFor(t, "2 more queued", func() bool { return b.QueuedForwards() == 2 })
	if n := b.DropQueued(); n != 2 {
		t.Fatalf("dropped %d", n)
	}
	b.SetHold(false)
	publish(t, server, "t", "5")
	if got := in1.wait(t, 4); got[3] != "t=5" {
		t.Fatalf("after hold: %v", got)
	}
	if b.Delivered() != 8 {
		t.Fatalf("delivered=%d want 8", b.Delivered())
	}
}

func TestForwardDelay(t *testing.T) {
	b, err := Start()
	if err != nil {
		t.Fatal(err)
	}
	defer b.Close()
	server := newClient(t, b, "", "srv")
	c1 := newClient(t, b, "c1", "a")
	in1 := newInbox()
	subscribe(t, c1, "t", in1)
	b.SetForwardDelay(func(p Publish) time.Duration {
		if string(p.Payload) == "slow" {
			return 80 * time.Millisecond
		}
		return 0
	})
	publish(t, server, "t", "slow")
	publish(t, server, "t", "fast")
	if got := in1.wait(t, 2); strings.Join(got, ",") != "t=fast,t=slow" {
		t.Fatalf("order %v", got)
	}
}

func TestCloseWithConnectedClientsAndPendingDelay(t *testing.T) {
	b, err := Start()
	if err != nil {
		t.Fatal(err)
	}
	server := newClient(t, b, "", "srv")
	c1 := newClient(t, b, "c1", "a")
	subscribe(t, c1, "t", newInbox())
	b.SetForwardDelay(func(Publish) time.Duration { return time.Hour })
	publish(t, server, "t", "never")
	waitFor(t, "publish recorded", func() bool { return len(b.Publishes()) == 1 })
	done := make(chan struct{})
	go func() { b.Close(); b.Close(); close(done) }()
	select {
	case <-done:
	case <-time.After(5 * time.Second):
		t.Fatal("Close hangs")
	}
}
