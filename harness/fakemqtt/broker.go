// Package fakemqtt is a minimal MQTT 3.1.1 broker for tests.
//
// It implements what github.com/eclipse/paho.mqtt.golang needs for orda's notification path:
// CONNECT/CONNACK, SUBSCRIBE/SUBACK, UNSUBSCRIBE/UNSUBACK, PUBLISH (QoS 0; QoS 1 is acknowledged),
// PINGREQ/PINGRESP and DISCONNECT. Topic filters are matched by string equality (orda uses no
// wildcards). Every PUBLISH received is recorded; forwarding to subscribers can be held, released
// one by one, or delayed, so that the harness controls when notifications arrive.
package fakemqtt

import (
	"bufio"
	"encoding/binary"
	"errors"
	"fmt"
	"io"
	"net"
	"sync"
	"time"
)

// Publish is one PUBLISH packet received by the broker.
type Publish struct {
	Seq      int // 1-based arrival number (restarts after ResetPublishes)
	Topic    string
	Payload  []byte
	ClientID string // client id of the publisher, or its user name if the id is empty
}

type session struct {
	id     string
	wireID string // the client identifier as sent in CONNECT (may be empty)
	conn   net.Conn
	wmu    sync.Mutex
	subs   map[string]bool
	closed bool
}

func (c *session) write(b []byte) error {
	c.wmu.Lock()
	defer c.wmu.Unlock()
	_, err := c.conn.Write(b)
	return err
}

type forward struct {
	pub Publish
	to  *session
}

// Broker is the fake MQTT broker.
type Broker struct {
	ln   net.Listener
	addr string
	done chan struct{}
	wg   sync.WaitGroup

	mu        sync.Mutex
	closed    bool
	sessions  map[*session]struct{}
	publishes []Publish
	seq       int
	hold      bool
	subDelay  time.Duration
	queue     []forward
	delay     func(p Publish) time.Duration
	delivered int
	takeovers int
}

// Takeovers returns how many sessions were closed because a CONNECT arrived with their client identifier.
func (b *Broker) Takeovers() int {
	b.mu.Lock()
	defer b.mu.Unlock()
	return b.takeovers
}

// Start launches a broker on 127.0.0.1:0.
func Start() (*Broker, error) {
	ln, err := net.Listen("tcp", "127.0.0.1:0")
	if err != nil {
		return nil, err
	}
	b := &Broker{
		ln:       ln,
		addr:     "tcp://" + ln.Addr().String(),
		done:     make(chan struct{}),
		sessions: make(map[*session]struct{}),
	}
	b.wg.Add(1)
	go b.acceptLoop()
	return b, nil
}

// Addr returns "tcp://127.0.0.1:port", the form paho's AddBroker expects.
func (b *Broker) Addr() string { return b.addr }

// Close stops the listener, closes all client connections and waits for the broker goroutines.
// Queued forwards are discarded.
func (b *Broker) Close() {
	b.mu.Lock()
	if b.closed {
		b.mu.Unlock()
		return
	}
	b.closed = true
	close(b.done)
	_ = b.ln.Close()
	for s := range b.sessions {
		_ = s.conn.Close()
	}
	b.queue = nil
	b.mu.Unlock()
	b.wg.Wait()
}

// Publishes returns a copy of every PUBLISH received since the last ResetPublishes.
func (b *Broker) Publishes() []Publish {
	b.mu.Lock()
	defer b.mu.Unlock()
	out := make([]Publish, len(b.publishes))
	for i, p := range b.publishes {
		out[i] = p
		out[i].Payload = append([]byte(nil), p.Payload...)
	}
	return out
}

// ResetPublishes forgets the recorded publishes and restarts Seq at 1.
func (b *Broker) ResetPublishes() {
	b.mu.Lock()
	b.publishes = nil
	b.seq = 0
	b.mu.Unlock()
}

// SetHold switches holding on or off. While held, forwards to subscribers are queued instead of
// delivered. Switching it off does not flush the queue; use ReleaseAll for that.
func (b *Broker) SetHold(on bool) {
	b.mu.Lock()
	b.hold = on
	b.mu.Unlock()
}

// QueuedForwards returns the number of held forwards (one per publish and subscriber).
func (b *Broker) QueuedForwards() int {
	b.mu.Lock()
	defer b.mu.Unlock()
	return len(b.queue)
}

// ReleaseOne delivers the oldest queued forward. It returns false when the queue is empty.
func (b *Broker) ReleaseOne() bool {
	b.mu.Lock()
	if len(b.queue) == 0 {
		b.mu.Unlock()
		return false
	}
	f := b.queue[0]
	b.queue = b.queue[1:]
	b.mu.Unlock()
	b.deliver(f)
	return true
}

// ReleaseAll delivers all queued forwards in order.
func (b *Broker) ReleaseAll() {
	for b.ReleaseOne() {
	}
}

// DropQueued discards all queued forwards (lost notifications) and returns how many there were.
func (b *Broker) DropQueued() int {
	b.mu.Lock()
	defer b.mu.Unlock()
	n := len(b.queue)
	b.queue = nil
	return n
}

// Delivered returns the number of forwards written to subscribers so far.
func (b *Broker) Delivered() int {
	b.mu.Lock()
	defer b.mu.Unlock()
	return b.delivered
}

// SetSubscribeDelay makes the broker wait before a SUBSCRIBE takes effect and is acknowledged.
func (b *Broker) SetSubscribeDelay(d time.Duration) {
	b.mu.Lock()
	b.subDelay = d
	b.mu.Unlock()
}

// Subscribers returns the number of connected sessions subscribed to the topic.
func (b *Broker) Subscribers(topic string) int {
	b.mu.Lock()
	defer b.mu.Unlock()
	n := 0
	for s := range b.sessions {
		if s.subs[topic] {
			n++
		}
	}
	return n
}

// SetForwardDelay installs a per-publish delay for forwards that are not held (nil = none).
// Delayed forwards are delivered from their own goroutine, so different delays can reorder them.
func (b *Broker) SetForwardDelay(f func(p Publish) time.Duration) {
	b.mu.Lock()
	b.delay = f
	b.mu.Unlock()
}

func (b *Broker) acceptLoop() {
	defer b.wg.Done()
	for {
		c, err := b.ln.Accept()
		if err != nil {
			return
		}
		s := &session{conn: c, subs: make(map[string]bool)}
		b.mu.Lock()
		if b.closed {
			b.mu.Unlock()
			_ = c.Close()
			return
		}
		b.sessions[s] = struct{}{}
		b.wg.Add(1)
		b.mu.Unlock()
		go b.serve(s)
	}
}

func readPacket(r *bufio.Reader) (header byte, body []byte, err error) {
	header, err = r.ReadByte()
	if err != nil {
		return 0, nil, err
	}
	length, mult := 0, 1
	for i := 0; ; i++ {
		if i == 4 {
			return 0, nil, errors.New("fakemqtt: malformed remaining length")
		}
		d, err := r.ReadByte()
		if err != nil {
			return 0, nil, err
		}
		length += int(d&0x7f) * mult
		mult *= 128
		if d&0x80 == 0 {
			break
		}
	}
	body = make([]byte, length)
	if _, err := io.ReadFull(r, body); err != nil {
		return 0, nil, err
	}
	return header, body, nil
}

func appendRemainingLength(b []byte, n int) []byte {
	for {
		d := byte(n % 128)
		n /= 128
		if n > 0 {
			d |= 0x80
		}
		b = append(b, d)
		if n == 0 {
			return b
		}
	}
}

func readString(b []byte) (string, []byte, error) {
	if len(b) < 2 {
		return "", nil, errors.New("fakemqtt: short string")
	}
	l := int(binary.BigEndian.Uint16(b))
	if len(b) < 2+l {
		return "", nil, errors.New("fakemqtt: short string")
	}
	return string(b[2 : 2+l]), b[2+l:], nil
}

func (b *Broker) serve(s *session) {
	defer b.wg.Done()
	defer func() {
		_ = s.conn.Close()
		b.mu.Lock()
		s.closed = true
		delete(b.sessions, s)
		b.mu.Unlock()
	}()
	if tc, ok := s.conn.(*net.TCPConn); ok {
		_ = tc.SetNoDelay(true)
	}
	r := bufio.NewReader(s.conn)
	for {
		header, body, err := readPacket(r)
		if err != nil {
			return
		}
		switch header >> 4 {
		case 1: // CONNECT
			if err := b.onConnect(s, body); err != nil {
				return
			}
		case 3: // PUBLISH
			if err := b.onPublish(s, header, body); err != nil {
				return
			}
		case 6: // PUBREL (QoS 2) → PUBCOMP
			if len(body) >= 2 {
				_ = s.write([]byte{0x70, 0x02, body[0], body[1]})
			}
		case 8: // SUBSCRIBE
			if len(body) < 2 {
				return
			}
			ack := []byte{0x90, 0, body[0], body[1]}
			rest := body[2:]
			var topics []string
			for len(rest) > 0 {
				var topic string
				topic, rest, err = readString(rest)
				if err != nil || len(rest) < 1 {
					return
				}
				rest = rest[1:] // requested QoS
				topics = append(topics, topic)
				ack = append(ack, 0x00) // granted QoS 0
			}
			ack[1] = byte(len(ack) - 2)
			b.mu.Lock()
			sd := b.subDelay
			b.mu.Unlock()
			if sd > 0 {
				// a broker that takes its time: the subscription is in force (and acknowledged) only afterwards
				time.Sleep(sd)
			}
			b.mu.Lock()
			for _, t := range topics {
				s.subs[t] = true
			}
			b.mu.Unlock()
			if err := s.write(ack); err != nil {
				return
			}
		case 10: // UNSUBSCRIBE
			if len(body) < 2 {
				return
			}
			rest := body[2:]
			b.mu.Lock()
			for len(rest) > 0 {
				var topic string
				topic, rest, err = readString(rest)
				if err != nil {
					break
				}
				delete(s.subs, topic)
			}
			b.mu.Unlock()
			if err := s.write([]byte{0xB0, 0x02, body[0], body[1]}); err != nil {
				return
			}
		case 12: // PINGREQ
			if err := s.write([]byte{0xD0, 0x00}); err != nil {
				return
			}
		case 14: // DISCONNECT
			return
		case 4, 5, 7: // PUBACK, PUBREC, PUBCOMP from a client: nothing to do
		default:
			return
		}
	}
}

func (b *Broker) onConnect(s *session, body []byte) error {
	proto, rest, err := readString(body)
	if err != nil {
		return err
	}
	if len(rest) < 4 {
		return errors.New("fakemqtt: short CONNECT")
	}
	level, flags := rest[0], rest[1]
	rest = rest[4:] // level, flags, keepalive
	if (proto != "MQTT" || level != 4) && (proto != "MQIsdp" || level != 3) {
		_ = s.write([]byte{0x20, 0x02, 0x00, 0x01}) // unacceptable protocol version
		return fmt.Errorf("fakemqtt: unsupported protocol %q level %d", proto, level)
	}
	clientID, rest, err := readString(rest)
	if err != nil {
		return err
	}
	if flags&0x04 != 0 { // will topic + message
		if _, rest, err = readString(rest); err != nil {
			return err
		}
		if _, rest, err = readString(rest); err != nil {
			return err
		}
	}
	user := ""
	if flags&0x80 != 0 {
		if user, _, err = readString(rest); err != nil {
			return err
		}
	}
	wireID := clientID
	if clientID == "" {
		clientID = user
	}
	b.mu.Lock()
	s.id = clientID
	s.wireID = wireID
	// MQTT 3.1.1 [MQTT-3.1.4-2]: if the client identifier names a client that is already connected, the
	// server must disconnect the existing client. (An empty identifier is replaced by a unique one.)
	var old []*session
	if wireID != "" {
		for o := range b.sessions {
			if o != s && o.wireID == wireID {
				old = append(old, o)
			}
		}
		b.takeovers += len(old)
	}
	b.mu.Unlock()
	for _, o := range old {
		_ = o.conn.Close()
	}
	return s.write([]byte{0x20, 0x02, 0x00, 0x00})
}

func (b *Broker) onPublish(s *session, header byte, body []byte) error {
	qos := (header >> 1) & 0x03
	topic, rest, err := readString(body)
	if err != nil {
		return err
	}
	var pid []byte
	if qos > 0 {
		if len(rest) < 2 {
			return errors.New("fakemqtt: short PUBLISH")
		}
		pid, rest = rest[:2], rest[2:]
	}
	payload := append([]byte(nil), rest...)

	b.mu.Lock()
	b.seq++
	p := Publish{Seq: b.seq, Topic: topic, Payload: payload, ClientID: s.id}
	b.publishes = append(b.publishes, p)
	var targets []*session
	for t := range b.sessions {
		if t.subs[topic] {
			targets = append(targets, t)
		}
	}
	hold := b.hold
	delay := b.delay
	if hold {
		for _, t := range targets {
			b.queue = append(b.queue, forward{pub: p, to: t})
		}
	}
	b.mu.Unlock()

	switch qos {
	case 1:
		if err := s.write([]byte{0x40, 0x02, pid[0], pid[1]}); err != nil {
			return err
		}
	case 2:
		if err := s.write([]byte{0x50, 0x02, pid[0], pid[1]}); err != nil {
			return err
		}
	}
	if hold {
		return nil
	}
	var d time.Duration
	if delay != nil {
		d = delay(p)
	}
	for _, t := range targets {
		f := forward{pub: p, to: t}
		if d <= 0 {
			b.deliver(f)
			continue
		}
		b.mu.Lock()
		if b.closed {
			b.mu.Unlock()
			return nil
		}
		b.wg.Add(1)
		b.mu.Unlock()
		go func() {
			defer b.wg.Done()
			select {
			case <-time.After(d):
				b.deliver(f)
			case <-b.done:
			}
		}()
	}
	return nil
}

func (b *Broker) deliver(f forward) {
	pkt := make([]byte, 0, 8+len(f.pub.Topic)+len(f.pub.Payload))
	pkt = append(pkt, 0x30)
	pkt = appendRemainingLength(pkt, 2+len(f.pub.Topic)+len(f.pub.Payload))
	pkt = append(pkt, byte(len(f.pub.Topic)>>8), byte(len(f.pub.Topic)))
	pkt = append(pkt, f.pub.Topic...)
	pkt = append(pkt, f.pub.Payload...)
	if err := f.to.write(pkt); err == nil {
		b.mu.Lock()
		b.delivered++
		b.mu.Unlock()
	}
}
