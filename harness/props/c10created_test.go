package props

import (
	"fmt"
	"strings"
	"testing"

	"pgregory.net/rapid"
	"verif/sim"
	"verif/stats"
)

// TestC10ImportIntoCreated: the import target is an instance the application has CREATED through the client API (it
// already holds what a created instance holds: its own creation operation, queued and recorded), not a subscribed one.
func TestC10ImportIntoCreated(t *testing.T) {
	col := stats.New("C10", t.Name(),
		"one replica of a drawn kind makes 1-25 generated calls (the C03 generator: valid and invalid arguments) and 0-2 transactions; its meta and snapshot are imported into an instance that another client has CREATED under the same key (half of the cases: after that instance made calls of its own, which the import replaces); "+
			"then both run the same continuation: a transaction that fails, 1-8 further calls, another failing transaction, 1-4 calls; oracle: same result of every call, same readable state (view, sizes, element reads) after every step, and the same meta (identity, clock, sequence number) at the end; "+
			"non-trivial = the exported state had >=3 successful mutating calls; distinct = hash of the calls")
	checkProp(t, "C10", col, func(c *caseCtx) {
		rt := c.rt
		kind := kindFromDraw(rt)
		idseed := rapid.Uint64Range(1, 1<<40).Draw(rt, "idseed")
		sim.SeedIDs(idseed)
		w := sim.NewWorld(kind, 1, 1)
		pm := newPlainModel(kind)
		if kind == sim.Document {
			pm.doc.bind(w.Reps[0].DT)
		}
		c.j.Header = map[string]interface{}{"kind": kind, "id_seed": idseed}
		var canon strings.Builder
		succ := 0
		for i, n := 0, rapid.IntRange(1, 25).Draw(rt, "steps"); i < n; i++ {
			call := genC03Call(rt, pm)
			ex := pm.expect(call)
			c.j.add(c03Action{K: "call", Call: &call})
			canon.WriteString(call.String() + ";")
			res, _ := w.Call(0, call)
			if res.Panic != nil {
				c.failf("%s panicked: %v", call, res.Panic)
			}
			if res.Err == nil && res.NavErr == nil && ex.apply != nil {
				ex.apply()
				succ++
			}
		}
		orig := w.Reps[0].DT
		meta, snap, err := orig.GetMetaAndSnapshot()
		if err != nil {
			c.failf("export failed: %v", err)
		}
		_, twin := w.NewInstance("twin", true)
		if rapid.Bool().Draw(rt, "twin_used_before") {
			for i := 0; i < 3; i++ {
				sim.Exec(kind, twin, c06CheapCall(kind, 900+i))
			}
			canon.WriteString("twin-used;")
		}
		if err := twin.SetMetaAndSnapshot(meta, snap); err != nil {
			c.failf("import into a created instance failed: %v", err)
		}
		keys := append(append([]string{}, keyPoolPlain...), keyPoolHostile...)
		same := func(when string) {
			if a, b := sim.Observe(kind, orig, keys), sim.Observe(kind, twin, keys); a != b {
				c.failf("%s the restored instance differs from the original:\n  original: %s\n  restored: %s", when, a, b)
			}
		}
		same("right after the import")
		both := func(label string, call sim.Call) {
			c.j.add(c03Action{K: "call", Call: &call})
			canon.WriteString(call.String() + ";")
			ra, rb := sim.Exec(kind, orig, call), sim.Exec(kind, twin, call)
			if ra.Panic != nil || rb.Panic != nil {
				c.failf("%s %s panicked: original %v, restored %v", label, call, ra.Panic, rb.Panic)
			}
			if ra.String() != rb.String() {
				c.failf("%s %s: the original returned %s, the restored instance %s", label, call, ra, rb)
			}
			same("after " + call.String())
		}
		failingTx := func(label string) {
			tx := sim.Tx{Tag: label, Calls: []sim.Call{c06CheapCall(kind, 500), c06CheapCall(kind, 501)}, FailAt: rapid.IntRange(0, 2).Draw(rt, label+".failat")}
			c.j.add(c03Action{K: "tx", Tx: &tx})
			canon.WriteString(fmt.Sprintf("failing-tx(%d);", tx.FailAt))
			_, ea, pa := sim.ExecTx(kind, orig, tx)
			_, eb, pb := sim.ExecTx(kind, twin, tx)
			if pa != nil || pb != nil {
				c.failf("%s: a failing transaction panicked: original %v, restored %v", label, pa, pb)
			}
			if (ea == nil) != (eb == nil) {
				c.failf("%s: the failing transaction returned %v on the original and %v on the restored instance", label, ea, eb)
			}
			same("after a failed transaction (" + label + ")")
		}
		failingTx("tx1")
		for i, n := 0, rapid.IntRange(1, 8).Draw(rt, "more"); i < n; i++ {
			both("continuation", c06CheapCall(kind, 600+i))
		}
		failingTx("tx2")
		for i, n := 0, rapid.IntRange(1, 4).Draw(rt, "more2"); i < n; i++ {
			both("continuation", c06CheapCall(kind, 700+i))
		}
		m1, _, e1 := orig.GetMetaAndSnapshot()
		m2, _, e2 := twin.GetMetaAndSnapshot()
		if e1 != nil || e2 != nil {
			c.failf("final export failed: %v %v", e1, e2)
		}
		if string(m1) != string(m2) {
			c.failf("after the same continuation the meta of the restored instance differs from the original's:\n  original: %s\n  restored: %s", m1, m2)
		}
		col.Case(succ >= 3, string(kind)+canon.String(), []string{"kind=" + string(kind)}, func() interface{} {
			return map[string]interface{}{"kind": kind, "calls": canon.String()}
		})
	})
}
