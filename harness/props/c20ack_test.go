package props

import (
	"fmt"
	"runtime"
	"sync"
	"sync/atomic"
	"testing"
	"time"

	"github.com/orda-io/orda/client/pkg/model"
	"pgregory.net/rapid"
	"verif/sim"
	"verif/stats"
)

// TestC20AckWhileAppending: 2-8 goroutines issue operations (and transactions) on one datatype while one background
// goroutine keeps syncing against a minimal log: it takes the datatype's pack, stores the operations whose sequence
// number is the next one, and hands back the answer a server gives (checkpoint = what is stored, no operations).
// Acknowledgements are applied while operations are being queued.
func TestC20AckWhileAppending(t *testing.T) {
	col := stats.New("C20", t.Name(),
		"one datatype of a drawn kind created through the client API; 2-8 goroutines issue 50-400 operations each (a tenth of them transactions of 2-3 operations, a few of which fail) with drawn yields; one goroutine syncs in a loop with a drawn pause against a stand-in for the server's log (stores an operation iff its sequence number is the next one; answers with the checkpoint (stored, last stored sequence number) and no operations); when the workers are done, two more syncs; "+
			"oracle: every pack carries sequence numbers without a gap starting right behind its own acknowledged checkpoint and whole transactions only; the stand-in never has to refuse an operation (gap); at the end every issued operation is stored exactly once, in sequence order, and nothing is left to push; no panic, no deadlock (30 s); "+
			"non-trivial = >=1 answer was applied while a worker was inside a call; distinct = hash of the parameters (the schedule is sampled)")
	col.Assume("schedule coverage is sampled: the Go scheduler decides the interleaving")
	checkProp(t, "C20", col, func(c *caseCtx) {
		rt := c.rt
		kind := kindFromDraw(rt)
		idseed := rapid.Uint64Range(1, 1<<40).Draw(rt, "idseed")
		sim.SeedIDs(idseed)
		workers := rapid.IntRange(2, 8).Draw(rt, "workers")
		per := rapid.IntRange(50, 400).Draw(rt, "ops_per_worker")
		pause := rapid.SampledFrom([]int{0, 0, 20, 200}).Draw(rt, "sync_pause_us")
		c.j.Header = map[string]interface{}{"kind": kind, "id_seed": idseed, "workers": workers, "ops_per_worker": per, "sync_pause_us": pause}
		w := &sim.World{Kind: kind, Key: "k"}
		_, dt := w.NewInstance("app", true)
		var mu sync.Mutex
		var problems []string
		note := func(s string) {
			mu.Lock()
			if len(problems) < 5 {
				problems = append(problems, s)
			}
			mu.Unlock()
		}
		var stored []*model.Operation // the stand-in's log
		var inCall, overlapped int32
		var issued int64
		syncOnce := func() {
			pack := dt.CreatePushPullPack()
			c20CheckPack(pack, func(x interface{}) { note(fmt.Sprint(x)) })
			for i, op := range pack.Operations {
				if i > 0 && op.ID.Seq != pack.Operations[i-1].ID.Seq+1 {
					note(fmt.Sprintf("a pack carries sequence number %d right behind %d", op.ID.Seq, pack.Operations[i-1].ID.Seq))
				}
				switch next := uint64(len(stored)) + 1; {
				case op.ID.Seq == next:
					stored = append(stored, op)
				case op.ID.Seq > next:
					note(fmt.Sprintf("the log holds %d operations of the client, its pack (checkpoint %v, %d operations) offers sequence number %d: the operations in between are missing", len(stored), pack.CheckPoint, len(pack.Operations), op.ID.Seq))
					return
				}
			}
			if atomic.LoadInt32(&inCall) > 0 {
				atomic.StoreInt32(&overlapped, 1)
			}
			opt := model.PushPullBitNormal
			if dt.GetState() != model.StateOfDatatype_SUBSCRIBED {
				opt.SetCreateBit()
			}
			dt.ApplyPushPullPack(&model.PushPullPack{Key: pack.Key, DUID: pack.DUID, Option: uint32(opt), Era: pack.Era, Type: pack.Type,
				CheckPoint: &model.CheckPoint{Sseq: uint64(len(stored)), Cseq: uint64(len(stored))}})
		}
		var wg sync.WaitGroup
		var done int32
		for wi := 0; wi < workers; wi++ {
			wg.Add(1)
			go func(wi int) {
				defer wg.Done()
				defer func() {
					if p := recover(); p != nil {
						note(fmt.Sprintf("worker %d panicked: %v", wi, p))
					}
				}()
				for i := 0; i < per; i++ {
					if (i+wi)%7 == 0 {
						runtime.Gosched()
					}
					atomic.AddInt32(&inCall, 1)
					if i%10 == 9 {
						tx := sim.Tx{Tag: "t", Calls: []sim.Call{c06CheapCall(kind, 1000*wi+i), c06CheapCall(kind, 1000*wi+i+1)}, FailAt: -1}
						if i%40 == 39 {
							tx.FailAt = 2
						}
						if _, txErr, pan := sim.ExecTx(kind, dt, tx); pan != nil {
							note(fmt.Sprintf("worker %d: a transaction panicked: %v", wi, pan))
						} else if txErr == nil {
							atomic.AddInt64(&issued, 3)
						}
					} else if r := sim.Exec(kind, dt, c06CheapCall(kind, 1000*wi+i)); r.Panic != nil {
						note(fmt.Sprintf("worker %d: a call panicked: %v", wi, r.Panic))
					} else if r.Err == nil {
						atomic.AddInt64(&issued, 1)
					}
					atomic.AddInt32(&inCall, -1)
				}
			}(wi)
		}
		sdone := make(chan struct{})
		go func() {
			defer close(sdone)
			defer func() {
				if p := recover(); p != nil {
					note(fmt.Sprintf("the sync goroutine panicked: %v", p))
				}
			}()
			for atomic.LoadInt32(&done) == 0 {
				syncOnce()
				if pause > 0 {
					time.Sleep(time.Duration(pause) * time.Microsecond)
				} else {
					runtime.Gosched()
				}
			}
		}()
		if watchdog(30*time.Second, wg.Wait) {
			c.failf("the workers did not finish within 30 s (deadlock)")
		}
		atomic.StoreInt32(&done, 1)
		<-sdone
		syncOnce()
		syncOnce()
		waitHandlers()
		if len(problems) > 0 {
			c.failf("%s", problems[0])
		}
		if want := atomic.LoadInt64(&issued) + 1; int64(len(stored)) != want { // + the creation operation
			c.failf("%d operations were issued (and the datatype created), %d arrived at the log; the datatype's next pack: checkpoint %v with %d operations", want-1, len(stored), dt.CreatePushPullPack().CheckPoint, len(dt.CreatePushPullPack().Operations))
		}
		if n := len(dt.CreatePushPullPack().Operations); n > 0 {
			c.failf("after the last syncs %d operations are still waiting to be pushed", n)
		}
		col.Case(atomic.LoadInt32(&overlapped) == 1, fmt.Sprintf("%s|%d|%d|%d", kind, workers, per, pause), []string{"kind=" + string(kind), fmt.Sprintf("workers=%d", workers)}, func() interface{} { return c.j.Header })
	})
}
