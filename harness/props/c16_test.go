package props

import (
	"fmt"
	"strings"
	"testing"
	"time"

	"github.com/orda-io/orda/client/pkg/model"
	"google.golang.org/protobuf/proto"
	"pgregory.net/rapid"
	"verif/cluster"
	"verif/fakemongo"
	"verif/sim"
	"verif/stats"
)

var c16Mutations = []string{
	"duid-random", "duid-other-datatype", "key-other", "key-empty", "key-unknown", "option-bits", "cp-stale", "cp-future", "cp-huge",
	"ops-gap", "ops-repeated", "ops-reordered", "ops-truncated-tx", "ops-other-kind", "ops-empty", "ops-nil-id", "type-other", "era-other",
	"readonly-with-ops", "readonly", "cuid-unregistered", "cuid-admin", "cuid-other-client", "cuid-empty", "collection-unknown", "collection-other",
	"zero-packs", "two-packs-one-key", "nil-checkpoint", "ops-unknown-type", "ops-garbage-body", "ops-unknown-type", "ops-garbage-body",
}

// mutate applies one structured mutation to a valid request (in place).
func c16Mutate(rt *rapid.T, w *l1World, req *model.PushPullMessage, c *l1Client, mut string, otherCol string) {
	var p *model.PushPullPack
	if len(req.PushPullPacks) > 0 {
		p = req.PushPullPacks[0]
	}
	otherOps := func() []*model.Operation {
		// operations of another datatype (possibly another kind) of any client
		for _, oc := range w.clients {
			for _, d := range oc.dts {
				if p != nil && d.key.Name != p.Key {
					if ops := d.dt.CreatePushPullPack().Operations; len(ops) > 0 {
						return cloneOps(ops, 0)
					}
				}
			}
		}
		return []*model.Operation{{ID: &model.OperationID{CUID: req.Cuid, Seq: 1, Lamport: 1}, OpType: model.TypeOfOperation_MAP_PUT, Body: []byte(`{"Key":"k","Value":1}`)}}
	}
	switch mut {
	case "zero-packs":
		req.PushPullPacks = nil
		return
	case "cuid-unregistered":
		req.Cuid = "unregisteredCUID0"
		return
	case "cuid-admin":
		req.Cuid = "!@#$OrdaPatchAPI"
		return
	case "cuid-empty":
		req.Cuid = ""
		return
	case "cuid-other-client":
		for _, oc := range w.clients {
			if oc != c && oc.pc.CUID() != "" {
				req.Cuid = oc.pc.CUID()
			}
		}
		return
	case "collection-unknown":
		req.Collection = "no-such-collection"
		return
	case "collection-other":
		req.Collection = otherCol
		return
	}
	if p == nil {
		return
	}
	switch mut {
	case "duid-random":
		p.DUID = rapid.StringMatching(`[a-zA-Z0-9_-]{16}`).Draw(rt, "duid")
	case "duid-other-datatype":
		for _, k := range w.keys {
			if k.Name != p.Key && k.duid != "" {
				p.DUID = k.duid
			}
		}
	case "key-other":
		for _, k := range w.keys {
			if k.Name != p.Key {
				p.Key = k.Name
			}
		}
	case "key-empty":
		p.Key = ""
	case "key-unknown":
		p.Key = "unknown-key-" + p.Key
	case "option-bits":
		p.Option = uint32(rapid.IntRange(0, 127).Draw(rt, "bits"))
		if rapid.IntRange(0, 2).Draw(rt, "undefined_bits") == 0 {
			// the option is a 32-bit word of which seven bits are defined: any value is a structurally valid message
			p.Option |= rapid.SampledFrom([]uint32{0x80, 0x100, 0x8000, 0x80000000, 0xffffff80}).Draw(rt, "high_bits")
		}
	case "cp-stale":
		p.CheckPoint = &model.CheckPoint{Sseq: 0, Cseq: 0}
	case "cp-future":
		p.CheckPoint = &model.CheckPoint{Sseq: p.CheckPoint.GetSseq() + 1000, Cseq: p.CheckPoint.GetCseq() + 1000}
	case "cp-huge":
		p.CheckPoint = &model.CheckPoint{Sseq: 1 << 63, Cseq: 1<<63 + 5}
	case "nil-checkpoint":
		p.CheckPoint = nil
	case "ops-gap":
		if len(p.Operations) > 1 {
			p.Operations = p.Operations[1:]
		} else {
			for _, op := range p.Operations {
				if op.ID != nil { // an earlier mutation of the same request may have added an operation without id
					op.ID.Seq += 5
				}
			}
		}
	case "ops-repeated":
		p.Operations = append(p.Operations, cloneOps(p.Operations, 0)...)
	case "ops-reordered":
		for i, j := 0, len(p.Operations)-1; i < j; i, j = i+1, j-1 {
			p.Operations[i], p.Operations[j] = p.Operations[j], p.Operations[i]
		}
	case "ops-truncated-tx":
		tx := &model.Operation{ID: &model.OperationID{CUID: req.Cuid, Seq: p.CheckPoint.GetCseq() + 1, Lamport: 999}, OpType: model.TypeOfOperation_TRANSACTION,
			// a next-in-sequence header that announces more than follows, nothing, less than nothing, or a great many
			Body: []byte(fmt.Sprintf(`{"Tag":"t","NumOfOps":%d}`, rapid.SampledFrom([]int{5, 0, -1, 2, 2147483647, -2147483648}).Draw(rt, "announced")))}
		p.Operations = append(p.Operations, tx)
	case "ops-other-kind":
		p.Operations = otherOps()
	case "ops-empty":
		p.Operations = nil
	case "ops-unknown-type", "ops-garbage-body":
		// a next-in-sequence operation the server will store but nobody can decode: the server's own
		// post-response work (snapshot update replays the log) must survive it
		op := &model.Operation{ID: &model.OperationID{CUID: req.Cuid, Lamport: 4242, Seq: p.CheckPoint.GetCseq() + 1}, OpType: model.TypeOfOperation_COUNTER_INCREASE, Body: []byte(`{"Delta":`)}
		if mut == "ops-unknown-type" {
			op.OpType, op.Body = model.TypeOfOperation(9999), []byte(`{}`)
		}
		p.Operations = append(p.Operations, op)
		p.CheckPoint = &model.CheckPoint{Sseq: p.CheckPoint.GetSseq(), Cseq: p.CheckPoint.GetCseq() + 1}
	case "ops-nil-id":
		p.Operations = append(p.Operations, &model.Operation{OpType: model.TypeOfOperation_COUNTER_INCREASE, Body: []byte(`{"Delta":1}`)})
	case "type-other":
		p.Type = model.TypeOfDatatype((int(p.Type) + 1) % 4)
	case "era-other":
		p.Era = p.Era + 3
	case "readonly-with-ops":
		p.Option |= uint32(model.PushPullBitReadOnly)
		if len(p.Operations) == 0 {
			p.Operations = otherOps()
		}
	case "readonly":
		p.Option |= uint32(model.PushPullBitReadOnly)
		p.Operations = nil
	case "two-packs-one-key":
		req.PushPullPacks = append(req.PushPullPacks, proto.Clone(p).(*model.PushPullPack))
	}
}

// c16Prompt: an answer to a single request on an idle server normally takes milliseconds.
const c16Prompt = 4 * time.Second

func refusedPushPull(resp *model.PushPullMessage, rpcErr error) bool {
	if rpcErr != nil {
		return true
	}
	if resp == nil {
		return false
	}
	all := len(resp.PushPullPacks) > 0
	for _, p := range resp.PushPullPacks {
		if packError(p) == "" {
			all = false
		}
	}
	return all
}

func TestC16PushPull(t *testing.T) {
	col := stats.New("C16", t.Name(),
		"at the end of a generated client/server history (prelude of 2-4 clients sharing 1-2 keys + local operations) the valid push-pull request a client would send next receives 1-3 structured mutations (DUID, key, option bits, checkpoint, operation sequence, type, era, read-only, cuid, collection, number of packs) and is sent with its own request context and a deadline; "+
			"oracle: the call returns a response or an error within the deadline; the test process survives; if the request was refused (RPC error or every pack carries the error bit) the canonical dump of ALL collections is unchanged; the next valid sync of an honest client on the same key is answered, and served without error when the mutated request had been refused; "+
			"applying an error response to the real client invokes its error handler, does not panic, and leaves its state unchanged; "+
			"an answer that takes more than 4 s (twice: the request is sent again) with no other request in flight is not prompt; "+
			"non-trivial = the mutated request differs from the valid one and reached the per-datatype handler (collection and client lookups passed); distinct = hash of (history, mutations)")
	col.Assume("a mutated request that the server ACCEPTS may legitimately change stored data; nothing beyond being answered is demanded of it")
	checkProp(t, "C16", col, func(c *caseCtx) {
		rt := c.rt
		nk := rapid.IntRange(1, 2).Draw(rt, "keys")
		var kinds []sim.Kind
		for i := 0; i < nk; i++ {
			kinds = append(kinds, kindFromDraw(rt))
		}
		idseed := rapid.Uint64Range(1, 1<<40).Draw(rt, "idseed")
		w, err := newL1World(idseed, kinds)
		if err != nil {
			c.failf("HARNESS-ERROR: %v", err)
		}
		defer w.close()
		otherCol := w.col + "other"
		if err := w.env.CreateCollection(otherCol); err != nil {
			c.failf("HARNESS-ERROR: %v", err)
		}
		var canon strings.Builder
		pre := genPrelude(rt, w, 3)
		n := rapid.IntRange(0, 12).Draw(rt, "steps")
		for i := 0; i < len(pre)+n; i++ {
			var a l1Action
			if i < len(pre) {
				a = pre[i]
			} else {
				a = genL1Action(rt, w, 3)
			}
			c.j.add(a)
			canon.WriteString(a.String() + ";")
			if err := w.applyL1(a); err != nil {
				c.failf("history step %d %s: %v", i, a, err)
			}
		}
		// pick a client with an entered datatype
		var cands []*l1DT
		for _, cl := range w.clients {
			for _, k := range w.keys {
				if d := cl.dts[k.Name]; d != nil && d.entered {
					cands = append(cands, d)
				}
			}
		}
		if len(cands) == 0 {
			rt.Skip("no entered datatype")
		}
		d := cands[rapid.IntRange(0, len(cands)-1).Draw(rt, "victim")]
		cl := d.client
		// some unpushed local operations make the request more interesting
		for i := rapid.IntRange(0, 3).Draw(rt, "pending"); i > 0; i-- {
			sim.Exec(d.key.Kind, d.dt, c06CheapCall(d.key.Kind, i))
		}
		valid := cl.pc.BuildRequest(d.dt)
		req := proto.Clone(valid).(*model.PushPullMessage)
		nm := rapid.IntRange(1, 3).Draw(rt, "nmut")
		var muts []string
		for i := 0; i < nm; i++ {
			mut := rapid.SampledFrom(c16Mutations).Draw(rt, fmt.Sprintf("mut%d", i))
			muts = append(muts, mut)
			c16Mutate(rt, w, req, cl, mut, otherCol)
		}
		c.j.add(map[string]interface{}{"k": "mutated-request", "client": cl.idx, "key": d.key.Name, "mutations": muts})
		canon.WriteString(fmt.Sprint(muts))
		w.env.WaitBackground(3 * time.Second)
		before := w.env.Mongo.DumpCanonical()
		viewBefore := sim.Observe(d.key.Kind, d.dt, nil)
		resend := proto.Clone(req).(*model.PushPullMessage)
		sent := time.Now()
		resp, rpcErr, timedOut := w.env.ProcessPushPull(req, l1Deadline)
		took := time.Since(sent)
		if timedOut {
			c.failf("the server never answered the request mutated by %v (pending database commands: %v)", muts, w.env.Mongo.Busy())
		}
		if resp == nil && rpcErr == nil {
			c.failf("the request mutated by %v was answered with neither a response nor an error", muts)
		}
		if pe, ok := rpcErr.(*cluster.PanicError); ok {
			// (the harness calls the service method on a goroutine of its own and recovers; the gRPC server does not)
			c.failf("the request mutated by %v made the goroutine that serves the RPC panic - a gRPC server without a recovery interceptor dies: %v\n%s", muts, pe.Value, firstLines(pe.Stack, 12))
		}
		w.env.WaitBackground(3 * time.Second)
		refused := refusedPushPull(resp, rpcErr)
		if refused {
			if after := w.env.Mongo.DumpCanonical(); after != before {
				c.failf("the request mutated by %v was refused (%v) but stored data changed:\n%s", muts, rpcErr, dumpDiff(before, after))
			}
		}
		// error packs handed to the real client
		if resp != nil && rpcErr == nil {
			for _, p := range resp.PushPullPacks {
				if packError(p) != "" && p.Key == d.key.Name {
					d.mu.Lock()
					ne := len(d.errEvents)
					d.mu.Unlock()
					if err := cl.pc.ApplyResponse(&model.PushPullMessage{PushPullPacks: []*model.PushPullPack{p}}); err != nil {
						c.failf("the client failed to handle the error response to %v: %v", muts, err)
					}
					ok := false
					for dl := time.Now().Add(5 * time.Second); time.Now().Before(dl); time.Sleep(100 * time.Microsecond) {
						d.mu.Lock()
						ok = len(d.errEvents) > ne
						d.mu.Unlock()
						if ok {
							break
						}
					}
					if !ok {
						c.failf("the client's error handler was not called for the error response to %v", muts)
					}
					if v := sim.Observe(d.key.Kind, d.dt, nil); v != viewBefore {
						c.failf("an error response changed the client's state: %s -> %s", viewBefore, v)
					}
					break
				}
			}
		}
		// the key must still be served (a leaked lock would block it)
		ex := w.syncClient(cl)
		if ex != nil {
			if ex.timedOut {
				c.failf("after the request mutated by %v (refused=%v) the next valid sync of the same client was never answered", muts, refused)
			}
			if refused {
				if err := exchangeProblem(cl, ex); err != nil {
					c.failf("after the REFUSED request mutated by %v the next valid sync fails: %v", muts, err)
				}
			}
		}
		// ... also by the REST endpoint (it rebuilds the document from what the request left in the store)
		if d.key.Kind == sim.Document && d.key.created {
			presp, perr, pto := w.env.PatchDocument(&model.PatchMessage{Collection: w.col, Key: d.key.Name, Json: `{"after":"mutated request"}`}, l1Deadline)
			if pto {
				c.failf("after the request mutated by %v (refused=%v) a REST patch of the same key was never answered", muts, refused)
			}
			if presp == nil && perr == nil {
				c.failf("after the request mutated by %v (refused=%v) a REST patch of the same key was answered with neither a response nor an error", muts, refused)
			}
			if refused && perr != nil {
				c.failf("after the REFUSED request mutated by %v a valid REST patch of the same key fails: %v", muts, perr)
			}
		}
		// "answered promptly": this is the only request in flight, nothing else holds a lock of the server. An answer
		// that takes most of the lock lease time (5 s) means the request waited for itself. Measured again (same
		// request, idle server) before it counts, so that a stalled machine is not taken for a stalled server.
		if took > c16Prompt {
			w.env.WaitBackground(3 * time.Second)
			again := time.Now()
			_, _, to2 := w.env.ProcessPushPull(resend, l1Deadline)
			if took2 := time.Since(again); to2 || took2 > c16Prompt {
				c.failf("the request mutated by %v was not answered promptly: %v, and %v when sent again, with no other request in flight (the lock lease of the server is 5 s)", muts, took.Round(time.Millisecond), took2.Round(time.Millisecond))
			}
		}
		reached := rpcErr == nil && resp != nil && len(resp.PushPullPacks) > 0
		labels := []string{fmt.Sprintf("refused=%v", refused), fmt.Sprintf("reached-handler=%v", reached)}
		for _, m := range muts {
			labels = append(labels, "mut="+m)
		}
		col.Case(reached && !proto.Equal(valid, req), canon.String(), labels, func() interface{} {
			return map[string]interface{}{"history": canon.String(), "mutations": muts, "refused": refused, "rpc_error": fmt.Sprint(rpcErr)}
		})
	})
}

func dumpDiff(a, b string) string {
	la, lb := strings.Split(a, "\n"), strings.Split(b, "\n")
	var out []string
	for i := 0; i < len(la) || i < len(lb); i++ {
		x, y := "", ""
		if i < len(la) {
			x = la[i]
		}
		if i < len(lb) {
			y = lb[i]
		}
		if x != y {
			out = append(out, "- "+trunc(x, 300), "+ "+trunc(y, 300))
			if len(out) > 8 {
				break
			}
		}
	}
	return strings.Join(out, "\n")
}

func trunc(s string, n int) string {
	if len(s) > n {
		return s[:n] + "..."
	}
	return s
}

// TestC16Others: ClientMessage, PatchMessage and CollectionMessage mutations.
func TestC16Others(t *testing.T) {
	col := stats.New("C16", t.Name(),
		"structured ClientMessage (unknown / other collection for a registered client, admin CUID, empty CUID, re-registration), PatchMessage (unknown collection, key of a non-document datatype, invalid JSON, non-object JSON, null members, empty key) and CollectionMessage (empty name, reserved names '-_-...', existing name) requests after a short history; "+
			"oracle: answered within the deadline, process survives, refused => canonical dump unchanged, a following valid sync is served; non-trivial = the request was refused or touched an existing datatype; distinct = (request kind, mutation, history)")
	checkProp(t, "C16", col, func(c *caseCtx) {
		rt := c.rt
		kinds := []sim.Kind{kindFromDraw(rt), sim.Document}
		idseed := rapid.Uint64Range(1, 1<<40).Draw(rt, "idseed")
		w, err := newL1World(idseed, kinds)
		if err != nil {
			c.failf("HARNESS-ERROR: %v", err)
		}
		defer w.close()
		otherCol := w.col + "other"
		_ = w.env.CreateCollection(otherCol)
		var canon strings.Builder
		for i, a := range genPrelude(rt, w, 2) {
			c.j.add(a)
			canon.WriteString(a.String() + ";")
			if err := w.applyL1(a); err != nil {
				c.failf("prelude %d: %v", i, err)
			}
		}
		cl := w.clients[0]
		w.env.WaitBackground(3 * time.Second)
		before := w.env.Mongo.DumpCanonical()
		kind := rapid.SampledFrom([]string{"client", "patch", "collection"}).Draw(rt, "reqkind")
		var refused, timedOut, noAnswer bool
		var desc string
		switch kind {
		case "client":
			m := model.NewClientMessage(cl.pc.ClientModel())
			mut := rapid.SampledFrom([]string{"collection-unknown", "collection-other", "cuid-admin", "cuid-empty", "same", "alias-long"}).Draw(rt, "cmut")
			switch mut {
			case "collection-unknown":
				m.Collection = "nope"
			case "collection-other":
				m.Collection = otherCol
			case "cuid-admin":
				m.Cuid = "!@#$OrdaPatchAPI"
			case "cuid-empty":
				m.Cuid = ""
			case "alias-long":
				m.ClientAlias = strings.Repeat("x", 5000)
			}
			desc = "ClientMessage/" + mut
			resp, e, to := w.env.ProcessClient(m, l1Deadline)
			refused, timedOut = e != nil, to
			noAnswer = !to && e == nil && resp == nil
		case "patch":
			mut := rapid.SampledFrom([]string{"collection-unknown", "non-document-key", "invalid-json", "array-json", "null-member", "empty-key", "string-json"}).Draw(rt, "pmut")
			m := &model.PatchMessage{Collection: w.col, Key: w.keys[1].Name, Json: `{"a":1}`}
			switch mut {
			case "collection-unknown":
				m.Collection = "nope"
			case "non-document-key":
				m.Key = w.keys[0].Name
				if w.keys[0].Kind == sim.Document {
					m.Json = `{"b":2}`
				}
			case "invalid-json":
				m.Json = `{"a":`
			case "array-json":
				m.Json = `[1,2]`
			case "null-member":
				m.Json = `{"a":null}`
			case "empty-key":
				m.Key = ""
			case "string-json":
				m.Json = `"x"`
			}
			desc = "PatchMessage/" + mut
			resp, e, to := w.env.PatchDocument(m, l1Deadline)
			refused, timedOut = e != nil, to
			noAnswer = !to && e == nil && resp == nil
		default:
			name := rapid.SampledFrom([]string{"", "-_-Operations", "-_-Datatypes", "-_-Clients", w.col, "new-one", "a.b", "$x"}).Draw(rt, "colname")
			reset := rapid.Bool().Draw(rt, "reset")
			desc = fmt.Sprintf("CollectionMessage/%q/reset=%v", name, reset)
			var e error
			done := make(chan struct{})
			go func() {
				defer close(done)
				if reset && name != w.col {
					e = w.env.ResetCollection(name)
				} else {
					e = w.env.CreateCollection(name)
				}
			}()
			select {
			case <-done:
			case <-time.After(l1Deadline + 5*time.Second):
				timedOut = true
			}
			refused = e != nil
		}
		c.j.add(map[string]interface{}{"k": "request", "what": desc})
		canon.WriteString(desc)
		if timedOut {
			c.failf("%s was never answered", desc)
		}
		if noAnswer {
			c.failf("%s was answered with neither a response nor an error (a gRPC caller gets an opaque marshalling failure instead of the refusal)", desc)
		}
		w.env.WaitBackground(3 * time.Second)
		if refused {
			if after := w.env.Mongo.DumpCanonical(); after != before {
				c.failf("%s was refused but stored data changed:\n%s", desc, dumpDiff(before, after))
			}
		}
		if ex := w.syncClient(cl); ex != nil {
			if ex.timedOut {
				c.failf("after %s the next valid sync was never answered", desc)
			}
			if refused {
				if err := exchangeProblem(cl, ex); err != nil {
					c.failf("after the refused %s the next valid sync fails: %v", desc, err)
				}
			}
		}
		col.Case(refused || kind == "patch", canon.String(), []string{"kind=" + kind, fmt.Sprintf("refused=%v", refused), desc}, func() interface{} {
			return map[string]interface{}{"request": desc, "refused": refused}
		})
	})
}

// TestC16RealClient: a REAL client (manual sync, gRPC) whose Sync() is refused at message level
// reports the error and remains usable: the next Sync() returns too, and succeeds once the cause
// of the refusal is gone.
func TestC16RealClient(t *testing.T) {
	col := stats.New("C16", t.Name(),
		"one REAL client (orda.NewClient, manual sync, gRPC) creates a Counter / List / Map / Document, makes 0-3 local calls and calls Sync(); the request is refused at message level by a drawn cause: "+
			"the client was purged (its collection was reset), the request is lost before the server, the response is lost, or the first database command of the request fails; the causes that pass (lost request / response, database fault) are then removed; "+
			"oracle: every Sync() returns within the deadline (never a hang), a refusal comes back as an error, after a passing cause the next Sync() succeeds and leaves nothing unpushed, after the purge the next Sync() returns again (error or not); "+
			"non-trivial = the refused Sync() returned an error to the caller; distinct = (kind, cause, calls)")
	checkProp(t, "C16", col, func(c *caseCtx) {
		rt := c.rt
		kind := kindFromDraw(rt)
		cause := rapid.SampledFrom([]string{"client-purged", "request-lost", "response-lost", "database-fault"}).Draw(rt, "cause")
		ncalls := rapid.IntRange(0, 3).Draw(rt, "calls")
		first := rapid.Bool().Draw(rt, "refuse-the-creating-sync")
		idseed := rapid.Uint64Range(1, 1<<30).Draw(rt, "idseed")
		c.j.Header = map[string]interface{}{"kind": kind, "cause": cause, "calls": ncalls, "refuse_the_creating_sync": first, "id_seed": idseed}
		w, err := newL1World(idseed, []sim.Kind{kind})
		if err != nil {
			c.failf("HARNESS-ERROR: %v", err)
		}
		defer w.close()
		k := w.keys[0]
		a, e := w.env.NewRealClient(w.col, "A", model.SyncType_MANUALLY)
		if e != nil {
			c.failf("HARNESS-ERROR: %v", e)
		}
		if e := a.Connect(); e != nil {
			c.failf("HARNESS-ERROR: connect: %v", e)
		}
		defer func() { watchdog(3*time.Second, func() { _ = a.Close() }) }()
		ra := &rtClient{cl: a}
		ra.dt = openRealtime(a, kind, k.Name, true, ra.handlers())
		n := 0
		calls := func() {
			for i := 0; i < ncalls; i++ {
				n++
				sim.Exec(kind, ra.dt, c06CheapCall(kind, n))
			}
		}
		calls()
		if !first {
			if err, hung := syncWithDeadline(a, l1Deadline); err != nil || hung {
				c.failf("HARNESS-ERROR: fault-free first Sync(): err=%v hung=%v", err, hung)
			}
			calls()
		}
		switch cause {
		case "client-purged":
			if err := w.env.ResetCollection(w.col); err != nil {
				c.failf("HARNESS-ERROR: reset: %v", err)
			}
		case "request-lost":
			w.env.SetGRPCRequestHook(func(method string, req proto.Message) bool { return method == "ProcessPushPull" })
		case "response-lost":
			w.env.SetGRPCHook(func(method string, req proto.Message) bool { return method == "ProcessPushPull" })
		case "database-fault":
			w.env.WaitBackground(3 * time.Second)
			w.env.Mongo.ResetLog()
			w.env.Mongo.SetFaultHook(func(cmd *fakemongo.Cmd) fakemongo.Fault {
				if cmd.Seq == 1 {
					return fakemongo.FailBefore
				}
				return fakemongo.None
			})
		}
		ferr, hung := syncWithDeadline(a, l1Deadline)
		if hung {
			c.failf("Sync() did not return within %v when the request was refused (%s)", l1Deadline, cause)
		}
		if ferr == nil && cause == "request-lost" { // (a database fault may have hit background work of the previous request instead)
			c.failf("Sync() returned no error although the request was refused (%s)", cause)
		}
		w.env.SetGRPCRequestHook(nil)
		w.env.SetGRPCHook(nil)
		w.env.Mongo.SetFaultHook(nil)
		calls()
		var lastErr error
		ok := false
		for try := 0; try < 3 && !ok; try++ {
			lastErr, hung = syncWithDeadline(a, l1Deadline)
			if hung {
				c.failf("after a refused Sync() (%s: %v) the next Sync() of the same client never returned: the client is not usable any more", cause, ferr)
			}
			ok = lastErr == nil && !ra.dt.NeedPush()
		}
		if cause != "client-purged" && !ok {
			c.failf("after the cause of the refusal (%s) was removed Sync() still fails: %v (unpushed=%v)", cause, lastErr, ra.dt.NeedPush())
		}
		col.Case(ferr != nil, fmt.Sprintf("%s|%s|%d|%v", kind, cause, ncalls, first), []string{"kind=" + string(kind), "cause=" + cause, fmt.Sprintf("refused-sync-returned-error=%v", ferr != nil)}, func() interface{} {
			return map[string]interface{}{"kind": kind, "cause": cause, "first_error": fmt.Sprint(ferr), "retry_error": fmt.Sprint(lastErr)}
		})
	})
}

// firstLines returns the first n lines of s.
func firstLines(s string, n int) string {
	ls := strings.Split(s, "\n")
	if len(ls) > n {
		ls = ls[:n]
	}
	return strings.Join(ls, "\n")
}
