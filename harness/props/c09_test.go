package props

import (
	"bytes"
	"encoding/json"
	"fmt"
	"testing"
	"time"

	"github.com/orda-io/orda/client/pkg/model"
	"github.com/orda-io/orda/client/pkg/operations"
	"google.golang.org/protobuf/proto"
	"pgregory.net/rapid"
	"verif/sim"
	"verif/stats"
)

type c09Snap struct {
	view    sim.View
	meta    string
	emitted []string
}

func c09Take(m *l0Machine, r int) c09Snap {
	rep := m.w.Reps[r]
	s := c09Snap{view: sim.Observe(m.w.Kind, rep.DT, m.keys())}
	meta, _ := rep.DT.GetMeta()
	s.meta = string(meta)
	for _, op := range rep.Buffer() {
		s.emitted = append(s.emitted, fmt.Sprintf("%s|%d:%d:%s:%d|%s", op.OpType, op.ID.Era, op.ID.Lamport, op.ID.CUID, op.ID.Seq, op.Body))
	}
	return s
}

func (a c09Snap) diff(b c09Snap) string {
	if a.view != b.view {
		return fmt.Sprintf("readable state changed:\n  before: %s\n  after:  %s", a.view, b.view)
	}
	if a.meta != b.meta {
		return fmt.Sprintf("next operation identifiers changed: before %s after %s", a.meta, b.meta)
	}
	if len(a.emitted) != len(b.emitted) {
		return fmt.Sprintf("operations awaiting push changed: %d before, %d after", len(a.emitted), len(b.emitted))
	}
	for i := range a.emitted {
		if a.emitted[i] != b.emitted[i] {
			return fmt.Sprintf("operation %d awaiting push changed: %s -> %s", i, a.emitted[i], b.emitted[i])
		}
	}
	return ""
}

type txHeader struct {
	Tag      string
	NumOfOps int32
}

// checkUnit verifies the shape of a committed transaction unit.
func c09CheckUnit(fresh []*model.Operation, tag string) error {
	if len(fresh) == 0 {
		return fmt.Errorf("a committed transaction emitted nothing (not even its header)")
	}
	h := fresh[0]
	if h.OpType != model.TypeOfOperation_TRANSACTION {
		return fmt.Errorf("first operation of a committed transaction is %s, not TRANSACTION", h.OpType)
	}
	var hb txHeader
	if err := json.Unmarshal(h.Body, &hb); err != nil {
		return fmt.Errorf("transaction header body: %v", err)
	}
	if int(hb.NumOfOps) != len(fresh) {
		return fmt.Errorf("transaction header announces %d operations but the unit has %d", hb.NumOfOps, len(fresh))
	}
	if hb.Tag != tag {
		return fmt.Errorf("transaction tag %q, want %q", hb.Tag, tag)
	}
	for i := 1; i < len(fresh); i++ {
		if fresh[i].OpType == model.TypeOfOperation_TRANSACTION {
			return fmt.Errorf("nested TRANSACTION header inside a unit")
		}
		if fresh[i].ID.Seq != fresh[i-1].ID.Seq+1 {
			return fmt.Errorf("unit is not contiguous: seq %d follows %d", fresh[i].ID.Seq, fresh[i-1].ID.Seq)
		}
	}
	return nil
}

func cloneOps(ops []*model.Operation, slack int) []*model.Operation {
	out := make([]*model.Operation, 0, len(ops)+slack)
	for _, op := range ops {
		out = append(out, proto.Clone(op).(*model.Operation))
	}
	return out
}

// mutateUnit returns a malformed version of a unit, or nil if the mutation does not apply.
func mutateUnit(unit []*model.Operation, kind string, k int, slack int) []*model.Operation {
	u := cloneOps(unit, slack)
	switch kind {
	case "truncate": // drop 1..k trailing operations
		if k >= len(u) {
			k = len(u) - 1
		}
		if k < 1 {
			return nil
		}
		// fresh backing array: the dropped operations must not survive in the spare capacity
		t := make([]*model.Operation, len(u)-k, len(u)-k+slack)
		copy(t, u[:len(u)-k])
		return t
	case "count+": // header announces more than there is
		var hb txHeader
		_ = json.Unmarshal(u[0].Body, &hb)
		hb.NumOfOps += int32(k)
		u[0].Body, _ = json.Marshal(hb)
		return u
	case "count0": // header announces nothing at all
		var hb txHeader
		_ = json.Unmarshal(u[0].Body, &hb)
		hb.NumOfOps = 0
		u[0].Body, _ = json.Marshal(hb)
		return u
	case "count-": // header announces fewer
		var hb txHeader
		_ = json.Unmarshal(u[0].Body, &hb)
		if int(hb.NumOfOps)-k < 2 {
			return nil
		}
		hb.NumOfOps -= int32(k)
		u[0].Body, _ = json.Marshal(hb)
		return u
	}
	return nil
}

func testC09(t *testing.T, kind sim.Kind) {
	col := stats.New("C09", t.Name(),
		"L0 state machine with frequent transactions (bodies of 0-5 generated calls, valid and invalid, early error return at any position, optional stop at the first failing call); "+
			"oracle for a failed body: readable state (all reads), the complete list of operations awaiting push (ids and bodies) and the datatype meta (next lamport/seq) are identical before and after; "+
			"for a committed body: the emitted operations are exactly one contiguous unit [TRANSACTION{NumOfOps=n}, op...]; at the end a committed unit is delivered to a victim replica truncated / with a wrong count "+
			"(exact-capacity and spare-capacity slices): its readable state must not change, and the intact unit delivered afterwards must be applied completely (convergence); "+
			"non-trivial = a rollback happened after the replica had applied >=1 remote operation and the failed body had executed >=2 successful mutating calls, or the malformed unit had >=3 operations; distinct = hash of the action sequence")
	checkProp(t, "C09", col, func(c *caseCtx) {
		cfg := drawL0Config(c.rt, kind)
		cfg.TxPct = 30
		cfg.TxStopOnErr = true
		cfg.MaxReplicas = 4
		var before c09Snap
		rollbackDeep := false
		// runL0 calls perStep after the action; take the "before" snapshot through a wrapper on gen
		perStep := func(m *l0Machine, a l0Action, si stepInfo) error {
			if a.K != "tx" {
				return nil
			}
			rep := m.w.Reps[a.R]
			if si.txErr != nil {
				after := c09Take(m, a.R)
				if d := before.diff(after); d != "" {
					return fmt.Errorf("failed transaction was not rolled back completely: %s", d)
				}
				succ := 0
				for i, r := range si.results {
					if r.Err == nil && r.NavErr == nil && sim.Mutating(a.Tx.Calls[i].M) {
						succ++
					}
				}
				hasRemote := false
				for _, op := range rep.Seen {
					if op.ID.CUID != rep.CUID && op.OpType%10 != 0 {
						hasRemote = true
					}
				}
				if succ >= 2 && hasRemote {
					rollbackDeep = true
				}
				return nil
			}
			fresh := rep.Emitted[len(rep.Emitted)-si.emitted:]
			return c09CheckUnit(fresh, a.Tx.Tag)
		}
		// "before" snapshots: wrap apply by pre-hook
		preHook = func(m *l0Machine, a l0Action) {
			if a.K == "tx" {
				before = c09Take(m, a.R)
			}
		}
		defer func() { preHook = nil }()
		m, actions := runL0(c, cfg, maxStepsL0(), perStep, func(m *l0Machine) error { return m.converged() })

		// remote part: one more committed transaction, delivered malformed to a victim first
		author := rapid.IntRange(0, len(m.w.Reps)-1).Draw(c.rt, "author")
		victim := (author + 1 + rapid.IntRange(0, len(m.w.Reps)-2).Draw(c.rt, "victim")) % len(m.w.Reps)
		view := m.docView(author)
		tx := sim.Tx{Tag: "final", FailAt: -1}
		for i := 0; i < 4; i++ {
			call := m.genCall(c.rt, author, view)
			tx.Calls = append(tx.Calls, call)
		}
		act := l0Action{K: "tx", R: author, Tx: &tx}
		c.j.add(act)
		preHook = nil
		si, err := m.apply(act)
		if err != nil || si.panic != nil {
			c.failf("final transaction: %v %v", err, si.panic)
		}
		unitLen := 0
		mut := rapid.SampledFrom([]string{"truncate", "truncate", "count+", "count-", "count0"}).Draw(c.rt, "mutation")
		k := rapid.IntRange(1, 3).Draw(c.rt, "k")
		slack := rapid.SampledFrom([]int{0, 0, 1, 4}).Draw(c.rt, "slack")
		c.j.add(map[string]interface{}{"k": "malformed-delivery", "author": author, "victim": victim, "mutation": mut, "n": k, "slack": slack})
		if si.txErr == nil && si.emitted >= 2 {
			rep := m.w.Reps[author]
			unit := rep.Emitted[len(rep.Emitted)-si.emitted:]
			bad := mutateUnit(unit, mut, k, slack)
			if bad != nil {
				unitLen = len(bad)
				vb := sim.Observe(m.w.Kind, m.w.Reps[victim].DT, m.keys())
				var rerr error
				var pan interface{}
				hung := watchdog(20*time.Second, func() {
					defer func() { pan = recover() }()
					_, e := m.w.Reps[victim].DT.ReceiveRemoteModelOperations(bad, true)
					if e != nil {
						rerr = e
					}
				})
				if hung {
					c.failf("replica %d never returned from the delivery of a malformed transaction unit (%s by %d)", victim, mut, k)
				}
				va := sim.Observe(m.w.Kind, m.w.Reps[victim].DT, m.keys())
				expectApplied := mut == "count-" // fewer announced: the rest arrives as plain operations, all applied
				if !expectApplied && mut == "count+" {
					// more announced than present: incomplete
				}
				if !expectApplied && va != vb {
					c.failf("replica %d applied part of a malformed transaction unit (%s by %d, %d operations delivered, error=%v, panic=%v):\n  before: %s\n  after:  %s",
						victim, mut, k, len(bad), rerr, pan, vb, va)
				}
				if expectApplied {
					// the whole unit was delivered (only regrouped): mark it as delivered for this victim
					m.labels["regrouped-unit"] = true
					unitLen = 0
					c.j.add(map[string]interface{}{"k": "note", "text": "count- delivers every operation; victim will receive the unit again through the log - skipped"})
					// avoid double application: this victim must not receive the unit again
					m.w.SkipNext(victim, author, si.emitted)
				}
			}
		}
		if err := m.w.Quiesce(); err != nil {
			c.failf("after the malformed delivery: %v", err)
		}
		m.linkLog()
		if err := m.converged(); err != nil {
			c.failf("after the malformed delivery and the intact one: %v", err)
		}
		if rollbackDeep {
			m.labels["rollback-after-remote-with>=2-successes"] = true
		}
		if unitLen >= 3 {
			m.labels["malformed-unit>=3"] = true
		}
		labels := append(m.labelList(), "kind="+string(kind), "mutation="+mut)
		col.Case(rollbackDeep || unitLen >= 3, m.canonical(actions)+mut, labels, func() interface{} {
			return map[string]interface{}{"config": cfg, "actions": fmt.Sprint(actions), "final_tx": tx, "mutation": mut, "k": k, "slack": slack}
		})
	})
}

var _ = bytes.Equal
var _ = operations.NewTransactionOperation

func TestC09Counter(t *testing.T)  { testC09(t, sim.Counter) }
func TestC09Map(t *testing.T)      { testC09(t, sim.Map) }
func TestC09List(t *testing.T)     { testC09(t, sim.List) }
func TestC09Document(t *testing.T) { testC09(t, sim.Document) }

// TestC09Backlog: however many operations are waiting to be pushed, every pack the client builds
// carries whole transaction units only.
func TestC09Backlog(t *testing.T) {
	col := stats.New("C09", t.Name(),
		"one replica (drawn kind) piles up a backlog of 250 / ~1024 / ~2048 plain operations, commits a transaction of 3-8 operations, adds 0-40 more operations and possibly another transaction; the harness then plays the server's acknowledgements: it takes pack after pack (CreatePushPullPack, then the checkpoint the pack claims is acknowledged) until nothing is left; "+
			"oracle: in every pack every TRANSACTION header is followed, in the same pack, by the operations it announces (a committed transaction is pushed as one contiguous unit that announces its own length), sequence numbers are consecutive across packs, and the packs together are exactly the emitted operations; "+
			"non-trivial = the backlog exceeds 1000 operations; distinct = the drawn sizes")
	checkProp(t, "C09", col, func(c *caseCtx) {
		rt := c.rt
		kind := kindFromDraw(rt)
		idseed := rapid.Uint64Range(1, 1<<40).Draw(rt, "idseed")
		sim.SeedIDs(idseed)
		w := sim.NewWorld(kind, 1, 1)
		dt := w.Reps[0].DT
		n := rapid.SampledFrom([]int{250, 1015, 1019, 1020, 1023, 1030, 2040, 2045}).Draw(rt, "backlog")
		k := rapid.IntRange(3, 8).Draw(rt, "tx")
		m := rapid.IntRange(0, 40).Draw(rt, "after")
		second := rapid.Bool().Draw(rt, "second_tx")
		c.j.Header = map[string]interface{}{"kind": kind, "backlog": n, "tx": k, "after": m, "second_tx": second, "id_seed": idseed}
		for i := 0; i < n; i++ {
			sim.Exec(kind, dt, c06CheapCall(kind, i))
		}
		mkTx := func(base int) sim.Tx {
			tx := sim.Tx{Tag: "t", FailAt: -1}
			for i := 0; i < k; i++ {
				tx.Calls = append(tx.Calls, c06CheapCall(kind, base+i))
			}
			return tx
		}
		if _, err, pan := sim.ExecTx(kind, dt, mkTx(10000)); err != nil || pan != nil {
			c.failf("transaction after a backlog of %d operations: err=%v panic=%v", n, err, pan)
		}
		for i := 0; i < m; i++ {
			sim.Exec(kind, dt, c06CheapCall(kind, 20000+i))
		}
		if second {
			if _, err, pan := sim.ExecTx(kind, dt, mkTx(30000)); err != nil || pan != nil {
				c.failf("second transaction: err=%v panic=%v", err, pan)
			}
		}
		total := 1 + n + (k + 1) + m // creation snapshot, plain operations, header + body, plain operations
		if second {
			total += k + 1
		}
		var next uint64 = 1
		packs, got := 0, 0
		for {
			pack := dt.CreatePushPullPack()
			ops := pack.Operations
			if len(ops) == 0 {
				break
			}
			packs++
			if packs > 64 {
				c.failf("the backlog does not drain: %d packs built, %d of %d operations handed out", packs, got, total)
			}
			for i := 0; i < len(ops); i++ {
				if ops[i].ID.Seq != next {
					c.failf("pack %d: operation %d has sequence number %d, expected %d", packs, i, ops[i].ID.Seq, next)
				}
				next++
				if ops[i].OpType == model.TypeOfOperation_TRANSACTION {
					var hb txHeader
					if err := json.Unmarshal(ops[i].Body, &hb); err != nil {
						c.failf("pack %d: undecodable transaction header: %v", packs, err)
					}
					if i+int(hb.NumOfOps) > len(ops) {
						c.failf("pack %d (%d operations, %d were pending): the transaction header at position %d announces %d operations but only %d of them are in this pack - a committed transaction must be pushed as one unit", packs, len(ops), total-got, i, hb.NumOfOps, len(ops)-i)
					}
				}
			}
			got += len(ops)
			// the server acknowledges what the pack claims
			dt.SetCheckPoint(pack.CheckPoint.Sseq, pack.CheckPoint.Cseq)
		}
		if got != total {
			c.failf("%d operations were emitted, the packs carried %d", total, got)
		}
		col.Case(n > 1000, fmt.Sprint(kind, n, k, m, second), []string{"kind=" + string(kind), fmt.Sprintf("backlog=%d", n), fmt.Sprintf("packs=%d", packs)}, func() interface{} { return c.j.Header })
	})
}
