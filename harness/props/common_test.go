package props

import (
	"crypto/sha256"
	"encoding/json"
	"fmt"
	"hash/fnv"
	"os"
	"path/filepath"
	"runtime"
	"runtime/debug"
	"strconv"
	"strings"
	"sync"
	"sync/atomic"
	"testing"
	"time"

	"pgregory.net/rapid"
	"verif/cluster"
	"verif/sim"
	"verif/stats"
)

func TestMain(m *testing.M) {
	cluster.RunRemoteServerIfAsked() // this process may have been started as a server instance of a multi-process deployment
	sim.Silence()
	loadKnown()
	os.Exit(m.Run())
}

// ---------------------------------------------------------------------------------------------
// tier / sizes

func tier() string {
	if t := os.Getenv("VERIF_TIER"); t != "" {
		return t
	}
	return "quick"
}

func thorough() bool { return tier() == "thorough" }

// envInt reads an integer knob.
func envInt(name string, def int) int {
	if s := os.Getenv(name); s != "" {
		if n, err := strconv.Atoi(s); err == nil {
			return n
		}
	}
	return def
}

// ---------------------------------------------------------------------------------------------
// known findings (read-only)

type knownFinding struct {
	Property    string `json:"property"`
	ID          string `json:"id"`
	Status      string `json:"status"` // "open" or "fixed"
	Signature   string `json:"signature"`
	Description string `json:"description"`
	Commit      string `json:"commit,omitempty"`
}

var known = map[string]knownFinding{}
var knownPrinted sync.Map

func loadKnown() {
	path := os.Getenv("VERIF_KNOWN")
	if path == "" {
		path = "/verif/known_findings.json"
	}
	b, err := os.ReadFile(path)
	if err != nil {
		return
	}
	var f struct {
		Findings []knownFinding `json:"findings"`
	}
	if err := json.Unmarshal(b, &f); err != nil {
		fmt.Fprintf(os.Stdout, "HARNESS-ERROR: cannot parse %s: %v\n", path, err)
		os.Exit(2)
	}
	for _, k := range f.Findings {
		known[k.ID] = k
	}
}

// isOpen tells whether a finding id is listed as an open (unrepaired) known finding.
func isOpen(id string) bool {
	k, ok := known[id]
	return ok && k.Status == "open"
}

// reportKnown prints the KNOWN-FINDING line for a listed finding (once per process and property).
func reportKnown(col *stats.Collector, property, id, what string) {
	col.Known(id)
	if _, dup := knownPrinted.LoadOrStore(property+"/"+id, true); dup {
		return
	}
	fmt.Fprintf(os.Stdout, "KNOWN-FINDING: property=%s %s: %s\n", property, id, what)
}

// ---------------------------------------------------------------------------------------------
// journal + failure capture

// Journal is the replayable record of one case.
type Journal struct {
	Property string        `json:"property"`
	Test     string        `json:"test"`
	Header   interface{}   `json:"header"`
	Actions  []interface{} `json:"actions"`
	Failure  string        `json:"failure,omitempty"`
	// RapidSeed / Checks: the PRNG value and case count of the run that found the case (regeneration)
	RapidSeed string `json:"rapid_seed,omitempty"`
	Checks    string `json:"checks,omitempty"`
}

func (j *Journal) add(a interface{}) {
	j.Actions = append(j.Actions, a)
	atomic.AddUint64(&progress, 1)
}

// progress counts journal entries and case starts of the whole process (the deadlock watch reads it).
var progress uint64

// singleThreaded tells whether a property function drives ONE goroutine through in-memory replicas only
// (the L0 checks): there a test goroutine that sits in a mutex of orda's client code can never be released
// by anybody - that is a self-deadlock of the library, not a slow machine.
func singleThreaded(test string) bool {
	for _, p := range []string{"TestC01", "TestC02", "TestC03", "TestC04", "TestC10", "TestC09Counter", "TestC09Map", "TestC09List", "TestC09Document", "TestC15Counter", "TestC15Map", "TestC15List", "TestC15Document", "TestC19Local", "TestC19Invalid", "TestC03DocumentPatch"} {
		if strings.HasPrefix(test, p) {
			return true
		}
	}
	return false
}

// blockedInOrdaMutex looks for a goroutine of the harness' property code that waits for a sync mutex
// inside orda's client code and returns the orda frames of its stack.
func blockedInOrdaMutex() string {
	buf := make([]byte, 4<<20)
	buf = buf[:runtime.Stack(buf, true)]
	for _, g := range strings.Split(string(buf), "\n\n") {
		head := g
		if i := strings.IndexByte(g, '\n'); i >= 0 {
			head = g[:i]
		}
		if !(strings.Contains(head, "[sync.Mutex.Lock") || strings.Contains(head, "[sync.RWMutex.Lock") || strings.Contains(head, "[sync.RWMutex.RLock")) {
			continue
		}
		if !strings.Contains(g, "verif/props.") || !strings.Contains(g, "orda-io/orda/client/pkg/") {
			continue
		}
		var frames []string
		for _, l := range strings.Split(g, "\n") {
			if strings.Contains(l, "orda-io/orda/client/pkg/") && !strings.HasPrefix(l, "\t") {
				frames = append(frames, strings.TrimSpace(l))
			}
		}
		if len(frames) > 8 {
			frames = frames[:8]
		}
		return head + " " + strings.Join(frames, " <- ")
	}
	return ""
}

// startDeadlockWatch: when the case in flight makes no progress for 20 s and its goroutine is waiting for a
// mutex inside orda's client code (twice, 5 s apart, same place), the case is saved as the replay file, the
// VIOLATION line is printed and the process ends (the goroutine cannot be recovered, so nothing is shrunk).
func startDeadlockWatch(property, test string, col *stats.Collector, current func() *Journal) (stop func()) {
	done := make(chan struct{})
	go func() {
		last, since, prev := atomic.LoadUint64(&progress), time.Now(), ""
		tick := time.NewTicker(5 * time.Second)
		defer tick.Stop()
		for {
			select {
			case <-done:
				return
			case <-tick.C:
			}
			if now := atomic.LoadUint64(&progress); now != last {
				last, since, prev = now, time.Now(), ""
				continue
			}
			if time.Since(since) < 20*time.Second {
				continue
			}
			where := blockedInOrdaMutex()
			if where == "" || where != prev {
				prev = where
				continue
			}
			j := current()
			if j == nil {
				j = &Journal{Property: property, Test: test}
			}
			p := saveFailure(j, "deadlock: the call in flight (the one after the last journal entry) never returned; its goroutine, the only one using the datatype, waits for a lock of the datatype: "+where)
			col.Flush()
			fmt.Fprintf(os.Stdout, "VIOLATION property=%s replay=%s\n", property, p)
			os.Exit(1)
		}
	}()
	return func() { close(done) }
}

func replayDir(property string) string {
	d := os.Getenv("VERIF_REPLAY_DIR")
	if d == "" {
		d = "/verif/replays"
	}
	d = filepath.Join(d, property)
	_ = os.MkdirAll(d, 0o755)
	return d
}

var lastFailure struct {
	sync.Mutex
	path map[string]string
	msg  map[string]string
}

func saveFailure(j *Journal, msg string) string {
	j.Failure = msg
	j.RapidSeed, j.Checks = os.Getenv("VERIF_SEED_EFFECTIVE"), os.Getenv("VERIF_CASES")
	b, err := json.MarshalIndent(j, "", " ")
	if err != nil {
		b = []byte(fmt.Sprintf(`{"property":%q,"test":%q,"failure":%q,"marshal_error":%q}`, j.Property, j.Test, msg, err.Error()))
	}
	sum := sha256.Sum256(b)
	// one file per test function and process: later (smaller) failing runs overwrite earlier ones
	name := fmt.Sprintf("%s-%s-pid%d.json", j.Test, os.Getenv("VERIF_SHARD"), os.Getpid())
	_ = sum
	p := filepath.Join(replayDir(j.Property), name)
	_ = os.WriteFile(p, b, 0o644)
	lastFailure.Lock()
	if lastFailure.path == nil {
		lastFailure.path = map[string]string{}
		lastFailure.msg = map[string]string{}
	}
	lastFailure.path[j.Test] = p
	lastFailure.msg[j.Test] = msg
	lastFailure.Unlock()
	return p
}

func isRapidInternal(r interface{}) bool {
	return strings.HasPrefix(fmt.Sprintf("%T", r), "rapid.")
}

// failf fails the case with a message that is also stored in the journal.
type caseCtx struct {
	rt  *rapid.T
	j   *Journal
	col *stats.Collector
	msg string
}

func (c *caseCtx) failf(format string, a ...interface{}) {
	c.msg = fmt.Sprintf(format, a...)
	c.rt.Fatalf("%s", c.msg)
}

// checkProp runs a rapid property with journal capture, statistics flush and the VIOLATION line.
func checkProp(t *testing.T, property string, col *stats.Collector, prop func(c *caseCtx)) {
	start := time.Now()
	defer func() {
		col.Extra("wall_s_"+t.Name(), time.Since(start).Seconds())
		col.Flush()
		if t.Failed() {
			lastFailure.Lock()
			p := lastFailure.path[t.Name()]
			fmsg := lastFailure.msg[t.Name()]
			lastFailure.Unlock()
			if p == "" && raceEnabled {
				// the test was failed by the race detector, not by the oracle: the driver classifies
				// the reports (server code on both sides = violation of C12, anything else is not)
				fmt.Fprintf(os.Stdout, "RACE-DETECTOR-FAILED-TEST property=%s\n", property)
				return
			}
			if p == "" {
				p = "none"
			}
			if strings.HasPrefix(fmsg, "HARNESS-ERROR") && !strings.Contains(fmsg, "service panicked") { // (a panic of the server in a set-up step is the server's)
				// the case could not be set up or evaluated (infrastructure): inconclusive, never a violation
				fmt.Fprintf(os.Stdout, "%s (case saved as %s)\n", firstLineOf(fmsg), p)
				return
			}
			if hp, ok := harnessPanic.Load().(string); ok && hp != "" {
				fmt.Fprintf(os.Stdout, "HARNESS-ERROR: panic inside the harness: %s (case saved as %s)\n", hp, p)
				return
			}
			fmt.Fprintf(os.Stdout, "VIOLATION property=%s replay=%s\n", property, p)
		}
	}()
	var curJournal atomic.Value
	if singleThreaded(t.Name()) {
		defer startDeadlockWatch(property, t.Name(), col, func() *Journal { j, _ := curJournal.Load().(*Journal); return j })()
	}
	rapid.Check(t, func(rt *rapid.T) {
		c := &caseCtx{rt: rt, j: &Journal{Property: property, Test: t.Name()}, col: col}
		curJournal.Store(c.j)
		atomic.AddUint64(&progress, 1)
		defer func() {
			r := recover()
			if r != nil && !isRapidInternal(r) {
				if where := panicOrigin(debug.Stack()); strings.HasPrefix(where, "verif/") {
					// the harness itself panicked (not the code under test): a defect of the check, never a violation
					harnessPanic.Store(fmt.Sprintf("%v at %s", r, where))
				}
				saveFailure(c.j, fmt.Sprintf("panic: %v\n%s", r, debug.Stack()))
			} else if rt.Failed() {
				saveFailure(c.j, c.msg)
			}
			if r != nil {
				panic(r)
			}
		}()
		prop(c)
	})
}

// enumFail reports a violation found by an enumeration (no rapid involved).
func enumFail(t *testing.T, property string, j *Journal, format string, a ...interface{}) {
	msg := fmt.Sprintf(format, a...)
	p := saveFailure(j, msg)
	fmt.Fprintf(os.Stdout, "VIOLATION property=%s replay=%s\n", property, p)
	t.Fatalf("%s", msg)
}

// watchdog runs f in a goroutine and reports whether it failed to return within d. A hung f
// keeps its goroutine (and whatever locks it holds); the case is failed by the caller.
func watchdog(d time.Duration, f func()) (hung bool) {
	done := make(chan struct{})
	go func() {
		defer close(done)
		f()
	}()
	select {
	case <-done:
		return false
	case <-time.After(d):
		return true
	}
}

// stackContains tells whether any goroutine's stack mentions s.
func stackContains(s string) bool {
	buf := make([]byte, 1<<20)
	n := runtime.Stack(buf, true)
	return strings.Contains(string(buf[:n]), s)
}

func runtimeStack(buf []byte) int { return runtime.Stack(buf, true) }

// hashString is a stable hash used to assign enumerated cases to shards.
func hashString(s string) uint64 {
	h := fnv.New64a()
	_, _ = h.Write([]byte(s))
	return h.Sum64()
}

var harnessPanic atomic.Value

// panicOrigin returns the function in which a recovered panic was raised: the first frame below
// the runtime's panic machinery in the stack of the recovering goroutine.
func panicOrigin(stack []byte) string {
	lines := strings.Split(string(stack), "\n")
	seenPanic := false
	for i := 1; i+1 < len(lines); i += 2 {
		fn := strings.TrimSpace(lines[i])
		if strings.HasPrefix(fn, "panic(") || strings.HasPrefix(fn, "runtime.gopanic") {
			seenPanic = true
			continue
		}
		if !seenPanic || strings.HasPrefix(fn, "runtime.") {
			continue
		}
		return fn
	}
	return ""
}

func atomicStore(p *int32, v int32) { atomic.StoreInt32(p, v) }
func atomicLoad(p *int32) int32     { return atomic.LoadInt32(p) }

func jsonUnmarshal(b []byte, v interface{}) error { return json.Unmarshal(b, v) }
