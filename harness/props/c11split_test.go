package props

import (
	"fmt"
	"sort"
	"strings"
	"testing"
	"time"

	"github.com/orda-io/orda/client/pkg/iface"
	"pgregory.net/rapid"
	"verif/fakemongo"
	"verif/sim"
	"verif/stats"
)

// buildRequest is the request of one honest exchange of all datatypes of the client (see syncClient).
func (w *l1World) buildRequest(c *l1Client) (dts []iface.Datatype) {
	var names []string
	for n := range c.dts {
		names = append(names, n)
	}
	sort.Strings(names)
	for _, n := range names {
		dts = append(dts, c.dts[n].dt)
	}
	return dts
}

// TestC11SplitInsert: a background snapshot update that reads the operation log WHILE a later push is being
// stored. The operations of a push are written by one insert command of several documents; outside a
// multi-document transaction (orda uses none for it) a reader may see any prefix of them - in particular the
// beginning of a transaction of the user without its end.
func TestC11SplitInsert(t *testing.T) {
	col := stats.New("C11", t.Name(),
		"one key of a drawn kind, 1-2 pack-level clients, 1-3 rounds against the real server: (1) a push whose background snapshot update is HELD at its first command; (2) a second push of 2-8 operations (plain operations and a transaction of the user, in a drawn arrangement) whose insert into the operation log is SPLIT by the fake MongoDB after a drawn number of documents: the first documents are stored and visible, the command waits; (3) the held update is released and runs to its end against the half-stored push; (4) the insert is released, the push completes, its own update runs; "+
			"oracle after (3) and after (4): every stored snapshot {duid, sseq=v} imports into an instance equal to refmodel(log[1..v]) (view, sizes, element reads), the user-visible document equals the JSON view of refmodel(log[1.._orda_ver_]) and its version never decreases; after (4) also: the server's rebuild from the latest snapshot plus later operations reflects the end of the log and equals the replay of the whole log, and the stored-log invariants of C06 hold; "+
			"non-trivial = >=1 round in which the held update ran while a push was stored up to the middle of a transaction; distinct = hash of the rounds")
	col.Assume(deploymentNote)
	checkProp(t, "C11", col, func(c *caseCtx) {
		rt := c.rt
		kind := kindFromDraw(rt)
		idseed := rapid.Uint64Range(1, 1<<40).Draw(rt, "idseed")
		dep := drawDeployment(rt)
		w, err := newL1World(idseed, []sim.Kind{kind})
		if err != nil {
			c.failf("HARNESS-ERROR: %v", err)
		}
		defer w.close()
		defer w.env.Mongo.DisableGate()
		defer w.env.Mongo.SetInsertSplit(nil)
		w.noConverge = true
		nc := rapid.IntRange(1, 2).Draw(rt, "clients")
		c.j.Header = map[string]interface{}{"kind": kind, "id_seed": idseed, "deployment": dep, "clients": nc}
		var canon strings.Builder
		step := func(a l1Action) {
			c.j.add(a)
			canon.WriteString(a.String() + ";")
			if err := w.applyL1(a); err != nil {
				c.failf("%s: %v", a, err)
			}
		}
		for i := 0; i < nc; i++ {
			step(l1Action{K: "client"})
		}
		step(l1Action{K: "open", C: 0, Key: 0, Mode: "create"})
		step(l1Action{K: "sync", C: 0})
		if nc == 2 {
			step(l1Action{K: "open", C: 1, Key: 0, Mode: "subscribe"})
			step(l1Action{K: "sync", C: 1})
		}
		k := w.keys[0]
		halfTx := false
		opsNS := w.env.DBName + ".-_-Operations"
		gate := func() {
			w.env.Mongo.EnableGate(func(cmd *fakemongo.Cmd) bool {
				return cmd.Verb == "find" && strings.HasSuffix(cmd.NS, ".-_-Snapshots")
			})
			w.waitBG = false
		}
		// releaseUpdates lets every held background update run to its end (the half-stored insert stays held)
		releaseUpdates := func() {
			deadline := time.Now().Add(8 * time.Second)
			for time.Now().Before(deadline) {
				released := false
				for _, p := range w.env.Mongo.Pending() {
					if p.Partial == 0 {
						w.env.Mongo.Release(p.Seq)
						released = true
					}
				}
				if !released && w.env.WaitBackground(2*time.Millisecond) {
					return
				}
				time.Sleep(200 * time.Microsecond)
			}
			c.failf("HARNESS-ERROR: the held snapshot updates did not finish")
		}
		rounds := rapid.IntRange(1, 3).Draw(rt, "rounds")
		for r := 0; r < rounds; r++ {
			// (1) a push whose update is held
			gate()
			c1 := rapid.IntRange(0, nc-1).Draw(rt, "first_pusher")
			call := genLocalCall(rt, kind, w.clients[c1].dts[k.Name].dt, false)
			step(l1Action{K: "local", C: c1, Key: 0, Call: &call})
			pushes := len(w.clients[c1].dts[k.Name].dt.CreatePushPullPack().Operations) > 0
			step(l1Action{K: "sync", C: c1})
			if pushes { // (no update if the call failed and nothing was pushed)
				w.env.Mongo.WaitPending(1, 2*time.Second)
			}
			// (2) the second push: plain operations around a transaction, split at a drawn document
			c2 := rapid.IntRange(0, nc-1).Draw(rt, "second_pusher")
			d2 := w.clients[c2].dts[k.Name]
			before := len(d2.dt.CreatePushPullPack().Operations)
			for i, n := 0, rapid.IntRange(0, 2).Draw(rt, "plain_before"); i < n; i++ {
				call := genLocalCall(rt, kind, d2.dt, false)
				step(l1Action{K: "local", C: c2, Key: 0, Call: &call})
			}
			txFrom := len(d2.dt.CreatePushPullPack().Operations)
			tx := sim.Tx{Tag: fmt.Sprintf("r%d", r), FailAt: -1}
			for i, n := 0, rapid.IntRange(2, 4).Draw(rt, "txlen"); i < n; i++ {
				tx.Calls = append(tx.Calls, c06CheapCall(kind, 100*r+i))
			}
			step(l1Action{K: "tx", C: c2, Key: 0, Tx: &tx})
			txTo := len(d2.dt.CreatePushPullPack().Operations)
			for i, n := 0, rapid.IntRange(0, 1).Draw(rt, "plain_after"); i < n; i++ {
				call := genLocalCall(rt, kind, d2.dt, false)
				step(l1Action{K: "local", C: c2, Key: 0, Call: &call})
			}
			total := len(d2.dt.CreatePushPullPack().Operations)
			if total < 2 {
				c.failf("HARNESS-ERROR: a transaction of %d calls queued %d operations", len(tx.Calls), total-before)
			}
			// mostly inside the transaction (marker stored, 1..n-1 of its operations stored), sometimes elsewhere
			splitAt := rapid.IntRange(1, total-1).Draw(rt, "split_at")
			if txTo-txFrom >= 2 && rapid.IntRange(0, 3).Draw(rt, "split_in_tx") > 0 {
				splitAt = rapid.IntRange(txFrom+1, txTo-1).Draw(rt, "split_in_tx_at")
			}
			inTx := splitAt > txFrom && splitAt < txTo
			c.j.add(map[string]interface{}{"k": "split-insert", "round": r, "documents": total, "stored_first": splitAt, "transaction": []int{txFrom, txTo}, "inside_transaction": inTx})
			canon.WriteString(fmt.Sprintf("split(%d/%d,tx=%d..%d);", splitAt, total, txFrom, txTo))
			w.env.Mongo.SetInsertSplit(func(cmd *fakemongo.Cmd, n int) int {
				if cmd.NS == opsNS && n == total {
					return splitAt
				}
				return 0
			})
			cl2 := w.clients[c2]
			req := cl2.pc.BuildRequest(w.buildRequest(cl2)...)
			done := make(chan *exchange, 1)
			go func() { done <- w.rawSend(req) }()
			held := waitUntil(3*time.Second, func() bool {
				for _, p := range w.env.Mongo.Pending() {
					if p.Partial > 0 {
						return true
					}
				}
				return len(done) > 0
			})
			partial := false
			for _, p := range w.env.Mongo.Pending() {
				if p.Partial > 0 {
					partial = true
				}
			}
			if !held || !partial {
				w.env.Mongo.SetInsertSplit(nil)
				w.env.Mongo.DisableGate()
				c.failf("HARNESS-ERROR: the insert of %d operations was not split (pending=%d)", total, len(w.env.Mongo.Pending()))
			}
			// (3) the held update runs against the half-stored push
			releaseUpdates()
			if partial && inTx {
				halfTx = true
			}
			w.noRebuild = true
			if err := w.checkSnapshots(); err != nil {
				c.failf("round %d, a snapshot update ran while a push of %d operations was stored up to document %d (transaction = documents %d..%d): %v", r, total, splitAt, txFrom+1, txTo, err)
			}
			w.noRebuild = false
			// (4) the rest of the insert, the end of the push, its own update
			w.env.Mongo.SetInsertSplit(nil)
			for _, p := range w.env.Mongo.Pending() {
				if p.Partial > 0 {
					w.env.Mongo.Release(p.Seq)
				}
			}
			var ex *exchange
			select {
			case ex = <-done:
			case <-time.After(l1Deadline + 2*time.Second):
				c.failf("the push whose insert was split was not answered")
			}
			w.record(cl2, ex)
			w.apply(cl2, ex)
			if err := exchangeProblem(cl2, ex); err != nil {
				c.failf("round %d, the push whose insert was split: %v", r, err)
			}
			w.env.Mongo.DisableGate()
			w.env.WaitBackground(5 * time.Second)
			w.waitBG = true
			if err := w.checkSnapshots(); err != nil {
				c.failf("round %d, after the push whose insert was split had completed and its snapshot update had run: %v", r, err)
			}
			if err := w.checkLogInvariants(); err != nil {
				c.failf("round %d: %v", r, err)
			}
			// the other client catches up (its next push then goes behind these operations)
			for ci := range w.clients {
				step(l1Action{K: "sync", C: ci})
			}
		}
		if err := w.infraProblem(); err != nil {
			c.failf("%v", err)
		}
		labels := []string{dep, "kind=" + string(kind), fmt.Sprintf("clients=%d", nc), fmt.Sprintf("rounds=%d", rounds)}
		if halfTx {
			labels = append(labels, "update-ran-against-half-stored-transaction")
		}
		for ; s38Excluded > 0; s38Excluded-- {
			col.Excluded("S38: top-level member named _id / _orda_ver_ (renamed)")
		}
		col.Case(halfTx, canon.String(), labels, func() interface{} {
			return map[string]interface{}{"kind": kind, "rounds": canon.String()}
		})
	})
}
