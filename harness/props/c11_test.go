package props

import (
	"fmt"
	"strings"
	"sync/atomic"
	"testing"
	"time"

	"github.com/orda-io/orda/client/pkg/iface"
	"github.com/orda-io/orda/client/pkg/model"
	"github.com/orda-io/orda/client/pkg/orda"
	"go.mongodb.org/mongo-driver/bson"
	"go.mongodb.org/mongo-driver/bson/primitive"
	"pgregory.net/rapid"
	"verif/fakemongo"
	"verif/refmodel"
	"verif/sim"
	"verif/stats"
)

// bsonToJSON converts a decoded BSON value to plain JSON-ish Go values (float64 numbers).
func bsonToJSON(v interface{}) interface{} {
	switch x := v.(type) {
	case bson.D:
		m := map[string]interface{}{}
		for _, e := range x {
			m[e.Key] = bsonToJSON(e.Value)
		}
		return m
	case bson.M:
		m := map[string]interface{}{}
		for k, e := range x {
			m[k] = bsonToJSON(e)
		}
		return m
	case bson.A:
		l := []interface{}{}
		for _, e := range x {
			l = append(l, bsonToJSON(e))
		}
		return l
	case []interface{}:
		l := []interface{}{}
		for _, e := range x {
			l = append(l, bsonToJSON(e))
		}
		return l
	case int32:
		return float64(x)
	case int64:
		return float64(x)
	case primitive.Null:
		return nil
	}
	return v
}

// userDocView is what the user collection document must look like for a state.
func userDocView(kind sim.Kind, st *refmodel.State) interface{} {
	switch kind {
	case sim.Counter:
		return map[string]interface{}{"counter": float64(st.Counter)}
	case sim.List:
		return map[string]interface{}{"list": st.List}
	}
	return st.JSON()
}

func (w *l1World) prefixState(k *l1Key, v int64) (*refmodel.State, error) {
	log, _ := w.storedLog(k.duid)
	var ops []*model.Operation
	for _, so := range log {
		if so.sseq <= v {
			ops = append(ops, so.op)
		}
	}
	if int64(len(ops)) < v {
		return nil, fmt.Errorf("the log of %s has only %d operations up to version %d", k.Name, len(ops), v)
	}
	st, err := refmodel.Compute(string(k.Kind), ops)
	if err != nil {
		return nil, err
	}
	if len(st.Ignored) > 0 {
		return nil, fmt.Errorf("log prefix %d of %s is not a causal history: %v", v, k.Name, st.Ignored)
	}
	return st, nil
}

// checkSnapshots verifies every stored snapshot and the user document of every key.
func (w *l1World) checkSnapshots() error {
	dump := w.env.Mongo.Dump()
	for _, k := range w.keys {
		if k.duid == "" {
			continue
		}
		for _, sd := range dump[w.env.DBName+".-_-Snapshots"] {
			if bstr(bget(sd, "duid")) != k.duid {
				continue
			}
			v := bint(bget(sd, "sseq"))
			st, err := w.prefixState(k, v)
			if err != nil {
				return fmt.Errorf("snapshot %v: %v", bget(sd, "_id"), err)
			}
			if id := bstr(bget(sd, "_id")); id != fmt.Sprintf("%s:%d", k.duid, v) {
				return fmt.Errorf("snapshot of version %d is stored under _id %q", v, id)
			}
			_, fresh := (&sim.World{Kind: k.Kind, Key: k.Name}).NewInstance("snapcheck", false)
			if err := fresh.SetMetaAndSnapshot([]byte(bstr(bget(sd, "meta"))), bbytes(bget(sd, "snapshot"))); err != nil {
				return fmt.Errorf("snapshot %s:%d cannot be imported: %v", k.duid, v, err)
			}
			if got, want := sim.Canon(fresh.(orda.Datatype).ToJSON()), sim.Canon(st.JSON()); got != want {
				return fmt.Errorf("stored snapshot of %s at version %d is not the replay of log operations 1..%d:\n  snapshot: %s\n  replay:   %s", k.Name, v, v, got, want)
			}
			// sizes and element reads too: against a fresh instance fed log operations 1..v
			log, _ := w.storedLog(k.duid)
			var prefix []*model.Operation
			for _, so := range log {
				if so.sseq <= v {
					prefix = append(prefix, so.op)
				}
			}
			replay, err := replayInstance(k, prefix)
			if err != nil {
				return err
			}
			if got, want := sim.Observe(k.Kind, fresh, l1ReadKeys), sim.Observe(k.Kind, replay, l1ReadKeys); got != want {
				return fmt.Errorf("stored snapshot of %s at version %d has the JSON view of log operations 1..%d but its size or element reads differ from their replay:\n  snapshot: %s\n  replay:   %s", k.Name, v, v, got, want)
			}
		}
		for _, ud := range dump[w.env.DBName+"."+w.col] {
			if bstr(bget(ud, "_id")) != k.Name {
				continue
			}
			ver := bint(bget(ud, "_orda_ver_"))
			st, err := w.prefixState(k, ver)
			if err != nil {
				return fmt.Errorf("user document of %s: %v", k.Name, err)
			}
			view := bsonToJSON(ud).(map[string]interface{})
			delete(view, "_id")
			delete(view, "_orda_ver_")
			if got, want := sim.Canon(view), sim.Canon(userDocView(k.Kind, st)); got != want {
				return fmt.Errorf("user-visible document of %s records version %d but is not the JSON view of log operations 1..%d:\n  document: %s\n  replay:   %s", k.Name, ver, ver, got, want)
			}
		}
		// the recorded version never decreases
		last := int64(-1)
		for _, ev := range w.env.Mongo.History(w.env.DBName + "." + w.col) {
			if bstr(bget(ev.Doc, "_id")) != k.Name || ev.Verb == "delete" {
				continue
			}
			v := bint(bget(ev.Doc, "_orda_ver_"))
			if v < last {
				return fmt.Errorf("the version recorded in the user document of %s went back from %d to %d", k.Name, last, v)
			}
			last = v
		}
		// rebuild from the latest snapshot + later operations == rebuild from the whole log
		if k.created && !w.noRebuild {
			log, _ := w.storedLog(k.duid)
			st, err := w.prefixState(k, int64(len(log)))
			if err != nil {
				return err
			}
			srv, sseq, err := w.serverCopy(k)
			if err != nil {
				return fmt.Errorf("the server cannot rebuild %s: %v", k.Name, err)
			}
			if int(sseq) != len(log) {
				return fmt.Errorf("the server's rebuild of %s reflects version %d, the log has %d operations", k.Name, sseq, len(log))
			}
			if got, want := sim.Canon(srv.(orda.Datatype).ToJSON()), sim.Canon(st.JSON()); got != want {
				return fmt.Errorf("rebuilding %s from the latest snapshot plus later operations differs from replaying the whole log:\n  rebuild: %s\n  replay:  %s", k.Name, got, want)
			}
		}
	}
	return nil
}

func TestC11(t *testing.T) {
	col := stats.New("C11", t.Name(),
		"push histories of 1-3 clients on 1-2 keys of drawn kinds against the real server; the GATE of the fake MongoDB holds every background snapshot update either at its first command (find on -_-Snapshots: it has read nothing yet) or - drawn per case - at the REPLY of its read of the operation log (the state and version it will store are already decided), and releases the held updates at drawn later points and in a drawn order, so that updates run after later pushes were committed or compete for the update lock; "+
			"oracle after every release and at the end: every document in -_-Snapshots {duid, sseq=v} imports into a fresh instance whose state equals refmodel(log[1..v]); the user-collection document (without _id/_orda_ver_) equals the JSON view of refmodel(log[1.._orda_ver_]); over the write history of the user collection the recorded version never decreases; "+
			"the server's rebuild (latest snapshot + later operations) reflects the end of the log and equals the replay of the whole log; "+
			"non-trivial = >=1 held update was released after >=1 later push had been committed, or >=2 held updates were released in non-arrival order; distinct = hash of the action sequence")
	col.Assume(deploymentNote)
	checkProp(t, "C11", col, func(c *caseCtx) {
		rt := c.rt
		nk := rapid.IntRange(1, 3).Draw(rt, "keys")
		var kinds []sim.Kind
		for i := 0; i < nk; i++ {
			kinds = append(kinds, kindFromDraw(rt))
		}
		idseed := rapid.Uint64Range(1, 1<<40).Draw(rt, "idseed")
		dep := drawDeployment(rt)
		w, err := newL1World(idseed, kinds)
		if err != nil {
			c.failf("HARNESS-ERROR: %v", err)
		}
		defer w.close()
		defer w.env.Mongo.DisableGate()
		// where a background update is held: on arrival of its first command (it has read nothing yet), or
		// at the reply of its read of the operation log (what it is going to store is already decided)
		lateReply := rapid.Bool().Draw(rt, "hold_at_reply_of_log_read")
		c.j.Header = map[string]interface{}{"kinds": kinds, "id_seed": idseed, "hold_at_reply_of_log_read": lateReply, "deployment": dep}
		var patching int32 // a REST patch request is in flight: its own reads of the snapshots are never held
		gateOn := func() {
			if lateReply {
				// only reads issued by background work: a client request in flight is never held
				w.env.Mongo.EnableReplyGate(func(cmd *fakemongo.Cmd) bool {
					return cmd.Verb == "find" && strings.HasSuffix(cmd.NS, ".-_-Operations") && w.env.InFlight() == 0
				})
			} else {
				w.env.Mongo.EnableGate(func(cmd *fakemongo.Cmd) bool {
					// (the REST patch endpoint reads the snapshots too, inside its request: never held)
					return cmd.Verb == "find" && strings.HasSuffix(cmd.NS, ".-_-Snapshots") && atomic.LoadInt32(&patching) == 0
				})
			}
			w.waitBG = false
		}
		gateOff := func() {
			w.env.Mongo.DisableGate()
			w.env.WaitBackground(5 * time.Second)
			w.waitBG = true
		}
		var canon strings.Builder
		lateRelease, outOfOrder := false, false
		keptGate, twoInside := false, false
		restPatches := 0
		pushesSinceHeld := map[int]int{} // gate seq -> pushes committed after it was held
		step := func(a l1Action) {
			c.j.add(a)
			canon.WriteString(a.String() + ";")
			before := w.reqs
			if a.K == "sync" || a.K == "settle" {
				// the harness' own reads of -_-Snapshots (server rebuild) must not be gated
			}
			if err := w.applyL1Gated(a); err != nil {
				c.failf("%s: %v", a, err)
			}
			if w.reqs > before {
				for s := range pushesSinceHeld {
					pushesSinceHeld[s]++
				}
				for _, p := range w.env.Mongo.Pending() {
					if _, ok := pushesSinceHeld[p.Seq]; !ok {
						pushesSinceHeld[p.Seq] = 0
					}
				}
			}
		}
		w.noConverge = true
		for _, a := range genPrelude(rt, w, 3) {
			step(a)
		}
		gateOn()
		n := rapid.IntRange(3, 30).Draw(rt, "steps")
		// how eagerly held updates are released (per case): often, seldom, or almost never - the last lets
		// several pushes commit, and updates of several keys pile up, before one of them runs
		releaseOneIn := rapid.SampledFrom([]int{2, 4, 8, 16}).Draw(rt, "release_one_in")
		for i := 0; i < n; i++ {
			pend := w.env.Mongo.Pending()
			if len(pend) > 0 && rapid.IntRange(1, releaseOneIn).Draw(rt, "release") == 1 {
				pi := rapid.IntRange(0, len(pend)-1).Draw(rt, "which")
				if pi != 0 {
					outOfOrder = true
				}
				if pushesSinceHeld[pend[pi].Seq] > 0 {
					lateRelease = true
				}
				if lateReply && rapid.IntRange(0, 1).Draw(rt, "keep_the_gate") == 0 {
					// only this update runs on; the gate stays: an update that was waiting for the update lock takes it,
					// reads the log and is held in its turn, and so is every update that starts later. (Two updates of
					// one key inside the lock at once can only be seen like this.)
					c.j.add(map[string]interface{}{"k": "release-keeping-the-gate", "index": pi, "of": len(pend)})
					canon.WriteString(fmt.Sprintf("release-keep(%d/%d);", pi, len(pend)))
					delete(pushesSinceHeld, pend[pi].Seq)
					userNS := w.env.DBName + "." + w.col
					before := len(w.env.Mongo.History(userNS))
					w.env.Mongo.Release(pend[pi].Seq)
					waitUntil(3*time.Second, func() bool { return len(w.env.Mongo.History(userNS)) > before })
					time.Sleep(2 * time.Millisecond)
					keptGate = true
					w.noRebuild = true
					err := w.checkSnapshots()
					w.noRebuild = false
					if err != nil {
						c.failf("after releasing one held snapshot update (the others stay held): %v", err)
					}
					perKey := map[string]int{}
					for _, p := range w.env.Mongo.Pending() {
						perKey[fmt.Sprint(bget(p.Body, "filter"))]++
					}
					for _, n := range perKey {
						if n > 1 {
							twoInside = true
						}
					}
					continue
				}
				c.j.add(map[string]interface{}{"k": "release", "index": pi, "of": len(pend)})
				canon.WriteString(fmt.Sprintf("release(%d/%d);", pi, len(pend)))
				delete(pushesSinceHeld, pend[pi].Seq)
				// let exactly this update run to completion (its later commands are not gated)
				w.env.Mongo.Release(pend[pi].Seq)
				time.Sleep(300 * time.Microsecond) // head start for the chosen update; the others follow
				w.env.Mongo.DisableGate()
				w.env.WaitBackground(5 * time.Second)
				if err := w.checkSnapshots(); err != nil {
					c.failf("after releasing a held snapshot update: %v", err)
				}
				gateOn()
				continue
			}
			if dk := c11DocKey(w); dk != nil && rapid.IntRange(0, 9).Draw(rt, "rest_patch") == 0 {
				// a push through the REST patch endpoint: it rebuilds the document from the latest snapshot and the
				// later operations, and its own push triggers a snapshot update like any other
				patchesHappened = true
				restPatches++
				js := fmt.Sprintf(`{"patched":%d,"b0":[%d]}`, i, i)
				c.j.add(map[string]interface{}{"k": "rest-patch", "key": dk.Name, "json": js})
				canon.WriteString("patch(" + dk.Name + ");")
				atomic.StoreInt32(&patching, 1)
				_, err, to := w.env.PatchDocument(&model.PatchMessage{Collection: w.col, Key: dk.Name, Json: js}, l1Deadline)
				atomic.StoreInt32(&patching, 0)
				if err != nil || to {
					c.failf("REST patch of %s: err=%v timeout=%v", dk.Name, err, to)
				}
				w.reqs++
				for s := range pushesSinceHeld {
					pushesSinceHeld[s]++
				}
				for _, p := range w.env.Mongo.Pending() {
					if _, ok := pushesSinceHeld[p.Seq]; !ok {
						pushesSinceHeld[p.Seq] = 0
					}
				}
				continue
			}
			if rapid.IntRange(0, 9).Draw(rt, "push_burst") < 4 {
				// a push: one local operation on a datatype that may take one, then the sync of its client
				type cand struct{ ci, ki int }
				var cands []cand
				for ci, cl := range w.clients {
					for ki, k := range w.keys {
						if d := cl.dts[k.Name]; d != nil && d.entered {
							cands = append(cands, cand{ci, ki})
						}
					}
				}
				if len(cands) > 0 {
					x := cands[rapid.IntRange(0, len(cands)-1).Draw(rt, "burst_target")]
					call := genLocalCall(rt, w.keys[x.ki].Kind, w.clients[x.ci].dts[w.keys[x.ki].Name].dt, false)
					step(l1Action{K: "local", C: x.ci, Key: x.ki, Call: &call})
					step(l1Action{K: "sync", C: x.ci})
					continue
				}
			}
			a := genL1Action(rt, w, 3)
			if a.K == "settle" {
				a = l1Action{K: "sync", C: a.C}
			}
			step(a)
		}
		gateOff()
		if err := w.checkSnapshots(); err != nil {
			c.failf("at the end: %v", err)
		}
		if err := w.checkLogInvariants(); err != nil {
			c.failf("at the end: %v", err)
		}
		if err := w.infraProblem(); err != nil {
			c.failf("%v", err)
		}
		nsnap := len(w.env.Mongo.Dump()[w.env.DBName+".-_-Snapshots"])
		labels := []string{dep}
		if lateRelease {
			labels = append(labels, "update-released-after-later-push")
		}
		if outOfOrder {
			labels = append(labels, "updates-released-out-of-order")
		}
		for _, k := range kinds {
			labels = append(labels, "kind="+string(k))
		}
		if restPatches > 0 {
			labels = append(labels, "rest-patch-in-the-history")
		}
		if keptGate {
			labels = append(labels, "one-update-released-while-the-others-stay-held")
		}
		if twoInside {
			labels = append(labels, "two-held-updates-of-one-key-have-read-the-log")
		}
		if lateReply {
			labels = append(labels, "held-at-reply-of-log-read")
		} else {
			labels = append(labels, "held-at-first-command")
		}
		for ; s38Excluded > 0; s38Excluded-- {
			col.Excluded("S38: top-level member named _id / _orda_ver_ (renamed)")
		}
		col.Case(lateRelease || outOfOrder, canon.String(), labels, func() interface{} {
			return map[string]interface{}{"kinds": kinds, "actions": canon.String(), "snapshots_stored": nsnap}
		})
	})
}

// applyL1Gated is applyL1 with the harness' own server-side reads performed with the gate open.
func (w *l1World) applyL1Gated(a l1Action) error { return w.applyL1(a) }

func waitUntil(d time.Duration, f func() bool) bool {
	for dl := time.Now().Add(d); time.Now().Before(dl); time.Sleep(200 * time.Microsecond) {
		if f() {
			return true
		}
	}
	return f()
}

// stackContainsN tells whether at least n goroutine stacks mention s.
func stackContainsN(s string, n int) bool {
	buf := make([]byte, 4<<20)
	m := runtimeStack(buf)
	cnt := 0
	for _, g := range strings.Split(string(buf[:m]), "\n\n") {
		if strings.Contains(g, s) {
			cnt++
		}
	}
	return cnt >= n
}

var _ = iface.Datatype(nil)

// c11DocKey returns a created Document key of the world (nil if there is none).
func c11DocKey(w *l1World) *l1Key {
	for _, k := range w.keys {
		if k.Kind == sim.Document && k.created {
			return k
		}
	}
	return nil
}

// TestC11KnownS38 re-demonstrates known finding S38: a top-level member of a Map or Document that is
// called like one of the two fields the server itself writes into the user-visible document.
func TestC11KnownS38(t *testing.T) {
	col := stats.New("C11", t.Name(), "minimal probe of known finding S38: a Map with a member named _orda_ver_ (and one named a), pushed and snapshotted; the user-visible document is compared with the JSON view of the log replay")
	defer col.Flush()
	w, err := newL1World(38, []sim.Kind{sim.Map})
	if err != nil {
		fmt.Printf("HARNESS-ERROR: %v\n", err)
		t.Fatalf("%v", err)
	}
	defer w.close()
	cl, err := w.addClient()
	if err != nil {
		fmt.Printf("HARNESS-ERROR: %v\n", err)
		t.Fatalf("%v", err)
	}
	k := w.keys[0]
	d := w.open(cl, k, "create")
	sim.Exec(sim.Map, d.dt, sim.Call{M: "Put", Key: "_orda_ver_", Vals: []sim.Val{sim.S("mine")}})
	sim.Exec(sim.Map, d.dt, sim.Call{M: "Put", Key: "a", Vals: []sim.Val{sim.I(1)}})
	if ex := w.syncClient(cl); ex == nil || exchangeProblem(cl, ex) != nil {
		fmt.Printf("HARNESS-ERROR: the push failed\n")
		t.Fatalf("push failed")
	}
	w.env.WaitBackground(5 * time.Second)
	cerr := w.checkSnapshots()
	col.Bulk(1, 0)
	reproduced := cerr != nil && strings.Contains(cerr.Error(), "_orda_ver_")
	switch {
	case reproduced && isOpen("S38"):
		reportKnown(col, "C11", "S38", "a Map member named _orda_ver_ is missing from the user-visible document (the server writes the recorded version under that name): "+firstLineOf(cerr.Error()))
	case cerr != nil:
		j := &Journal{Property: "C11", Test: t.Name(), Header: "map: Put(_orda_ver_, \"mine\"); Put(a, 1); Sync; background snapshot update"}
		enumFail(t, "C11", j, "%v", cerr)
	case isOpen("S38"):
		col.Note("known finding S38 no longer reproduces")
	}
}
