package props

import (
	"fmt"
	"testing"

	"pgregory.net/rapid"
	"verif/sim"
	"verif/stats"
)

// runL0 drives one generated multi-replica history. perStep is called after every action,
// atQuiescence after every quiesce and at the end (after a final quiesce).
// l0MinSteps, when set by a check before it calls runL0, is the least number of steps of that history
// (consumed by runL0): C10 needs the history to reach its export point and to continue after it.
var l0MinSteps int

func runL0(c *caseCtx, cfg l0Config, maxSteps int,
	perStep func(m *l0Machine, a l0Action, si stepInfo) error,
	atQuiescence func(m *l0Machine) error) (*l0Machine, []l0Action) {
	rt := c.rt
	c.j.Header = cfg
	m := newL0Machine(cfg)
	lo := 1
	if l0MinSteps > lo {
		lo = l0MinSteps
		if lo > maxSteps {
			lo = maxSteps
		}
	}
	l0MinSteps = 0
	n := rapid.IntRange(lo, maxSteps).Draw(rt, "steps")
	var actions []l0Action
	for i := 0; i < n; i++ {
		a := m.gen(rt)
		actions = append(actions, a)
		c.j.add(a)
		si, err := m.apply(a)
		if err != nil {
			c.failf("step %d %s: %v", i, a, err)
		}
		if si.panic != nil {
			c.failf("step %d %s: panic: %v", i, a, si.panic)
		}
		if perStep != nil {
			if err := perStep(m, a, si); err != nil {
				c.failf("step %d %s: %v", i, a, err)
			}
		}
		if si.quiesce && atQuiescence != nil {
			if err := atQuiescence(m); err != nil {
				c.failf("at quiescence after step %d: %v", i, err)
			}
		}
	}
	fin := l0Action{K: "quiesce"}
	c.j.add(fin)
	if _, err := m.apply(fin); err != nil {
		c.failf("final quiesce: %v", err)
	}
	if atQuiescence != nil {
		if err := atQuiescence(m); err != nil {
			c.failf("at final quiescence: %v", err)
		}
	}
	return m, actions
}

func drawL0Config(rt *rapid.T, kind sim.Kind) l0Config {
	maxR := 4
	if thorough() {
		maxR = 6
	}
	cfg := l0Config{
		Nested:      kind == sim.Document && rapid.IntRange(0, 2).Draw(rt, "nestedfocus") == 0,
		WideFirst:   (kind == sim.Document || kind == sim.List) && rapid.IntRange(0, 3).Draw(rt, "widefirst") == 0,
		Kind:        kind,
		Replicas:    rapid.IntRange(2, 4).Draw(rt, "replicas"),
		MaxReplicas: maxR,
		Tx:          true,
		Invalid:     true,
		BigBatch:    thorough(),
		IDSeed:      rapid.Uint64Range(1, 1<<40).Draw(rt, "idseed"),
	}
	if cfg.WideFirst {
		cfg.SoloRun = rapid.IntRange(0, 25).Draw(rt, "solorun")
	}
	if rapid.IntRange(0, 3).Draw(rt, "manytx") == 0 {
		// a quarter of the histories: a fifth more of the steps are transactions (a third of which fail), so that a
		// replica goes through several rollbacks with ordinary operations in between
		cfg.TxPct = 20
	}
	return cfg
}

func maxStepsL0() int {
	if thorough() {
		return envInt("VERIF_L0_STEPS", 200)
	}
	return envInt("VERIF_L0_STEPS", 60)
}

func testC01(t *testing.T, kind sim.Kind) {
	col := stats.New("C01", t.Name(),
		"rapid state machine: 2-6 replicas of one datatype (real client library), actions local call / transaction / syncStart / syncFinish / quiesce / late join; "+
			"non-trivial = the history contains >=1 pair of operations from different replicas, neither of which had seen the other, that touch the same key / anchor / slot / container; "+
			"distinct = hash of the action sequence")
	col.Assume("delivery schedules are exactly those of DESIGN.md §3.2 (one log order, per-replica delivery in log order, own operations never delivered back)")
	checkProp(t, "C01", col, func(c *caseCtx) {
		cfg := drawL0Config(c.rt, kind)
		m, actions := runL0(c, cfg, maxStepsL0(), nil, func(m *l0Machine) error { return m.converged() })
		pairs, _ := m.conflictStats()
		if pairs > 0 {
			m.labels["concurrent-conflict"] = true
		}
		labels := append(m.labelList(), "kind="+string(kind))
		col.Case(pairs > 0, m.canonical(actions), labels, func() interface{} {
			return map[string]interface{}{"config": cfg, "actions": fmt.Sprint(actions), "log_len": len(m.w.Log), "concurrent_conflicting_pairs": pairs}
		})
	})
}

func TestC01Counter(t *testing.T)  { testC01(t, sim.Counter) }
func TestC01Map(t *testing.T)      { testC01(t, sim.Map) }
func TestC01List(t *testing.T)     { testC01(t, sim.List) }
func TestC01Document(t *testing.T) { testC01(t, sim.Document) }
