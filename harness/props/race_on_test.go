//go:build race

package props

const raceEnabled = true
