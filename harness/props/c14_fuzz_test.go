package props

import (
	"fmt"
	"math"
	"testing"
	"unicode/utf8"

	"github.com/orda-io/orda/client/pkg/iface"
	"github.com/orda-io/orda/client/pkg/model"
	"verif/refmodel"
	"verif/sim"
)

// byteProvider turns fuzz bytes into structured choices.
type byteProvider struct {
	b []byte
	i int
}

func (p *byteProvider) byte() byte {
	if p.i >= len(p.b) {
		return 0
	}
	x := p.b[p.i]
	p.i++
	return x
}

func (p *byteProvider) n(max int) int { return int(p.byte()) % (max + 1) }

func (p *byteProvider) str() string {
	l := p.n(12)
	if p.i+l > len(p.b) {
		l = len(p.b) - p.i
	}
	s := string(p.b[p.i : p.i+l])
	p.i += l
	if !utf8.ValidString(s) {
		// only valid UTF-8 is JSON-representable
		r := []rune{}
		for _, c := range []byte(s) {
			r = append(r, rune(c))
		}
		s = string(r)
	}
	return s
}

func (p *byteProvider) u64() uint64 {
	var v uint64
	for k := 0; k < 8; k++ {
		v = v<<8 | uint64(p.byte())
	}
	return v
}

func (p *byteProvider) val(depth int) sim.Val {
	switch p.n(11) {
	case 0:
		return sim.S(p.str())
	case 1:
		f := math.Float64frombits(p.u64())
		if math.IsNaN(f) || math.IsInf(f, 0) {
			f = 0.5
		}
		return sim.F(f)
	case 2:
		return sim.Val{T: intTags[p.n(len(intTags)-1)], I: int64(p.u64())}.Clamped()
	case 3:
		return sim.Val{T: uintTags[p.n(len(uintTags)-1)], U: p.u64()}.Clamped()
	case 4:
		return sim.B(p.byte()%2 == 0)
	case 5:
		return sim.Val{T: "float32", F: float64(math.Float32frombits(uint32(p.u64())))}.Finite()
	case 6, 7:
		if depth <= 0 {
			return sim.S(p.str())
		}
		n := p.n(3)
		var kvs []sim.KV
		seen := map[string]bool{}
		for k := 0; k < n; k++ {
			key := p.str()
			if seen[key] {
				continue
			}
			seen[key] = true
			kvs = append(kvs, sim.KV{K: key, V: p.val(depth - 1)})
		}
		return sim.Obj(kvs...)
	case 8, 9:
		if depth <= 0 {
			return sim.I(int64(p.byte()))
		}
		n := p.n(3)
		var l []sim.Val
		for k := 0; k < n; k++ {
			l = append(l, p.val(depth-1))
		}
		return sim.Arr(l...)
	case 10:
		return sim.Val{T: "*string", S: p.str()}
	default:
		return sim.Val{T: "strslice", L: []sim.Val{sim.S(p.str())}}
	}
}

// FuzzC14Value: coverage-guided search of the VALUE space (not of raw message bytes): the bytes
// are decoded into a datatype kind, a call and a value tree; the operations the real API emits
// must survive all five encoding paths, have the same effect on a fresh replica, and be readable
// by the harness' independent decoder.
func FuzzC14Value(f *testing.F) {
	f.Add([]byte{0})
	f.Add([]byte{1, 0, 1, 'a', 2, 0x43, 0x40, 0, 0, 0, 0, 0, 1}) // 2^53+1
	f.Add([]byte{2, 6, 2, 1, 0, 0, 3, '"', '\\', 0, 8, 2, 3, 0xff, 0xff, 0xff, 0xff, 0xff, 0xff, 0xff, 0xff})
	f.Add([]byte{3, 6, 3, 1, '/', 6, 1, 1, '~', 8, 3, 0, 0, 0})
	f.Add([]byte{3, 8, 3, 8, 2, 8, 1, 0, 2, 0xe2, 0x80, 0xa8})
	f.Fuzz(func(t *testing.T, data []byte) {
		p := &byteProvider{b: data}
		kind := sim.AllKinds[p.n(3)]
		sim.SeedIDs(uint64(p.byte()) + 1)
		w := sim.NewWorld(kind, 1, 1)
		calls := 1 + p.n(2)
		for c := 0; c < calls; c++ {
			var call sim.Call
			switch kind {
			case sim.Counter:
				call = sim.Call{M: "IncreaseBy", Vals: []sim.Val{sim.I(int64(int32(p.u64())))}}
			case sim.Map:
				call = sim.Call{M: "Put", Key: "k" + p.str(), Vals: []sim.Val{p.val(3)}}
			case sim.List:
				call = sim.Call{M: "InsertMany", Pos: 0, Vals: []sim.Val{p.val(3), p.val(2)}}
			default:
				call = sim.Call{M: "PutToObject", Key: p.str(), Vals: []sim.Val{p.val(3)}}
			}
			if res, _ := w.Call(0, call); res.Panic != nil {
				t.Fatalf("%s panicked: %v", call, res.Panic)
			}
		}
		ops := w.Reps[0].Emitted
		var echoed []*model.Operation
		for _, op := range ops {
			rts, e := c14RoundTrips(op, kind)
			if e != "" {
				t.Fatalf("%s: %s", op.OpType, e)
			}
			for name, r := range rts {
				if d := opEquivalent(op, r); d != "" {
					t.Fatalf("%s after %s: %s", op.OpType, name, d)
				}
			}
			echoed = append(echoed, rts["bson-operation-doc"])
		}
		want := sim.Observe(kind, w.Reps[0].DT, nil)
		_, dt := w.NewInstance("rx", true)
		if _, e := dt.(iface.Datatype).ReceiveRemoteModelOperations(echoed, false); e != nil {
			t.Fatalf("replica fed the stored operations: %v", e)
		}
		if got := sim.Observe(kind, dt, nil); got.JSON != want.JSON {
			t.Fatalf("stored operations have another effect: issuer %s, fed %s", want.JSON, got.JSON)
		}
		st, err := refmodel.Compute(string(kind), cloneOps(ops, 0))
		if err != nil || len(st.Ignored) > 0 {
			t.Fatalf("independent decoder: %v %v", err, st)
		}
		if got := sim.Canon(st.JSON()); got != want.JSON {
			t.Fatalf("independent decoder reads %s, issuer has %s", got, want.JSON)
		}
	})
}

var _ = fmt.Sprint
