package props

import (
	"encoding/json"
	"fmt"
	"os"
	osexec "os/exec"
	"runtime"
	"strings"
	"sync"
	"sync/atomic"
	"testing"
	"time"

	"github.com/orda-io/orda/client/pkg/model"
	"github.com/orda-io/orda/client/pkg/orda"
	"pgregory.net/rapid"
	"verif/refmodel"
	"verif/sim"
	"verif/stats"
)

// c20Step is one entry of a goroutine's script: a call, or a transaction of calls.
type c20Step struct {
	Call  *sim.Call  `json:"call,omitempty"`
	Tx    []sim.Call `json:"tx,omitempty"`
	Fail  bool       `json:"fail,omitempty"`  // the transaction body returns an error at the end
	Yield int        `json:"yield,omitempty"` // Gosched calls before the step
	// Pair: a transaction of two calls that belong together (see c20PairCalls); ReadAll: one read of the whole
	// state (ToJSON), which has to show both calls of every pair or neither
	Pair    string `json:"pair,omitempty"`
	ReadAll bool   `json:"read_all,omitempty"`
}

// c20PairCalls are the two calls of a "pair" transaction. No other call of a workload touches what they
// touch, so a state in which only one of them shows is a transaction seen half-applied:
// counter +1e6 / -1e6 (every other delta is tiny); map and document: the same tag under "p" and "q";
// list: insert a marked element at the head and delete the head again.
func c20PairCalls(kind sim.Kind, tag string) []sim.Call {
	switch kind {
	case sim.Counter:
		return []sim.Call{{M: "IncreaseBy", Vals: []sim.Val{sim.I(1000000)}}, {M: "IncreaseBy", Vals: []sim.Val{sim.I(-1000000)}}}
	case sim.Map:
		return []sim.Call{{M: "Put", Key: "p", Vals: []sim.Val{sim.S(tag)}}, {M: "Put", Key: "q", Vals: []sim.Val{sim.S(tag)}}}
	case sim.List:
		return []sim.Call{{M: "Insert", Pos: 0, Vals: []sim.Val{sim.S("PAIR:" + tag)}}, {M: "Delete", Pos: 0}}
	default:
		return []sim.Call{{M: "PutToObject", Key: "p", Vals: []sim.Val{sim.S(tag)}}, {M: "PutToObject", Key: "q", Vals: []sim.Val{sim.S(tag)}}}
	}
}

// c20HalfApplied inspects one read of the whole state.
func c20HalfApplied(kind sim.Kind, v interface{}) string {
	b, _ := json.Marshal(v)
	switch kind {
	case sim.Counter:
		var n int64
		if json.Unmarshal(b, &n) == nil && (n > 500000 || n < -500000) {
			return fmt.Sprintf("the counter read %d: the first half of a (+1000000, -1000000) transaction without the second", n)
		}
	case sim.List:
		if strings.Contains(string(b), "PAIR:") {
			return fmt.Sprintf("the list read %s: it shows the element a transaction inserts and deletes again", b)
		}
	default:
		var m map[string]interface{}
		if json.Unmarshal(b, &m) == nil && fmt.Sprint(m["p"]) != fmt.Sprint(m["q"]) {
			return fmt.Sprintf("read p=%v q=%v: every transaction that writes one writes the same value to the other", m["p"], m["q"])
		}
	}
	return ""
}

type c20Workload struct {
	Kind    sim.Kind    `json:"kind"`
	IDSeed  uint64      `json:"id_seed"`
	Scripts [][]c20Step `json:"scripts"`
	Remote  []sim.Call  `json:"remote"` // calls made beforehand on a second replica; delivered during the run
	// HandleFromTx (documents): the child handle of the array that the goroutines share was obtained
	// inside an earlier, finished transaction (it carries that transaction's context)
	HandleFromTx bool `json:"handle_from_tx,omitempty"`
	// Big: the datatype holds a few thousand elements before the goroutines start, so that a read of the whole
	// state takes long enough for other goroutines' calls to fall into it
	Big bool `json:"big,omitempty"`
}

func c20GenCall(rt *rapid.T, kind sim.Kind, label string, g int, n *int) sim.Call {
	*n++
	tag := sim.S(fmt.Sprintf("g%d.%d", g, *n))
	if !isOpen("S26") && g != 99 && rapid.IntRange(0, 3).Draw(rt, label+".read") == 0 {
		// a read that overlaps the other goroutines' calls (reads took no lock before the S26 repair: the
		// process died with "concurrent map read and map write")
		switch kind {
		case sim.Counter:
			return sim.Call{M: "Get"}
		case sim.Map:
			return sim.Call{M: rapid.SampledFrom([]string{"Get", "Size"}).Draw(rt, label+".rm"), Key: rapid.SampledFrom([]string{"a", "b", "c"}).Draw(rt, label+".rk")}
		case sim.List:
			return sim.Call{M: rapid.SampledFrom([]string{"Get", "GetMany", "Size"}).Draw(rt, label+".rm"), Pos: 0, N: 1}
		default:
			if rapid.Bool().Draw(rt, label+".rarr") {
				return sim.Call{M: rapid.SampledFrom([]string{"GetFromArray", "GetValue"}).Draw(rt, label+".rm"), Path: []sim.Step{sim.KStep("arr")}, Pos: 0}
			}
			return sim.Call{M: rapid.SampledFrom([]string{"GetValue", "GetFromObject", "ToJSONBytes"}).Draw(rt, label+".rm"), Key: rapid.SampledFrom([]string{"a", "b", "arr"}).Draw(rt, label+".rk")}
		}
	}
	switch kind {
	case sim.Counter:
		return sim.Call{M: "IncreaseBy", Vals: []sim.Val{sim.I(int64(rapid.IntRange(-5, 9).Draw(rt, label+".d")))}}
	case sim.Map:
		k := rapid.SampledFrom([]string{"a", "b", "c"}).Draw(rt, label+".k")
		if rapid.IntRange(0, 3).Draw(rt, label+".rm") == 0 {
			return sim.Call{M: "Remove", Key: k}
		}
		return sim.Call{M: "Put", Key: k, Vals: []sim.Val{tag}}
	case sim.List:
		switch rapid.IntRange(0, 5).Draw(rt, label+".op") {
		case 0:
			return sim.Call{M: "Delete", Pos: 0}
		case 1:
			return sim.Call{M: "Update", Pos: 0, Vals: []sim.Val{tag}}
		case 2:
			return sim.Call{M: "InsertMany", Pos: 0, Vals: []sim.Val{tag, sim.S(tag.S + "b")}}
		default:
			return sim.Call{M: "Insert", Pos: rapid.IntRange(0, 1).Draw(rt, label+".pos"), Vals: []sim.Val{tag}}
		}
	default:
		switch rapid.IntRange(0, 5).Draw(rt, label+".op") {
		case 0:
			return sim.Call{M: "DeleteInObject", Key: rapid.SampledFrom([]string{"a", "b"}).Draw(rt, label+".k")}
		case 1:
			return sim.Call{M: "InsertToArray", Path: []sim.Step{sim.KStep("arr")}, Pos: 0, Vals: []sim.Val{tag}}
		case 2:
			return sim.Call{M: "DeleteInArray", Path: []sim.Step{sim.KStep("arr")}, Pos: 0}
		default:
			return sim.Call{M: "PutToObject", Key: rapid.SampledFrom([]string{"a", "b"}).Draw(rt, label+".k"), Vals: []sim.Val{tag}}
		}
	}
}

func c20Gen(rt *rapid.T, kind sim.Kind) c20Workload {
	w := c20Workload{Kind: kind, IDSeed: rapid.Uint64Range(1, 1<<40).Draw(rt, "idseed")}
	g := rapid.IntRange(2, 8).Draw(rt, "goroutines")
	maxSteps := 40
	if thorough() {
		maxSteps = 120
	}
	for i := 0; i < g; i++ {
		n := rapid.IntRange(5, maxSteps).Draw(rt, fmt.Sprintf("len%d", i))
		var script []c20Step
		cnt := 0
		for j := 0; j < n; j++ {
			l := fmt.Sprintf("g%d.s%d", i, j)
			st := c20Step{Yield: rapid.IntRange(0, 3).Draw(rt, l+".y")}
			if x := rapid.IntRange(0, 9).Draw(rt, l+".pair"); x < 2 && !isOpen("S26") {
				if x == 0 {
					cnt++
					st.Pair = fmt.Sprintf("g%d.%d", i, cnt)
					st.Fail = rapid.IntRange(0, 4).Draw(rt, l+".fail") == 0
				} else {
					st.ReadAll = true
				}
			} else if rapid.IntRange(0, 5).Draw(rt, l+".tx") == 0 {
				k := rapid.IntRange(1, 4).Draw(rt, l+".txn")
				for x := 0; x < k; x++ {
					st.Tx = append(st.Tx, c20GenCall(rt, kind, fmt.Sprintf("%s.c%d", l, x), i, &cnt))
				}
				st.Fail = rapid.IntRange(0, 4).Draw(rt, l+".fail") == 0
			} else {
				c := c20GenCall(rt, kind, l, i, &cnt)
				st.Call = &c
			}
			script = append(script, st)
		}
		w.Scripts = append(w.Scripts, script)
	}
	if kind == sim.Document {
		w.HandleFromTx = rapid.Bool().Draw(rt, "handle_from_tx")
	}
	w.Big = kind != sim.Counter && rapid.IntRange(0, 2).Draw(rt, "big_state") == 0
	rn := rapid.IntRange(0, 15).Draw(rt, "remote")
	cnt := 0
	for j := 0; j < rn; j++ {
		w.Remote = append(w.Remote, c20GenCall(rt, kind, fmt.Sprintf("r%d", j), 99, &cnt))
	}
	return w
}

// c20CheckPack: a pack built at any moment carries whole units only - a transaction header is followed by all the
// operations it announces (what is pushed is stored as it comes; a unit torn over two packs can be separated by
// another client's operations in the server's log).
func c20CheckPack(p *model.PushPullPack, note func(interface{})) {
	ops := p.Operations
	for i := 0; i < len(ops); {
		n := 1
		if ops[i].OpType == model.TypeOfOperation_TRANSACTION {
			var hb txHeader
			_ = json.Unmarshal(ops[i].Body, &hb)
			n = int(hb.NumOfOps)
			if n < 1 {
				n = 1
			}
			if i+n > len(ops) {
				note(fmt.Sprintf("a pack built while a transaction was being queued carries only part of it: the header at position %d (seq %d) announces %d operations, %d follow in the pack", i, ops[i].ID.Seq, n, len(ops)-i))
				return
			}
		}
		i += n
	}
}

type c20Outcome struct {
	hung        bool
	stacks      string
	panics      []string
	okCalls     int64 // successful mutating calls (outside and inside committed transactions)
	reads       int64 // read calls (any outcome)
	committed   int64
	sum         int64 // sum of deltas of successful counter calls (committed)
	overlap     int32
	txOverlap   int32
	remoteUnits int
	pairs       int64
	base        int      // operations the replica had emitted before the goroutines started
	half        []string // reads that showed a half-applied transaction
}

// c20Run executes a workload with real goroutines.
func c20Run(wl c20Workload) (*sim.World, *c20Outcome) {
	sim.SeedIDs(wl.IDSeed)
	w := sim.NewWorld(wl.Kind, 2, 2)
	if wl.Kind == sim.Document {
		w.Call(0, sim.Call{M: "PutToObject", Key: "arr", Vals: []sim.Val{sim.Arr()}})
		_ = w.Quiesce()
	}
	out := &c20Outcome{}
	if wl.Big {
		var many []sim.Val
		for i := 0; i < 3000; i++ {
			many = append(many, sim.I(int64(i)))
		}
		switch wl.Kind {
		case sim.Map:
			for i := 0; i < 1200; i++ {
				w.Call(0, sim.Call{M: "Put", Key: fmt.Sprintf("f%d", i), Vals: []sim.Val{sim.I(int64(i))}})
			}
		case sim.List:
			w.Call(0, sim.Call{M: "InsertMany", Pos: 0, Vals: many})
		case sim.Document:
			w.Call(0, sim.Call{M: "PutToObject", Key: "big", Vals: []sim.Val{{T: "slice", L: many}}})
		}
		_ = w.Quiesce()
	}
	w.Reps[0].NoteEmitted()
	out.base = len(w.Reps[0].Emitted)
	// the remote replica prepares its operations beforehand; they are concurrent with everything A does
	for _, c := range wl.Remote {
		w.Call(1, c)
	}
	remote := cloneOps(w.Reps[1].Emitted[len(w.Reps[1].Emitted)-w.Unpushed(1):], 0)
	a := w.Reps[0].DT
	// Known finding S26: reads take no lock, so a read that overlaps a write of another goroutine
	// can kill the process ("concurrent map read and map write"). Excluded by construction: the
	// scripts contain no reads, and document calls on the array go through a child handle that
	// was obtained before the goroutines start (mutations through a handle are resolved by
	// timestamp under the lock). TestC20KnownS26 re-demonstrates the finding in a subprocess.
	var arrHandle orda.Document
	if wl.Kind == sim.Document {
		if wl.HandleFromTx {
			// a handle fetched inside a transaction keeps working after the transaction has ended; it must
			// not be taken for the owner of whatever transaction runs later
			if err := a.(orda.Document).Transaction("setup", func(d orda.DocumentInTx) error {
				h, e := d.GetFromObject("arr")
				if e != nil {
					return e
				}
				arrHandle = h
				return nil
			}); err == nil {
				out.committed++
			}
		}
		if arrHandle == nil {
			arrHandle, _ = a.(orda.Document).GetFromObject("arr")
		}
	}
	exec := func(view interface{}, c sim.Call, inTx bool) sim.Result {
		if wl.Kind == sim.Document && len(c.Path) > 0 && !inTx {
			c.Path = nil
			return sim.Exec(wl.Kind, arrHandle, c)
		}
		return sim.Exec(wl.Kind, view, c)
	}
	var inflight, inTx, scriptsDone int32
	var mu sync.Mutex
	var wg, swg sync.WaitGroup // swg: the script goroutines only
	note := func(p interface{}) {
		mu.Lock()
		out.panics = append(out.panics, fmt.Sprint(p))
		mu.Unlock()
	}
	enter := func() {
		if atomic.AddInt32(&inflight, 1) > 1 {
			atomic.StoreInt32(&out.overlap, 1)
		}
		if atomic.LoadInt32(&inTx) > 0 {
			atomic.StoreInt32(&out.txOverlap, 1)
		}
	}
	leave := func() { atomic.AddInt32(&inflight, -1) }
	for gi, script := range wl.Scripts {
		wg.Add(1)
		swg.Add(1)
		go func(gi int, script []c20Step) {
			defer wg.Done()
			defer swg.Done()
			defer func() {
				if p := recover(); p != nil {
					note(p)
				}
			}()
			for _, st := range script {
				for y := 0; y < st.Yield; y++ {
					runtime.Gosched()
				}
				if st.ReadAll {
					enter()
					v := a.(orda.Datatype).ToJSON()
					leave()
					atomic.AddInt64(&out.reads, 1)
					if h := c20HalfApplied(wl.Kind, v); h != "" {
						mu.Lock()
						out.half = append(out.half, h)
						mu.Unlock()
					}
					continue
				}
				if st.Pair != "" {
					st.Tx = c20PairCalls(wl.Kind, st.Pair)
					atomic.AddInt64(&out.pairs, 1)
				}
				if st.Call != nil {
					enter()
					res := exec(a, *st.Call, false)
					leave()
					if res.Panic != nil {
						note(fmt.Sprintf("%s: %v at %s", st.Call, res.Panic, res.Stack))
						return
					}
					if !sim.Mutating(st.Call.M) {
						atomic.AddInt64(&out.reads, 1)
						continue
					}
					if res.Err == nil && res.NavErr == nil {
						atomic.AddInt64(&out.okCalls, 1)
						if wl.Kind == sim.Counter {
							atomic.AddInt64(&out.sum, st.Call.Vals[0].I)
						}
					}
					continue
				}
				var okInTx, sumInTx int64
				body := func(view interface{}) error {
					atomic.AddInt32(&inTx, 1)
					defer atomic.AddInt32(&inTx, -1)
					for _, c := range st.Tx {
						res := exec(view, c, true)
						if res.Panic != nil {
							panic(res.Panic)
						}
						if !sim.Mutating(c.M) {
							atomic.AddInt64(&out.reads, 1)
						} else if res.Err == nil && res.NavErr == nil {
							okInTx++
							if wl.Kind == sim.Counter {
								sumInTx += c.Vals[0].I
							}
						}
						runtime.Gosched()
					}
					if st.Fail {
						return fmt.Errorf("generated failure")
					}
					return nil
				}
				enter()
				var err error
				switch wl.Kind {
				case sim.Counter:
					err = a.(orda.Counter).Transaction("t", func(c orda.CounterInTx) error { return body(c) })
				case sim.Map:
					err = a.(orda.Map).Transaction("t", func(c orda.MapInTx) error { return body(c) })
				case sim.List:
					err = a.(orda.List).Transaction("t", func(c orda.ListInTx) error { return body(c) })
				default:
					err = a.(orda.Document).Transaction("t", func(c orda.DocumentInTx) error { return body(c) })
				}
				leave()
				if err == nil {
					atomic.AddInt64(&out.okCalls, okInTx)
					atomic.AddInt64(&out.sum, sumInTx)
					atomic.AddInt64(&out.committed, 1)
				}
			}
		}(gi, script)
	}
	// the "sync" goroutine: delivers the remote units one by one and builds packs
	wg.Add(1)
	go func() {
		defer wg.Done()
		defer func() {
			if p := recover(); p != nil {
				note(p)
			}
		}()
		for i := 0; i < len(remote); {
			n := 1
			if remote[i].OpType == model.TypeOfOperation_TRANSACTION {
				var hb txHeader
				_ = json.Unmarshal(remote[i].Body, &hb)
				n = int(hb.NumOfOps)
			}
			if _, err := a.ReceiveRemoteModelOperations(cloneOps(remote[i:i+n], 0), true); err != nil {
				note("remote delivery failed: " + err.Error())
			}
			out.remoteUnits++
			i += n
			c20CheckPack(a.CreatePushPullPack(), note)
			runtime.Gosched()
		}
		// packs built while the other goroutines are still at work (a sync of a realtime client does that)
		for j := 0; j < 200 && atomic.LoadInt32(&scriptsDone) == 0; j++ {
			c20CheckPack(a.CreatePushPullPack(), note)
			runtime.Gosched()
		}
	}()
	done := make(chan struct{})
	go func() { swg.Wait(); atomic.StoreInt32(&scriptsDone, 1); wg.Wait(); close(done) }()
	select {
	case <-done:
	case <-time.After(20 * time.Second):
		out.hung = true
		buf := make([]byte, 1<<20)
		out.stacks = string(buf[:runtime.Stack(buf, true)])
	}
	return w, out
}

func c20Check(wl c20Workload, w *sim.World, out *c20Outcome) error {
	if out.hung {
		// keep only the orda frames of blocked goroutines
		var lines []string
		for _, l := range strings.Split(out.stacks, "\n") {
			if strings.Contains(l, "orda-io/orda") || strings.HasPrefix(l, "goroutine ") {
				lines = append(lines, l)
			}
		}
		if len(lines) > 40 {
			lines = lines[:40]
		}
		return fmt.Errorf("deadlock: the goroutines did not finish within 20 s\n%s", strings.Join(lines, "\n"))
	}
	if len(out.panics) > 0 {
		return fmt.Errorf("panic in a goroutine using the datatype: %s", out.panics[0])
	}
	if len(out.half) > 0 {
		return fmt.Errorf("a goroutine read the datatype while another goroutine's transaction was half applied: %s", out.half[0])
	}
	rep := w.Reps[0]
	rep.NoteEmitted()
	ops := rep.Emitted
	base := out.base // the creator's snapshot operation and the set-up calls
	// sequence numbers in order, units contiguous
	headers := 0
	for i := 0; i < len(ops); i++ {
		if ops[i].ID.Seq != uint64(i+1) {
			return fmt.Errorf("operation %d queued for push has sequence number %d (lost, repeated or out of identifier order)", i, ops[i].ID.Seq)
		}
		if ops[i].OpType == model.TypeOfOperation_TRANSACTION {
			var hb txHeader
			_ = json.Unmarshal(ops[i].Body, &hb)
			headers++
			if i+int(hb.NumOfOps) > len(ops) {
				return fmt.Errorf("transaction header at %d announces %d operations, only %d follow", i, hb.NumOfOps, len(ops)-i)
			}
			for j := i + 1; j < i+int(hb.NumOfOps); j++ {
				if ops[j].OpType == model.TypeOfOperation_TRANSACTION {
					return fmt.Errorf("another goroutine's transaction header sits inside the unit that starts at %d", i)
				}
			}
		}
	}
	if int64(headers) != out.committed {
		return fmt.Errorf("%d transactions committed but %d headers were queued", out.committed, headers)
	}
	if got, want := int64(len(ops)-base-headers), out.okCalls; got != want {
		return fmt.Errorf("%d calls returned success but %d operations were queued for push (an update was lost or queued twice)", want, got)
	}
	// final state = function of the operations (local in identifier order, remote ones first)
	all := cloneOps(ops[:base], 0)
	all = append(all, cloneOps(w.Reps[1].Emitted, 0)...)
	all = append(all, cloneOps(ops[base:], 0)...)
	st, err := refmodel.Compute(string(wl.Kind), all)
	if err != nil {
		return err
	}
	if len(st.Ignored) > 0 {
		return fmt.Errorf("operations queued for push do not form a consistent history (the emitted order is not a serialisation): %v", st.Ignored)
	}
	got, want := sim.Canon(rep.DT.(orda.Datatype).ToJSON()), sim.Canon(st.JSON())
	if got != want {
		return fmt.Errorf("final state is not the outcome of the queued operations:\n  got:  %s\n  want: %s", got, want)
	}
	if wl.Kind == sim.Counter {
		var remoteSum int64
		for _, c := range wl.Remote {
			remoteSum += c.Vals[0].I
		}
		if int64(rep.DT.(orda.Counter).Get()) != out.sum+remoteSum {
			return fmt.Errorf("counter is %d, the successful calls add up to %d (+%d remote)", rep.DT.(orda.Counter).Get(), out.sum, remoteSum)
		}
	}
	return nil
}

func testC20(t *testing.T, kind sim.Kind) {
	col := stats.New("C20", t.Name(),
		"generated workloads on ONE datatype instance: 2-8 real goroutines each running a drawn script of calls and transactions (bodies yield between calls, some fail), plus a goroutine that delivers prepared remote units and builds push packs; free-running Go scheduler with drawn Gosched yields; "+
			"among the steps: transactions of two calls that belong together (same tag under two keys / +1e6 and -1e6 / insert and delete of a marked head element) and reads of the whole state; "+
			"oracle: all goroutines finish within 20 s (else deadlock), no panic, no read shows one call of a pair without the other, queued operations have sequence numbers 1..n in order, one per successful call plus one header per committed transaction, no foreign header inside a unit, final state equals refmodel(queued + remote operations), counter equals the sum of successful deltas; "+
			"non-trivial = calls of >=2 goroutines overlapped in time AND a call started while another goroutine's transaction body was running (both measured with atomic counters); distinct = hash of the workload (the schedule itself is not controlled)")
	col.Assume("schedule coverage is sampled: the Go scheduler decides the interleaving; a failing schedule may not reproduce from the workload alone")
	checkProp(t, "C20", col, func(c *caseCtx) {
		wl := c20Gen(c.rt, kind)
		c.j.Header = wl
		w, out := c20Run(wl)
		if err := c20Check(wl, w, out); err != nil {
			c.failf("%v", err)
		}
		var labels []string
		if out.overlap == 1 {
			labels = append(labels, "calls-overlapped")
		}
		if out.txOverlap == 1 {
			labels = append(labels, "call-during-foreign-transaction")
		}
		b, _ := json.Marshal(wl)
		if wl.HandleFromTx {
			labels = append(labels, "shared-handle-obtained-inside-an-earlier-transaction")
		}
		if out.reads > 0 {
			labels = append(labels, "reads-among-the-concurrent-calls")
		}
		if out.pairs > 0 {
			labels = append(labels, "pair-transactions-and-whole-state-reads")
		}
		if wl.Big {
			labels = append(labels, "big-state(long-reads)")
		}
		col.Case(out.overlap == 1 && out.txOverlap == 1, string(b), append(labels, "kind="+string(kind), fmt.Sprintf("goroutines=%d", len(wl.Scripts))), func() interface{} {
			return map[string]interface{}{"kind": kind, "goroutines": len(wl.Scripts), "script_lengths": func() []int {
				var l []int
				for _, s := range wl.Scripts {
					l = append(l, len(s))
				}
				return l
			}(), "remote_calls": len(wl.Remote), "first_script": wl.Scripts[0]}
		})
	})
}

func TestC20Counter(t *testing.T)  { testC20(t, sim.Counter) }
func TestC20Map(t *testing.T)      { testC20(t, sim.Map) }
func TestC20List(t *testing.T)     { testC20(t, sim.List) }
func TestC20Document(t *testing.T) { testC20(t, sim.Document) }

// TestC20S26Child is the body of the S26 probe; it only runs inside the subprocess started by
// TestC20KnownS26 and is expected to die with "concurrent map read and map write".
func TestC20S26Child(t *testing.T) {
	if os.Getenv("VERIF_S26_CHILD") == "" {
		t.Skip("only runs as a subprocess of TestC20KnownS26")
	}
	sim.SeedIDs(26)
	w := sim.NewWorld(sim.Map, 1, 1)
	m := w.Reps[0].DT.(orda.Map)
	stop := time.Now().Add(3 * time.Second)
	var wg sync.WaitGroup
	wg.Add(2)
	go func() {
		defer wg.Done()
		for i := 0; time.Now().Before(stop); i++ {
			_, _ = m.Put(fmt.Sprintf("k%d", i%64), i)
		}
	}()
	go func() {
		defer wg.Done()
		for i := 0; time.Now().Before(stop); i++ {
			_ = m.Get(fmt.Sprintf("k%d", i%64))
		}
	}()
	wg.Wait()
}

// TestC20KnownS26 re-demonstrates known finding S26 in a subprocess (the failure is a fatal
// runtime error that cannot be recovered in-process).
func TestC20KnownS26(t *testing.T) {
	col := stats.New("C20", t.Name(), "probe of known finding S26: one goroutine calls Map.Put, another Map.Get on the same datatype, in a subprocess")
	defer col.Flush()
	col.Bulk(1, 0)
	cmd := osexec.Command(os.Args[0], "-test.run", "^TestC20S26Child$", "-test.count", "1")
	cmd.Env = append(os.Environ(), "VERIF_S26_CHILD=1")
	outb, err := cmd.CombinedOutput()
	reproduced := err != nil && strings.Contains(string(outb), "concurrent map")
	switch {
	case reproduced && isOpen("S26"):
		reportKnown(col, "C20", "S26", "a Map.Get that overlaps a Map.Put of another goroutine kills the process with 'fatal error: concurrent map read and map write' (reads take no lock)")
	case reproduced:
		j := &Journal{Property: "C20", Test: t.Name(), Header: "goroutine 1: Map.Put in a loop; goroutine 2: Map.Get in a loop", Actions: []interface{}{string(outb[:min(len(outb), 1500)])}}
		enumFail(t, "C20", j, "concurrent read and write on one datatype killed the process: concurrent map read and map write")
	case isOpen("S26"):
		col.Note("known finding S26 did not reproduce in this run (schedule dependent)")
	}
}
