package props

import (
	"fmt"
	"runtime"
	"strings"
	"sync"
	"testing"
	"time"

	"github.com/orda-io/orda/client/pkg/iface"
	"github.com/orda-io/orda/client/pkg/model"
	"github.com/orda-io/orda/client/pkg/orda"
	"go.mongodb.org/mongo-driver/bson"
	"pgregory.net/rapid"
	"verif/refmodel"
	"verif/sim"
	"verif/stats"
)

// c13Cell is one combination of the entry-contract matrix.
type c13Cell struct {
	Mode      string   `json:"mode"`      // create | subscribe | subscribe-or-create
	Existing  string   `json:"existing"`  // none | same | other
	Racer     string   `json:"racer"`     // none | create | subscribe | subscribe-or-create
	RaceOrder string   `json:"raceorder"` // actor-first | racer-first | concurrent
	Kind      sim.Kind `json:"kind"`
	PriorOps  int      `json:"prior_ops"` // operations stored for the existing datatype
	IDSeed    uint64   `json:"id_seed"`
	// OwnOps: local operations the actor makes on its new datatype before its entry request (a creator's
	// are pushed with the request, a subscriber's are discarded by design)
	OwnOps int `json:"own_ops,omitempty"`
	// LostResponse: the answer to the actor's entry request is lost; the actor sends its entry request
	// again (built from its unchanged state) and handles that answer
	LostResponse bool `json:"lost_response,omitempty"`
}

func c13Expected(mode, existing string) string {
	if existing == "rest-created" { // a document that the REST patch endpoint created: an existing datatype of the same type
		existing = "same"
	}
	switch mode {
	case "create":
		if existing == "none" {
			return "created"
		}
		return "refused"
	case "subscribe":
		if existing == "same" {
			return "subscribed"
		}
		return "refused"
	default:
		switch existing {
		case "none":
			return "created"
		case "same":
			return "subscribed"
		}
		return "refused"
	}
}

func otherKind(k sim.Kind) sim.Kind {
	for i, x := range sim.AllKinds {
		if x == k {
			return sim.AllKinds[(i+1)%len(sim.AllKinds)]
		}
	}
	return sim.Counter
}

type c13Actor struct {
	c    *l1Client
	d    *l1DT
	mode string
	ex   *exchange
	// observed
	outcome    string
	firstState string
	respSseq   uint64
}

func (w *l1World) c13Enter(a *c13Actor, k *l1Key) {
	req := a.c.pc.BuildRequest(a.d.dt)
	a.ex = w.send(a.c, req)
}

func (w *l1World) c13Finish(a *c13Actor, k *l1Key) error {
	ex := a.ex
	if ex.timedOut {
		return fmt.Errorf("client %d (%s): the entry request was never answered", a.c.idx, a.mode)
	}
	if ex.rpcErr != nil {
		return fmt.Errorf("client %d (%s): RPC error %v", a.c.idx, a.mode, ex.rpcErr)
	}
	w.apply(a.c, ex)
	if ex.applyErr != nil {
		return fmt.Errorf("client %d (%s): failed to handle the answer: %v", a.c.idx, a.mode, ex.applyErr)
	}
	a.firstState = sim.Canon(a.d.dt.(orda.Datatype).ToJSON())
	for _, p := range ex.resp.PushPullPacks {
		a.respSseq = p.CheckPoint.GetSseq()
		switch {
		case packError(p) != "":
			a.outcome = "refused"
		case p.GetPushPullPackOption().HasSubscribeBit():
			a.outcome = "subscribed"
		case p.GetPushPullPackOption().HasCreateBit():
			a.outcome = "created"
		default:
			a.outcome = "answered-without-entry-bit"
		}
	}
	return nil
}

// c13Run plays one cell and checks the contract.
func c13Run(cell c13Cell) (nontrivial bool, err error) {
	w, e := newL1World(cell.IDSeed, []sim.Kind{cell.Kind})
	if e != nil {
		return false, fmt.Errorf("HARNESS-ERROR: %v", e)
	}
	defer w.close()
	k := w.keys[0]
	actorKind := cell.Kind
	// existing datatype
	if cell.Existing == "rest-created" {
		// the key holds a document that nobody but the REST patch endpoint has ever touched
		patchesHappened = true
		for i := 0; i <= cell.PriorOps/3; i++ {
			if _, err, to := w.env.PatchDocument(&model.PatchMessage{Collection: w.col, Key: k.Name, Json: fmt.Sprintf(`{"by":"rest","n":%d,"l":[1,2]}`, i)}, l1Deadline); err != nil || to {
				return false, fmt.Errorf("HARNESS-ERROR: cannot create the document through the REST endpoint: err=%v timeout=%v", err, to)
			}
		}
		w.env.WaitBackground(3 * time.Second)
		for _, dd := range w.datatypeDocs() {
			if bstr(bget(dd, "key")) == k.Name {
				k.created, k.duid = true, bstr(bget(dd, "_id"))
			}
		}
	} else if cell.Existing != "none" {
		if cell.Existing == "other" {
			k.Kind = otherKind(cell.Kind)
		}
		owner, e := w.addClient()
		if e != nil {
			return false, fmt.Errorf("HARNESS-ERROR: %v", e)
		}
		d := w.open(owner, k, "create")
		for i := 0; i < cell.PriorOps; i++ {
			sim.Exec(k.Kind, d.dt, c06CheapCall(k.Kind, i))
		}
		if ex := w.syncClient(owner); ex == nil || exchangeProblem(owner, ex) != nil {
			return false, fmt.Errorf("HARNESS-ERROR: cannot prepare the existing datatype")
		}
		// the owner keeps writing: a later subscriber must see the state at ITS log position
		if cell.PriorOps > 0 {
			sim.Exec(k.Kind, d.dt, c06CheapCall(k.Kind, 99))
			if ex := w.syncClient(owner); ex == nil || exchangeProblem(owner, ex) != nil {
				return false, fmt.Errorf("HARNESS-ERROR: cannot prepare the existing datatype")
			}
		}
		k.Kind = actorKind // the actor opens the key with ITS type
	}
	mk := func(mode string) (*c13Actor, error) {
		c, e := w.addClient()
		if e != nil {
			return nil, fmt.Errorf("HARNESS-ERROR: %v", e)
		}
		return &c13Actor{c: c, d: w.open(c, k, mode), mode: mode}, nil
	}
	actor, e := mk(cell.Mode)
	if e != nil {
		return false, e
	}
	for i := 0; i < cell.OwnOps; i++ {
		sim.Exec(cell.Kind, actor.d.dt, c06CheapCall(cell.Kind, 200+i))
	}
	var racer *c13Actor
	if cell.Racer != "none" {
		if racer, e = mk(cell.Racer); e != nil {
			return false, e
		}
	}
	w.env.WaitBackground(3 * time.Second)
	before := w.env.Mongo.DumpCanonical()
	// send
	switch {
	case racer == nil && cell.LostResponse:
		w.c13Enter(actor, k) // processed by the server; the answer never reaches the client
		if actor.ex.timedOut || actor.ex.rpcErr != nil {
			return false, fmt.Errorf("client %d (%s): the first entry request: timeout=%v err=%v", actor.c.idx, actor.mode, actor.ex.timedOut, actor.ex.rpcErr)
		}
		w.c13Enter(actor, k)
	case racer == nil:
		w.c13Enter(actor, k)
	case cell.RaceOrder == "actor-first":
		w.c13Enter(actor, k)
		w.c13Enter(racer, k)
	case cell.RaceOrder == "racer-first":
		w.c13Enter(racer, k)
		w.c13Enter(actor, k)
	default:
		var wg sync.WaitGroup
		wg.Add(2)
		w.waitBG = false
		ra, rr := actor.c.pc.BuildRequest(actor.d.dt), racer.c.pc.BuildRequest(racer.d.dt)
		go func() { defer wg.Done(); actor.ex = w.rawSend(ra) }()
		go func() { defer wg.Done(); racer.ex = w.rawSend(rr) }()
		wg.Wait()
		w.record(actor.c, actor.ex)
		w.record(racer.c, racer.ex)
		w.waitBG = true
		w.env.WaitBackground(3 * time.Second)
	}
	actors := []*c13Actor{actor}
	if racer != nil {
		actors = append(actors, racer)
	}
	for _, a := range actors {
		if err := w.c13Finish(a, k); err != nil {
			return false, err
		}
	}
	waitHandlers()
	time.Sleep(2 * time.Millisecond)
	waitHandlers()
	// expectations
	exp := map[*c13Actor][]string{}
	switch {
	case racer == nil && cell.LostResponse:
		want := c13Expected(cell.Mode, cell.Existing)
		if want == "created" {
			// the first request created the datatype; the client, which does not know, asks again: it has to end
			// up as a member of the datatype it created (told "created" again or "subscribed"), never refused
			// (the answer may also carry no entry bit at all: the server knows the client as a member already;
			// what counts is the client's state afterwards, checked below)
			want = actor.outcome
			if want == "refused" {
				return true, fmt.Errorf("client %d: %s created the datatype, the answer was lost, and the repeated request was refused: %v", actor.c.idx, actor.mode, actor.ex.errPacks)
			}
		}
		exp[actor] = []string{want}
	case racer == nil:
		exp[actor] = []string{c13Expected(cell.Mode, cell.Existing)}
	case cell.RaceOrder == "actor-first" || cell.RaceOrder == "racer-first" || cell.RaceOrder == "concurrent":
		first, second := actor, racer
		if cell.RaceOrder == "racer-first" {
			first, second = racer, actor
		}
		seq := func(f, s *c13Actor) (string, string) {
			o1 := c13Expected(f.mode, cell.Existing)
			ex2 := cell.Existing
			if o1 == "created" {
				ex2 = "same"
			}
			return o1, c13Expected(s.mode, ex2)
		}
		o1, o2 := seq(first, second)
		exp[first], exp[second] = []string{o1}, []string{o2}
		if cell.RaceOrder == "concurrent" {
			p2, p1 := seq(second, first)
			exp[first] = append(exp[first], p1)
			exp[second] = append(exp[second], p2)
		}
	}
	if cell.RaceOrder == "concurrent" && racer != nil {
		// the two observed outcomes must be one of the two sequential orders as a PAIR
		ok := (actor.outcome == exp[actor][0] && racer.outcome == exp[racer][0]) || (actor.outcome == exp[actor][1] && racer.outcome == exp[racer][1])
		if !ok {
			return true, fmt.Errorf("concurrent %s and %s on existing=%s: outcomes (%s, %s) match neither sequential order (%v / %v)", actor.mode, racer.mode, cell.Existing, actor.outcome, racer.outcome, exp[actor], exp[racer])
		}
	}
	anyAccepted := false
	duids := map[string]bool{}
	for _, a := range actors {
		want := exp[a][0]
		if cell.RaceOrder == "concurrent" && racer != nil && a.outcome != want {
			want = exp[a][1]
		}
		if a.outcome != want {
			return true, fmt.Errorf("client %d: %s on a key whose existing datatype is %q (racer %s, %s): server answered %q, the contract says %q", a.c.idx, a.mode, cell.Existing, cell.Racer, cell.RaceOrder, a.outcome, want)
		}
		a.d.mu.Lock()
		subEvents, errEvents := a.d.subEvents, len(a.d.errEvents)
		a.d.mu.Unlock()
		state := a.d.dt.GetState()
		if want == "refused" {
			if errEvents == 0 {
				return true, fmt.Errorf("client %d: %s was refused but the client's error handler was not called", a.c.idx, a.mode)
			}
			if state == model.StateOfDatatype_SUBSCRIBED || subEvents != 0 {
				return true, fmt.Errorf("client %d: %s was refused but the datatype became SUBSCRIBED (state %v, %d events)", a.c.idx, a.mode, state, subEvents)
			}
			continue
		}
		anyAccepted = true
		if state != model.StateOfDatatype_SUBSCRIBED {
			return true, fmt.Errorf("client %d: %s succeeded (%s) but the datatype is in state %v", a.c.idx, a.mode, a.outcome, state)
		}
		if subEvents != 1 {
			return true, fmt.Errorf("client %d: %s succeeded but the state-change handler reported SUBSCRIBED %d times (want exactly once)", a.c.idx, a.mode, subEvents)
		}
		if errEvents != 0 {
			return true, fmt.Errorf("client %d: %s succeeded but the error handler was called: %v", a.c.idx, a.mode, a.d.errEvents)
		}
		duids[a.d.dt.GetDUID()] = true
		if a.outcome == "subscribed" {
			log, _ := w.storedLog(a.d.dt.GetDUID())
			var ops []*model.Operation
			for _, so := range log {
				if uint64(so.sseq) <= a.respSseq {
					ops = append(ops, so.op)
				}
			}
			st, e := refmodel.Compute(string(cell.Kind), ops)
			if e != nil {
				return true, e
			}
			if want := sim.Canon(st.JSON()); a.firstState != want {
				return true, fmt.Errorf("client %d: first state after subscribing at log position %d is %s, the log prefix gives %s", a.c.idx, a.respSseq, a.firstState, want)
			}
		}
	}
	// later packs must not report the transition again
	for _, a := range actors {
		if a.outcome == "created" || a.outcome == "subscribed" {
			if ex := w.syncClient(a.c); ex != nil {
				if err := exchangeProblem(a.c, ex); err != nil {
					return true, fmt.Errorf("the sync after entering fails: %v", err)
				}
			}
		}
	}
	// a datatype that a client has entered works: what the client issues from now on reaches the server
	for _, a := range actors {
		if a.outcome != "created" && a.outcome != "subscribed" {
			continue
		}
		for i := 0; i < 2; i++ {
			sim.Exec(cell.Kind, a.d.dt, c06CheapCall(cell.Kind, 900+10*a.c.idx+i))
		}
		if ex := w.syncClient(a.c); ex != nil {
			if err := exchangeProblem(a.c, ex); err != nil {
				return true, fmt.Errorf("client %d: the sync of two operations issued after entering (%s) fails: %v", a.c.idx, a.outcome, err)
			}
		}
		if a.d.dt.NeedPush() {
			return true, fmt.Errorf("client %d: operations issued after entering (%s) are still unpushed after a sync", a.c.idx, a.outcome)
		}
		sc, _, e := w.serverCopy(k)
		if e != nil {
			return true, fmt.Errorf("the server cannot rebuild the datatype: %v", e)
		}
		if got, want := sim.Canon(sc.(orda.Datatype).ToJSON()), sim.Canon(a.d.dt.(orda.Datatype).ToJSON()); got != want {
			return true, fmt.Errorf("client %d entered the datatype (%s), issued two operations and synced, but the server's copy does not have them:\n  client: %s\n  server: %s", a.c.idx, a.outcome, want, got)
		}
	}
	waitHandlers()
	time.Sleep(2 * time.Millisecond)
	waitHandlers()
	for _, a := range actors {
		a.d.mu.Lock()
		n := a.d.subEvents
		a.d.mu.Unlock()
		if (a.outcome == "created" || a.outcome == "subscribed") && n != 1 {
			return true, fmt.Errorf("client %d: after one more sync the state-change handler has reported SUBSCRIBED %d times (want exactly once)", a.c.idx, n)
		}
	}
	w.env.WaitBackground(3 * time.Second)
	if !anyAccepted {
		if after := w.env.Mongo.DumpCanonical(); after != before {
			return true, fmt.Errorf("every entry request was refused but stored data changed:\n%s", dumpDiff(before, after))
		}
	}
	// exactly one datatype per collection and key
	n := 0
	for _, dd := range w.datatypeDocs() {
		if bstr(bget(dd, "key")) == k.Name {
			n++
		}
	}
	wantDocs := 0
	if cell.Existing != "none" || anyAccepted {
		wantDocs = 1
	}
	if n != wantDocs {
		return true, fmt.Errorf("%d datatype documents exist for key %s (want %d)", n, k.Name, wantDocs)
	}
	if len(duids) > 1 {
		return true, fmt.Errorf("the clients that entered ended up with different datatype ids: %v", duids)
	}
	if err := w.checkLogInvariants(); err != nil {
		return true, err
	}
	plain := racer == nil && ((cell.Mode == "create" && cell.Existing == "none") || (cell.Mode == "subscribe" && cell.Existing == "same"))
	return !plain && (cell.Existing == "none" || cell.PriorOps >= 3), nil
}

func c13Cells() []c13Cell {
	var out []c13Cell
	modes := []string{"create", "subscribe", "subscribe-or-create"}
	for _, kind := range sim.AllKinds {
		for _, m := range modes {
			for _, ex := range []string{"none", "same", "other"} {
				out = append(out, c13Cell{Mode: m, Existing: ex, Racer: "none", Kind: kind, PriorOps: 3})
				for _, r := range modes {
					for _, ord := range []string{"actor-first", "racer-first", "concurrent"} {
						out = append(out, c13Cell{Mode: m, Existing: ex, Racer: r, RaceOrder: ord, Kind: kind, PriorOps: 3})
					}
				}
			}
		}
	}
	return out
}

// TestC13Matrix: the full matrix, exhaustively.
func TestC13Matrix(t *testing.T) {
	col := stats.New("C13", t.Name(),
		"EXHAUSTIVE matrix: entry mode {create, subscribe, subscribe-or-create} x existing datatype on the key {none, same type with 5 stored operations, other type} x racing second client {none, create, subscribe, subscribe-or-create} x order {actor first, racer first, truly concurrent} x 4 kinds, on the real server; "+
			"oracle: the answer matches the contract (a concurrent pair must match one of the two sequential orders), a refusal reaches the error handler, leaves the datatype un-subscribed and (if everybody was refused) every stored collection unchanged; a success makes the datatype SUBSCRIBED with exactly one state-change event and no error event; "+
			"a subscriber's first state equals refmodel(log[1..S]) for the S of its response; exactly one datatype document per key; everybody who entered holds the same datatype id; log invariants; "+
			"non-trivial = not the plain create-on-empty / subscribe-on-existing cell; distinct = the cell")
	defer col.Flush()
	shard, nshards := envInt("VERIF_SHARD", 0), envInt("VERIF_NSHARDS", 1)
	for i, cell := range c13Cells() {
		if i%nshards != shard {
			continue
		}
		cell.IDSeed = uint64(7000 + i)
		nt, err := c13Run(cell)
		canon := fmt.Sprintf("%+v", cell)
		if err != nil {
			if id := c13Classify(cell, err); id != "" {
				reportKnown(col, "C13", id, c13KnownText[id])
				col.Case(true, canon, []string{"known=" + id}, nil)
				continue
			}
			j := &Journal{Property: "C13", Test: t.Name(), Header: cell}
			col.Flush()
			enumFail(t, "C13", j, "cell %+v: %v", cell, err)
		}
		col.Case(nt, canon, []string{"mode=" + cell.Mode, "existing=" + cell.Existing, "racer=" + cell.Racer, "order=" + cell.RaceOrder}, func() interface{} { return cell })
	}
	col.SetExhaustive(true)
}

var c13KnownText = map[string]string{}

func c13Classify(cell c13Cell, err error) string { return "" }

// TestC13Random: the same cells embedded at drawn points (prior operations, seeds).
func TestC13Random(t *testing.T) {
	col := stats.New("C13", t.Name(),
		"rapid: drawn cells of the matrix with a drawn number of stored operations (0..40) on the existing datatype and drawn identifiers; same oracle as TestC13Matrix; non-trivial as there and >=3 stored operations; distinct = the cell")
	checkProp(t, "C13", col, func(c *caseCtx) {
		rt := c.rt
		cell := c13Cell{
			Mode:     rapid.SampledFrom([]string{"create", "subscribe", "subscribe-or-create"}).Draw(rt, "mode"),
			Existing: rapid.SampledFrom([]string{"none", "same", "other"}).Draw(rt, "existing"),
			Racer:    rapid.SampledFrom([]string{"none", "create", "subscribe", "subscribe-or-create"}).Draw(rt, "racer"),
			Kind:     kindFromDraw(rt),
			PriorOps: rapid.SampledFrom([]int{0, 1, 3, 10, 40}).Draw(rt, "prior"),
			IDSeed:   rapid.Uint64Range(1, 1<<40).Draw(rt, "idseed"),
		}
		if cell.Kind == sim.Document && cell.Existing == "same" && rapid.Bool().Draw(rt, "rest_created") {
			cell.Existing = "rest-created"
		}
		if cell.Racer != "none" {
			cell.RaceOrder = rapid.SampledFrom([]string{"actor-first", "racer-first", "concurrent"}).Draw(rt, "order")
		} else {
			cell.LostResponse = rapid.Bool().Draw(rt, "lost_response")
		}
		cell.OwnOps = rapid.SampledFrom([]int{0, 0, 1, 3}).Draw(rt, "own_ops")
		c.j.Header = cell
		nt, err := c13Run(cell)
		if err != nil {
			c.failf("%v", err)
		}
		labels := []string{"mode=" + cell.Mode, "existing=" + cell.Existing, "racer=" + cell.Racer}
		if cell.LostResponse {
			labels = append(labels, "entry-request-repeated-after-lost-answer")
		}
		if cell.OwnOps > 0 {
			labels = append(labels, "operations-before-the-entry-request")
		}
		col.Case(nt, fmt.Sprintf("%+v", cell), labels, func() interface{} { return cell })
	})
}

// TestC13Retry: every entry mode x existing datatype x kind with the answer to the entry request lost
// and the request repeated, with and without operations made before it.
func TestC13Retry(t *testing.T) {
	col := stats.New("C13", t.Name(),
		"EXHAUSTIVE sub-matrix: entry mode x existing datatype {none, same type, other type, (documents) created by the REST patch endpoint} x {0, 2} operations made on the new datatype before the entry request x 4 kinds; the server processes the entry request, its answer is LOST, the client repeats the request and handles that answer (for a REST-created document also without the loss); "+
			"oracle as TestC13Matrix: a refusal stays a refusal (error handler, store unchanged by the repetition), a client whose first request created or subscribed ends up SUBSCRIBED with exactly one state-change event, and if the repeated request is answered as a subscription its first state equals refmodel(log[1..S]) - including its own operations that the first request stored; "+
			"non-trivial = the first request was accepted; distinct = the cell")
	defer col.Flush()
	shard, nshards := envInt("VERIF_SHARD", 0), envInt("VERIF_NSHARDS", 1)
	i := 0
	for _, kind := range sim.AllKinds {
		for _, m := range []string{"create", "subscribe", "subscribe-or-create"} {
			for _, ex := range []string{"none", "same", "other", "rest-created"} {
				if ex == "rest-created" && kind != sim.Document {
					continue
				}
				for _, own := range []int{0, 2} {
					i++
					if i%nshards != shard {
						continue
					}
					cell := c13Cell{Mode: m, Existing: ex, Racer: "none", Kind: kind, PriorOps: 3, OwnOps: own, LostResponse: ex != "rest-created" || own == 2, IDSeed: uint64(9000 + i)}
					_, err := c13Run(cell)
					if err != nil {
						j := &Journal{Property: "C13", Test: t.Name(), Header: cell}
						col.Flush()
						enumFail(t, "C13", j, "cell %+v: %v", cell, err)
					}
					col.Case(c13Expected(m, ex) != "refused", fmt.Sprintf("%+v", cell), []string{"mode=" + m, "existing=" + ex, fmt.Sprintf("own-ops=%d", own)}, func() interface{} { return cell })
				}
			}
		}
	}
	col.SetExhaustive(true)
}

// c13RealRun plays one cell of the entry contract through REAL clients (orda.NewClient, manual sync,
// gRPC): the actor opens the key in the cell's mode and, in the same Sync(), creates a second, fresh
// key - a refused pack must not take the other pack of the message down with it.
func c13RealRun(cell c13Cell) (nontrivial bool, err error) {
	w, e := newL1World(cell.IDSeed, []sim.Kind{cell.Kind, sim.Counter})
	if e != nil {
		return false, fmt.Errorf("HARNESS-ERROR: %v", e)
	}
	defer w.close()
	k, k2 := w.keys[0], w.keys[1]
	var closers []orda.Client
	defer func() {
		for _, c := range closers {
			c := c
			watchdog(3*time.Second, func() { _ = c.Close() })
		}
	}()
	newClient := func(alias string) (orda.Client, error) {
		cl, e := w.env.NewRealClient(w.col, alias, model.SyncType_MANUALLY)
		if e != nil {
			return nil, e
		}
		if e := cl.Connect(); e != nil {
			return nil, e
		}
		closers = append(closers, cl)
		return cl, nil
	}
	if cell.Existing != "none" {
		ek := cell.Kind
		if cell.Existing == "other" {
			ek = otherKind(cell.Kind)
		}
		owner, e := newClient("owner")
		if e != nil {
			return false, fmt.Errorf("HARNESS-ERROR: %v", e)
		}
		od := &c05rDT{key: k, mode: "create"}
		od.dt = openReal(owner, ek, k.Name, "create", od.handlers())
		for i := 0; i < cell.PriorOps; i++ {
			sim.Exec(ek, od.dt, c06CheapCall(ek, i))
		}
		if err, hung := syncWithDeadline(owner, l1Deadline); err != nil || hung {
			return false, fmt.Errorf("HARNESS-ERROR: cannot prepare the existing datatype: err=%v hung=%v", err, hung)
		}
		k.duid = od.dt.GetDUID()
	}
	actor, e := newClient("actor")
	if e != nil {
		return false, fmt.Errorf("HARNESS-ERROR: %v", e)
	}
	d := &c05rDT{key: k, mode: cell.Mode}
	d.dt = openReal(actor, cell.Kind, k.Name, cell.Mode, d.handlers())
	for i := 0; i < cell.OwnOps; i++ {
		sim.Exec(cell.Kind, d.dt, c06CheapCall(cell.Kind, 200+i))
	}
	d2 := &c05rDT{key: k2, mode: "create"}
	d2.dt = openReal(actor, sim.Counter, k2.Name, "create", d2.handlers())
	sim.Exec(sim.Counter, d2.dt, c06CheapCall(sim.Counter, 1))
	w.env.WaitBackground(3 * time.Second)
	before := c13Footprint(w, k, d.dt.GetDUID())
	_, hung := syncWithDeadline(actor, l1Deadline)
	if hung {
		return true, fmt.Errorf("Sync() of the real client did not return within %v (%s on existing=%s)", l1Deadline, cell.Mode, cell.Existing)
	}
	waitHandlers()
	time.Sleep(2 * time.Millisecond)
	waitHandlers()
	w.env.WaitBackground(3 * time.Second)
	want := c13Expected(cell.Mode, cell.Existing)
	d.mu.Lock()
	subs, errs := d.subs, append([]string{}, d.errs...)
	d.mu.Unlock()
	state := d.dt.GetState()
	// the other pack of the same message
	d2.mu.Lock()
	subs2, errs2 := d2.subs, append([]string{}, d2.errs...)
	d2.mu.Unlock()
	if d2.dt.GetState() != model.StateOfDatatype_SUBSCRIBED || subs2 != 1 || len(errs2) != 0 {
		return true, fmt.Errorf("the fresh key created in the same Sync() as '%s on existing=%s' is in state %v (SUBSCRIBED events %d, errors %v)", cell.Mode, cell.Existing, d2.dt.GetState(), subs2, errs2)
	}
	if want == "refused" {
		if len(errs) == 0 {
			return true, fmt.Errorf("%s on a key whose existing datatype is %q must be refused, but the client's error handler was not called (state %v)", cell.Mode, cell.Existing, state)
		}
		if state == model.StateOfDatatype_SUBSCRIBED || subs != 0 {
			return true, fmt.Errorf("%s on existing=%s was refused (%v) but the datatype is %v (%d SUBSCRIBED events)", cell.Mode, cell.Existing, errs, state, subs)
		}
		// nothing stored for the refused key (the fresh second key of the same message does store things)
		if after := c13Footprint(w, k, d.dt.GetDUID()); after != before {
			return true, fmt.Errorf("the refused %s on existing=%s changed what is stored for the key:\n%s", cell.Mode, cell.Existing, dumpDiff(before, after))
		}
		// the client stays usable
		if _, hung := syncWithDeadline(actor, l1Deadline); hung {
			return true, fmt.Errorf("the Sync() after a refused %s did not return", cell.Mode)
		}
		return true, nil
	}
	if state != model.StateOfDatatype_SUBSCRIBED || subs != 1 || len(errs) != 0 {
		return true, fmt.Errorf("%s on existing=%s must succeed (%s), but the datatype is %v with %d SUBSCRIBED events and errors %v", cell.Mode, cell.Existing, want, state, subs, errs)
	}
	if want == "subscribed" {
		if d.dt.GetDUID() != k.duid {
			return true, fmt.Errorf("the subscriber holds datatype id %s, the existing datatype is %s", d.dt.GetDUID(), k.duid)
		}
		s := d.dt.CreatePushPullPack().CheckPoint.Sseq
		log, _ := w.storedLog(k.duid)
		var ops []*model.Operation
		for _, so := range log {
			if uint64(so.sseq) <= s {
				ops = append(ops, so.op)
			}
		}
		st, e := refmodel.Compute(string(cell.Kind), ops)
		if e != nil {
			return true, e
		}
		if got, want := sim.Canon(d.dt.(orda.Datatype).ToJSON()), sim.Canon(st.JSON()); got != want {
			return true, fmt.Errorf("first state after subscribing at log position %d is %s, the log prefix gives %s", s, got, want)
		}
	}
	// one more sync must not report the transition again
	if err, hung := syncWithDeadline(actor, l1Deadline); err != nil || hung {
		return true, fmt.Errorf("the sync after entering fails: err=%v hung=%v", err, hung)
	}
	waitHandlers()
	d.mu.Lock()
	subs = d.subs
	d.mu.Unlock()
	if subs != 1 {
		return true, fmt.Errorf("after one more Sync() the state-change handler has reported SUBSCRIBED %d times", subs)
	}
	n := 0
	for _, dd := range w.datatypeDocs() {
		if bstr(bget(dd, "key")) == k.Name {
			n++
		}
	}
	if n != 1 {
		return true, fmt.Errorf("%d datatype documents exist for key %s (want 1)", n, k.Name)
	}
	return true, nil
}

// TestC13RealClient: the entry contract through the public client API.
func TestC13RealClient(t *testing.T) {
	col := stats.New("C13", t.Name(),
		"EXHAUSTIVE sub-matrix through REAL clients (orda.NewClient, manual sync, gRPC): entry mode x existing datatype {none, same type with 3 stored operations, other type} x {0, 2} operations made before the first Sync() x 4 kinds; the same Sync() also creates a second, fresh key; "+
			"oracle: Sync() returns; a refusal calls the datatype's error handler, leaves it un-subscribed, stores nothing for the key, and neither disturbs the other pack of the message (the fresh key becomes SUBSCRIBED) nor the client's next Sync(); a success makes the datatype SUBSCRIBED with exactly one state-change event (also after one more Sync()) and no error event; a subscriber holds the existing datatype's id and its first state equals refmodel(log[1..S]) for the S of its checkpoint; one datatype document per key; "+
			"non-trivial = every cell; distinct = the cell")
	defer col.Flush()
	shard, nshards := envInt("VERIF_SHARD", 0), envInt("VERIF_NSHARDS", 1)
	i := 0
	for _, kind := range sim.AllKinds {
		for _, m := range []string{"create", "subscribe", "subscribe-or-create"} {
			for _, ex := range []string{"none", "same", "other"} {
				for _, own := range []int{0, 2} {
					i++
					if i%nshards != shard {
						continue
					}
					cell := c13Cell{Mode: m, Existing: ex, Racer: "none", Kind: kind, PriorOps: 3, OwnOps: own, IDSeed: uint64(11000 + i)}
					_, err := c13RealRun(cell)
					if err != nil {
						j := &Journal{Property: "C13", Test: t.Name(), Header: cell}
						col.Flush()
						if strings.HasPrefix(err.Error(), "HARNESS-ERROR") {
							fmt.Println(err.Error())
							t.Fatalf("%v", err)
						}
						enumFail(t, "C13", j, "cell %+v: %v", cell, err)
					}
					col.Case(true, fmt.Sprintf("real %+v", cell), []string{"mode=" + m, "existing=" + ex, fmt.Sprintf("own-ops=%d", own)}, func() interface{} { return cell })
				}
			}
		}
	}
	col.SetExhaustive(true)
}

// c13Footprint is the canonical text of everything stored for one key: its datatype documents, the
// operations and snapshots of the existing datatype and of the id the actor generated locally, and
// the user-visible document.
func c13Footprint(w *l1World, k *l1Key, localDUID string) string {
	dump := w.env.Mongo.Dump()
	var sb strings.Builder
	var dts, ops, snaps, user []bson.D
	for _, d := range dump[w.env.DBName+".-_-Datatypes"] {
		if bstr(bget(d, "key")) == k.Name {
			dts = append(dts, d)
		}
	}
	mine := func(duid string) bool { return duid != "" && (duid == k.duid || duid == localDUID) }
	for _, d := range dump[w.env.DBName+".-_-Operations"] {
		if mine(bstr(bget(d, "duid"))) {
			ops = append(ops, d)
		}
	}
	for _, d := range dump[w.env.DBName+".-_-Snapshots"] {
		if mine(bstr(bget(d, "duid"))) {
			snaps = append(snaps, d)
		}
	}
	for _, d := range dump[w.env.DBName+"."+w.col] {
		if bstr(bget(d, "_id")) == k.Name {
			user = append(user, d)
		}
	}
	sb.WriteString("datatypes:\n" + canonDocs(dts) + "\noperations:\n" + canonDocs(ops) + "\nsnapshots:\n" + canonDocs(snaps) + "\nuser:\n" + canonDocs(user))
	return sb.String()
}

// c13AgainCell: ONE client asks for a key it already holds a datatype for (the quantifier's
// "already subscribed by this client", and the same before its first request has been answered).
type c13AgainCell struct {
	Kind       sim.Kind `json:"kind"`
	FirstMode  string   `json:"first_mode"`
	SecondMode string   `json:"second_mode"`
	SecondType string   `json:"second_type"` // same | other
	When       string   `json:"when"`        // before-first-sync | after-first-sync
	// Handlers of the second request: all | none (nil *Handlers) | no-error-handler (NewHandlers(f, g, nil))
	Handlers string `json:"handlers"`
	IDSeed   uint64 `json:"id_seed"`
}

func c13AgainRun(cell c13AgainCell) error {
	w, e := newL1World(cell.IDSeed, []sim.Kind{cell.Kind})
	if e != nil {
		return fmt.Errorf("HARNESS-ERROR: %v", e)
	}
	defer w.close()
	k := w.keys[0]
	var closers []orda.Client
	defer func() {
		for _, c := range closers {
			c := c
			watchdog(3*time.Second, func() { _ = c.Close() })
		}
	}()
	newClient := func(alias string) (orda.Client, error) {
		cl, e := w.env.NewRealClient(w.col, alias, model.SyncType_MANUALLY)
		if e != nil {
			return nil, e
		}
		if e := cl.Connect(); e != nil {
			return nil, e
		}
		closers = append(closers, cl)
		return cl, nil
	}
	if cell.FirstMode == "subscribe" {
		owner, e := newClient("owner")
		if e != nil {
			return fmt.Errorf("HARNESS-ERROR: %v", e)
		}
		od := &c05rDT{key: k, mode: "create"}
		od.dt = openReal(owner, cell.Kind, k.Name, "create", od.handlers())
		sim.Exec(cell.Kind, od.dt, c06CheapCall(cell.Kind, 0))
		if err, hung := syncWithDeadline(owner, l1Deadline); err != nil || hung {
			return fmt.Errorf("HARNESS-ERROR: cannot prepare the existing datatype: err=%v hung=%v", err, hung)
		}
	}
	actor, e := newClient("actor")
	if e != nil {
		return fmt.Errorf("HARNESS-ERROR: %v", e)
	}
	d1 := &c05rDT{key: k, mode: cell.FirstMode}
	d1.dt = openReal(actor, cell.Kind, k.Name, cell.FirstMode, d1.handlers())
	if cell.When == "after-first-sync" {
		if err, hung := syncWithDeadline(actor, l1Deadline); err != nil || hung {
			return fmt.Errorf("the first Sync() fails: err=%v hung=%v", err, hung)
		}
		waitHandlers()
	}
	if cell.FirstMode != "subscribe" || cell.When == "after-first-sync" { // (a subscriber's operations before it is subscribed are discarded by design)
		sim.Exec(cell.Kind, d1.dt, c06CheapCall(cell.Kind, 100))
	}
	kind2 := cell.Kind
	if cell.SecondType == "other" {
		kind2 = otherKind(cell.Kind)
	}
	d2 := &c05rDT{key: k, mode: cell.SecondMode}
	var second iface.Datatype
	var pan interface{}
	func() {
		defer func() { pan = recover() }()
		var h2 *orda.Handlers
		switch cell.Handlers {
		case "none":
		case "no-error-handler":
			h2 = orda.NewHandlers(func(orda.Datatype, model.StateOfDatatype, model.StateOfDatatype) {}, func(orda.Datatype, []interface{}) {}, nil)
		default:
			h2 = d2.handlers()
		}
		second = openRealOrNil(actor, kind2, k.Name, cell.SecondMode, h2)
	}()
	if pan != nil {
		return fmt.Errorf("asking for the key again (%s, %s type) panicked: %v", cell.SecondMode, cell.SecondType, pan)
	}
	d2.mu.Lock()
	errs2 := append([]string{}, d2.errs...)
	d2.mu.Unlock()
	if cell.SecondType == "other" && cell.Handlers != "all" {
		// nobody to deliver the error to: the call still has to be refused - no datatype of the other type
		if second != nil {
			return fmt.Errorf("%s of a key that this client holds as %s, asked for as %s with handlers=%s, was not refused: a datatype (%v) was returned", cell.SecondMode, cell.Kind, kind2, cell.Handlers, second.GetType())
		}
	} else if cell.SecondType == "other" {
		if len(errs2) == 0 {
			return fmt.Errorf("%s of a key that this client holds as %s, asked for as %s, was not refused: the error handler of the call was not called (result nil: %v)", cell.SecondMode, cell.Kind, kind2, second == nil)
		}
	} else {
		if len(errs2) != 0 {
			return fmt.Errorf("asking again for a key of the same type that this client already holds reported errors: %v", errs2)
		}
		if second == nil {
			return fmt.Errorf("asking again for a key of the same type that this client already holds returned nothing")
		}
		if cell.FirstMode != "subscribe" || cell.When == "after-first-sync" {
			if r := sim.Exec(cell.Kind, second, c06CheapCall(cell.Kind, 300)); r.Panic != nil || r.Err != nil {
				return fmt.Errorf("a call through the datatype returned by the second request failed: panic=%v err=%v", r.Panic, r.Err)
			}
		}
	}
	for i := 0; i < 2; i++ {
		if err, hung := syncWithDeadline(actor, l1Deadline); err != nil || hung {
			return fmt.Errorf("Sync() number %d after the second request fails: err=%v hung=%v", i+1, err, hung)
		}
		waitHandlers()
	}
	w.env.WaitBackground(3 * time.Second)
	d1.mu.Lock()
	subs, errs1 := d1.subs, append([]string{}, d1.errs...)
	d1.mu.Unlock()
	if d1.dt.GetState() != model.StateOfDatatype_SUBSCRIBED || subs != 1 || len(errs1) != 0 {
		return fmt.Errorf("the datatype the client held first is %v with %d SUBSCRIBED events and errors %v after the second request (%s, %s type) and two Sync() calls", d1.dt.GetState(), subs, errs1, cell.SecondMode, cell.SecondType)
	}
	n, typ := 0, ""
	for _, dd := range w.datatypeDocs() {
		if bstr(bget(dd, "key")) == k.Name {
			n++
			typ = bstr(bget(dd, "type"))
		}
	}
	if n != 1 || !strings.EqualFold(typ, string(cell.Kind)) {
		return fmt.Errorf("%d datatype documents exist for the key (type %q), want one of type %s", n, typ, cell.Kind)
	}
	sc, _, err := w.serverCopy(k)
	if err != nil {
		return fmt.Errorf("HARNESS-ERROR: server copy: %v", err)
	}
	want := sim.Canon(sc.(orda.Datatype).ToJSON())
	if got := sim.Canon(d1.dt.(orda.Datatype).ToJSON()); got != want {
		return fmt.Errorf("after syncing, the datatype the client held first shows %s, the server's copy %s", got, want)
	}
	if cell.SecondType == "same" {
		if got := sim.Canon(second.(orda.Datatype).ToJSON()); got != want {
			return fmt.Errorf("after syncing, the datatype returned by the second request for the key shows %s, the server's copy %s (its operations were not pushed, or it is not the client's datatype for the key)", got, want)
		}
		if second.GetState() != model.StateOfDatatype_SUBSCRIBED {
			return fmt.Errorf("the datatype returned by the second request is %v after two Sync() calls", second.GetState())
		}
	}
	return nil
}

// openRealOrNil is openReal for calls that may return nothing (refused on the spot).
func openRealOrNil(cl orda.Client, kind sim.Kind, key, mode string, h *orda.Handlers) (dt iface.Datatype) {
	defer func() {
		if r := recover(); r != nil {
			if _, ok := r.(*runtime.TypeAssertionError); ok {
				dt = nil // the API returned a nil interface
				return
			}
			panic(r)
		}
	}()
	return openReal(cl, kind, key, mode, h)
}

// TestC13SameClientAgain: the contract when ONE client asks twice for the same key.
func TestC13SameClientAgain(t *testing.T) {
	col := stats.New("C13", t.Name(),
		"EXHAUSTIVE matrix through REAL clients: one client opens a key (create / subscribe of an existing datatype / subscribe-or-create) and asks for the same key again (3 modes) as the same type or as another type, before its first Sync() or after it (already subscribed), the second request with all handlers / without handlers (nil) / without an error handler, 4 kinds = 432 cells; operations are made through both returned datatypes; "+
			"oracle: asked for as another type the call is refused (the call's error handler fires; without one the call returns nothing and does not panic) and the datatype held first is undisturbed; asked for as the same type no error fires and the returned datatype is usable: after Sync() it is SUBSCRIBED and shows the server's copy, which contains the operations made through both; the first datatype reports SUBSCRIBED exactly once; one datatype document of the first type for the key; "+
			"non-trivial = every cell; distinct = the cell")
	defer col.Flush()
	shard, nshards := envInt("VERIF_SHARD", 0), envInt("VERIF_NSHARDS", 1)
	i := 0
	for _, kind := range sim.AllKinds {
		for _, m1 := range []string{"create", "subscribe", "subscribe-or-create"} {
			for _, m2 := range []string{"create", "subscribe", "subscribe-or-create"} {
				for _, ty := range []string{"same", "other"} {
					for _, when := range []string{"before-first-sync", "after-first-sync"} {
						for _, hs := range []string{"all", "none", "no-error-handler"} {
							i++
							if i%nshards != shard {
								continue
							}
							cell := c13AgainCell{Kind: kind, FirstMode: m1, SecondMode: m2, SecondType: ty, When: when, Handlers: hs, IDSeed: uint64(12000 + i)}
							if err := c13AgainRun(cell); err != nil {
								j := &Journal{Property: "C13", Test: t.Name(), Header: cell}
								col.Flush()
								if strings.HasPrefix(err.Error(), "HARNESS-ERROR") {
									fmt.Println(err.Error())
									t.Fatalf("%v", err)
								}
								enumFail(t, "C13", j, "cell %+v: %v", cell, err)
							}
							col.Case(true, fmt.Sprintf("again %+v", cell), []string{"first=" + m1, "second=" + m2, "second-type=" + ty, when, "second-handlers=" + hs}, func() interface{} { return cell })
						}
					}
				}
			}
		}
	}
	col.SetExhaustive(true)
}
