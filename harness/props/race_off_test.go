//go:build !race

package props

const raceEnabled = false
