package props

import (
	"fmt"
	"strings"
	"testing"

	"pgregory.net/rapid"
	"verif/sim"
	"verif/stats"
)

// TestC07RetryThenRollback: the lost answer of an entry request, the retry - and afterwards an ordinary failed
// transaction of the user. A retried subscribe-or-create is answered with a subscription that carries the client's
// own stored operations; whatever the client does with them, a later rollback must leave its numbering alone.
func TestC07RetryThenRollback(t *testing.T) {
	col := stats.New("C07", t.Name(),
		"one pack-level client enters a fresh key of a drawn kind with create or subscribe-or-create and 0-3 local operations; the answer to its first request is lost (the server has handled it), the retry is applied; then 0-2 operations, a user transaction that fails (1-3 calls), 1-3 operations, a sync; a second client subscribes and syncs; "+
			"oracle: every exchange after the lost one succeeds; nothing stays unpushed; the stored log has every issued operation exactly once, in the client's order (log invariants); both clients = server rebuild = refmodel(log); "+
			"non-trivial = the entry was subscribe-or-create with >=1 operation before the first request; distinct = hash of the case")
	checkProp(t, "C07", col, func(c *caseCtx) {
		rt := c.rt
		kind := kindFromDraw(rt)
		idseed := rapid.Uint64Range(1, 1<<40).Draw(rt, "idseed")
		w, err := newL1World(idseed, []sim.Kind{kind})
		if err != nil {
			c.failf("HARNESS-ERROR: %v", err)
		}
		defer w.close()
		k := w.keys[0]
		mode := rapid.SampledFrom([]string{"subscribe-or-create", "subscribe-or-create", "create"}).Draw(rt, "mode")
		before := rapid.IntRange(0, 3).Draw(rt, "ops_before")
		c.j.Header = map[string]interface{}{"kind": kind, "id_seed": idseed, "mode": mode, "ops_before_first_request": before}
		var canon strings.Builder
		fmt.Fprintf(&canon, "%s/%s/%d;", kind, mode, before)
		cl, err := w.addClient()
		if err != nil {
			c.failf("HARNESS-ERROR: %v", err)
		}
		d := w.open(cl, k, mode)
		n := 0
		op := func() {
			n++
			call := c06CheapCall(kind, n)
			c.j.add(c03Action{K: "call", Call: &call})
			if res := sim.Exec(kind, d.dt, call); res.Panic != nil {
				c.failf("%s panicked: %v", call, res.Panic)
			}
		}
		for i := 0; i < before; i++ {
			op()
		}
		lost := w.rawSend(cl.pc.BuildRequest(d.dt)) // handled by the server; the answer never arrives
		w.record(cl, lost)
		c.j.add(map[string]interface{}{"k": "first-request-answer-lost"})
		if ex := w.syncClient(cl); ex == nil || exchangeProblem(cl, ex) != nil {
			c.failf("the retry after the lost answer fails: %v", exchangeProblem(cl, ex))
		}
		for i, m := 0, rapid.IntRange(0, 2).Draw(rt, "ops_after_retry"); i < m; i++ {
			op()
		}
		tx := sim.Tx{Tag: "abandoned", FailAt: 0}
		for i, m := 0, rapid.IntRange(1, 3).Draw(rt, "txlen"); i < m; i++ {
			tx.Calls = append(tx.Calls, c06CheapCall(kind, 500+i))
		}
		tx.FailAt = rapid.IntRange(0, len(tx.Calls)).Draw(rt, "failat")
		c.j.add(c03Action{K: "tx", Tx: &tx})
		fmt.Fprintf(&canon, "failing-tx(%d/%d);", tx.FailAt, len(tx.Calls))
		viewBefore := sim.Observe(kind, d.dt, nil)
		if _, txErr, pan := sim.ExecTx(kind, d.dt, tx); pan != nil || txErr == nil {
			c.failf("the failing transaction: err=%v panic=%v", txErr, pan)
		}
		if v := sim.Observe(kind, d.dt, nil); v != viewBefore {
			c.failf("a failed transaction changed the datatype: %s -> %s", viewBefore, v)
		}
		after := rapid.IntRange(1, 3).Draw(rt, "ops_after_rollback")
		for i := 0; i < after; i++ {
			op()
		}
		fmt.Fprintf(&canon, "ops=%d;", n)
		if pack := d.dt.CreatePushPullPack(); len(pack.Operations) < after {
			c.failf("%d operations were issued after the failed transaction, the client has %d to push (its next pack: checkpoint %v)", after, len(pack.Operations), pack.CheckPoint)
		}
		if ex := w.syncClient(cl); ex == nil || exchangeProblem(cl, ex) != nil {
			c.failf("the sync after the failed transaction fails: %v", exchangeProblem(cl, ex))
		}
		cl2, err := w.addClient()
		if err != nil {
			c.failf("HARNESS-ERROR: %v", err)
		}
		w.open(cl2, k, "subscribe")
		if err := w.settle(); err != nil {
			c.failf("%v", err)
		}
		if err := w.checkLogInvariants(); err != nil {
			c.failf("%v", err)
		}
		if err := w.checkConverged(); err != nil {
			c.failf("%v", err)
		}
		col.Case(mode == "subscribe-or-create" && before > 0, canon.String(), []string{"kind=" + string(kind), "mode=" + mode}, func() interface{} { return c.j.Header })
	})
}
