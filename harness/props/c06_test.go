package props

import (
	"fmt"
	"strings"
	"testing"

	"github.com/orda-io/orda/client/pkg/iface"
	"github.com/orda-io/orda/client/pkg/model"
	"google.golang.org/protobuf/proto"
	"pgregory.net/rapid"
	"verif/sim"
	"verif/stats"
)

// rePushRequest builds the request an honest but retrying client could send: the pack rebuilt
// from an older client sequence number (operations that were already acknowledged are sent again).
func rePushRequest(c *l1Client, d *l1DT, back uint64) *model.PushPullMessage {
	pack := d.dt.CreatePushPullPack()
	cur := pack.CheckPoint.Cseq - uint64(len(pack.Operations)) // acknowledged so far
	if back > cur {
		back = cur
	}
	d.dt.SetCheckPoint(pack.CheckPoint.Sseq, cur-back)
	req := c.pc.BuildRequest([]iface.Datatype{d.dt}...)
	d.dt.SetCheckPoint(pack.CheckPoint.Sseq, cur)
	return req
}

func TestC06(t *testing.T) {
	col := stats.New("C06", t.Name(),
		"sequences of push-pull REQUESTS from 1-5 honest clients against the real server: batches of 0..200 operations (bursts of local calls, transactions), empty pushes, re-pushes of already acknowledged operations (pack rebuilt from an older client sequence number, response applied or not), long offline periods, 1-2 keys; "+
			"oracle after EVERY request, read from the raw collections of the fake MongoDB: per datatype the stored operations have sseq 1..n without gap or repeat and _id duid:sseq, n equals the recorded end of the log, the stored set equals exactly the operations that were part of a request answered without error (each once), "+
			"per client the operations are stored in issue order without gap, every recorded client checkpoint is <= what is stored; the response checkpoint obeys the same bounds; "+
			"non-trivial = >=1 re-push AND >=2 clients pushed on one key AND >=1 empty push; distinct = hash of the action sequence")
	col.Assume(deploymentNote)
	checkProp(t, "C06", col, func(c *caseCtx) {
		rt := c.rt
		nk := rapid.IntRange(1, 2).Draw(rt, "keys")
		var kinds []sim.Kind
		for i := 0; i < nk; i++ {
			kinds = append(kinds, kindFromDraw(rt))
		}
		idseed := rapid.Uint64Range(1, 1<<40).Draw(rt, "idseed")
		dep := drawDeployment(rt)
		w, err := newL1World(idseed, kinds)
		if err != nil {
			c.failf("HARNESS-ERROR: cannot start the environment: %v", err)
		}
		defer w.close()
		w.labels[dep] = true
		w.waitBG = rapid.Bool().Draw(rt, "wait_background")
		w.noConverge = true
		c.j.Header = map[string]interface{}{"kinds": kinds, "id_seed": idseed, "wait_background": w.waitBG, "deployment": dep}
		n := rapid.IntRange(3, envInt("VERIF_L1_STEPS", 40)).Draw(rt, "steps")
		var canon strings.Builder
		rePushes, emptyPushes := 0, 0
		for i, a := range genPrelude(rt, w, 4) {
			c.j.add(a)
			canon.WriteString(a.String() + ";")
			if err := w.applyL1(a); err != nil {
				c.failf("prelude step %d %s: %v", i, a, err)
			}
		}
		for i := 0; i < n; i++ {
			var a l1Action
			x := rapid.IntRange(0, 99).Draw(rt, "c06action")
			switch {
			case x < 15 && len(w.clients) > 0:
				// re-push
				ci := rapid.IntRange(0, len(w.clients)-1).Draw(rt, "rc")
				cl := w.clients[ci]
				var cand []*l1DT
				for _, k := range w.keys {
					if d := cl.dts[k.Name]; d != nil && d.entered {
						cand = append(cand, d)
					}
				}
				if len(cand) == 0 {
					continue
				}
				d := cand[rapid.IntRange(0, len(cand)-1).Draw(rt, "rd")]
				back := uint64(rapid.IntRange(1, 6).Draw(rt, "back"))
				applyResp := rapid.Bool().Draw(rt, "apply")
				c.j.add(map[string]interface{}{"k": "repush", "c": ci, "key": d.key.Name, "back": back, "apply": applyResp})
				canon.WriteString(fmt.Sprintf("repush(c%d,%s,%d,%v);", ci, d.key.Name, back, applyResp))
				req := rePushRequest(cl, d, back)
				if len(req.PushPullPacks[0].Operations) == 0 {
					emptyPushes++
				}
				ex := w.send(cl, req)
				if err := exchangeProblem(cl, ex); err != nil {
					c.failf("step %d re-push: %v", i, err)
				}
				rePushes++
				if applyResp {
					w.apply(cl, ex)
					if ex.applyErr != nil {
						c.failf("step %d: applying the response of a re-push failed: %v", i, ex.applyErr)
					}
				}
				if err := c06ResponseBounds(w, ex); err != nil {
					c.failf("step %d re-push: %v", i, err)
				}
			case x < 30 && len(w.clients) > 0:
				// burst of local operations -> big batch
				ci := rapid.IntRange(0, len(w.clients)-1).Draw(rt, "bc")
				cl := w.clients[ci]
				var cand []*l1DT
				for _, k := range w.keys {
					if d := cl.dts[k.Name]; d != nil && (d.entered || d.mode == "create") {
						cand = append(cand, d)
					}
				}
				if len(cand) == 0 {
					continue
				}
				d := cand[rapid.IntRange(0, len(cand)-1).Draw(rt, "bd")]
				cnt := rapid.SampledFrom([]int{5, 20, 60, 200}).Draw(rt, "burst")
				c.j.add(map[string]interface{}{"k": "burst", "c": ci, "key": d.key.Name, "n": cnt})
				canon.WriteString(fmt.Sprintf("burst(c%d,%s,%d);", ci, d.key.Name, cnt))
				for j := 0; j < cnt; j++ {
					sim.Exec(d.key.Kind, d.dt, c06CheapCall(d.key.Kind, j))
				}
				w.labels["burst"] = true
			default:
				a = genL1Action(rt, w, 5)
				c.j.add(a)
				canon.WriteString(a.String() + ";")
				if a.K == "sync" {
					cl := w.clients[a.C]
					empty := true
					for _, d := range cl.dts {
						if len(d.dt.CreatePushPullPack().Operations) > 0 {
							empty = false
						}
					}
					if empty && len(cl.dts) > 0 {
						emptyPushes++
					}
				}
				if err := w.applyL1(a); err != nil {
					c.failf("step %d %s: %v", i, a, err)
				}
				continue
			}
			if err := w.checkLogInvariants(); err != nil {
				c.failf("step %d: %v", i, err)
			}
		}
		// final round of honest syncs; only the stored-log invariants are C06's business (what the
		// clients make of re-pushed exchanges is C07's)
		c.j.add(map[string]interface{}{"k": "final-syncs"})
		for _, cl := range w.clients {
			if ex := w.syncClient(cl); ex != nil {
				if ex.timedOut || ex.rpcErr != nil {
					c.failf("final sync of client %d: timeout=%v err=%v", cl.idx, ex.timedOut, ex.rpcErr)
				}
			}
		}
		if err := w.checkLogInvariants(); err != nil {
			c.failf("after the final syncs: %v", err)
		}
		if err := w.infraProblem(); err != nil {
			c.failf("%v", err)
		}
		multi := false
		for _, ops := range w.accepted {
			cu := map[string]bool{}
			for _, op := range ops {
				cu[op.ID.CUID] = true
			}
			if len(cu) >= 2 {
				multi = true
			}
		}
		var labels []string
		for l := range w.labels {
			labels = append(labels, l)
		}
		if rePushes > 0 {
			labels = append(labels, "re-push")
		}
		if emptyPushes > 0 {
			labels = append(labels, "empty-push")
		}
		if multi {
			labels = append(labels, ">=2-pushers-on-one-key")
		}
		col.Case(rePushes > 0 && emptyPushes > 0 && multi, canon.String(), labels, func() interface{} {
			return map[string]interface{}{"kinds": kinds, "actions": canon.String(), "requests": w.reqs, "re_pushes": rePushes, "empty_pushes": emptyPushes}
		})
	})
}

func c06CheapCall(kind sim.Kind, j int) sim.Call {
	switch kind {
	case sim.Counter:
		return sim.Call{M: "Increase"}
	case sim.Map:
		return sim.Call{M: "Put", Key: fmt.Sprintf("b%d", j%7), Vals: []sim.Val{sim.I(int64(j))}}
	case sim.List:
		return sim.Call{M: "Insert", Pos: 0, Vals: []sim.Val{sim.I(int64(j))}}
	}
	return sim.Call{M: "PutToObject", Key: fmt.Sprintf("b%d", j%7), Vals: []sim.Val{sim.I(int64(j))}}
}

// c06ResponseBounds: the checkpoint in a response never exceeds what is stored.
func c06ResponseBounds(w *l1World, ex *exchange) error {
	if ex.resp == nil {
		return nil
	}
	for _, p := range ex.resp.PushPullPacks {
		if packError(p) != "" || p.CheckPoint == nil {
			continue
		}
		log, _ := w.storedLog(p.DUID)
		if p.CheckPoint.Sseq > uint64(len(log)) {
			return fmt.Errorf("response checkpoint of %s acknowledges server sequence %d but %d operations are stored", p.Key, p.CheckPoint.Sseq, len(log))
		}
		var maxSeq uint64
		for _, so := range log {
			if so.op.ID.CUID == ex.req.Cuid && so.op.ID.Seq > maxSeq {
				maxSeq = so.op.ID.Seq
			}
		}
		if p.CheckPoint.Cseq > maxSeq {
			return fmt.Errorf("response checkpoint of %s acknowledges client operation %d but the newest stored one is %d", p.Key, p.CheckPoint.Cseq, maxSeq)
		}
	}
	return nil
}

var _ = proto.Clone
