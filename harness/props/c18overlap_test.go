package props

import (
	"fmt"
	"sync"
	"testing"
	"time"

	"github.com/orda-io/orda/client/pkg/model"
	"github.com/orda-io/orda/client/pkg/orda"
	"github.com/orda-io/orda/client/pkg/verifhook"
	"google.golang.org/protobuf/proto"
	"pgregory.net/rapid"
	"verif/refmodel"
	"verif/sim"
	"verif/stats"
)

// c18OverlapPlan: a realtime client A issues local operations while another client's pushes are
// announced to it. The harness owns the schedule at two places: the gRPC proxy holds A's requests
// until two of them are in flight (or nothing more is coming), and the yield point inside the client
// library holds the first response that is being applied until the second one has been applied.
type c18OverlapPlan struct {
	Kind   sim.Kind `json:"kind"`
	Rounds int      `json:"rounds"`
	BOps   []int    `json:"b_ops"` // per round: operations pushed by the other client (announced to A)
	AOps   []int    `json:"a_ops"` // per round: local operations of A issued at the same moment
	// per round: false = A's requests are held until two are in flight together; true = A's push is handled
	// by the server first and its RESPONSE is held while B pushes and the server announces that push to A
	LateResponse []bool `json:"late_response,omitempty"`
	IDSeed       uint64 `json:"id_seed"`
}

type c18OverlapResult struct {
	err        error
	overlapped int // rounds in which two requests of A were in flight together
	heldApply  int // responses held at the yield point while another response of A was applied
	// rounds in which B's push was announced to A while A's own sync was waiting for its (already computed) response
	lateResponses int
}

func c18OverlapRun(p c18OverlapPlan) (res c18OverlapResult) {
	w, err := newL1World(p.IDSeed, []sim.Kind{p.Kind})
	if err != nil {
		res.err = fmt.Errorf("HARNESS-ERROR: %v", err)
		return res
	}
	defer w.close()
	defer verifhook.Set(nil)
	k := w.keys[0]
	a, e := w.env.NewRealClient(w.col, "A", model.SyncType_REALTIME)
	if e != nil {
		res.err = fmt.Errorf("HARNESS-ERROR: %v", e)
		return res
	}
	if e := a.Connect(); e != nil {
		res.err = fmt.Errorf("HARNESS-ERROR: connect: %v", e)
		return res
	}
	defer func() { watchdog(3*time.Second, func() { _ = a.Close() }) }()
	ra := &rtClient{cl: a}
	ra.dt = openRealtime(a, p.Kind, k.Name, true, ra.handlers())
	if !waitUntil(5*time.Second, ra.subscribed) {
		res.err = fmt.Errorf("HARNESS-ERROR: the realtime client never became subscribed")
		return res
	}
	waitUntil(2*time.Second, func() bool { return w.env.MQTT.Subscribers(w.col+"/"+k.Name) >= 1 })
	b, e2 := w.addClient()
	if e2 != nil {
		res.err = fmt.Errorf("HARNESS-ERROR: %v", e2)
		return res
	}
	db := w.open(b, k, "subscribe")
	if ex := w.syncClient(b); ex == nil || exchangeProblem(b, ex) != nil {
		res.err = fmt.Errorf("HARNESS-ERROR: the second client cannot subscribe")
		return res
	}
	bCUID := b.pc.CUID()
	// --- schedule control --------------------------------------------------------------------
	var mu sync.Mutex
	inFlight := 0                // requests of A inside the proxy
	var gate chan struct{}       // closed when the held requests may proceed
	armed := false               // hold A's requests
	var firstApply chan struct{} // the held first apply
	applied := 0                 // completed passes of the yield point in this round
	w.env.SetGRPCHook(func(method string, req proto.Message) bool {
		m, ok := req.(*model.PushPullMessage)
		if !ok || m.Cuid == bCUID {
			return false
		}
		mu.Lock()
		if !armed {
			mu.Unlock()
			return false
		}
		inFlight++
		g := gate
		if inFlight >= 2 {
			// two requests of A are waiting here at the same time
			res.overlapped++
			armed = false
			close(gate)
		}
		mu.Unlock()
		select {
		case <-g:
		case <-time.After(60 * time.Millisecond): // nothing else is coming: a single request proceeds alone
		}
		mu.Lock()
		inFlight--
		mu.Unlock()
		return false
	})
	verifhook.Set(func(point string, arg interface{}) {
		if point != "WiredDatatype.ApplyPushPullPack:excluded" || arg == bCUID+"/"+k.Name {
			return // only responses applied by the realtime client A
		}
		// only the realtime client's goroutines come here concurrently; the pack client applies on the test goroutine
		mu.Lock()
		if firstApply == nil && holdApplies {
			ch := make(chan struct{})
			firstApply = ch
			mu.Unlock()
			select {
			case <-ch:
				mu.Lock()
				res.heldApply++
				mu.Unlock()
			case <-time.After(100 * time.Millisecond):
			}
			return
		}
		ch := firstApply
		applied++
		mu.Unlock()
		if ch != nil {
			// let this (second) response be applied completely before the first one continues
			go func() {
				time.Sleep(3 * time.Millisecond)
				mu.Lock()
				if firstApply == ch {
					close(ch)
					firstApply = nil
				}
				mu.Unlock()
			}()
		}
	})
	n := 0
	// a response of A that is slow on its way back
	var respHeld chan struct{}
	processed := make(chan struct{}, 16)
	w.env.SetGRPCAfterHook(func(method string, req proto.Message) {
		m, ok := req.(*model.PushPullMessage)
		if !ok || m.Cuid == bCUID {
			return
		}
		mu.Lock()
		ch := respHeld
		respHeld = nil // only the first response of the round
		mu.Unlock()
		if ch == nil {
			return
		}
		processed <- struct{}{}
		select {
		case <-ch:
		case <-time.After(2 * time.Second):
		}
	})
	defer w.env.SetGRPCAfterHook(nil)
	for r := 0; r < p.Rounds; r++ {
		if r < len(p.LateResponse) && p.LateResponse[r] && p.AOps[r] > 0 && p.BOps[r] > 0 {
			holdApplies = false
			hold := make(chan struct{})
			mu.Lock()
			armed, respHeld = false, hold
			mu.Unlock()
			for i := 0; i < p.AOps[r]; i++ {
				n++
				sim.Exec(p.Kind, ra.dt, c18OverlapCall(p.Kind, n))
			}
			select {
			case <-processed:
				// the server has stored A's push; B pushes now, the server announces it to A while A's sync is still waiting for its response
				for i := 0; i < p.BOps[r]; i++ {
					n++
					sim.Exec(p.Kind, db.dt, c18OverlapCall(p.Kind, n))
				}
				w.syncClient(b)
				waitUntil(2*time.Second, func() bool { return w.env.MQTT.QueuedForwards() == 0 })
				time.Sleep(3 * time.Millisecond) // A's notification loop takes the notification
				res.lateResponses++
			case <-time.After(time.Second):
			}
			close(hold)
			mu.Lock()
			respHeld = nil
			mu.Unlock()
			waitUntil(6*time.Second, func() bool {
				return w.env.InFlight() == 0 && w.env.MQTT.QueuedForwards() == 0 && !ra.dt.NeedPush() &&
					!stackContains("syncPushPullPacks") && !stackContains("ReceiveNotification") && !stackContains("DeliverTransaction")
			})
			continue
		}
		mu.Lock()
		gate = make(chan struct{})
		inFlight, armed, applied = 0, true, 0
		firstApply = nil
		mu.Unlock()
		holdApplies = true
		// the other client pushes (the server announces it to A) ...
		for i := 0; i < p.BOps[r]; i++ {
			n++
			sim.Exec(p.Kind, db.dt, c18OverlapCall(p.Kind, n))
		}
		var wg sync.WaitGroup
		if p.BOps[r] > 0 {
			wg.Add(1)
			go func() {
				defer wg.Done()
				w.syncClient(b)
			}()
		}
		// ... while A issues local operations
		for i := 0; i < p.AOps[r]; i++ {
			n++
			sim.Exec(p.Kind, ra.dt, c18OverlapCall(p.Kind, n))
		}
		wg.Wait()
		// let the round settle
		waitUntil(6*time.Second, func() bool {
			return w.env.InFlight() == 0 && w.env.MQTT.QueuedForwards() == 0 && !ra.dt.NeedPush() &&
				!stackContains("syncPushPullPacks") && !stackContains("ReceiveNotification") && !stackContains("DeliverTransaction")
		})
		holdApplies = false
		mu.Lock()
		armed = false
		if firstApply != nil {
			close(firstApply)
			firstApply = nil
		}
		mu.Unlock()
	}
	// everybody catches up without schedule control
	w.env.SetGRPCHook(nil)
	verifhook.Set(nil)
	// no further push happens: A has to have everything by itself. Quiescent = nothing in flight, nothing
	// queued, no sync pending, for 100 polls in a row.
	calm := 0
	ok := waitUntil(8*time.Second, func() bool {
		if w.env.InFlight() > 0 || w.env.MQTT.QueuedForwards() > 0 || ra.dt.NeedPush() ||
			stackContains("syncPushPullPacks") || stackContains("ReceiveNotification") || stackContains("DeliverTransaction") {
			calm = 0
			return false
		}
		calm++
		return calm > 100
	})
	if !ok {
		return res // inconclusive: no quiescence
	}
	w.syncClient(b) // pull-only: announces nothing
	log, _ := w.storedLogByKey(k.Name)
	var ops []*model.Operation
	for _, so := range log {
		ops = append(ops, so.op)
	}
	st, e3 := refmodel.Compute(string(p.Kind), ops)
	if e3 != nil {
		res.err = fmt.Errorf("HARNESS-ERROR: %v", e3)
		return res
	}
	want := sim.Canon(st.JSON())
	if got := sim.Canon(ra.dt.(orda.Datatype).ToJSON()); got != want {
		res.err = fmt.Errorf("the realtime client differs from the stored log after its push and a pull caused by a notification were in flight together (%d such rounds, %d responses applied while another one was half applied):\n  client: %s\n  log:    %s", res.overlapped, res.heldApply, got, want)
		return res
	}
	if got := sim.Canon(db.dt.(orda.Datatype).ToJSON()); got != want {
		res.err = fmt.Errorf("the second client differs from the stored log:\n  client: %s\n  log:    %s", got, want)
	}
	return res
}

var holdApplies bool

func c18OverlapCall(kind sim.Kind, n int) sim.Call {
	if kind == sim.Counter {
		return sim.Call{M: "IncreaseBy", Vals: []sim.Val{sim.I(int64(1) << uint(n%24))}}
	}
	return c06CheapCall(kind, n)
}

// TestC18SyncOverlap: schedules in which a realtime client's own push and the pull caused by a
// notification overlap, including "the second response is applied while the first is half applied".
func TestC18SyncOverlap(t *testing.T) {
	col := stats.New("C18", t.Name(),
		"one REAL realtime client A and a second client B on a Counter / List / Map; in each of 1-6 rounds B pushes 0-3 operations (the server announces them to A) while A issues 0-3 local operations; "+
			"the harness OWNS the schedule: per round either the gRPC proxy holds A's requests until two of them are in flight together, or A's push is handled by the server and its RESPONSE is held while B pushes and that push is announced to A; a yield point of the client library (build tag verif) holds the first response of A that is being applied (after its duplicate exclusion, before its checkpoint update) until the other response has been applied completely; "+
			"oracle: once everything is idle (no further push is made) A == B == refmodel(stored log); non-trivial = in some round A issued local operations while operations of B were announced to it (whether two requests of A are then in flight together is up to the client library; counted as a label); distinct = the plan")
	checkProp(t, "C18", col, func(c *caseCtx) {
		rt := c.rt
		p := c18OverlapPlan{Kind: []sim.Kind{sim.Counter, sim.List, sim.Map}[rapid.IntRange(0, 2).Draw(rt, "kind")],
			Rounds: rapid.IntRange(1, 6).Draw(rt, "rounds"), IDSeed: rapid.Uint64Range(1, 1<<30).Draw(rt, "idseed")}
		for r := 0; r < p.Rounds; r++ {
			p.BOps = append(p.BOps, rapid.IntRange(0, 3).Draw(rt, fmt.Sprintf("b%d", r)))
			p.AOps = append(p.AOps, rapid.IntRange(0, 3).Draw(rt, fmt.Sprintf("a%d", r)))
			p.LateResponse = append(p.LateResponse, rapid.IntRange(0, 2).Draw(rt, fmt.Sprintf("late%d", r)) == 0)
		}
		c.j.Header = p
		r := c18OverlapRun(p)
		if r.err != nil {
			c.failf("%v", r.err)
		}
		labels := []string{"kind=" + string(p.Kind)}
		if r.overlapped > 0 {
			labels = append(labels, "two-requests-of-one-client-in-flight")
		}
		if r.heldApply > 0 {
			labels = append(labels, "response-applied-while-another-was-half-applied")
		}
		if r.lateResponses > 0 {
			labels = append(labels, "notified-while-own-response-was-on-its-way")
		}
		both := false
		for i := range p.BOps {
			if p.BOps[i] > 0 && p.AOps[i] > 0 {
				both = true
			}
		}
		col.Case(both, fmt.Sprintf("%+v", p), labels, func() interface{} { return p })
	})
}

// c18BurstPlan: a lone realtime client issues operations; the harness decides, request by request,
// whether the next operation is issued while that request is still in flight (held at the proxy).
type c18BurstPlan struct {
	Kind     sim.Kind `json:"kind"`
	Ops      int      `json:"ops"`
	InFlight []bool   `json:"issue_next_while_in_flight"` // per request number (0-based), beyond the list: false
	IDSeed   uint64   `json:"id_seed"`
}

func c18BurstRun(p c18BurstPlan) (requests int, err error) {
	w, e := newL1World(p.IDSeed, []sim.Kind{p.Kind})
	if e != nil {
		return 0, fmt.Errorf("HARNESS-ERROR: %v", e)
	}
	defer w.close()
	k := w.keys[0]
	a, e := w.env.NewRealClient(w.col, "A", model.SyncType_REALTIME)
	if e != nil {
		return 0, fmt.Errorf("HARNESS-ERROR: %v", e)
	}
	if e := a.Connect(); e != nil {
		return 0, fmt.Errorf("HARNESS-ERROR: connect: %v", e)
	}
	defer func() { watchdog(3*time.Second, func() { _ = a.Close() }) }()
	ra := &rtClient{cl: a}
	ra.dt = openRealtime(a, p.Kind, k.Name, true, ra.handlers())
	if !waitUntil(5*time.Second, ra.subscribed) {
		return 0, fmt.Errorf("HARNESS-ERROR: the realtime client never became subscribed")
	}
	idle := func(d time.Duration) bool {
		return waitUntil(d, func() bool {
			return w.env.InFlight() == 0 && !stackContains("syncPushPullPacks") && !stackContains("DeliverTransaction") && !stackContains("ReceiveNotification")
		})
	}
	idle(3 * time.Second)
	var mu sync.Mutex
	nreq := 0
	arrived := make(chan int, 64)
	release := map[int]chan struct{}{}
	w.env.SetGRPCHook(func(method string, req proto.Message) bool {
		if _, ok := req.(*model.PushPullMessage); !ok {
			return false
		}
		mu.Lock()
		i := nreq
		nreq++
		var ch chan struct{}
		if i < len(p.InFlight) && p.InFlight[i] {
			ch = make(chan struct{})
			release[i] = ch
		}
		mu.Unlock()
		arrived <- i
		if ch != nil {
			select {
			case <-ch:
			case <-time.After(3 * time.Second):
			}
		}
		return false
	})
	issued := 0
	issue := func() {
		issued++
		sim.Exec(p.Kind, ra.dt, c18OverlapCall(p.Kind, issued))
	}
	issue()
	for issued < p.Ops {
		// wait for the next request of the client (or for the client to fall silent)
		select {
		case i := <-arrived:
			mu.Lock()
			ch := release[i]
			mu.Unlock()
			if ch != nil {
				issue() // while request i is in flight
				close(ch)
			} else {
				idle(3 * time.Second)
				issue()
			}
		case <-time.After(1500 * time.Millisecond):
			// no request although an operation is waiting: handled by the final check
			issue()
		}
	}
	// drain: release whatever is still held
	deadline := time.Now().Add(6 * time.Second)
	for time.Now().Before(deadline) {
		select {
		case i := <-arrived:
			mu.Lock()
			if ch := release[i]; ch != nil {
				close(ch)
				delete(release, i)
			}
			mu.Unlock()
		case <-time.After(20 * time.Millisecond):
		}
		mu.Lock()
		for i, ch := range release {
			select {
			case <-ch:
			default:
				close(ch)
			}
			delete(release, i)
		}
		mu.Unlock()
		if !ra.dt.NeedPush() && w.env.InFlight() == 0 {
			break
		}
		if w.env.InFlight() == 0 && !stackContains("syncPushPullPacks") && !stackContains("DeliverTransaction") && time.Until(deadline) < 3*time.Second {
			break
		}
	}
	w.env.SetGRPCHook(nil)
	idle(2 * time.Second)
	log, _ := w.storedLogByKey(k.Name)
	mine := 0
	for _, so := range log {
		if so.op.OpType%10 != 0 && so.op.OpType != model.TypeOfOperation_TRANSACTION {
			mine++
		}
	}
	mu.Lock()
	requests = nreq
	mu.Unlock()
	if ra.dt.NeedPush() || mine != p.Ops {
		pack := ra.dt.CreatePushPullPack()
		return requests, fmt.Errorf("a lone realtime client issued %d operations, %d are stored and %d stay unpushed although nothing is in flight any more and no sync is pending (requests sent: %d): nobody is going to push them", p.Ops, mine, len(pack.Operations), requests)
	}
	return requests, nil
}

// TestC18Burst: operations issued while earlier pushes of the same realtime client are in flight.
func TestC18Burst(t *testing.T) {
	col := stats.New("C18", t.Name(),
		"one REAL realtime client alone on a Counter / List issues 2-7 operations; the harness owns WHEN: each push-pull request of the client is either let through (the next operation is issued after the client went idle) or held at the gRPC proxy while the next operation is issued (drawn per request); "+
			"oracle: in the end every operation is stored on the server and nothing stays unpushed (the client library has no timers: an operation nobody is pushing when everything is idle will never be pushed); "+
			"non-trivial = >=2 consecutive requests had an operation issued while they were in flight; distinct = the plan")
	checkProp(t, "C18", col, func(c *caseCtx) {
		rt := c.rt
		p := c18BurstPlan{Kind: []sim.Kind{sim.Counter, sim.List}[rapid.IntRange(0, 1).Draw(rt, "kind")], Ops: rapid.IntRange(2, 7).Draw(rt, "ops"), IDSeed: rapid.Uint64Range(1, 1<<30).Draw(rt, "idseed")}
		consecutive, run := false, 0
		for i := 0; i < p.Ops; i++ {
			b := rapid.IntRange(0, 2).Draw(rt, fmt.Sprintf("inflight%d", i)) > 0
			p.InFlight = append(p.InFlight, b)
			if b {
				run++
				if run >= 2 {
					consecutive = true
				}
			} else {
				run = 0
			}
		}
		c.j.Header = p
		nreq, err := c18BurstRun(p)
		if err != nil {
			c.failf("%v", err)
		}
		col.Case(consecutive, fmt.Sprintf("%+v", p), []string{"kind=" + string(p.Kind), fmt.Sprintf("ops=%d", p.Ops)}, func() interface{} {
			return map[string]interface{}{"plan": p, "requests": nreq}
		})
	})
}
