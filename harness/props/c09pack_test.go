package props

import (
	"fmt"
	"strings"
	"testing"

	"github.com/orda-io/orda/client/pkg/model"
	"github.com/orda-io/orda/client/pkg/orda"
	"pgregory.net/rapid"
	"verif/sim"
	"verif/stats"
)

// TestC09TruncatedPack: a unit that arrives truncated in a server's ANSWER (a pack handed to ApplyPushPullPack, with a
// checkpoint), not as bare operations: none of it may be applied - and when the log is delivered again from wherever
// the replica's checkpoint stands afterwards, all of it is.
func TestC09TruncatedPack(t *testing.T) {
	col := stats.New("C09", t.Name(),
		"an author replica of a drawn kind issues 0-3 operations, a committed transaction of 2-4 operations and 0-2 more operations; its operations are the log; a second instance subscribes to it through packs built the way the server builds them (operations behind the checkpoint the instance reports, checkpoint = number of operations stored): "+
			"either its very first (subscribe) answer, or an ordinary answer after it has subscribed up to the beginning of the transaction, ends at a drawn point INSIDE the transaction; afterwards it is answered from its checkpoint with the whole log; "+
			"oracle: after the truncated answer the instance shows nothing of the transaction (its state is the one before the answer, or the complete prefix), no panic; after the complete answer it equals the author (view, sizes, element reads); "+
			"non-trivial = every case; distinct = (kind, calls, cut, path)")
	checkProp(t, "C09", col, func(c *caseCtx) {
		rt := c.rt
		kind := kindFromDraw(rt)
		idseed := rapid.Uint64Range(1, 1<<40).Draw(rt, "idseed")
		sim.SeedIDs(idseed)
		w := sim.NewWorld(kind, 1, 1)
		a := w.Reps[0]
		n := 0
		op := func() { n++; w.Call(0, c06CheapCall(kind, n)) }
		for i, m := 0, rapid.IntRange(0, 3).Draw(rt, "before"); i < m; i++ {
			op()
		}
		txFrom := len(a.Emitted)
		tx := sim.Tx{Tag: "unit", FailAt: -1}
		for i, m := 0, rapid.IntRange(2, 4).Draw(rt, "txlen"); i < m; i++ {
			n++
			tx.Calls = append(tx.Calls, c06CheapCall(kind, n))
		}
		if _, txErr, pan, _ := w.Transaction(0, tx); txErr != nil || pan != nil {
			c.failf("HARNESS-ERROR: the author's transaction failed: %v %v", txErr, pan)
		}
		txTo := len(a.Emitted)
		for i, m := 0, rapid.IntRange(0, 2).Draw(rt, "after"); i < m; i++ {
			op()
		}
		log := cloneOps(a.Emitted, 0)
		if txTo-txFrom < 3 {
			c.failf("HARNESS-ERROR: the transaction emitted %d operations", txTo-txFrom)
		}
		cut := rapid.IntRange(txFrom+1, txTo-1).Draw(rt, "cut") // header stored, 0..n-2 of its operations stored
		firstAnswer := rapid.Bool().Draw(rt, "truncated_answer_is_the_subscription")
		c.j.Header = map[string]interface{}{"kind": kind, "id_seed": idseed, "log": len(log), "transaction": []int{txFrom, txTo}, "cut": cut, "truncated_answer_is_the_subscription": firstAnswer}
		_, victim := w.NewInstance("victim", false)
		keys := append([]string{}, keyPoolPlain...)
		answer := func(stored int) (err interface{}) {
			req := victim.CreatePushPullPack()
			from := int(req.CheckPoint.Sseq)
			if from > stored {
				from = stored
			}
			opt := model.PushPullBitNormal
			if victim.GetState() != model.StateOfDatatype_SUBSCRIBED {
				opt.SetSubscribeBit()
				from = 0
			}
			pack := &model.PushPullPack{Key: req.Key, DUID: a.DT.GetDUID(), Option: uint32(opt), Era: req.Era, Type: req.Type,
				CheckPoint: &model.CheckPoint{Sseq: uint64(stored), Cseq: req.CheckPoint.Cseq}, Operations: cloneOps(log[from:stored], 0)}
			defer func() { err = recover() }()
			victim.ApplyPushPullPack(pack)
			return nil
		}
		if !firstAnswer {
			if p := answer(txFrom); p != nil {
				c.failf("the subscription answer (%d operations, ends before the transaction) panicked: %v", txFrom, p)
			}
			waitHandlers()
		}
		before := sim.Observe(kind, victim, keys)
		if p := answer(cut); p != nil {
			c.failf("an answer that ends inside a transaction (operation %d of a log whose transaction is %d..%d) panicked: %v", cut, txFrom+1, txTo, p)
		}
		waitHandlers()
		if v := sim.Observe(kind, victim, keys); v != before {
			// (applying the complete operations that precede the transaction would be as good as refusing the pack as a whole)
			prefix, _ := replayOpsInstance(w, log[:txFrom])
			if prefix == nil || v != sim.Observe(kind, prefix, keys) {
				c.failf("after an answer that ends inside a transaction the instance shows part of it:\n  before: %s\n  after:  %s", before, v)
			}
		}
		if p := answer(len(log)); p != nil {
			c.failf("the complete answer after the truncated one panicked: %v", p)
		}
		waitHandlers()
		if got, want := sim.Observe(kind, victim, keys), sim.Observe(kind, a.DT, keys); got != want {
			c.failf("after a truncated answer (cut at %d, transaction %d..%d of %d operations) and a complete one from its checkpoint the instance differs from the author:\n  author:   %s\n  instance: %s", cut, txFrom+1, txTo, len(log), want, got)
		}
		col.Case(true, fmt.Sprintf("%s|%d|%d-%d|%d|%v", kind, len(log), txFrom, txTo, cut, firstAnswer), []string{"kind=" + string(kind), fmt.Sprintf("truncated-answer-is-the-subscription=%v", firstAnswer)}, func() interface{} { return c.j.Header })
	})
}

// replayOpsInstance feeds operations to a fresh instance of the world's kind.
func replayOpsInstance(w *sim.World, ops []*model.Operation) (dt orda.Datatype, err error) {
	defer func() {
		if p := recover(); p != nil {
			dt, err = nil, fmt.Errorf("%v", p)
		}
	}()
	_, inst := w.NewInstance("prefix", true)
	if _, e := inst.ReceiveRemoteModelOperations(cloneOps(ops, 0), false); e != nil && !strings.Contains(e.Error(), "snapshot") {
		return nil, e
	}
	return inst.(orda.Datatype), nil
}
