package props

import (
	"encoding/json"
	"fmt"
	"sort"
	"strconv"
	"strings"
	"testing"

	"github.com/orda-io/orda/client/pkg/orda"
	"github.com/wI2L/jsondiff"
	"pgregory.net/rapid"
	"verif/sim"
	"verif/stats"
)

// plain JSON-patch interpreter (RFC 6902 add / remove / replace on a tree of maps and slices). Classes:
// mustOK (the plain structure accepts it), mustErr (it cannot), either (RFC 6902 refuses, orda is lenient:
// replace of an absent object member acts as add).
type patchVerdict int

const (
	patchOK patchVerdict = iota
	patchErr
	patchEither
)

func unescapePointerToken(t string) string {
	return strings.ReplaceAll(strings.ReplaceAll(t, "~1", "/"), "~0", "~")
}

func escapePointerToken(t string) string {
	return strings.ReplaceAll(strings.ReplaceAll(t, "~", "~0"), "/", "~1")
}

func canonicalIndex(tok string, n int) (int, bool) {
	if tok == "" || (len(tok) > 1 && tok[0] == '0') {
		return 0, false
	}
	for _, r := range tok {
		if r < '0' || r > '9' {
			return 0, false
		}
	}
	i, err := strconv.Atoi(tok)
	if err != nil || i < 0 || i > n {
		return 0, false
	}
	return i, true
}

// plainPatch applies one operation to the tree held in *root and returns the verdict with a reason.
func plainPatch(root *interface{}, opType, path string, value interface{}, hasValue bool) (patchVerdict, string) {
	if path == "" || path[0] != '/' {
		return patchErr, "the path is not a pointer to a member"
	}
	toks := strings.Split(path[1:], "/")
	for i := range toks {
		toks[i] = unescapePointerToken(toks[i])
	}
	// walk to the parent, remembering how to write a changed slice back
	cur := *root
	set := func(v interface{}) { *root = v }
	for _, tk := range toks[:len(toks)-1] {
		switch c := cur.(type) {
		case map[string]interface{}:
			nx, ok := c[tk]
			if !ok {
				return patchErr, "no such parent"
			}
			cc, k := c, tk
			cur, set = nx, func(v interface{}) { cc[k] = v }
		case []interface{}:
			i, ok := canonicalIndex(tk, len(c)-1)
			if !ok {
				return patchErr, "no such parent (array index)"
			}
			cc, ii := c, i
			cur, set = c[i], func(v interface{}) { cc[ii] = v }
		default:
			return patchErr, "the path goes through a value that is not a container"
		}
	}
	key := toks[len(toks)-1]
	switch opType {
	case "add", "replace", "remove":
	default:
		return patchErr, "unsupported operation"
	}
	if opType != "remove" && (!hasValue || value == nil) {
		return patchErr, "no value"
	}
	switch c := cur.(type) {
	case map[string]interface{}:
		_, exists := c[key]
		switch opType {
		case "add":
			c[key] = value
		case "replace":
			c[key] = value
			if !exists {
				return patchEither, "replace of an absent member"
			}
		case "remove":
			if !exists {
				return patchErr, "remove of an absent member"
			}
			delete(c, key)
		}
		return patchOK, ""
	case []interface{}:
		switch opType {
		case "add":
			i := len(c)
			if key != "-" {
				var ok bool
				if i, ok = canonicalIndex(key, len(c)); !ok {
					return patchErr, "array position"
				}
			}
			n := append(append(append([]interface{}{}, c[:i]...), value), c[i:]...)
			set(n)
		case "replace":
			i, ok := canonicalIndex(key, len(c)-1)
			if !ok {
				return patchErr, "array position"
			}
			c[i] = value
		case "remove":
			i, ok := canonicalIndex(key, len(c)-1)
			if !ok {
				return patchErr, "array position"
			}
			set(append(append([]interface{}{}, c[:i]...), c[i+1:]...))
		}
		return patchOK, ""
	}
	return patchErr, "the parent is not a container"
}

// pointersOf lists the JSON pointers of every member and element of the tree (sorted).
func pointersOf(v interface{}, prefix string, out *[]string) {
	switch c := v.(type) {
	case map[string]interface{}:
		ks := make([]string, 0, len(c))
		for k := range c {
			ks = append(ks, k)
		}
		sort.Strings(ks)
		for _, k := range ks {
			p := prefix + "/" + escapePointerToken(k)
			*out = append(*out, p)
			pointersOf(c[k], p, out)
		}
	case []interface{}:
		for i, e := range c {
			p := prefix + "/" + strconv.Itoa(i)
			*out = append(*out, p)
			pointersOf(e, p, out)
		}
	}
}

// TestC03DocumentPatch: Document.Patch with hand-made JSON-patch operations (PatchByJSON only ever issues the
// operations a diff produces) against the plain interpreter above.
func TestC03DocumentPatch(t *testing.T) {
	col := stats.New("C03", t.Name(),
		"a single document replica initialised to a generated object (keys that need pointer escaping included); 1-6 calls of Document.Patch with 1-3 generated JSON-patch operations each: add / remove / replace (and move / copy / test, which are unsupported) at pointers of existing members and elements, at new members, at '-' and at the end of arrays, or at corrupted pointers (through a primitive, below a missing parent, index out of range / negative / not a number, no leading slash, empty), with and without values; "+
			"oracle: a plain RFC 6902 interpreter on a tree of maps and slices: a patch all of whose operations it accepts succeeds and leaves exactly its result, queueing one operation (or one transaction unit of n+1); a patch with an operation it cannot apply returns an error, never panics, changes nothing readable and queues nothing (also when earlier operations of the same patch applied); replace of an absent member may go either way; "+
			"non-trivial = some patch was refused after an applicable first operation, or a patch went through an escaped key or an array; distinct = hash of the patches")
	checkProp(t, "C03", col, func(c *caseCtx) {
		rt := c.rt
		idseed := rapid.Uint64Range(1, 1<<40).Draw(rt, "idseed")
		sim.SeedIDs(idseed)
		w := sim.NewWorld(sim.Document, 1, 1)
		doc := w.Reps[0].DT.(orda.Document)
		init := c19Object(rt, "init", 3)
		ib, _ := json.Marshal(init)
		c.j.Header = map[string]interface{}{"id_seed": idseed, "init": string(ib)}
		if _, err := doc.PatchByJSON(string(ib)); err != nil {
			c.failf("PatchByJSON of the initial object failed: %v", err)
		}
		var model interface{}
		_ = json.Unmarshal(ib, &model)
		nontrivial := false
		var canon strings.Builder
		labels := map[string]bool{}
		for pi := rapid.IntRange(1, 6).Draw(rt, "patches"); pi > 0; pi-- {
			n := rapid.IntRange(1, 3).Draw(rt, "ops")
			next := deepCopy(model)
			var ops []map[string]interface{}
			verdict, why, failedAt := patchOK, "", -1
			for oi := 0; oi < n; oi++ {
				l := fmt.Sprintf("p%d.o%d", pi, oi)
				var ptrs []string
				pointersOf(next, "", &ptrs)
				path := "/" + escapePointerToken(rapid.SampledFrom(c19Keys).Draw(rt, l+".newkey"))
				if len(ptrs) > 0 && rapid.IntRange(0, 3).Draw(rt, l+".existing") > 0 {
					path = rapid.SampledFrom(ptrs).Draw(rt, l+".ptr")
					switch rapid.IntRange(0, 9).Draw(rt, l+".shape") {
					case 0:
						path += "/" + escapePointerToken(rapid.SampledFrom(c19Keys).Draw(rt, l+".below")) // a new member / through a primitive
					case 1:
						path += "/-"
					case 2:
						path += "/" + strconv.Itoa(rapid.IntRange(-1, 4).Draw(rt, l+".idx"))
					case 3:
						path = path[1:] // no leading slash
					case 4:
						path += "/zz/deeper" // missing parent
					}
				}
				if rapid.IntRange(0, 19).Draw(rt, l+".emptypath") == 0 {
					path = ""
				}
				op := map[string]interface{}{"op": rapid.SampledFrom([]string{"add", "add", "remove", "replace", "replace", "move", "copy", "test"}).Draw(rt, l+".type"), "path": path}
				hasValue := op["op"] != "remove" && rapid.IntRange(0, 9).Draw(rt, l+".novalue") > 0
				var val interface{}
				if hasValue {
					val = c19Value(rt, l+".val", 2)
					op["value"] = val
				}
				if op["op"] == "move" || op["op"] == "copy" {
					op["from"] = "/a"
				}
				ops = append(ops, op)
				if verdict != patchErr {
					v, reason := plainPatch(&next, op["op"].(string), path, deepCopy(val), hasValue)
					if v == patchErr {
						verdict, why, failedAt = patchErr, reason, oi
					} else if v == patchEither {
						verdict, why = patchEither, reason
					}
				}
			}
			ob, _ := json.Marshal(ops)
			c.j.add(map[string]interface{}{"k": "patch", "ops": string(ob)})
			canon.WriteString(string(ob) + ";")
			var patch []jsondiff.Operation
			if err := json.Unmarshal(ob, &patch); err != nil {
				c.failf("HARNESS-ERROR: cannot decode the generated patch %s: %v", ob, err)
			}
			w.Reps[0].NoteEmitted()
			before := len(w.Reps[0].Buffer())
			var perr, swallowed error
			var pan interface{}
			// directly, or (a third) inside a transaction of the user whose function hands the error on
			inUserTx := rapid.IntRange(0, 2).Draw(rt, fmt.Sprintf("p%d.in_user_tx", pi)) == 0
			// ... whose function may swallow the error: a patch that failed half way still must not leave its first
			// half behind (the transaction is rolled back and says so)
			swallow := inUserTx && rapid.Bool().Draw(rt, fmt.Sprintf("p%d.swallow", pi))
			func() {
				defer func() { pan = recover() }()
				if inUserTx {
					labels["inside-a-user-transaction"] = true
					if e := doc.Transaction("user", func(d orda.DocumentInTx) error {
						if pe := d.Patch(patch...); pe != nil {
							if swallow {
								labels["inside-a-user-transaction-that-swallows-the-error"] = true
								swallowed = pe
								return nil
							}
							return pe
						}
						return nil
					}); e != nil {
						perr = e
					}
				} else if e := doc.Patch(patch...); e != nil {
					perr = e
				}
			}()
			if pan != nil {
				c.failf("Patch(%s) panicked: %v", ob, pan)
			}
			w.Reps[0].NoteEmitted()
			queued := len(w.Reps[0].Buffer()) - before
			got := sim.Canon(sim.Normalize(doc.GetValue()))
			unchanged, result := sim.Canon(model), sim.Canon(next)
			if swallowed != nil && perr == nil {
				// the patch failed, the user's function kept that to itself and the transaction committed: legitimate for
				// a patch of one operation (a failed call inside a transaction is the user's to judge); nothing of the
				// patch may be left, and what is queued is the lone header of a transaction without operations
				if verdict == patchOK {
					c.failf("Patch(%s) is applicable to %s but failed inside the transaction: %v", ob, unchanged, swallowed)
				}
				if got != unchanged {
					c.failf("Patch(%s) failed inside a transaction (%v) whose function swallowed the error; the transaction committed and left %s of %s", ob, firstLineOf(swallowed.Error()), got, unchanged)
				}
				if queued > 1 {
					c.failf("Patch(%s) failed inside a committed transaction but %d operations were queued for push", ob, queued)
				}
				continue
			}
			switch {
			case verdict == patchErr && perr == nil:
				c.failf("Patch(%s) must return an error (operation %d: %s) but succeeded; document %s -> %s", ob, failedAt+1, why, unchanged, got)
			case perr != nil && verdict == patchOK:
				c.failf("Patch(%s) is applicable to %s but failed: %v", ob, unchanged, perr)
			case perr != nil:
				if got != unchanged {
					c.failf("Patch(%s) returned an error (%v) but the document changed: %s -> %s", ob, firstLineOf(perr.Error()), unchanged, got)
				}
				if queued != 0 {
					c.failf("Patch(%s) returned an error but %d operations were queued for push", ob, queued)
				}
				if failedAt > 0 {
					nontrivial = true
					labels["refused-after-an-applicable-operation"] = true
				}
				labels["refused: "+why] = true
			default:
				if got != result {
					c.failf("Patch(%s) on %s left %s, the plain structure gives %s", ob, unchanged, got, result)
				}
				want := n
				if n > 1 || inUserTx {
					want = n + 1
				}
				if queued != want {
					c.failf("Patch(%s) with %d operations queued %d operations for push (want %d)", ob, n, queued, want)
				}
				model = next
				if strings.Contains(string(ob), "~") || strings.Contains(string(ob), "/-") || strings.ContainsAny(result, "[") {
					nontrivial = true
				}
				labels["applied"] = true
			}
		}
		var ll []string
		for l := range labels {
			ll = append(ll, l)
		}
		sort.Strings(ll)
		col.Case(nontrivial, canon.String(), ll, func() interface{} { return map[string]interface{}{"init": string(ib), "patches": canon.String()} })
	})
}
