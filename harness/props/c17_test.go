package props

import (
	"fmt"
	"sort"
	"strings"
	"testing"
	"time"

	"github.com/orda-io/orda/client/pkg/model"
	"github.com/orda-io/orda/client/pkg/orda"
	"go.mongodb.org/mongo-driver/bson"
	"google.golang.org/protobuf/proto"
	"pgregory.net/rapid"
	"verif/cluster"
	"verif/sim"
	"verif/stats"
)

// c17World: several collections on one server; each collection is an l1World sharing the
// environment and the bookkeeping of pushed operations.
type c17World struct {
	env    *cluster.Env
	cols   []*l1World
	seq    int
	keyset []string
	kinds  []sim.Kind
	idseed uint64
	// overHTTP counts the collection calls that went through the HTTP route
	overHTTP int
	// confusable: the second collection's name equals the first one's up to blanks / letter case
	confusable bool
}

func newC17World(idseed uint64, kinds []sim.Kind) (*c17World, error) {
	sim.SeedIDs(idseed)
	knownCUIDs = map[string]bool{}
	opts := l1Deploy
	l1Deploy = cluster.Options{}
	env, err := cluster.New(opts)
	if err != nil {
		return nil, err
	}
	l1Seq++
	cw := &c17World{env: env, seq: l1Seq, kinds: kinds, idseed: idseed}
	for i := range kinds {
		cw.keyset = append(cw.keyset, fmt.Sprintf("k%d_%d", l1Seq, i)+l1NameSuffix(idseed/7+uint64(i), false))
	}
	return cw, nil
}

// collectionCall creates or resets a collection: in worlds with an odd id seed through the HTTP route of the
// REST port (PUT /api/v1/collections/<name>[/reset] -> grpc-gateway -> gRPC -> service), else by the service method.
func (cw *c17World) collectionCall(name string, reset bool) error {
	if cw.idseed%2 == 1 {
		rr, err := cw.env.CollectionREST(name, reset, l1Deadline)
		switch {
		case err != nil:
			return fmt.Errorf("HARNESS-ERROR: REST gateway: %v", err)
		case rr.TimedOut:
			return fmt.Errorf("the HTTP request for collection %q (reset=%v) was never answered", name, reset)
		case rr.Status == 200:
			cw.overHTTP++
			return nil
		case rr.Status == 404 || rr.Status == 405:
			// the route does not match the name: the service method is called
		default:
			return fmt.Errorf("the HTTP request for collection %q (reset=%v) failed: HTTP %d %s", name, reset, rr.Status, rr.Body)
		}
	}
	if reset {
		return cw.env.ResetCollection(name)
	}
	return cw.env.CreateCollection(name)
}

func (cw *c17World) addCollection() (*l1World, error) {
	// (names vary with the drawn id seed, see l1NameSuffix; one collection is a prefix of another's name)
	name := fmt.Sprintf("c%d_%d", cw.seq, len(cw.cols)) + l1NameSuffix(cw.idseed/13+uint64(len(cw.cols)), true)
	if len(cw.cols) == 1 && (cw.idseed/3)%3 == 0 {
		// a third of the worlds: the second collection's name is the first one's up to blanks or letter case -
		// different names are different collections, whatever a lenient lookup makes of them
		first := cw.cols[0].col
		switch (cw.idseed / 9) % 4 {
		case 0:
			name = first + " "
		case 1:
			name = " " + first
		case 2:
			name = first + "\n"
		default:
			name = strings.ToUpper(first)
			if name == first {
				name = first + "\t"
			}
		}
		cw.confusable = true
	}
	if err := cw.collectionCall(name, false); err != nil {
		return nil, err
	}
	w := &l1World{env: cw.env, col: name, labels: map[string]bool{}, waitBG: true, noConverge: true}
	if len(cw.cols) > 0 {
		w.accepted, w.sentAny = cw.cols[0].accepted, cw.cols[0].sentAny
	} else {
		w.accepted, w.sentAny = map[string]map[string]*model.Operation{}, map[string]bool{}
	}
	for i, k := range cw.kinds {
		w.keys = append(w.keys, &l1Key{Name: cw.keyset[i], Kind: k}) // the SAME key names in every collection
	}
	cw.cols = append(cw.cols, w)
	return w, nil
}

// colNum reads the number the server gave to a collection.
func (cw *c17World) colNum(name string) int64 {
	for _, d := range cw.env.Mongo.Dump()[cw.env.DBName+".-_-Collections"] {
		if bstr(bget(d, "_id")) == name {
			return bint(bget(d, "num"))
		}
	}
	return -1
}

func canonDocs(docs []bson.D) string {
	var lines []string
	for _, d := range docs {
		b, _ := bson.MarshalExtJSON(stripTimes(d), true, false)
		lines = append(lines, string(b))
	}
	sort.Strings(lines)
	return strings.Join(lines, "\n")
}

func stripTimes(d bson.D) bson.D {
	out := bson.D{}
	for _, e := range d {
		switch v := e.Value.(type) {
		case bson.D:
			out = append(out, bson.E{Key: e.Key, Value: stripTimes(v)})
		case bson.A:
			out = append(out, bson.E{Key: e.Key, Value: v})
		default:
			if strings.HasSuffix(fmt.Sprintf("%T", v), "DateTime") || strings.HasSuffix(fmt.Sprintf("%T", v), "Time") {
				out = append(out, bson.E{Key: e.Key, Value: "<time>"})
			} else {
				out = append(out, e)
			}
		}
	}
	return out
}

// partition is the canonical text of everything the store holds for one collection.
func (cw *c17World) partition(name string) string {
	num := cw.colNum(name)
	dump := cw.env.Mongo.Dump()
	owned := map[string]bool{}
	for _, d := range dump[cw.env.DBName+".-_-Datatypes"] {
		if bint(bget(d, "colNum")) == num {
			owned[bstr(bget(d, "_id"))] = true
		}
	}
	var sb strings.Builder
	for _, sys := range []string{"-_-Clients", "-_-Datatypes", "-_-Operations", "-_-Snapshots"} {
		var mine []bson.D
		for _, d := range dump[cw.env.DBName+"."+sys] {
			// by the number the document is filed under, and (operations, snapshots) by the datatype it
			// belongs to: a document filed under a wrong number is still part of its datatype's collection
			if bint(bget(d, "colNum")) == num || (sys != "-_-Clients" && sys != "-_-Datatypes" && owned[bstr(bget(d, "duid"))]) {
				mine = append(mine, d)
			}
		}
		sb.WriteString(sys + ":\n" + canonDocs(mine) + "\n")
	}
	var me []bson.D
	for _, d := range dump[cw.env.DBName+".-_-Collections"] {
		if bstr(bget(d, "_id")) == name {
			me = append(me, d)
		}
	}
	sb.WriteString("collection-doc:\n" + canonDocs(me) + "\nuser-collection:\n" + canonDocs(dump[cw.env.DBName+"."+name]) + "\n")
	return sb.String()
}

func (cw *c17World) snapshotOthers(except string) map[string]string {
	out := map[string]string{}
	for _, w := range cw.cols {
		if w.col != except {
			out[w.col] = cw.partition(w.col)
		}
	}
	return out
}

func (cw *c17World) othersUnchanged(before map[string]string, what string) error {
	cw.env.WaitBackground(3 * time.Second)
	for name, b := range before {
		if a := cw.partition(name); a != b {
			return fmt.Errorf("%s changed what is stored for collection %s:\n%s", what, name, dumpDiff(b, a))
		}
	}
	return nil
}

func (cw *c17World) checkNumbers() error {
	seen := map[int64]string{}
	for _, d := range cw.env.Mongo.Dump()[cw.env.DBName+".-_-Collections"] {
		n, name := bint(bget(d, "num")), bstr(bget(d, "_id"))
		if other, dup := seen[n]; dup {
			return fmt.Errorf("collections %q and %q both have number %d: their datatypes, clients and operations are indistinguishable to the server", other, name, n)
		}
		seen[n] = name
	}
	return nil
}

func TestC17(t *testing.T) {
	col := stats.New("C17", t.Name(),
		"rapid state machine over 2-3 collections on one real server, THE SAME key names in every collection, 1-3 clients per collection: actions create collection, new client, open key, local operation, honest sync, foreign request "+
			"(message names another collection; pack carries the id of the same-named datatype of another collection with normal / subscribe / create option; re-registration of a client into another collection), REST patch, ResetCollection; "+
			"oracle: after every request the canonical partition (clients, datatypes, operations, snapshots with that collection number, the collection document, the user collection) of every collection NOT addressed is unchanged; foreign requests are refused and change nothing at all; collection numbers are pairwise distinct; "+
			"the same key in two collections has two datatype ids and each converges to its own refmodel(log); after ResetCollection nothing with the old number remains and the others are unchanged; "+
			"non-trivial = >=2 collections hold a datatype with stored operations under the same key and >=1 foreign request or reset happened after that; distinct = hash of the action sequence")
	col.Assume(deploymentNote)
	checkProp(t, "C17", col, func(c *caseCtx) {
		rt := c.rt
		kinds := []sim.Kind{kindFromDraw(rt)}
		if rapid.Bool().Draw(rt, "twokeys") {
			kinds = append(kinds, sim.Document)
		}
		idseed := rapid.Uint64Range(1, 1<<40).Draw(rt, "idseed")
		patchesHappened = false
		dep := drawDeployment(rt)
		cw, err := newC17World(idseed, kinds)
		if err != nil {
			c.failf("HARNESS-ERROR: %v", err)
		}
		defer cw.env.Close()
		c.j.Header = map[string]interface{}{"kinds": kinds, "id_seed": idseed, "deployment": dep}
		var canon strings.Builder
		step := func(desc string, f func() error) {
			c.j.add(desc)
			canon.WriteString(desc + ";")
			if err := f(); err != nil {
				c.failf("%s: %v", desc, err)
			}
			if err := cw.checkNumbers(); err != nil {
				c.failf("after %s: %v", desc, err)
			}
		}
		// opening: two collections, each with a creator that pushes the shared keys
		for i := 0; i < 2; i++ {
			step("create-collection", func() error { _, e := cw.addCollection(); return e })
		}
		for _, w := range cw.cols {
			w := w
			for _, a := range genPrelude(rt, w, 2) {
				a := a
				step(w.col+":"+a.String(), func() error {
					before := cw.snapshotOthers(w.col)
					if err := w.applyL1(a); err != nil {
						return err
					}
					return cw.othersUnchanged(before, "a request addressed to "+w.col)
				})
			}
		}
		sharedBoth, foreignAfter := false, false
		n := rapid.IntRange(2, 25).Draw(rt, "steps")
		for i := 0; i < n; i++ {
			wi := rapid.IntRange(0, len(cw.cols)-1).Draw(rt, "col")
			w := cw.cols[wi]
			x := rapid.IntRange(0, 99).Draw(rt, "c17action")
			// do two collections share a populated key now?
			pop := 0
			for _, ww := range cw.cols {
				if len(ww.keys) > 0 && ww.keys[0].created {
					pop++
				}
			}
			if pop >= 2 {
				sharedBoth = true
			}
			switch {
			case x < 8 && len(cw.cols) < 3:
				step("create-collection", func() error {
					before := cw.snapshotOthers("")
					if _, e := cw.addCollection(); e != nil {
						return e
					}
					delete(before, cw.cols[len(cw.cols)-1].col)
					return cw.othersUnchanged(before, "creating a collection")
				})
			case x < 55:
				a := genL1Action(rt, w, 3)
				step(w.col+":"+a.String(), func() error {
					before := cw.snapshotOthers(w.col)
					if err := w.applyL1(a); err != nil {
						return err
					}
					return cw.othersUnchanged(before, "a request addressed to "+w.col)
				})
			case x < 80 && len(w.clients) > 0:
				// foreign request by a client of w against another collection
				ow := cw.cols[(wi+1+rapid.IntRange(0, len(cw.cols)-2).Draw(rt, "other"))%len(cw.cols)]
				cl := w.clients[rapid.IntRange(0, len(w.clients)-1).Draw(rt, "fclient")]
				variant := rapid.SampledFrom([]string{"names-other-collection", "names-other-collection+create", "names-other-collection+subscribe", "foreign-duid-normal", "foreign-duid-subscribe", "foreign-duid-create", "foreign-duid-create+own-operations", "foreign-duid-normal+own-operations", "re-register", "sibling-duid-create", "sibling-duid-subscribe"}).Draw(rt, "variant")
				step(fmt.Sprintf("%s.c%d:foreign(%s -> %s)", w.col, cl.idx, variant, ow.col), func() error {
					if sharedBoth {
						foreignAfter = true
					}
					cw.env.WaitBackground(3 * time.Second)
					before := cw.env.Mongo.DumpCanonical()
					var refused, timedOut bool
					var detail, foreignLogBefore string
					if strings.HasPrefix(variant, "sibling-duid") {
						// inside the client's OWN collection: a key that does not exist, with the id of another, existing
						// datatype of that collection (preferably one this client has nothing to do with): operations on
						// one datatype never change another
						var victim *l1Key
						for _, k := range w.keys {
							if k.duid != "" && (victim == nil || cl.dts[k.Name] == nil) {
								victim = k
							}
						}
						if victim == nil {
							return nil
						}
						opt := uint32(model.PushPullBitCreate)
						if variant == "sibling-duid-subscribe" {
							opt = uint32(model.PushPullBitSubscribe)
						}
						req := model.NewPushPullMessage(0, cl.pc.ClientModel(), &model.PushPullPack{Key: fmt.Sprintf("no-such-key-%d", len(canon.String())), DUID: victim.duid,
							Type: typeOfKind(victim.Kind), CheckPoint: &model.CheckPoint{}, Option: opt})
						logBefore := logKeys(w, victim.duid)
						resp, e, to := cw.env.ProcessPushPull(req, l1Deadline)
						if to {
							return fmt.Errorf("never answered")
						}
						cw.env.WaitBackground(3 * time.Second)
						if after := logKeys(w, victim.duid); after != logBefore {
							return fmt.Errorf("a request for a key that does not exist, carrying the id of datatype %s (key %s), changed the log of that datatype:\n  before: %s\n  after:  %s", victim.duid, victim.Name, logBefore, after)
						}
						if !refusedPushPull(resp, e) {
							return fmt.Errorf("a %s request for a key that does not exist, carrying the id of the existing datatype %s (key %s), was accepted", variant, victim.duid, victim.Name)
						}
						if after := cw.env.Mongo.DumpCanonical(); after != before {
							return fmt.Errorf("the refused request (unknown key, id of datatype %s) changed stored data:\n%s", victim.duid, dumpDiff(before, after))
						}
						return nil
					}
					if variant == "re-register" {
						m := model.NewClientMessage(cl.pc.ClientModel())
						m.Collection = ow.col
						_, e, to := cw.env.ProcessClient(m, l1Deadline)
						refused, timedOut, detail = e != nil, to, fmt.Sprint(e)
					} else {
						k := ow.keys[0]
						var d *l1DT
						for _, x := range cl.dts {
							d = x
						}
						var req *model.PushPullMessage
						if d != nil {
							req = cl.pc.BuildRequest(d.dt)
						} else {
							req = model.NewPushPullMessage(0, cl.pc.ClientModel(), &model.PushPullPack{Key: k.Name, Type: typeOfKind(k.Kind), CheckPoint: &model.CheckPoint{}})
						}
						req = proto.Clone(req).(*model.PushPullMessage)
						p := req.PushPullPacks[0]
						switch variant {
						case "names-other-collection":
							req.Collection = ow.col
						case "names-other-collection+create":
							// the message names the other collection and asks to create a key there
							req.Collection = ow.col
							p.DUID, p.Key, p.Type = fmt.Sprintf("intruder%08d", len(canon.String())), fmt.Sprintf("intruder-%d", len(canon.String())), typeOfKind(k.Kind)
							p.CheckPoint, p.Operations, p.Option = &model.CheckPoint{}, nil, uint32(model.PushPullBitCreate)
						case "names-other-collection+subscribe":
							// ... or to subscribe to a datatype of the other collection by its key
							req.Collection = ow.col
							p.DUID, p.Key, p.Type = fmt.Sprintf("intruder%08d", len(canon.String())), k.Name, typeOfKind(k.Kind)
							p.CheckPoint, p.Operations, p.Option = &model.CheckPoint{}, nil, uint32(model.PushPullBitSubscribe)
						default:
							if k.duid == "" {
								return nil
							}
							if strings.HasSuffix(variant, "+own-operations") && d != nil && d.entered && d.key.Kind == k.Kind {
								// the client's own next pack for its own datatype of that key (a fresh local operation, its
								// real checkpoint) - only the datatype id is the foreign one
								sim.Exec(d.key.Kind, d.dt, c06CheapCall(d.key.Kind, 700+i))
								req = proto.Clone(cl.pc.BuildRequest(d.dt)).(*model.PushPullMessage)
								p = req.PushPullPacks[0]
								p.DUID = k.duid
								p.Option = 0
								if variant == "foreign-duid-create+own-operations" {
									p.Option = uint32(model.PushPullBitCreate)
								}
							} else {
								p.DUID, p.Key, p.Type = k.duid, k.Name, typeOfKind(k.Kind)
								p.CheckPoint = &model.CheckPoint{}
								p.Operations = nil
								switch variant {
								case "foreign-duid-subscribe":
									p.Option = uint32(model.PushPullBitSubscribe)
								case "foreign-duid-create", "foreign-duid-create+own-operations":
									p.Option = uint32(model.PushPullBitCreate)
								default:
									p.Option = 0
								}
							}
							foreignLogBefore = logKeys(ow, k.duid)
						}
						resp, e, to := cw.env.ProcessPushPull(req, l1Deadline)
						timedOut = to
						refused = refusedPushPull(resp, e)
						detail = fmt.Sprint(e)
						if strings.HasSuffix(variant, "+own-operations") {
							// the bookkeeping has to know that these operations were sent (the server may store them in the
							// client's OWN datatype: subscribe / create are resolved by collection and key); the answer is
							// not applied - the client sends them again with its next honest sync
							w.record(cl, &exchange{req: req, rpcErr: fmt.Errorf("not applied"), errPacks: map[string]string{}})
						}
						if foreignLogBefore != "" || strings.HasPrefix(variant, "foreign-duid") {
							// the foreign datatype's log as the server reads it (by datatype id): nothing may have joined it
							cw.env.WaitBackground(3 * time.Second)
							if after := logKeys(ow, k.duid); after != foreignLogBefore {
								return fmt.Errorf("a request of a client registered in %s changed the log of datatype %s of collection %s (read by datatype id):\n  before: %s\n  after:  %s", w.col, k.duid, ow.col, foreignLogBefore, after)
							}
						}
						if !refused && resp != nil {
							// whatever the answer, it must not carry operations of the foreign datatype
							foreign := map[string]bool{}
							if flog, _ := ow.storedLog(k.duid); len(flog) > 0 {
								for _, so := range flog {
									foreign[opKey(so.op)] = true
								}
							}
							for _, rp := range resp.PushPullPacks {
								for _, op := range rp.Operations {
									if foreign[opKey(op)] {
										return fmt.Errorf("a client registered in %s received operation %s of the datatype %s of collection %s", w.col, opKey(op), k.duid, ow.col)
									}
								}
							}
						}
						if (variant == "foreign-duid-subscribe" || variant == "foreign-duid-create" || strings.HasSuffix(variant, "+own-operations")) && !refused {
							// subscribe/create are resolved by (own collection, key): they legitimately act on the
							// client's own collection; only the foreign partition must stay untouched
							cw.env.WaitBackground(3 * time.Second)
							return nil
						}
					}
					if timedOut {
						return fmt.Errorf("never answered")
					}
					cw.env.WaitBackground(3 * time.Second)
					if !refused {
						return fmt.Errorf("the foreign request was accepted (%s)", detail)
					}
					if after := cw.env.Mongo.DumpCanonical(); after != before {
						return fmt.Errorf("the refused foreign request changed stored data:\n%s", dumpDiff(before, after))
					}
					return nil
				})
			case x < 88:
				// REST patch on the document key of this collection (if any)
				var dk *l1Key
				for _, k := range w.keys {
					if k.Kind == sim.Document {
						dk = k
					}
				}
				if dk == nil {
					continue
				}
				pendingEntry := false
				for _, cl := range w.clients {
					if d := cl.dts[dk.Name]; d != nil && !d.entered {
						pendingEntry = true // its create would legitimately be refused once the patch has created the key
					}
				}
				if pendingEntry {
					continue
				}
				step(w.col+":patch", func() error {
					before := cw.snapshotOthers(w.col)
					patchesHappened = true
					_, e, to := cw.env.PatchDocument(&model.PatchMessage{Collection: w.col, Key: dk.Name, Json: fmt.Sprintf(`{"patched":%d}`, i)}, l1Deadline)
					if to {
						return fmt.Errorf("patch never answered")
					}
					_ = e
					cw.env.WaitBackground(3 * time.Second)
					// the patch pushes operations under the admin client id; tell the bookkeeping
					if w.skipConverge == nil {
						w.skipConverge = map[string]bool{}
					}
					w.skipConverge[dk.Name] = true
					if e == nil {
						dk.created = true // the patch creates the document when it is absent
						if dk.duid == "" {
							for _, dd := range w.datatypeDocs() {
								if bstr(bget(dd, "key")) == dk.Name && bint(bget(dd, "colNum")) == cw.colNum(w.col) {
									dk.duid = bstr(bget(dd, "_id"))
								}
							}
						}
					}
					return cw.othersUnchanged(before, "a patch addressed to "+w.col)
				})
				w.noConverge = true
			case x < 94:
				// every second reset is followed, in the same step, by new data in the collection and another
				// reset: whatever the first reset left behind in the server (not in the store) must not make
				// the second one miss its target
				again := rapid.Bool().Draw(rt, "reset_again")
				resetOnce := func() error {
					if sharedBoth {
						foreignAfter = true
					}
					before := cw.snapshotOthers(w.col)
					oldNum := cw.colNum(w.col)
					// the datatypes of this collection, by their ids: what the harness opened here plus what the
					// store lists under the collection's number (documents created by REST patches)
					oldDUIDs := map[string]bool{}
					for _, k := range w.keys {
						if k.duid != "" {
							oldDUIDs[k.duid] = true
						}
					}
					for _, d := range cw.env.Mongo.Dump()[cw.env.DBName+".-_-Datatypes"] {
						if bint(bget(d, "colNum")) == oldNum {
							oldDUIDs[bstr(bget(d, "_id"))] = true
						}
					}
					if err := cw.collectionCall(w.col, true); err != nil {
						return fmt.Errorf("reset failed: %v", err)
					}
					cw.env.WaitBackground(3 * time.Second)
					if err := cw.othersUnchanged(before, "resetting "+w.col); err != nil {
						return err
					}
					dump := cw.env.Mongo.Dump()
					for _, sys := range []string{"-_-Clients", "-_-Datatypes", "-_-Operations", "-_-Snapshots"} {
						for _, d := range dump[cw.env.DBName+"."+sys] {
							if bint(bget(d, "colNum")) == oldNum {
								return fmt.Errorf("after the reset of %s a document with its number %d remains in %s: %v", w.col, oldNum, sys, bget(d, "_id"))
							}
						}
					}
					// ... and nothing that belongs to one of its datatypes, whatever number it is filed under
					for _, sys := range []string{"-_-Datatypes", "-_-Operations", "-_-Snapshots"} {
						for _, d := range dump[cw.env.DBName+"."+sys] {
							id := bstr(bget(d, "duid"))
							if sys == "-_-Datatypes" {
								id = bstr(bget(d, "_id"))
							}
							if oldDUIDs[id] {
								return fmt.Errorf("after the reset of %s a document of its datatype %s remains in %s: %v (filed under collection number %d, the collection had %d)", w.col, id, sys, bget(d, "_id"), bint(bget(d, "colNum")), oldNum)
							}
						}
					}
					if docs := dump[cw.env.DBName+"."+w.col]; len(docs) > 0 {
						return fmt.Errorf("after the reset the user collection %s still holds %d documents", w.col, len(docs))
					}
					// the collection starts over: forget clients and datatypes of it
					for duid := range w.accepted {
						for _, k := range w.keys {
							if k.duid == duid {
								delete(w.accepted, duid)
							}
						}
					}
					w.clients = nil
					for _, k := range w.keys {
						k.created, k.duid = false, ""
					}
					return nil
				}
				step(fmt.Sprintf("%s:reset(again=%v)", w.col, again), func() error {
					if err := resetOnce(); err != nil {
						return err
					}
					if !again {
						return nil
					}
					cl, err := w.addClient()
					if err != nil {
						return fmt.Errorf("after the reset a new client cannot register: %v", err)
					}
					k := w.keys[0]
					d := w.open(cl, k, "create")
					sim.Exec(k.Kind, d.dt, c06CheapCall(k.Kind, 1))
					if ex := w.syncClient(cl); ex == nil || exchangeProblem(cl, ex) != nil {
						return fmt.Errorf("after the reset a new client cannot create %s again: %v", k.Name, exchangeProblem(cl, ex))
					}
					cw.env.WaitBackground(3 * time.Second)
					if err := resetOnce(); err != nil {
						return fmt.Errorf("second reset of %s (after new data): %v", w.col, err)
					}
					return nil
				})
			default:
				// settle this collection and check that every collection converges to ITS log
				step(w.col+":settle", func() error {
					before := cw.snapshotOthers(w.col)
					if err := w.settle(); err != nil {
						return err
					}
					if err := cw.othersUnchanged(before, "syncs addressed to "+w.col); err != nil {
						return err
					}
					return w.checkConvergedLenient()
				})
			}
		}
		// same key, different collections => different datatype ids
		ids := map[string]string{}
		for _, w := range cw.cols {
			for _, k := range w.keys {
				if k.duid == "" {
					continue
				}
				if other, dup := ids[k.duid]; dup {
					c.failf("key %s has the same datatype id %s in collections %s and %s", k.Name, k.duid, other, w.col)
				}
				ids[k.duid] = w.col
			}
		}
		// every collection has its OWN stored snapshots and user-visible documents: what the server keeps for a key
		// in one collection must not depend on what another collection keeps under the same key (all is quiet now)
		cw.env.WaitBackground(5 * time.Second)
		dump := cw.env.Mongo.Dump()
		for _, w := range cw.cols {
			for _, k := range w.keys {
				if k.duid == "" || !k.created {
					continue
				}
				log, _ := w.storedLog(k.duid)
				if len(log) == 0 {
					continue
				}
				latest := int64(-1)
				for _, sd := range dump[cw.env.DBName+".-_-Snapshots"] {
					if bstr(bget(sd, "duid")) == k.duid && bint(bget(sd, "sseq")) > latest {
						latest = bint(bget(sd, "sseq"))
					}
				}
				if latest != int64(len(log)) {
					c.failf("collection %s, key %s: the log has %d operations, every push was followed by a snapshot update and all is quiet, but the latest snapshot stored for datatype %s is at version %d (-1 = none)", w.col, k.Name, len(log), k.duid, latest)
				}
			}
		}
		if u := cw.env.Mongo.UnknownCommands(); len(u) > 0 {
			c.failf("HARNESS-ERROR: unknown commands %v", u)
		}
		labels := []string{dep}
		if sharedBoth {
			labels = append(labels, "same-key-populated-in-2-collections")
		}
		if foreignAfter {
			labels = append(labels, "foreign-request-or-reset-after")
		}
		if cw.confusable {
			labels = append(labels, "collection-names-differ-only-by-blanks-or-case")
		}
		if cw.overHTTP > 0 {
			labels = append(labels, "collections-created-or-reset-over-http")
		}
		col.Case(sharedBoth && foreignAfter, canon.String(), labels, func() interface{} {
			return map[string]interface{}{"kinds": kinds, "actions": canon.String()}
		})
	})
}

func typeOfKind(k sim.Kind) model.TypeOfDatatype {
	switch k {
	case sim.Counter:
		return model.TypeOfDatatype_COUNTER
	case sim.Map:
		return model.TypeOfDatatype_MAP
	case sim.List:
		return model.TypeOfDatatype_LIST
	}
	return model.TypeOfDatatype_DOCUMENT
}

// checkConvergedLenient is checkConverged for worlds where REST patches may have pushed operations
// the harness did not see leave a client: clients are compared with refmodel(log) only.
func (w *l1World) checkConvergedLenient() error {
	saved := w.noConverge
	w.noConverge = false
	defer func() { w.noConverge = saved }()
	return w.checkConverged()
}

var _ = orda.NewHandlers

// TestC17Numbers: collection numbers are distinct from the very first collection on.
func TestC17Numbers(t *testing.T) {
	col := stats.New("C17", t.Name(), "fresh database: create 1..6 collections (and re-create existing ones) in drawn order; oracle: pairwise distinct numbers, re-creating keeps the number; non-trivial = >=2 collections; distinct = the creation sequence")
	checkProp(t, "C17", col, func(c *caseCtx) {
		env, err := cluster.New(cluster.Options{})
		if err != nil {
			c.failf("HARNESS-ERROR: %v", err)
		}
		defer env.Close()
		l1Seq++
		n := rapid.IntRange(1, 8).Draw(c.rt, "n")
		nums := map[string]int64{}
		var seqs []string
		for i := 0; i < n; i++ {
			name := fmt.Sprintf("n%d_%d", l1Seq, rapid.IntRange(0, 5).Draw(c.rt, "name"))
			seqs = append(seqs, name)
			if err := env.CreateCollection(name); err != nil {
				c.failf("CreateCollection(%s): %v", name, err)
			}
			cw := &c17World{env: env}
			num := cw.colNum(name)
			if old, ok := nums[name]; ok && old != num {
				c.failf("collection %s changed its number from %d to %d when created again", name, old, num)
			}
			nums[name] = num
			if err := cw.checkNumbers(); err != nil {
				c.failf("after creating %v: %v", seqs, err)
			}
		}
		c.j.Header = seqs
		col.Case(len(nums) >= 2, fmt.Sprint(seqs), nil, func() interface{} { return seqs })
	})
}

// logKeys renders the stored log of a datatype id (whatever collection number its documents carry).
func logKeys(w *l1World, duid string) string {
	log, _ := w.storedLog(duid)
	var sb strings.Builder
	for _, so := range log {
		sb.WriteString(fmt.Sprintf("%d=%s ", so.sseq, opKey(so.op)))
	}
	return sb.String()
}
