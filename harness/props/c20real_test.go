package props

import (
	"fmt"
	"runtime"
	"strings"
	"sync"
	"testing"
	"time"

	"github.com/orda-io/orda/client/pkg/model"
	"github.com/orda-io/orda/client/pkg/orda"
	"google.golang.org/protobuf/proto"
	"pgregory.net/rapid"
	"verif/sim"
	"verif/stats"
)

// TestC20RealClientSync: the goroutines of an application around ONE real client in manual sync mode - one issues
// operations and transactions, another calls Client.Sync() over and over - against the real server, with a second
// client doing the same. (Sync builds its pack and applies the answer while the other goroutine is inside its calls.)
func TestC20RealClientSync(t *testing.T) {
	col := stats.New("C20", t.Name(),
		"2 REAL clients (manual sync, gRPC on loopback) on one key of a drawn kind; per client one goroutine runs a drawn script of 10-60 operations and transactions of 2-4 operations (some fail), a second goroutine calls Client.Sync() in a loop with drawn pauses of 0-300 us; when the scripts are done everybody syncs until nothing is left; "+
			"oracle: every Sync() returns without error, no error handler fires, no panic; stored-log invariants; every transaction is stored as ONE unbroken unit (header + announced operations, consecutive in the server's log); both clients and the server's rebuild equal refmodel(stored log); non-trivial = a Sync() call overlapped a transaction of the same client (measured); distinct = hash of the scripts")
	col.Assume("schedule coverage is sampled: the Go scheduler decides the interleaving")
	checkProp(t, "C20", col, func(c *caseCtx) {
		rt := c.rt
		kind := kindFromDraw(rt)
		idseed := rapid.Uint64Range(1, 1<<40).Draw(rt, "idseed")
		w, err := newL1World(idseed, []sim.Kind{kind})
		if err != nil {
			c.failf("HARNESS-ERROR: %v", err)
		}
		defer w.close()
		k := w.keys[0]
		var smu sync.Mutex
		w.env.SetGRPCRequestHook(func(method string, req proto.Message) bool {
			if m, ok := req.(*model.PushPullMessage); ok {
				smu.Lock()
				knownCUIDs[m.Cuid] = true
				for _, pack := range m.PushPullPacks {
					for _, op := range pack.Operations {
						if op.ID != nil {
							w.sentAny[opKey(op)] = true
						}
					}
				}
				smu.Unlock()
			}
			return false
		})
		type script struct {
			Steps []c20Step `json:"steps"`
			Pause int       `json:"sync_pause_us"`
			// Workers: the steps are dealt out to 1-3 goroutines of the application (step i goes to goroutine i mod Workers)
			Workers int `json:"workers"`
		}
		scripts := make([]script, 2)
		for ci := range scripts {
			cnt := 0
			for i := rapid.IntRange(10, 60).Draw(rt, fmt.Sprintf("len%d", ci)); i > 0; i-- {
				l := fmt.Sprintf("c%d.s%d", ci, i)
				st := c20Step{Yield: rapid.IntRange(0, 2).Draw(rt, l+".y")}
				if rapid.IntRange(0, 3).Draw(rt, l+".tx") == 0 {
					for x := rapid.IntRange(2, 4).Draw(rt, l+".n"); x > 0; x-- {
						cnt++
						st.Tx = append(st.Tx, c06CheapCall(kind, 100*ci+cnt))
					}
					st.Fail = rapid.IntRange(0, 3).Draw(rt, l+".fail") == 0
				} else {
					cnt++
					call := c06CheapCall(kind, 100*ci+cnt)
					st.Call = &call
				}
				scripts[ci].Steps = append(scripts[ci].Steps, st)
			}
			scripts[ci].Pause = rapid.SampledFrom([]int{0, 50, 300}).Draw(rt, fmt.Sprintf("pause%d", ci))
			scripts[ci].Workers = rapid.IntRange(1, 3).Draw(rt, fmt.Sprintf("workers%d", ci))
		}
		c.j.Header = map[string]interface{}{"kind": kind, "id_seed": idseed, "scripts": scripts}
		var clients []*c05rClient
		defer func() {
			for _, rc := range clients {
				rc := rc
				watchdog(3*time.Second, func() { _ = rc.cl.Close() })
			}
		}()
		// lateEntry: the creator's goroutines start BEFORE its first sync (an application that creates a datatype and
		// goes to work at once; the first answer of the server is applied while calls and transactions are running);
		// the second client joins as soon as the datatype exists on the server
		lateEntry := rapid.IntRange(0, 2).Draw(rt, "creator_works_before_its_first_sync") == 0
		c.j.Header.(map[string]interface{})["creator_works_before_its_first_sync"] = lateEntry
		enter := func(ci int, entrySync bool) {
			cl, e := w.env.NewRealClient(w.col, fmt.Sprintf("app%d", ci), model.SyncType_MANUALLY)
			if e != nil {
				c.failf("HARNESS-ERROR: %v", e)
			}
			if e := cl.Connect(); e != nil {
				c.failf("HARNESS-ERROR: connect: %v", e)
			}
			rc := &c05rClient{idx: ci, cl: cl, dts: map[string]*c05rDT{}}
			clients = append(clients, rc)
			mode := "create"
			if ci > 0 {
				mode = "subscribe"
			}
			d := &c05rDT{key: k, mode: mode}
			d.dt = openReal(cl, kind, k.Name, mode, d.handlers())
			rc.dts[k.Name] = d
			if entrySync {
				if err, hung := syncWithDeadline(cl, l1Deadline); err != nil || hung {
					c.failf("HARNESS-ERROR: entry sync of client %d: err=%v hung=%v", ci, err, hung)
				}
			}
			d.synced = true
			k.created, k.duid = true, d.dt.GetDUID()
		}
		enter(0, !lateEntry)
		if !lateEntry {
			enter(1, true)
		}
		var mu sync.Mutex
		var problems []string
		note := func(s string) {
			mu.Lock()
			problems = append(problems, s)
			mu.Unlock()
		}
		var overlapped int32
		var wg sync.WaitGroup
		for ci := 0; ci < 2; ci++ {
			if ci == 1 && lateEntry {
				if !waitUntil(5*time.Second, func() bool {
					return clients[0].dts[k.Name].dt.GetState() == model.StateOfDatatype_SUBSCRIBED
				}) {
					note("the creator never became subscribed although its sync loop was running")
					break
				}
				enter(1, true)
			}
			rc := clients[ci]
			d := rc.dts[k.Name]
			var inTx, done int32
			var swg sync.WaitGroup
			wg.Add(1)
			for wi := 0; wi < scripts[ci].Workers; wi++ {
				wg.Add(1)
				swg.Add(1)
				go func(ci int, sc script, wi int) { // one of the application's workers
					defer wg.Done()
					defer swg.Done()
					defer func() {
						if p := recover(); p != nil {
							note(fmt.Sprintf("client %d: a call panicked: %v", ci, p))
						}
					}()
					if ci == 0 && lateEntry && wi == 0 {
						// the creator's first moments: transactions that stay open for a while (some fail), so that the answer
						// to its very first sync arrives while one of them is running
						for i := 0; i < 4; i++ {
							atomicStore(&inTx, 1)
							if r := c18ExecTx(kind, d.dt, c18Op{Call: c06CheapCall(kind, 9000+i), Tx: true, TxSleep: 300 * (i + 1), TxFail: i%2 == 0}); r.Panic != nil {
								note(fmt.Sprintf("client %d: a transaction panicked: %v", ci, r.Panic))
								return
							}
							atomicStore(&inTx, 0)
						}
					}
					for si, st := range sc.Steps {
						if si%sc.Workers != wi {
							continue
						}
						for y := 0; y < st.Yield; y++ {
							runtime.Gosched()
						}
						if st.Call != nil {
							if r := sim.Exec(kind, d.dt, *st.Call); r.Panic != nil {
								note(fmt.Sprintf("client %d: %s panicked: %v", ci, st.Call, r.Panic))
								return
							}
							continue
						}
						atomicStore(&inTx, 1)
						tx := sim.Tx{Tag: "t", Calls: st.Tx, FailAt: -1}
						if st.Fail {
							tx.FailAt = len(st.Tx)
						}
						if _, _, pan := sim.ExecTx(kind, d.dt, tx); pan != nil {
							note(fmt.Sprintf("client %d: a transaction panicked: %v", ci, pan))
							return
						}
						atomicStore(&inTx, 0)
					}
				}(ci, scripts[ci], wi)
			}
			go func(ci int, rc *c05rClient, pause int) { // the application's sync loop
				defer wg.Done()
				for atomicLoad(&done) == 0 {
					if atomicLoad(&inTx) == 1 {
						atomicStore(&overlapped, 1)
					}
					err, hung := syncWithDeadline(rc.cl, l1Deadline)
					if hung {
						note(fmt.Sprintf("Sync() of client %d did not return within %v", ci, l1Deadline))
						return
					}
					if err != nil {
						note(fmt.Sprintf("Sync() of client %d failed: %v", ci, err))
						return
					}
					if pause > 0 {
						time.Sleep(time.Duration(pause) * time.Microsecond)
					} else {
						runtime.Gosched()
					}
				}
			}(ci, rc, scripts[ci].Pause)
			go func() { swg.Wait(); atomicStore(&done, 1) }()
		}
		if watchdog(60*time.Second, wg.Wait) {
			c.failf("the goroutines of the applications did not finish within 60 s (deadlock)")
		}
		if len(problems) > 0 {
			c.failf("%s", problems[0])
		}
		for round := 0; round < 3; round++ {
			for _, rc := range clients {
				if err, hung := syncWithDeadline(rc.cl, l1Deadline); err != nil || hung {
					c.failf("final Sync() of client %d: err=%v hung=%v", rc.idx, err, hung)
				}
				waitHandlers()
			}
		}
		w.env.WaitBackground(5 * time.Second)
		for _, rc := range clients {
			d := rc.dts[k.Name]
			d.mu.Lock()
			errs := append([]string{}, d.errs...)
			d.mu.Unlock()
			if len(errs) > 0 {
				c.failf("client %d: the error handler was called during a well-formed history: %v", rc.idx, errs)
			}
		}
		if err := w.checkLogInvariants(); err != nil {
			c.failf("%v", err)
		}
		// every transaction is one unbroken unit of the log
		log, _ := w.storedLog(k.duid)
		for i := 0; i < len(log); i++ {
			if log[i].op.OpType != model.TypeOfOperation_TRANSACTION {
				continue
			}
			var hb txHeader
			_ = jsonUnmarshal(log[i].op.Body, &hb)
			for j := 1; j < int(hb.NumOfOps); j++ {
				if i+j >= len(log) || log[i+j].op.ID.CUID != log[i].op.ID.CUID || log[i+j].op.ID.Seq != log[i].op.ID.Seq+uint64(j) {
					var around []string
					for x := i; x < len(log) && x <= i+int(hb.NumOfOps); x++ {
						around = append(around, fmt.Sprintf("%d=%s/%s", log[x].sseq, opKey(log[x].op), log[x].op.OpType))
					}
					c.failf("the transaction whose header is stored at log position %d announces %d operations, but they do not follow it in the log: %s", i+1, hb.NumOfOps, strings.Join(around, " "))
				}
			}
			i += int(hb.NumOfOps) - 1
		}
		w.clients = nil
		for _, rc := range clients {
			lc := &l1Client{idx: rc.idx, dts: map[string]*l1DT{}}
			for name, d := range rc.dts {
				lc.dts[name] = &l1DT{key: d.key, mode: d.mode, dt: d.dt, entered: true}
			}
			w.clients = append(w.clients, lc)
		}
		if err := w.checkConverged(); err != nil {
			c.failf("after everybody synced: %v", err)
		}
		if err := w.infraProblem(); err != nil {
			c.failf("%v", err)
		}
		col.Case(overlapped == 1, fmt.Sprint(kind, scripts), []string{"kind=" + string(kind), fmt.Sprintf("sync-during-transaction=%v", overlapped == 1)}, func() interface{} {
			return map[string]interface{}{"kind": kind, "steps": []int{len(scripts[0].Steps), len(scripts[1].Steps)}, "log_length": len(log)}
		})
		_ = orda.NewHandlers
	})
}
