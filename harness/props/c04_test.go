package props

import (
	"encoding/json"
	"fmt"
	"strings"
	"testing"

	"github.com/orda-io/orda/client/pkg/model"
	"github.com/orda-io/orda/client/pkg/orda"
	"pgregory.net/rapid"
	"verif/refmodel"
	"verif/sim"
	"verif/stats"
)

// c04State carries the history-wide observations of one case.
type c04State struct {
	tagID  map[string]int      // slot tag -> dense id
	before map[uint64]struct{} // (a<<32|b): a was observed before b somewhere
	elem   map[string]string   // element identity "l:c:d" -> slot tag (from insert operations)
	arrID  string              // identity of the document's top-level playground array
	// per replica: how many Seen operations were already digested, and the expected visible tags
	digested []int
	inserted []map[string]bool
	deleted  []map[string]bool
}

func newC04State() *c04State {
	return &c04State{tagID: map[string]int{}, before: map[uint64]struct{}{}, elem: map[string]string{}}
}

func (s *c04State) id(tag string) int {
	if i, ok := s.tagID[tag]; ok {
		return i
	}
	i := len(s.tagID) + 1
	s.tagID[tag] = i
	return i
}

type tsJSON struct {
	L uint64 `json:"l"`
	C string `json:"c"`
	D uint32 `json:"d"`
}

func (t tsJSON) key() string { return fmt.Sprintf("%d:%s:%d", t.L, t.C, t.D) }

// digest updates the expected-visible sets of replica r from the operations it has seen since
// the last call. Only top-level string elements take part (nested arrays are covered by the
// precedence and model checks).
func (s *c04State) digest(r int, seen []*model.Operation) {
	for len(s.digested) <= r {
		s.digested = append(s.digested, 0)
		s.inserted = append(s.inserted, map[string]bool{})
		s.deleted = append(s.deleted, map[string]bool{})
	}
	for _, op := range seen[s.digested[r]:] {
		switch op.OpType {
		case model.TypeOfOperation_LIST_INSERT, model.TypeOfOperation_DOC_ARR_INS:
			var b struct {
				P *tsJSON
				V []interface{}
			}
			if json.Unmarshal(op.Body, &b) != nil {
				continue
			}
			if op.OpType == model.TypeOfOperation_DOC_ARR_INS && (b.P == nil || b.P.key() != s.arrID) {
				continue // an insert into a nested array
			}
			d := uint32(0)
			for _, v := range b.V {
				id := tsJSON{L: op.ID.Lamport, C: op.ID.CUID, D: d}
				if str, ok := v.(string); ok {
					s.elem[id.key()] = slotTag(str)
					s.inserted[r][slotTag(str)] = true
					d++
				} else {
					// a nested array of tags consumes 1 + len delimiters
					d += uint32(1 + countLeaves(v))
				}
			}
		case model.TypeOfOperation_DOC_OBJ_PUT:
			var b struct{ K string }
			if json.Unmarshal(op.Body, &b) == nil && b.K == "arr" && s.arrID == "" {
				s.arrID = tsJSON{L: op.ID.Lamport, C: op.ID.CUID}.key()
			}
		case model.TypeOfOperation_LIST_DELETE, model.TypeOfOperation_DOC_ARR_DEL:
			var b struct{ T []tsJSON }
			if json.Unmarshal(op.Body, &b) != nil {
				continue
			}
			for _, t := range b.T {
				if tag, ok := s.elem[t.key()]; ok {
					s.deleted[r][tag] = true
				}
			}
		}
	}
	s.digested[r] = len(seen)
}

func countLeaves(v interface{}) int {
	n := 0
	if l, ok := v.([]interface{}); ok {
		for _, e := range l {
			n += 1 + countLeaves(e)
		}
	}
	return n
}

// observeSeq checks uniqueness and the global precedence relation for one observed sequence.
func (s *c04State) observeSeq(who string, seq []interface{}) error {
	var tags []int
	var names []string
	seenHere := map[int]bool{}
	for _, e := range seq {
		str, ok := e.(string)
		if !ok {
			if inner, ok := e.([]interface{}); ok {
				if err := s.observeSeq(who+"/nested", inner); err != nil {
					return err
				}
			}
			continue
		}
		t := slotTag(str)
		id := s.id(t)
		if seenHere[id] {
			return fmt.Errorf("%s: element %q appears twice: %s", who, t, sim.Canon(seq))
		}
		seenHere[id] = true
		tags = append(tags, id)
		names = append(names, t)
	}
	n := len(tags)
	if n > 90 {
		// bound the quadratic part: adjacent pairs plus a strided sample
		for i := 0; i+1 < n; i++ {
			if err := s.pair(who, tags, names, i, i+1, seq); err != nil {
				return err
			}
		}
		for i := 0; i < n; i += 7 {
			for j := i + 1; j < n; j += 5 {
				if err := s.pair(who, tags, names, i, j, seq); err != nil {
					return err
				}
			}
		}
		return nil
	}
	for i := 0; i < n; i++ {
		for j := i + 1; j < n; j++ {
			if err := s.pair(who, tags, names, i, j, seq); err != nil {
				return err
			}
		}
	}
	return nil
}

func (s *c04State) pair(who string, tags []int, names []string, i, j int, seq []interface{}) error {
	a, b := uint64(tags[i]), uint64(tags[j])
	if _, bad := s.before[b<<32|a]; bad {
		return fmt.Errorf("%s: %q is before %q here, but %q was observed before %q earlier in the history (elements reordered): %s",
			who, names[i], names[j], names[j], names[i], sim.Canon(seq))
	}
	s.before[a<<32|b] = struct{}{}
	return nil
}

func c04Sequence(m *l0Machine, r int) ([]interface{}, interface{}, error) {
	dt := m.w.Reps[r].DT
	if m.w.Kind == sim.List {
		j := sim.Normalize(dt.(orda.Datatype).ToJSON())
		l, _ := j.(map[string]interface{})["List"].([]interface{})
		return l, j, nil
	}
	j := sim.Normalize(dt.(orda.Document).GetValue())
	obj, ok := j.(map[string]interface{})
	if !ok {
		return nil, j, fmt.Errorf("document value is not an object: %s", sim.Canon(j))
	}
	l, _ := obj["arr"].([]interface{})
	return l, j, nil
}

func (s *c04State) checkReplica(m *l0Machine, r int) error {
	rep := m.w.Reps[r]
	who := fmt.Sprintf("replica %d", r)
	seq, full, err := c04Sequence(m, r)
	if err != nil {
		return err
	}
	if err := s.observeSeq(who, seq); err != nil {
		return err
	}
	// presence: visible iff insert received and no delete received
	s.digest(r, rep.Seen)
	vis := map[string]bool{}
	for _, e := range seq {
		if str, ok := e.(string); ok {
			vis[slotTag(str)] = true
		}
	}
	arrGone := m.w.Kind == sim.Document && !hasKey(full, "arr")
	if !arrGone {
		for t := range s.inserted[r] {
			if s.deleted[r][t] {
				if vis[t] {
					return fmt.Errorf("%s: element %q is visible although its delete has been received (resurrected): %s", who, t, sim.Canon(seq))
				}
			} else if !vis[t] {
				return fmt.Errorf("%s: element %q is missing although its insert was received and no delete (lost): %s", who, t, sim.Canon(seq))
			}
		}
		for t := range vis {
			if !s.inserted[r][t] {
				return fmt.Errorf("%s: element %q is visible but no insert of it was received (invented): %s", who, t, sim.Canon(seq))
			}
		}
	}
	// model: equals the reference computed from the operations this replica has seen
	st, err := refmodel.Compute(string(m.w.Kind), rep.Seen)
	if err != nil {
		return err
	}
	if len(st.Ignored) > 0 {
		return fmt.Errorf("harness: reference model could not place operations seen by %s: %v", who, st.Ignored)
	}
	if got, want := sim.Canon(full), sim.Canon(st.JSON()); got != want {
		return fmt.Errorf("%s differs from the reference computed from the operations it has seen:\n  got:  %s\n  want: %s", who, got, want)
	}
	return nil
}

func hasKey(j interface{}, k string) bool {
	m, ok := j.(map[string]interface{})
	if !ok {
		return false
	}
	_, ok = m[k]
	return ok
}

// readBack: a local insert at index i is immediately readable at index i.
func c04ReadBack(m *l0Machine, a l0Action, si stepInfo) error {
	if a.K != "local" || len(si.results) != 1 || si.results[0].Err != nil || si.results[0].NavErr != nil {
		return nil
	}
	c := a.Call
	var seq []interface{}
	switch c.M {
	case "Insert", "InsertMany":
		seq, _, _ = c04Sequence(m, a.R)
	case "InsertToArray":
		v := sim.Normalize(m.w.Reps[a.R].DT.(orda.Document).GetValue())
		seq, _ = lookupPath(v, c.Path).([]interface{})
	default:
		return nil
	}
	for i, v := range c.Vals {
		if c.Pos+i >= len(seq) || sim.Canon(seq[c.Pos+i]) != sim.Canon(v.JSON()) {
			return fmt.Errorf("local %s at index %d: value %d not readable at index %d right afterwards: %s", c.M, c.Pos, i, c.Pos+i, sim.Canon(seq))
		}
	}
	return nil
}

func testC04(t *testing.T, kind sim.Kind) {
	col := stats.New("C04", t.Name(),
		"L0 state machine restricted to List / one Document array (plus nested arrays of tags), every inserted value is a unique tag '<slot>#<replica>' and an update keeps the slot part; "+
			"oracle AFTER EVERY STEP on the replica(s) the step touched: no slot twice, local insert readable at its index, a global precedence relation over slots accumulated from every observation of every replica is never contradicted, "+
			"a slot is visible iff its insert was received and no delete of it, and the sequence equals refmodel(ops this replica has seen); "+
			"non-trivial = >=1 pair of concurrent inserts with the same anchor from different replicas AND >=1 delete delivered to a replica that did not issue it; distinct = hash of the action sequence")
	checkProp(t, "C04", col, func(c *caseCtx) {
		cfg := drawL0Config(c.rt, kind)
		cfg.Tagged = true
		cfg.Nested = false
		cfg.WideFirst, cfg.SoloRun = false, 0
		cfg.Conflict = rapid.Bool().Draw(c.rt, "conflictbias")
		cfg.ArrayOnly = kind == sim.Document
		cfg.MaxReplicas = 4
		st := newC04State()
		perStep := func(m *l0Machine, a l0Action, si stepInfo) error {
			if err := c04ReadBack(m, a, si); err != nil {
				return err
			}
			switch a.K {
			case "local", "tx", "finish":
				return st.checkReplica(m, a.R)
			case "quiesce", "join":
				for r := range m.w.Reps {
					if err := st.checkReplica(m, r); err != nil {
						return err
					}
				}
			}
			return nil
		}
		m, actions := runL0(c, cfg, maxStepsL0(), perStep, func(m *l0Machine) error {
			for r := range m.w.Reps {
				if err := st.checkReplica(m, r); err != nil {
					return err
				}
			}
			return m.converged()
		})
		sameAnchor, remoteDeletes := c04Conflicts(m)
		if sameAnchor > 0 {
			m.labels["concurrent-same-anchor-inserts"] = true
		}
		if remoteDeletes > 0 {
			m.labels["remote-delete"] = true
		}
		labels := append(m.labelList(), "kind="+string(kind))
		col.Case(sameAnchor > 0 && remoteDeletes > 0, m.canonical(actions), labels, func() interface{} {
			return map[string]interface{}{"config": cfg, "actions": fmt.Sprint(actions), "concurrent_same_anchor_insert_pairs": sameAnchor,
				"deletes_in_log": remoteDeletes, "distinct_slots": len(st.tagID), "precedence_pairs": len(st.before)}
		})
	})
}

// c04Conflicts counts concurrent insert pairs with the same anchor (different replicas) and the
// delete operations in the log (each is delivered to every other replica).
func c04Conflicts(m *l0Machine) (sameAnchor, deletes int) {
	isIns := func(o *opInfo) bool {
		return o.op.OpType == model.TypeOfOperation_LIST_INSERT || o.op.OpType == model.TypeOfOperation_DOC_ARR_INS
	}
	anchor := func(o *opInfo) string {
		for _, t := range o.touches {
			if strings.Contains(t, "/T") {
				return t
			}
		}
		return ""
	}
	for i, a := range m.ops {
		if a.op.OpType == model.TypeOfOperation_LIST_DELETE || a.op.OpType == model.TypeOfOperation_DOC_ARR_DEL {
			if a.li >= 0 {
				deletes++
			}
		}
		if !isIns(a) || a.li < 0 {
			continue
		}
		for _, b := range m.ops[i+1:] {
			if !isIns(b) || b.li < 0 || a.owner == b.owner {
				continue
			}
			if a.li >= b.dp && b.li >= a.dp && anchor(a) != "" && anchor(a) == anchor(b) {
				sameAnchor++
			}
		}
	}
	return
}

func TestC04List(t *testing.T)     { testC04(t, sim.List) }
func TestC04Document(t *testing.T) { testC04(t, sim.Document) }
