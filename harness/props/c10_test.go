package props

import (
	"encoding/json"
	"fmt"
	"sort"
	"testing"

	"github.com/orda-io/orda/client/pkg/errors"
	"github.com/orda-io/orda/client/pkg/iface"
	"github.com/orda-io/orda/client/pkg/model"
	"pgregory.net/rapid"
	"verif/sim"
	"verif/stats"
)

// canonSnapshot renders an exported snapshot with its unordered parts sorted (the document node
// table is marshalled from a Go map).
func canonSnapshot(kind sim.Kind, snap []byte) string {
	var v interface{}
	if err := json.Unmarshal(snap, &v); err != nil {
		return "!unparsable:" + string(snap)
	}
	if kind == sim.Document {
		if m, ok := v.(map[string]interface{}); ok {
			if nm, ok := m["nm"].([]interface{}); ok {
				sort.SliceStable(nm, func(i, j int) bool {
					return sim.Canon(nm[i].(map[string]interface{})["c"]) < sim.Canon(nm[j].(map[string]interface{})["c"])
				})
			}
		}
	}
	return sim.Canon(v)
}

type c10Twin struct {
	r         int
	dt        iface.Datatype
	exportLen int // number of operations the original had emitted at export time
	seenLen   int // length of the original's Seen that has been mirrored
	step      int
}

func opSig(op *model.Operation) string {
	return fmt.Sprintf("%s|%d:%d:%s:%d|%s", op.OpType, op.ID.Era, op.ID.Lamport, op.ID.CUID, op.ID.Seq, op.Body)
}

func testC10(t *testing.T, kind sim.Kind) {
	col := stats.New("C10", t.Name(),
		"L0 history prefix; at a drawn step one replica exports (GetMetaAndSnapshot), a fresh instance imports (SetMetaAndSnapshot); the history then CONTINUES and every local call / transaction of that replica is executed on both, "+
			"every delivery of remote operations goes to both; oracle: equal readable state right after import and after every continuation step, equal call results, identical operations emitted after the export (ids, types, bodies), "+
			"export(import(export)) == export, and the final re-export of the copy equals the final export of the original (document node table sorted); "+
			"non-trivial = the exported replica had applied >=1 delete/remove (tombstone) or array update before the export AND >=1 remote operation that had been issued before the export was delivered after it; distinct = hash of the action sequence")
	checkProp(t, "C10", col, func(c *caseCtx) {
		cfg := drawL0Config(c.rt, kind)
		cfg.MaxReplicas = 4
		exportAt := rapid.IntRange(0, maxStepsL0()/2).Draw(c.rt, "export_at")
		who := rapid.IntRange(0, cfg.Replicas-1).Draw(c.rt, "export_replica")
		if cfg.WideFirst && rapid.Bool().Draw(c.rt, "export_after_solo") {
			// export the replica whose clock walked without gaps, after the walk
			who = 0
			if exportAt < cfg.Replicas+cfg.SoloRun {
				exportAt = cfg.Replicas + cfg.SoloRun
			}
		}
		var tw *c10Twin
		tombBefore, staleAfter := false, 0
		c.j.Header = map[string]interface{}{"config": cfg, "export_at": exportAt, "export_replica": who}
		mirror := func(m *l0Machine, a l0Action, si stepInfo) error {
			if tw == nil {
				if m.steps-1 < exportAt {
					return nil
				}
				// export now
				rep := m.w.Reps[who]
				meta, snap, err := rep.DT.GetMetaAndSnapshot()
				if err != nil {
					return fmt.Errorf("export failed: %v", err)
				}
				_, fresh := m.w.NewInstance("twin", false)
				if err := fresh.SetMetaAndSnapshot(meta, snap); err != nil {
					return fmt.Errorf("import of an exported snapshot failed: %v (snapshot %s)", err, snap)
				}
				// the restored instance continues the original's numbering; tell its wire layer that
				// everything up to the exported sequence number is already pushed, so that
				// CreatePushPullPack() lists exactly the operations emitted after the export
				var mm struct {
					OpID struct {
						S uint64 `json:"s"`
					} `json:"opID"`
				}
				_ = json.Unmarshal(meta, &mm)
				fresh.SetCheckPoint(0, mm.OpID.S)
				if isOpen("S24") {
					// known finding S24: SetMetaAndSnapshot does not move the rollback point, so the first
					// failed transaction of a restored instance rolls it back to the empty initial state.
					// Excluded by construction here (the harness moves the rollback point itself) so that
					// the search continues behind it; TestC10KnownS24 re-demonstrates it every run.
					if rt, ok := fresh.(interface{ ResetTransaction() errors.OrdaError }); ok {
						_ = rt.ResetTransaction()
						col.Excluded("S24: rollback point of the restored instance moved by the harness")
					}
				}
				tw = &c10Twin{r: who, dt: fresh, exportLen: len(rep.Emitted), seenLen: len(rep.Seen), step: m.steps}
				for _, op := range rep.Seen {
					switch op.OpType {
					case model.TypeOfOperation_MAP_REMOVE, model.TypeOfOperation_LIST_DELETE, model.TypeOfOperation_LIST_UPDATE,
						model.TypeOfOperation_DOC_OBJ_RMV, model.TypeOfOperation_DOC_ARR_DEL, model.TypeOfOperation_DOC_ARR_UPD:
						tombBefore = true
					}
				}
				a, b := sim.Observe(kind, rep.DT, m.keys()), sim.Observe(kind, fresh, m.keys())
				if a != b {
					return fmt.Errorf("restored instance differs from the original right after import:\n  original: %s\n  restored: %s\n  snapshot: %s", a, b, snap)
				}
				meta2, snap2, err := fresh.GetMetaAndSnapshot()
				if err != nil {
					return fmt.Errorf("re-export failed: %v", err)
				}
				if string(meta) != string(meta2) {
					return fmt.Errorf("export -> import -> export changed the meta: %s -> %s", meta, meta2)
				}
				if x, y := canonSnapshot(kind, snap), canonSnapshot(kind, snap2); x != y {
					return fmt.Errorf("export -> import -> export is not a fixpoint:\n  first:  %s\n  second: %s", x, y)
				}
				return nil
			}
			rep := m.w.Reps[tw.r]
			// mirror the step onto the restored instance
			switch {
			case (a.K == "local" || a.K == "tx") && a.R == tw.r:
				if a.K == "local" {
					res := sim.Exec(kind, tw.dt, *a.Call)
					if res.String() != si.results[0].String() {
						return fmt.Errorf("call %s: original returned %s, restored instance returned %s", a.Call, si.results[0], res)
					}
				} else {
					rs, txErr, pan := sim.ExecTx(kind, tw.dt, *a.Tx)
					if pan != nil {
						return fmt.Errorf("transaction on the restored instance panicked: %v", pan)
					}
					if (txErr == nil) != (si.txErr == nil) || len(rs) != len(si.results) {
						return fmt.Errorf("transaction: original err=%v (%d results), restored err=%v (%d results)", si.txErr, len(si.results), txErr, len(rs))
					}
					for i := range rs {
						if rs[i].String() != si.results[i].String() {
							return fmt.Errorf("transaction call %d: original %s, restored %s", i, si.results[i], rs[i])
						}
					}
				}
				tw.seenLen = len(rep.Seen)
			default:
				if len(rep.Seen) > tw.seenLen {
					var ops []*model.Operation
					for _, op := range rep.Seen[tw.seenLen:] {
						if op.ID.CUID == rep.CUID {
							return fmt.Errorf("harness: own operation appeared in Seen outside a local step")
						}
						ops = append(ops, cloneOps([]*model.Operation{op}, 0)...)
						if oi := m.byID[opKey(op)]; oi != nil && oi.step <= tw.step {
							staleAfter++
						}
					}
					tw.seenLen = len(rep.Seen)
					var derr error
					var pan interface{}
					func() {
						defer func() { pan = recover() }()
						if _, e := tw.dt.ReceiveRemoteModelOperations(ops, true); e != nil {
							derr = e
						}
					}()
					if pan != nil || derr != nil {
						return fmt.Errorf("restored instance failed on a delivery the original accepted: err=%v panic=%v", derr, pan)
					}
				}
			}
			x, y := sim.Observe(kind, rep.DT, m.keys()), sim.Observe(kind, tw.dt, m.keys())
			if x != y {
				return fmt.Errorf("restored instance diverged from the original:\n  original: %s\n  restored: %s", x, y)
			}
			got := tw.dt.CreatePushPullPack().Operations
			want := rep.Emitted[tw.exportLen:]
			if len(got) != len(want) {
				return fmt.Errorf("restored instance emitted %d operations after the export, the original %d", len(got), len(want))
			}
			for i := range got {
				if opSig(got[i]) != opSig(want[i]) {
					return fmt.Errorf("operation %d emitted after the export differs:\n  original: %s\n  restored: %s", i, opSig(want[i]), opSig(got[i]))
				}
			}
			return nil
		}
		l0MinSteps = exportAt + 8 // the history reaches the export and goes on for a while
		m, actions := runL0(c, cfg, maxStepsL0(), mirror, func(m *l0Machine) error { return nil })
		if tw != nil {
			// the final quiesce of runL0 is not seen by perStep: mirror it
			if err := mirror(m, l0Action{K: "quiesce"}, stepInfo{quiesce: true}); err != nil {
				c.failf("after the final quiesce: %v", err)
			}
			rep := m.w.Reps[tw.r]
			m1, s1, e1 := rep.DT.GetMetaAndSnapshot()
			m2, s2, e2 := tw.dt.GetMetaAndSnapshot()
			if e1 != nil || e2 != nil {
				c.failf("final export failed: %v %v", e1, e2)
			}
			if string(m1) != string(m2) {
				c.failf("final meta differs: original %s restored %s", m1, m2)
			}
			if x, y := canonSnapshot(kind, s1), canonSnapshot(kind, s2); x != y {
				c.failf("final export of the restored instance is not equivalent to the original's:\n  original: %s\n  restored: %s", x, y)
			}
		}
		if tombBefore {
			m.labels["tombstone-or-update-before-export"] = true
		}
		if staleAfter > 0 {
			m.labels["pre-export-remote-op-delivered-after"] = true
		}
		if tw == nil {
			m.labels["no-export-reached"] = true
		}
		labels := append(m.labelList(), "kind="+string(kind))
		col.Case(tw != nil && tombBefore && staleAfter > 0, m.canonical(actions)+fmt.Sprint(exportAt, who), labels, func() interface{} {
			return map[string]interface{}{"config": cfg, "export_at": exportAt, "export_replica": who, "actions": fmt.Sprint(actions), "stale_remote_ops_after_export": staleAfter}
		})
	})
}

func TestC10Counter(t *testing.T)  { testC10(t, sim.Counter) }
func TestC10Map(t *testing.T)      { testC10(t, sim.Map) }
func TestC10List(t *testing.T)     { testC10(t, sim.List) }
func TestC10Document(t *testing.T) { testC10(t, sim.Document) }

// TestC10KnownS24 is the minimal probe of known finding S24.
func TestC10KnownS24(t *testing.T) {
	col := stats.New("C10", t.Name(), "minimal probe of known finding S24 (restored instance + failed transaction)")
	defer col.Flush()
	sim.SeedIDs(24)
	w := sim.NewWorld(sim.Counter, 1, 1)
	w.Call(0, sim.Call{M: "IncreaseBy", Vals: []sim.Val{sim.I(5)}})
	meta, snap, _ := w.Reps[0].DT.GetMetaAndSnapshot()
	_, fresh := w.NewInstance("twin", false)
	if err := fresh.SetMetaAndSnapshot(meta, snap); err != nil {
		t.Fatalf("import failed: %v", err)
	}
	tx := sim.Tx{Tag: "t", FailAt: 0}
	sim.ExecTx(sim.Counter, w.Reps[0].DT, tx)
	sim.ExecTx(sim.Counter, fresh, tx)
	a, b := sim.Observe(sim.Counter, w.Reps[0].DT, nil), sim.Observe(sim.Counter, fresh, nil)
	reproduced := a != b
	col.Bulk(1, 0)
	switch {
	case reproduced && isOpen("S24"):
		reportKnown(col, "C10", "S24", "after import + a failed transaction the restored Counter reads "+b.JSON+" while the original reads "+a.JSON+" (SetMetaAndSnapshot does not move the rollback point)")
	case reproduced:
		j := &Journal{Property: "C10", Test: t.Name(), Header: "counter: IncreaseBy(5); export; import; failing transaction on both", Actions: []interface{}{a.String(), b.String()}}
		enumFail(t, "C10", j, "restored instance loses its imported state on the first failed transaction: original %s restored %s", a, b)
	case isOpen("S24"):
		col.Note("known finding S24 no longer reproduces")
	}
}
