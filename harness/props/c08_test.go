package props

import (
	"fmt"
	"strings"
	"testing"
	"time"

	"github.com/orda-io/orda/client/pkg/iface"
	"github.com/orda-io/orda/client/pkg/model"
	"github.com/orda-io/orda/client/pkg/orda"
	"verif/cluster"
	"verif/fakemongo"
	"verif/sim"
	"verif/stats"
)

// c08Scenarios: small request sequences whose every database command gets a fault in turn.
func c08Scenarios() []c07Scenario {
	var out []c07Scenario
	for _, kind := range []sim.Kind{sim.Counter, sim.List, sim.Document} {
		n := 0
		op := func(c int) c07Step { n++; return c07Step{K: "op", C: c, Call: c06CheapCall(kind, n)} }
		x := func(c int) c07Step { return c07Step{K: "x", C: c} }
		out = append(out, c07Scenario{Name: fmt.Sprintf("%s/create-subscribe-mix", kind), Kind: kind, Steps: []c07Step{
			{K: "client", C: 0}, {K: "open", C: 0, Mode: "create"}, op(0), op(0), x(0),
			{K: "client", C: 1}, {K: "open", C: 1, Mode: "subscribe"}, x(1),
			op(1), x(1), op(0), x(0), x(1),
		}})
		n = 0
		out = append(out, c07Scenario{Name: fmt.Sprintf("%s/subscribe-or-create-twice", kind), Kind: kind, Steps: []c07Step{
			{K: "client", C: 0}, {K: "open", C: 0, Mode: "subscribe-or-create"}, op(0), x(0),
			{K: "client", C: 1}, {K: "open", C: 1, Mode: "subscribe-or-create"}, x(1),
			op(1), op(1), x(1), x(0), op(0), x(0), x(1),
		}})
	}
	return out
}

type c08Fault struct {
	K    int    `json:"k"`    // command number (1-based, counted from the first scenario step)
	Mode string `json:"mode"` // fail-before | apply-then-error | stop-after
}

type c08Result struct {
	err       error
	commands  int
	faultedNS string
	faultedOn string // verb of the faulted command
	sawError  bool   // some client request was refused / failed because of the fault
	writeHit  bool
	// afterOpsInsert: the faulted command directly follows an insert into -_-Operations on the same connection flow
	afterOpsInsert bool
}

// c08Run executes a scenario with at most one storage fault, then recovers and checks.
func c08Run(sc c07Scenario, f *c08Fault, idseed uint64) (res c08Result) {
	w, err := newL1World(idseed, []sim.Kind{sc.Kind})
	if err != nil {
		res.err = fmt.Errorf("HARNESS-ERROR: %v", err)
		return res
	}
	defer w.close()
	k := w.keys[0]
	w.env.Mongo.ResetLog()
	stopped := false
	if f != nil {
		switch f.Mode {
		case "stop-after":
			w.env.Mongo.StopAfter(f.K)
		default:
			mode := fakemongo.FailBefore
			if f.Mode == "apply-then-error" {
				mode = fakemongo.ApplyThenError
			}
			w.env.Mongo.SetFaultHook(func(c *fakemongo.Cmd) fakemongo.Fault {
				if c.Seq == f.K {
					return mode
				}
				return fakemongo.None
			})
		}
	}
	defer func() {
		if f == nil {
			return
		}
		log := w.env.Mongo.CommandLog()
		for i, r := range log {
			if r.Seq == f.K {
				res.faultedNS, res.faultedOn = r.NS, r.Verb
				res.writeHit = r.Verb == "insert" || r.Verb == "update" || r.Verb == "findAndModify" || r.Verb == "delete"
				for j := i - 1; j >= 0 && j >= i-2; j-- {
					if log[j].Verb == "insert" && strings.HasSuffix(log[j].NS, ".-_-Operations") {
						res.afterOpsInsert = true
					}
				}
			}
		}
	}()
	pending := map[int]*cluster.PackClient{}
	healIfStopped := func() error {
		if f != nil && f.Mode == "stop-after" && !stopped && w.env.Mongo.CommandCount() >= f.K {
			// the database (and with it the server process) died: restart against the same data
			stopped = true
			w.env.WaitBackground(3 * time.Second)
			if err := w.env.RestartService(); err != nil {
				return fmt.Errorf("HARNESS-ERROR: restart failed: %v", err)
			}
		}
		return nil
	}
	noteFail := func(ex *exchange, c *l1Client) error {
		if ex.timedOut {
			return fmt.Errorf("client %d: the server did not answer within %v after a storage fault (hang)", c.idx, l1Deadline)
		}
		if ex.rpcErr != nil || len(ex.errPacks) > 0 {
			res.sawError = true
		}
		return nil
	}
	for si, st := range sc.Steps {
		if err := healIfStopped(); err != nil {
			res.err = err
			return res
		}
		switch st.K {
		case "client":
			pc := w.env.NewUnregisteredPackClient(w.col, fmt.Sprintf("c%d", len(w.clients)))
			c := &l1Client{idx: len(w.clients), pc: pc, dts: map[string]*l1DT{}}
			w.clients = append(w.clients, c)
			knownCUIDs[pc.CUID()] = true
			pending[c.idx] = pc
		case "open":
			w.open(w.clients[st.C], k, st.Mode)
		case "op":
			c := w.clients[st.C]
			d := c.dts[k.Name]
			if d.entered || d.mode == "create" {
				sim.Exec(sc.Kind, d.dt, st.Call)
			}
		case "x":
			c := w.clients[st.C]
			if !c.pc.Registered() {
				if err := c.pc.Register(l1Deadline); err != nil {
					res.sawError = true
					if err == cluster.ErrTimeout {
						res.err = fmt.Errorf("step %d: client registration was never answered after a storage fault (hang)", si)
						return res
					}
					continue
				}
			}
			d := c.dts[k.Name]
			req := c.pc.BuildRequest(d.dt)
			before := sim.Observe(sc.Kind, d.dt, nil)
			ex := w.send(c, req)
			if err := noteFail(ex, c); err != nil {
				res.err = fmt.Errorf("step %d: %v", si, err)
				return res
			}
			w.apply(c, ex)
			if ex.applyErr != nil {
				res.err = fmt.Errorf("step %d: client %d failed to handle the server's answer: %v", si, c.idx, ex.applyErr)
				return res
			}
			if len(ex.errPacks) > 0 {
				// the error handler runs on its own goroutine: wait for the event itself
				for dl := time.Now().Add(5 * time.Second); time.Now().Before(dl); time.Sleep(100 * time.Microsecond) {
					d.mu.Lock()
					n := len(d.errEvents)
					d.mu.Unlock()
					if n > 0 {
						break
					}
				}
				if after := sim.Observe(sc.Kind, d.dt, nil); after != before {
					res.err = fmt.Errorf("step %d: an error response changed the state of client %d: %s -> %s", si, c.idx, before, after)
					return res
				}
				d.mu.Lock()
				ne := len(d.errEvents)
				d.mu.Unlock()
				if ne == 0 {
					res.err = fmt.Errorf("step %d: client %d received an error response but its error handler was not called", si, c.idx)
					return res
				}
			}
		}
	}
	if err := healIfStopped(); err != nil {
		res.err = err
		return res
	}
	w.env.WaitBackground(3 * time.Second)
	res.commands = w.env.Mongo.CommandCount()
	// healthy again
	w.env.Mongo.SetFaultHook(nil)
	w.env.Mongo.Resume()
	// acknowledged operations must be stored
	for _, c := range w.clients {
		d := c.dts[k.Name]
		if d == nil || !d.entered || k.duid == "" {
			continue
		}
		pack := d.dt.CreatePushPullPack()
		acked := pack.CheckPoint.Cseq - uint64(len(pack.Operations))
		log, _ := w.storedLog(k.duid)
		have := map[uint64]bool{}
		for _, so := range log {
			if so.op.ID.CUID == c.pc.CUID() {
				have[so.op.ID.Seq] = true
			}
		}
		for s := uint64(1); s <= acked; s++ {
			if !have[s] {
				res.err = fmt.Errorf("client %d was acknowledged up to its operation %d but operation %d is not stored", c.idx, acked, s)
				return res
			}
		}
	}
	// retries: every client syncs again (bounded), everything must succeed now
	for round := 0; round < 5; round++ {
		for _, c := range w.clients {
			if !c.pc.Registered() {
				if err := c.pc.Register(l1Deadline); err != nil {
					res.err = fmt.Errorf("retry round %d: registering client %d against the healthy store failed: %v", round, c.idx, err)
					return res
				}
			}
			d := c.dts[k.Name]
			if d == nil {
				continue
			}
			ex := w.syncClient(c)
			if ex == nil {
				continue
			}
			if round >= 1 {
				if err := exchangeProblem(c, ex); err != nil {
					res.err = fmt.Errorf("retry round %d against the healthy store still fails: %v", round, err)
					return res
				}
			} else if ex.timedOut {
				res.err = fmt.Errorf("retry round %d: no answer", round)
				return res
			} else if ex.applyErr != nil {
				res.err = fmt.Errorf("retry round %d: client failed to handle the answer: %v", round, ex.applyErr)
				return res
			}
		}
	}
	waitHandlers()
	w.env.WaitBackground(3 * time.Second)
	if err := w.checkLogInvariants(); err != nil {
		res.err = fmt.Errorf("after recovery: %v", err)
		return res
	}
	if k.duid != "" {
		k.created = true
	}
	for _, c := range w.clients {
		if d := c.dts[k.Name]; d != nil {
			if n := len(d.dt.CreatePushPullPack().Operations); n > 0 {
				res.err = fmt.Errorf("after recovery client %d still has %d unpushed operations", c.idx, n)
				return res
			}
		}
	}
	if err := w.checkConverged(); err != nil {
		res.err = fmt.Errorf("after recovery: %v", err)
		return res
	}
	if u := w.env.Mongo.UnknownCommands(); len(u) > 0 {
		res.err = fmt.Errorf("HARNESS-ERROR: unknown commands %v", u)
	}
	return res
}

func TestC08Enum(t *testing.T) {
	col := stats.New("C08", t.Name(),
		"EXHAUSTIVE single-fault enumeration over database commands: each fixed scenario (Counter / List / Document; create + subscribe + push/pull mix; subscribe-or-create twice) is first run fault-free to number every MongoDB command it causes (client registration, push-pull, the post-response snapshot goroutine); "+
			"then for EVERY command number k and each mode of {fail before applying, apply then report an error, last command before the database/server dies + restart (quick: every 3rd k; thorough: every k)} the scenario is re-run with that one fault, followed by up to 5 retry rounds against the healthy store; "+
			"oracle: every call is answered in time (no hang, no crash of the process), an error response reaches the client's error handler without panic or state change, every acknowledged operation is stored, after recovery the log invariants hold, nothing is left unpushed, retries succeed, and all clients = server rebuild = refmodel(log); "+
			"non-trivial = the faulted command was a write; distinct = (scenario, k, mode)")
	defer col.Flush()
	shard, nshards := envInt("VERIF_SHARD", 0), envInt("VERIF_NSHARDS", 1)
	stopStride := 3
	if thorough() {
		stopStride = 1
	}
	idx := 0
	complete := true
	matrix := map[string]int{}
	for si, sc := range c08Scenarios() {
		base := c08Run(sc, nil, uint64(500+si))
		if base.err != nil {
			j := &Journal{Property: "C08", Test: t.Name(), Header: map[string]interface{}{"scenario": sc, "fault": nil}}
			col.Flush()
			if strings.Contains(base.err.Error(), "HARNESS-ERROR") {
				fmt.Printf("HARNESS-ERROR: %v\n", base.err)
				t.Fatalf("%v", base.err)
			}
			enumFail(t, "C08", j, "scenario %s fails without any fault: %v", sc.Name, base.err)
		}
		for k := 1; k <= base.commands; k++ {
			for _, mode := range []string{"fail-before", "apply-then-error", "stop-after"} {
				if mode == "stop-after" && k%stopStride != 0 {
					complete = false
					continue
				}
				idx++
				if idx%nshards != shard {
					continue
				}
				f := &c08Fault{K: k, Mode: mode}
				r := c08Run(sc, f, uint64(500+si))
				canon := fmt.Sprintf("%s|%d|%s", sc.Name, k, mode)
				matrix[fmt.Sprintf("%s %s x %s", r.faultedOn, strings.TrimPrefix(r.faultedNS[strings.Index(r.faultedNS, ".")+1:], "-_-"), mode)]++
				if r.err != nil {
					if strings.Contains(r.err.Error(), "HARNESS-ERROR") {
						fmt.Printf("HARNESS-ERROR: %v\n", r.err)
						t.Fatalf("%v", r.err)
					}
					if id := c08Classify(r, f); id != "" {
						reportKnown(col, "C08", id, c08KnownText[id])
						col.Case(true, canon, []string{"known=" + id}, nil)
						continue
					}
					j := &Journal{Property: "C08", Test: t.Name(), Header: map[string]interface{}{"scenario": sc, "fault": f, "faulted_command": r.faultedOn + " " + r.faultedNS}}
					col.Flush()
					enumFail(t, "C08", j, "scenario %s, fault %s at command %d (%s %s): %v", sc.Name, mode, k, r.faultedOn, r.faultedNS, r.err)
				}
				labels := []string{"mode=" + mode, "scenario=" + sc.Name}
				if r.sawError {
					labels = append(labels, "client-saw-error")
				}
				col.Case(r.writeHit, canon, labels, func() interface{} {
					return map[string]interface{}{"scenario": sc.Name, "k": k, "mode": mode, "faulted_command": r.faultedOn + " " + r.faultedNS}
				})
			}
		}
	}
	col.Extra("command_kind_x_mode", matrix)
	col.Extra("stop_after_stride", stopStride)
	col.SetExhaustive(complete)
}

var c08KnownText = map[string]string{
	"S15": "the operations of a push are inserted but the datatype document that records the new end of the log is not (the insert is applied and then reported as failed, the following update fails, or the server dies in between): the stored operations lie beyond the recorded end, and every retry collides with them on _id duid:sseq (duplicate key) forever",
}

// c08Classify recognises known finding S15 by its fault pattern: the fault hit the insert into
// -_-Operations after it was applied, or the update of -_-Datatypes that directly follows an
// applied insert of the same request, and what fails is the retry / the end-of-log invariant.
func c08Classify(r c08Result, f *c08Fault) string {
	if !isOpen("S15") || r.err == nil {
		return ""
	}
	msg := r.err.Error()
	symptom := strings.Contains(msg, "still fails") || strings.Contains(msg, "recorded end of the log") || strings.Contains(msg, "unpushed operations") ||
		strings.Contains(msg, "is not stored") || strings.Contains(msg, "was never pushed") || strings.Contains(msg, "is stored twice") || strings.Contains(msg, "differs from the state defined by the stored log")
	opsInsert := r.faultedOn == "insert" && strings.HasSuffix(r.faultedNS, ".-_-Operations") && f.Mode != "fail-before"
	docUpdate := r.faultedOn == "update" && strings.HasSuffix(r.faultedNS, ".-_-Datatypes") && r.afterOpsInsert && f.Mode != "apply-then-error"
	if symptom && (opsInsert || docUpdate) {
		return "S15"
	}
	return ""
}

var _ = iface.Datatype(nil)
var _ = model.CheckPoint{}
var _ = orda.NewHandlers
