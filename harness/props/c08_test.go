package props

import (
	"encoding/json"
	"fmt"
	"sort"
	"strings"
	"testing"
	"time"

	"github.com/orda-io/orda/client/pkg/iface"
	"github.com/orda-io/orda/client/pkg/model"
	"github.com/orda-io/orda/client/pkg/orda"
	"pgregory.net/rapid"
	"verif/cluster"
	"verif/fakemongo"
	"verif/refmodel"
	"verif/sim"
	"verif/stats"
)

// c08Scenarios: small request sequences whose every database command gets a fault in turn.
func c08Scenarios() []c07Scenario {
	var out []c07Scenario
	for _, kind := range []sim.Kind{sim.Counter, sim.List, sim.Document} {
		n := 0
		op := func(c int) c07Step { n++; return c07Step{K: "op", C: c, Call: c06CheapCall(kind, n)} }
		x := func(c int) c07Step { return c07Step{K: "x", C: c} }
		out = append(out, c07Scenario{Name: fmt.Sprintf("%s/create-subscribe-mix", kind), Kind: kind, Steps: []c07Step{
			{K: "client", C: 0}, {K: "open", C: 0, Mode: "create"}, op(0), op(0), x(0),
			{K: "client", C: 1}, {K: "open", C: 1, Mode: "subscribe"}, x(1),
			op(1), x(1), op(0), x(0), x(1),
		}})
		n = 0
		out = append(out, c07Scenario{Name: fmt.Sprintf("%s/subscribe-or-create-twice", kind), Kind: kind, Steps: []c07Step{
			{K: "client", C: 0}, {K: "open", C: 0, Mode: "subscribe-or-create"}, op(0), x(0),
			{K: "client", C: 1}, {K: "open", C: 1, Mode: "subscribe-or-create"}, x(1),
			op(1), op(1), x(1), x(0), op(0), x(0), x(1),
		}})
		if kind == sim.Document {
			// the REST patch endpoint: rebuilds the document from the store, pushes its patches as one transaction,
			// answers with the patched document; its caller is a client like any other
			n = 0
			out = append(out, c07Scenario{Name: "document/rest-patch", Kind: kind, Steps: []c07Step{
				{K: "client", C: 0}, {K: "open", C: 0, Mode: "subscribe-or-create"}, op(0), x(0),
				{K: "patch", Mode: `{"b1":1,"p":"x","q":[1,2]}`}, x(0), op(0), x(0),
				{K: "patch", Mode: `{"b1":1,"q":[2],"r":{"s":true}}`}, x(0), x(0),
			}})
		}
		if kind != sim.Document {
			// a push that carries a transaction of the user between plain operations (4 stored documents: marker, two
			// operations, one plain operation): an insert that is interrupted keeps what it has written so far
			n = 0
			tx := &sim.Tx{Tag: "t", FailAt: -1, Calls: []sim.Call{c06CheapCall(kind, 100), c06CheapCall(kind, 101)}}
			out = append(out, c07Scenario{Name: fmt.Sprintf("%s/transaction", kind), Kind: kind, Steps: []c07Step{
				{K: "client", C: 0}, {K: "open", C: 0, Mode: "create"}, op(0), x(0),
				{K: "client", C: 1}, {K: "open", C: 1, Mode: "subscribe"}, x(1),
				{K: "tx", C: 0, Tx: tx}, op(0), x(0), x(1), op(1), x(1), x(0), x(1),
			}})
		}
		if kind != sim.Document {
			// pushes of different sizes right after each other: what a push that collides with operations left
			// behind by an interrupted one stores (all of it or nothing) shows only when it is the longer one
			n = 0
			out = append(out, c07Scenario{Name: fmt.Sprintf("%s/bursts", kind), Kind: kind, Steps: []c07Step{
				{K: "client", C: 0}, {K: "open", C: 0, Mode: "create"}, op(0), x(0),
				{K: "client", C: 1}, {K: "open", C: 1, Mode: "subscribe"}, x(1),
				op(0), x(0), op(1), op(1), op(1), x(1), op(0), op(0), op(0), x(0), op(1), x(1), x(0), x(1),
			}})
		}
	}
	return out
}

type c08Fault struct {
	K    int    `json:"k"`             // command number (1-based, counted from the first scenario step)
	Mode string `json:"mode"`          // fail-before | apply-then-error | stop-after | part-then-error | part-then-stop
	Len  int    `json:"len,omitempty"` // outage: commands K..K+Len-1 fail (0 = 1; not for stop-after)
	// Part: part-then-error / part-then-stop hit an insert of more than Part documents: its first Part documents
	// are stored, then the command fails / the server dies
	Part int `json:"part,omitempty"`
}

func (f *c08Fault) stops() bool { return f.Mode == "stop-after" || f.Mode == "part-then-stop" }

func (f *c08Fault) hits(seq int) bool {
	n := f.Len
	if n < 1 {
		n = 1
	}
	return seq >= f.K && seq < f.K+n
}

type c08Result struct {
	err       error
	commands  int
	faultedNS string
	faultedOn string // verb of the faulted command
	sawError  bool   // some client request was refused / failed because of the fault
	writeHit  bool
	// afterOpsInsert: the faulted command directly follows an insert into -_-Operations on the same connection flow
	afterOpsInsert bool
	// s15Pattern: some faulted command is an applied-then-failed insert into -_-Operations, or the
	// not-applied update of -_-Datatypes that directly follows an applied insert of the same request
	s15Pattern bool
	patched    bool
	writeSeqs  []int    // command numbers of the writes (fault-free runs)
	context    []string // the commands around the fault (for the journal)
	// insertDocs (fault-free run only): command number -> number of documents, for inserts of >= 2 documents
	insertDocs map[int]int
}

// c08Run executes a scenario with at most one storage fault, then recovers and checks.
func c08Run(sc c07Scenario, f *c08Fault, idseed uint64) (res c08Result) {
	w, err := newL1World(idseed, []sim.Kind{sc.Kind})
	if err != nil {
		res.err = fmt.Errorf("HARNESS-ERROR: %v", err)
		return res
	}
	defer w.close()
	k := w.keys[0]
	w.env.Mongo.ResetLog()
	stopped := false
	if f != nil {
		switch f.Mode {
		case "stop-after":
			w.env.Mongo.StopAfter(f.K)
		case "part-then-error", "part-then-stop":
			mode := fakemongo.ApplyPartThenError
			if f.Mode == "part-then-stop" {
				mode = fakemongo.ApplyPartThenStop
			}
			w.env.Mongo.SetPartialDocs(f.Part)
			w.env.Mongo.SetFaultHook(func(c *fakemongo.Cmd) fakemongo.Fault {
				if c.Seq == f.K {
					return mode
				}
				return fakemongo.None
			})
		default:
			mode := fakemongo.FailBefore
			if f.Mode == "apply-then-error" {
				mode = fakemongo.ApplyThenError
			}
			w.env.Mongo.SetFaultHook(func(c *fakemongo.Cmd) fakemongo.Fault {
				if f.hits(c.Seq) {
					return mode
				}
				return fakemongo.None
			})
		}
	}
	defer func() {
		if f == nil {
			return
		}
		log := w.env.Mongo.CommandLog()
		for i, r := range log {
			if r.Seq >= f.K-4 && r.Seq <= f.K+f.Len+2 {
				mark := " "
				if f.hits(r.Seq) {
					mark = "*"
				}
				res.context = append(res.context, fmt.Sprintf("%s#%d %s %s -> %s", mark, r.Seq, r.Verb, r.NS[strings.Index(r.NS, ".")+1:], r.Outcome))
			}
			if !f.hits(r.Seq) {
				continue
			}
			// does this command follow an applied insert into -_-Operations whose datatype-document update has not
			// happened yet? (background work of earlier requests may sit between the two in the global command order)
			after := false
			for j := i - 1; j >= 0 && j >= i-12; j-- {
				if log[j].Verb == "update" && strings.HasSuffix(log[j].NS, ".-_-Datatypes") {
					break
				}
				if log[j].Verb == "insert" && strings.HasSuffix(log[j].NS, ".-_-Operations") && !f.hits(log[j].Seq) {
					after = true
					break
				}
			}
			if r.Verb == "insert" || r.Verb == "update" || r.Verb == "findAndModify" || r.Verb == "delete" {
				res.writeHit = true
			}
			if r.Seq == f.K {
				res.faultedNS, res.faultedOn = r.NS, r.Verb
				res.afterOpsInsert = after
			}
			if r.Verb == "insert" && strings.HasSuffix(r.NS, ".-_-Operations") && f.Mode != "fail-before" {
				res.s15Pattern = true
			}
			if r.Verb == "update" && strings.HasSuffix(r.NS, ".-_-Datatypes") && after && f.Mode != "apply-then-error" {
				res.s15Pattern = true
			}
		}
	}()
	pending := map[int]*cluster.PackClient{}
	healIfStopped := func() error {
		if f != nil && f.stops() && !stopped && w.env.Mongo.CommandCount() >= f.K {
			// the database (and with it the server process) died: restart against the same data
			stopped = true
			w.env.WaitBackground(3 * time.Second)
			if err := w.env.RestartService(); err != nil {
				return fmt.Errorf("HARNESS-ERROR: restart failed: %v", err)
			}
		}
		return nil
	}
	noteFail := func(ex *exchange, c *l1Client) error {
		if ex.timedOut {
			return fmt.Errorf("client %d: the server did not answer within %v after a storage fault (hang)", c.idx, l1Deadline)
		}
		if ex.rpcErr != nil || len(ex.errPacks) > 0 {
			res.sawError = true
		}
		return nil
	}
	for si, st := range sc.Steps {
		if err := healIfStopped(); err != nil {
			res.err = err
			return res
		}
		switch st.K {
		case "client":
			pc := w.env.NewUnregisteredPackClient(w.col, fmt.Sprintf("c%d", len(w.clients)))
			c := &l1Client{idx: len(w.clients), pc: pc, dts: map[string]*l1DT{}}
			w.clients = append(w.clients, c)
			knownCUIDs[pc.CUID()] = true
			pending[c.idx] = pc
		case "open":
			w.open(w.clients[st.C], k, st.Mode)
		case "op":
			c := w.clients[st.C]
			d := c.dts[k.Name]
			if d.entered || d.mode == "create" {
				sim.Exec(sc.Kind, d.dt, st.Call)
			}
		case "tx":
			c := w.clients[st.C]
			d := c.dts[k.Name]
			if !(d.entered || d.mode == "create") {
				continue
			}
			if _, txErr, pan := sim.ExecTx(sc.Kind, d.dt, *st.Tx); txErr != nil || pan != nil {
				res.err = fmt.Errorf("HARNESS-ERROR: step %d: the scenario's transaction failed: err=%v panic=%v", si, txErr, pan)
				return res
			}
		case "patch":
			// REST patch of the document (served from the stored snapshot + log, pushes through the same path)
			patchesHappened = true
			res.patched = true
			if w.skipConverge == nil {
				w.skipConverge = map[string]bool{}
			}
			w.skipConverge[k.Name] = true
			pr, e, to := w.env.PatchDocument(&model.PatchMessage{Collection: w.col, Key: k.Name, Json: st.Mode}, l1Deadline)
			if to {
				res.err = fmt.Errorf("step %d: the REST patch was never answered (hang)", si)
				return res
			}
			if e != nil {
				res.sawError = true
			} else if err := w.patchIsStored(k, pr); err != nil {
				// a patch that was answered without an error is acknowledged: it has to be in the log
				res.err = fmt.Errorf("step %d: %v", si, err)
				return res
			}
		case "x":
			c := w.clients[st.C]
			if !c.pc.Registered() {
				if err := c.pc.Register(l1Deadline); err != nil {
					res.sawError = true
					if err == cluster.ErrTimeout {
						res.err = fmt.Errorf("step %d: client registration was never answered after a storage fault (hang)", si)
						return res
					}
					continue
				}
			}
			d := c.dts[k.Name]
			req := c.pc.BuildRequest(d.dt)
			before := sim.Observe(sc.Kind, d.dt, nil)
			ex := w.send(c, req)
			if err := noteFail(ex, c); err != nil {
				res.err = fmt.Errorf("step %d: %v", si, err)
				return res
			}
			w.apply(c, ex)
			if ex.applyErr != nil {
				res.err = fmt.Errorf("step %d: client %d failed to handle the server's answer: %v", si, c.idx, ex.applyErr)
				return res
			}
			if len(ex.errPacks) > 0 {
				// the error handler runs on its own goroutine: wait for the event itself
				for dl := time.Now().Add(5 * time.Second); time.Now().Before(dl); time.Sleep(100 * time.Microsecond) {
					d.mu.Lock()
					n := len(d.errEvents)
					d.mu.Unlock()
					if n > 0 {
						break
					}
				}
				if after := sim.Observe(sc.Kind, d.dt, nil); after != before {
					res.err = fmt.Errorf("step %d: an error response changed the state of client %d: %s -> %s", si, c.idx, before, after)
					return res
				}
				d.mu.Lock()
				ne := len(d.errEvents)
				d.mu.Unlock()
				if ne == 0 {
					res.err = fmt.Errorf("step %d: client %d received an error response but its error handler was not called", si, c.idx)
					return res
				}
			}
		}
	}
	if err := healIfStopped(); err != nil {
		res.err = err
		return res
	}
	w.env.WaitBackground(3 * time.Second)
	res.commands = w.env.Mongo.CommandCount()
	if f == nil {
		for _, r := range w.env.Mongo.CommandLog() {
			if r.Verb == "insert" || r.Verb == "update" || r.Verb == "findAndModify" || r.Verb == "delete" {
				res.writeSeqs = append(res.writeSeqs, r.Seq)
			}
			if r.Verb == "insert" && r.NDocs >= 2 {
				if res.insertDocs == nil {
					res.insertDocs = map[int]int{}
				}
				res.insertDocs[r.Seq] = r.NDocs
			}
		}
	}
	// healthy again
	w.env.Mongo.SetFaultHook(nil)
	w.env.Mongo.Resume()
	// acknowledged operations must be stored
	for _, c := range w.clients {
		d := c.dts[k.Name]
		if d == nil || !d.entered || k.duid == "" {
			continue
		}
		pack := d.dt.CreatePushPullPack()
		acked := pack.CheckPoint.Cseq - uint64(len(pack.Operations))
		log, _ := w.storedLog(k.duid)
		have := map[uint64]bool{}
		for _, so := range log {
			if so.op.ID.CUID == c.pc.CUID() {
				have[so.op.ID.Seq] = true
			}
		}
		for s := uint64(1); s <= acked; s++ {
			if !have[s] {
				res.err = fmt.Errorf("client %d was acknowledged up to its operation %d but operation %d is not stored", c.idx, acked, s)
				return res
			}
		}
	}
	// retries: every client syncs again (bounded), everything must succeed now
	for round := 0; round < 5; round++ {
		for _, c := range w.clients {
			if !c.pc.Registered() {
				if err := c.pc.Register(l1Deadline); err != nil {
					res.err = fmt.Errorf("retry round %d: registering client %d against the healthy store failed: %v", round, c.idx, err)
					return res
				}
			}
			d := c.dts[k.Name]
			if d == nil {
				continue
			}
			ex := w.syncClient(c)
			if ex == nil {
				continue
			}
			if round >= 1 {
				if err := exchangeProblem(c, ex); err != nil {
					res.err = fmt.Errorf("retry round %d against the healthy store still fails: %v", round, err)
					return res
				}
			} else if ex.timedOut {
				res.err = fmt.Errorf("retry round %d: no answer", round)
				return res
			} else if ex.applyErr != nil {
				res.err = fmt.Errorf("retry round %d: client failed to handle the answer: %v", round, ex.applyErr)
				return res
			}
		}
	}
	waitHandlers()
	w.env.WaitBackground(3 * time.Second)
	if err := w.checkLogInvariants(); err != nil {
		res.err = fmt.Errorf("after recovery: %v", err)
		return res
	}
	if k.duid != "" {
		k.created = true
	}
	for _, c := range w.clients {
		if d := c.dts[k.Name]; d != nil {
			if n := len(d.dt.CreatePushPullPack().Operations); n > 0 {
				res.err = fmt.Errorf("after recovery client %d still has %d unpushed operations", c.idx, n)
				return res
			}
		}
	}
	if err := w.checkConverged(); err != nil {
		res.err = fmt.Errorf("after recovery: %v", err)
		return res
	}
	if u := w.env.Mongo.UnknownCommands(); len(u) > 0 {
		res.err = fmt.Errorf("HARNESS-ERROR: unknown commands %v", u)
	}
	return res
}

func TestC08Enum(t *testing.T) {
	col := stats.New("C08", t.Name(),
		"EXHAUSTIVE single-fault enumeration over database commands: each fixed scenario (Counter / List / Document; create + subscribe + push/pull mix; subscribe-or-create twice) is first run fault-free to number every MongoDB command it causes (client registration, push-pull, the post-response snapshot goroutine); "+
			"then for EVERY command number k and each mode of {fail before applying, apply then report an error, last command before the database/server dies + restart (quick: every 3rd k; thorough: every k)} the scenario is re-run with that one fault, followed by up to 5 retry rounds against the healthy store; "+
			"every insert of n >= 2 documents (the operations of a push; one scenario pushes a user's transaction between plain operations) is also interrupted after each proper prefix: the first 1..n-1 documents are stored, then the command fails, or the server dies (an ordered bulk insert keeps what it has written); "+
			"oracle: every call is answered in time (no hang, no crash of the process), an error response reaches the client's error handler without panic or state change, every acknowledged operation is stored, after recovery the log invariants hold, nothing is left unpushed, retries succeed, and all clients = server rebuild = refmodel(log); "+
			"non-trivial = the faulted command was a write; distinct = (scenario, k, mode)")
	defer col.Flush()
	shard, nshards := envInt("VERIF_SHARD", 0), envInt("VERIF_NSHARDS", 1)
	stopStride := 3
	if thorough() {
		stopStride = 1
	}
	complete := true
	matrix := map[string]int{}
	for si, sc := range c08Scenarios() {
		base := c08Run(sc, nil, uint64(500+si))
		if base.err != nil {
			j := &Journal{Property: "C08", Test: t.Name(), Header: map[string]interface{}{"scenario": sc, "fault": nil}}
			col.Flush()
			if strings.Contains(base.err.Error(), "HARNESS-ERROR") {
				fmt.Printf("HARNESS-ERROR: %v\n", base.err)
				t.Fatalf("%v", base.err)
			}
			enumFail(t, "C08", j, "scenario %s fails without any fault: %v", sc.Name, base.err)
		}
		for k := 1; k <= base.commands; k++ {
			type cell struct {
				mode string
				part int
			}
			cells := []cell{{"fail-before", 0}, {"apply-then-error", 0}, {"stop-after", 0}}
			// an insert of n >= 2 documents interrupted after each proper prefix (always, not strided)
			for part := 1; part < base.insertDocs[k]; part++ {
				cells = append(cells, cell{"part-then-error", part}, cell{"part-then-stop", part})
			}
			for _, cl := range cells {
				mode := cl.mode
				if mode == "stop-after" && k%stopStride != 0 {
					complete = false
					continue
				}
				canon := fmt.Sprintf("%s|%d|%s", sc.Name, k, mode)
				if cl.part > 0 {
					canon += fmt.Sprintf("|%d", cl.part)
				}
				if int(hashString(canon)%uint64(nshards)) != shard {
					continue
				}
				f := &c08Fault{K: k, Mode: mode, Part: cl.part}
				r := c08Run(sc, f, uint64(500+si))
				matrix[fmt.Sprintf("%s %s x %s", r.faultedOn, strings.TrimPrefix(r.faultedNS[strings.Index(r.faultedNS, ".")+1:], "-_-"), mode)]++
				if r.err != nil {
					if strings.Contains(r.err.Error(), "HARNESS-ERROR") {
						fmt.Printf("HARNESS-ERROR: %v\n", r.err)
						t.Fatalf("%v", r.err)
					}
					if id := c08Classify(r, f); id != "" {
						reportKnown(col, "C08", id, c08KnownText[id])
						col.Case(true, canon, []string{"known=" + id}, nil)
						continue
					}
					j := &Journal{Property: "C08", Test: t.Name(), Header: map[string]interface{}{"scenario": sc, "fault": f, "faulted_command": r.faultedOn + " " + r.faultedNS}}
					col.Flush()
					enumFail(t, "C08", j, "scenario %s, fault %s at command %d (%s %s): %v", sc.Name, mode, k, r.faultedOn, r.faultedNS, r.err)
				}
				labels := []string{"mode=" + mode, "scenario=" + sc.Name}
				if r.sawError {
					labels = append(labels, "client-saw-error")
				}
				col.Case(r.writeHit, canon, labels, func() interface{} {
					return map[string]interface{}{"scenario": sc.Name, "k": k, "mode": mode, "part": cl.part, "faulted_command": r.faultedOn + " " + r.faultedNS}
				})
			}
		}
	}
	col.Extra("command_kind_x_mode", matrix)
	col.Extra("stop_after_stride", stopStride)
	col.SetExhaustive(complete)
}

// c08Call draws one local call from a small static pool per kind (the scenario is data: no live state).
func c08Call(rt *rapid.T, kind sim.Kind, i int) sim.Call {
	lbl := func(s string) string { return fmt.Sprintf("%s%d", s, i) }
	key := fmt.Sprintf("k%d", rapid.IntRange(0, 3).Draw(rt, lbl("key")))
	val := func() sim.Val {
		switch rapid.IntRange(0, 3).Draw(rt, lbl("vk")) {
		case 0:
			return sim.S(fmt.Sprintf("v%d", i))
		case 1:
			return sim.Obj(sim.KV{K: "n", V: sim.I(int64(i))}, sim.KV{K: "l", V: sim.Arr(sim.I(1), sim.S("x"))})
		case 2:
			return sim.Arr(sim.I(int64(i)), sim.Obj(sim.KV{K: "d", V: sim.B(true)}))
		}
		return sim.I(int64(i))
	}
	switch kind {
	case sim.Counter:
		return sim.Call{M: "IncreaseBy", Vals: []sim.Val{sim.I(int64(rapid.IntRange(-5, 1000).Draw(rt, lbl("by"))))}}
	case sim.Map:
		if rapid.IntRange(0, 3).Draw(rt, lbl("m")) == 0 {
			return sim.Call{M: "Remove", Key: key}
		}
		return sim.Call{M: "Put", Key: key, Vals: []sim.Val{val()}}
	case sim.List:
		switch rapid.IntRange(0, 4).Draw(rt, lbl("m")) {
		case 0:
			return sim.Call{M: "Delete", Pos: 0}
		case 1:
			return sim.Call{M: "Update", Pos: 0, Vals: []sim.Val{val()}}
		case 2:
			return sim.Call{M: "InsertMany", Pos: 0, Vals: []sim.Val{val(), sim.I(int64(-i))}}
		}
		return sim.Call{M: "Insert", Pos: 0, Vals: []sim.Val{val()}}
	}
	if rapid.IntRange(0, 3).Draw(rt, lbl("m")) == 0 {
		return sim.Call{M: "DeleteInObject", Key: key}
	}
	return sim.Call{M: "PutToObject", Key: key, Vals: []sim.Val{val()}}
}

// TestC08Random: generated scenarios (all four kinds, 2-4 clients, local calls from a pool with
// nested values, removals and updates, REST patches on documents) with one storage fault or an
// outage of several consecutive commands at a drawn command, or a server death + restart.
func TestC08Random(t *testing.T) {
	col := stats.New("C08", t.Name(),
		"rapid: generated scenarios (Counter/Map/List/Document, 2-4 clients with create / subscribe / subscribe-or-create entry, 4-24 further steps of local calls [puts of primitives and nested values, removals, updates, batches], transactions of the user (1-3 calls), syncs and - on documents - REST patches); "+
			"the scenario is first run fault-free to count its database commands, then re-run with one drawn fault: command k (uniform over the commands of the run, or - half of the cases - over its writes) fails before being applied, is applied and then reported as failed, for an outage of 1-4 consecutive commands, or is the last command before the database/server dies + restart; in a third of the cases that have an insert of several documents, that insert stores a drawn proper prefix of its documents and then fails or the server dies; "+
			"same oracle as TestC08Enum (answered in time, error handler without state change, acknowledged operations stored, log invariants, retries succeed, nothing left unpushed, all replicas = server rebuild = refmodel(log); for REST-patched keys convergence is left to C19); "+
			"non-trivial = a faulted command was a write and a client saw an error or the server was restarted; distinct = hash of (scenario, fault)")
	checkProp(t, "C08", col, func(c *caseCtx) {
		rt := c.rt
		kind := kindFromDraw(rt)
		nc := rapid.IntRange(2, 4).Draw(rt, "clients")
		sc := c07Scenario{Name: "random", Kind: kind}
		modes := make([]string, nc)
		allSub := true
		for i := 1; i < nc; i++ {
			modes[i] = rapid.SampledFrom([]string{"subscribe", "subscribe-or-create"}).Draw(rt, fmt.Sprintf("m%d", i))
			if modes[i] != "subscribe" {
				allSub = false
			}
		}
		modes[0] = "subscribe-or-create"
		// REST patches create an absent document: with them in the scenario the first client must not insist on creating
		withPatch := kind == sim.Document && rapid.Bool().Draw(rt, "with-rest-patches")
		if allSub && !withPatch && rapid.Bool().Draw(rt, "m0create") {
			// a plain create may only be used when nobody else can create the key in its place
			modes[0] = "create"
		}
		for i := 0; i < nc; i++ {
			sc.Steps = append(sc.Steps, c07Step{K: "client", C: i}, c07Step{K: "open", C: i, Mode: modes[i]})
			if i == 0 && rapid.Bool().Draw(rt, "op-before-create") {
				sc.Steps = append(sc.Steps, c07Step{K: "op", C: 0, Call: c08Call(rt, kind, 100)})
			}
			sc.Steps = append(sc.Steps, c07Step{K: "x", C: i})
		}
		n := rapid.IntRange(4, 24).Draw(rt, "steps")
		for i := 0; i < n; i++ {
			ci := rapid.IntRange(0, nc-1).Draw(rt, fmt.Sprintf("c%d", i))
			switch w := rapid.IntRange(0, 9).Draw(rt, fmt.Sprintf("w%d", i)); {
			case w < 4:
				sc.Steps = append(sc.Steps, c07Step{K: "x", C: ci})
			case w == 8:
				// a transaction of the user: pushed as one unit of several documents
				tx := &sim.Tx{Tag: fmt.Sprintf("t%d", i), FailAt: -1}
				for j, m := 0, rapid.IntRange(1, 3).Draw(rt, fmt.Sprintf("txlen%d", i)); j < m; j++ {
					tx.Calls = append(tx.Calls, c08Call(rt, kind, 1000+10*i+j))
				}
				sc.Steps = append(sc.Steps, c07Step{K: "tx", C: ci, Tx: tx})
			case w == 9 && withPatch:
				sc.Steps = append(sc.Steps, c07Step{K: "patch", Mode: fmt.Sprintf(`{"p%d":%d,"k1":"patched"}`, i%3, i)})
			default:
				sc.Steps = append(sc.Steps, c07Step{K: "op", C: ci, Call: c08Call(rt, kind, i)})
			}
		}
		idseed := rapid.Uint64Range(1, 1<<30).Draw(rt, "idseed")
		mode := rapid.SampledFrom([]string{"fail-before", "apply-then-error", "stop-after"}).Draw(rt, "mode")
		kpm := rapid.IntRange(0, 9999).Draw(rt, "k-per-10000")
		flen := rapid.IntRange(1, 4).Draw(rt, "outage")
		onWrite := rapid.Bool().Draw(rt, "aim-at-write")
		base := c08Run(sc, nil, idseed)
		c.j.Header = map[string]interface{}{"scenario": sc, "fault": nil, "id_seed": idseed}
		if base.err != nil {
			if strings.Contains(base.err.Error(), "HARNESS-ERROR") {
				c.failf("%v", base.err)
			}
			c.failf("without any fault: %v", base.err)
		}
		f := &c08Fault{K: 1 + kpm*base.commands/10000, Mode: mode}
		if onWrite && len(base.writeSeqs) > 0 {
			// half of the cases aim at a write (most commands of a request are reads)
			f.K = base.writeSeqs[kpm*len(base.writeSeqs)/10000]
		}
		if mode != "stop-after" && flen > 1 {
			f.Len = flen
		}
		if len(base.insertDocs) > 0 && rapid.IntRange(0, 2).Draw(rt, "interrupt-an-insert") == 0 {
			// an insert of several documents that stops after a proper prefix (command error, or the server dies)
			var seqs []int
			for q := range base.insertDocs {
				seqs = append(seqs, q)
			}
			sort.Ints(seqs)
			q := seqs[rapid.IntRange(0, len(seqs)-1).Draw(rt, "which-insert")]
			f = &c08Fault{K: q, Mode: rapid.SampledFrom([]string{"part-then-error", "part-then-stop"}).Draw(rt, "partial-mode"), Part: rapid.IntRange(1, base.insertDocs[q]-1).Draw(rt, "part")}
			mode = f.Mode
		}
		c.j.Header = map[string]interface{}{"scenario": sc, "fault": f, "id_seed": idseed}
		r := c08Run(sc, f, idseed)
		b, _ := json.Marshal(c.j.Header)
		if r.err != nil {
			if strings.Contains(r.err.Error(), "HARNESS-ERROR") {
				c.failf("%v", r.err)
			}
			if id := c08Classify(r, f); id != "" {
				reportKnown(col, "C08", id, c08KnownText[id])
				col.Case(true, string(b), []string{"known=" + id, "kind=" + string(kind)}, nil)
				return
			}
			c.j.Header = map[string]interface{}{"scenario": sc, "fault": f, "id_seed": idseed, "commands_around_the_fault": r.context}
			c.failf("fault %s at command %d (+%d) (%s %s): %v\ncommands around the fault: %v", mode, f.K, f.Len, r.faultedOn, r.faultedNS, r.err, r.context)
		}
		labels := []string{"kind=" + string(kind), "mode=" + mode}
		if f.Len > 1 {
			labels = append(labels, "outage")
		}
		if r.sawError {
			labels = append(labels, "client-saw-error")
		}
		if r.patched {
			labels = append(labels, "rest-patch")
		}
		if r.faultedOn != "" {
			ns := strings.TrimPrefix(r.faultedNS[strings.Index(r.faultedNS, ".")+1:], "-_-")
			if strings.HasPrefix(ns, "col") || strings.HasPrefix(ns, "orda_") {
				ns = "<user collection>"
			}
			labels = append(labels, "hit="+r.faultedOn+" "+ns)
		} else {
			labels = append(labels, "fault-not-reached")
		}
		col.Case(r.writeHit && (r.sawError || f.stops()), string(b), labels, func() interface{} { return c.j.Header })
	})
}

var c08KnownText = map[string]string{
	"S15": "the operations of a push are inserted but the datatype document that records the new end of the log is not (the insert is applied and then reported as failed, the following update fails, or the server dies in between): the stored operations lie beyond the recorded end, and every retry collides with them on _id duid:sseq (duplicate key) forever",
}

// c08Classify recognises known finding S15 by its fault pattern: the fault hit the insert into
// -_-Operations after it was applied, or the update of -_-Datatypes that directly follows an
// applied insert of the same request, and what fails is the retry / the end-of-log invariant.
func c08Classify(r c08Result, f *c08Fault) string {
	if !isOpen("S15") || r.err == nil {
		return ""
	}
	msg := r.err.Error()
	symptom := strings.Contains(msg, "still fails") || strings.Contains(msg, "recorded end of the log") || strings.Contains(msg, "unpushed operations") ||
		strings.Contains(msg, "is not stored") || strings.Contains(msg, "was never pushed") || strings.Contains(msg, "is stored twice") || strings.Contains(msg, "differs from the state defined by the stored log")
	if symptom && r.s15Pattern {
		return "S15"
	}
	return ""
}

var _ = iface.Datatype(nil)
var _ = model.CheckPoint{}
var _ = orda.NewHandlers

// patchIsStored: the document a REST patch answered with has to be what the stored log defines (the steps of a
// scenario are sequential: nobody else writes between the patch and this look at the store).
func (w *l1World) patchIsStored(k *l1Key, pr *model.PatchMessage) error {
	duid := ""
	for _, d := range w.datatypeDocs() {
		if bstr(bget(d, "key")) == k.Name {
			duid = bstr(bget(d, "_id"))
		}
	}
	var ops []*model.Operation
	if duid != "" {
		log, _ := w.storedLog(duid)
		for _, so := range log {
			ops = append(ops, so.op)
		}
	}
	st, err := refmodel.Compute(string(sim.Document), ops)
	if err != nil {
		return fmt.Errorf("the stored log of %s cannot be replayed after a REST patch: %v", k.Name, err)
	}
	var answered interface{}
	if err := jsonUnmarshal([]byte(pr.GetJson()), &answered); err != nil {
		return fmt.Errorf("the REST patch answered with something that is not JSON: %q", pr.GetJson())
	}
	if got, want := sim.Canon(st.JSON()), sim.Canon(answered); got != want {
		return fmt.Errorf("the REST patch of %s was answered without an error, with the document %s, but the stored log (%d operations) defines %s: an acknowledged patch is not stored", k.Name, want, len(ops), got)
	}
	return nil
}
