package props

import (
	"fmt"
	"sort"
	"strings"
	"sync"
	"time"

	ordaerrors "github.com/orda-io/orda/client/pkg/errors"
	"github.com/orda-io/orda/client/pkg/iface"
	"github.com/orda-io/orda/client/pkg/model"
	"github.com/orda-io/orda/client/pkg/orda"
	"go.mongodb.org/mongo-driver/bson"
	"go.mongodb.org/mongo-driver/bson/primitive"
	"google.golang.org/protobuf/proto"
	"pgregory.net/rapid"
	"verif/cluster"
	"verif/refmodel"
	"verif/sim"
)

const l1Deadline = 8 * time.Second

// ---------------------------------------------------------------------------------------------
// BSON helpers

func bget(d bson.D, path ...string) interface{} {
	var cur interface{} = d
	for _, p := range path {
		switch x := cur.(type) {
		case bson.D:
			found := false
			for _, e := range x {
				if e.Key == p {
					cur, found = e.Value, true
					break
				}
			}
			if !found {
				return nil
			}
		case bson.M:
			cur = x[p]
		default:
			return nil
		}
	}
	return cur
}

func bint(v interface{}) int64 {
	switch x := v.(type) {
	case int32:
		return int64(x)
	case int64:
		return x
	case float64:
		return int64(x)
	case int:
		return int64(x)
	case uint64:
		return int64(x)
	}
	return -1
}

func bstr(v interface{}) string {
	s, _ := v.(string)
	return s
}

func bbytes(v interface{}) []byte {
	switch x := v.(type) {
	case primitive.Binary:
		return x.Data
	case []byte:
		return x
	}
	return nil
}

// ---------------------------------------------------------------------------------------------

type l1Key struct {
	Name string
	Kind sim.Kind
	// server side knowledge of the harness
	created bool   // some client's creating request was answered without error
	duid    string // DUID the server answered
}

type l1DT struct {
	key     *l1Key
	dt      iface.Datatype
	mode    string // create | subscribe | subscribe-or-create
	client  *l1Client
	entered bool // first sync answered without error
	lastCP  *model.CheckPoint
	// operations of this datatype that were part of a request answered without error
	sent map[uint64]*model.Operation
	// state-change / error events
	mu        sync.Mutex
	subEvents int
	errEvents []string
	remoteOps int
}

type l1Client struct {
	idx int
	pc  *cluster.PackClient
	dts map[string]*l1DT
}

type l1World struct {
	env         *cluster.Env
	col         string
	aliasSuffix string
	keys        []*l1Key
	clients     []*l1Client
	labels      map[string]bool
	reqs        int
	// every operation accepted by the server per DUID: "cuid:seq" -> op (from requests answered ok)
	accepted map[string]map[string]*model.Operation
	// every operation that was part of any request handed to the server, whatever the answer:
	// a request that failed half-way or whose answer was an error may still have been stored
	sentAny map[string]bool
	waitBG  bool
	// noConverge: only the stored-log invariants are checked at settle points (C06)
	noConverge bool
	// noRebuild: checkSnapshots leaves out the server's rebuild (the log is knowingly half-written)
	noRebuild bool
	// keys that are excluded from the convergence check (touched by the REST patch endpoint, whose
	// effect on replicas is C19's subject)
	skipConverge map[string]bool
}

var l1Seq int

// l1Deploy is the deployment of the next world built by newL1World (consumed by it): the default
// is one server instance with process-local locks.
var l1Deploy cluster.Options

// drawDeployment draws the deployment of the case: mostly one server instance with local locks,
// sometimes one instance with the Redis (redsync) lock, sometimes two instances on one database,
// broker and Redis whose requests alternate between them (a multi-server deployment: nothing may
// depend on state kept inside one server process), the second instance either in this process or in
// a child process. It returns a label.
func drawDeployment(rt *rapid.T) string {
	switch rapid.IntRange(0, 7).Draw(rt, "deployment") {
	case 5:
		l1Deploy = cluster.Options{Redis: true}
		return "deployment=one-instance+redis-lock"
	case 6:
		l1Deploy = cluster.Options{Redis: true, Instances: 2}
		return "deployment=two-instances+redis-lock"
	case 7:
		// the second server instance is another PROCESS: not even the table of local locks or
		// package-level variables are shared with it
		l1Deploy = cluster.Options{Redis: true, RemoteInstances: 1}
		return "deployment=two-processes+redis-lock"
	}
	l1Deploy = cluster.Options{}
	return "deployment=one-instance+local-lock"
}

const deploymentNote = "deployment drawn per case: 5 of 8 one server instance with process-local locks, 1 of 8 one instance with the Redis (redsync) lock on a RESP stand-in, 1 of 8 two server instances (own MongoDB/MQTT/Redis clients each) in the harness process on the same database, broker and Redis, 1 of 8 one instance in the harness process and one in a child process (the test binary re-executed as a server); consecutive requests alternate between the instances"

// infraProblem reports a use of the fakes that they do not implement (the run is inconclusive then).
func (w *l1World) infraProblem() error {
	if u := w.env.Mongo.UnknownCommands(); len(u) > 0 {
		return fmt.Errorf("HARNESS-ERROR: MongoDB commands the fake does not implement: %v", u)
	}
	if w.env.Redis != nil {
		if u := w.env.Redis.UnknownCommands(); len(u) > 0 {
			return fmt.Errorf("HARNESS-ERROR: Redis commands the fake does not implement: %v", u)
		}
	}
	return nil
}

func newL1World(idseed uint64, kinds []sim.Kind) (*l1World, error) {
	sim.SeedIDs(idseed)
	knownCUIDs = map[string]bool{}
	patchesHappened = false
	s38Excluded = 0
	opts := l1Deploy
	l1Deploy = cluster.Options{}
	env, err := cluster.New(opts)
	if err != nil {
		return nil, err
	}
	l1Seq++
	w := &l1World{env: env, col: fmt.Sprintf("col%d", l1Seq) + l1NameSuffix(idseed/13, true), labels: map[string]bool{}, accepted: map[string]map[string]*model.Operation{}, sentAny: map[string]bool{}, waitBG: true}
	w.aliasSuffix = l1NameSuffix(idseed/11, false)
	// known finding S14: the first two collections both get number 1; a dummy collection takes the first
	if err := env.CreateCollection(fmt.Sprintf("dummy%d", l1Seq)); err != nil {
		env.Close()
		return nil, err
	}
	if err := env.CreateCollection(w.col); err != nil {
		env.Close()
		return nil, err
	}
	for i, k := range kinds {
		// keys are unique per case: the server's lock table is process global
		w.keys = append(w.keys, &l1Key{Name: fmt.Sprintf("k%d_%d", l1Seq, i) + l1NameSuffix(idseed/7+uint64(i), false), Kind: k})
	}
	return w, nil
}

// l1NameSuffix makes the names of collections, clients and keys vary with the drawn id seed (which
// shrinks towards the plain names): names are free text for orda - long ones, multi-byte ones, ones
// with blanks and punctuation are as legal as "k1" (they end up in log tags, lock names, MQTT topics,
// MongoDB ids). The MQTT wildcards (# +), which no topic may contain, and what MongoDB forbids in collection
// names ($ and NUL) are left out; collection names also have no '/'.
func l1NameSuffix(x uint64, collection bool) string {
	pool := []string{"", "", "-a-rather-long-name-of-more-than-forty-characters", "문서문서문서문서문서", " список покупок", "買い物リスト", "étè,a;b c", " 50%? \"q\""}
	if collection {
		pool = pool[:6]
	} else {
		pool = append(pool, "/with/slashes") // a key is free text; the MQTT topic <collection>/<key> simply has more levels
	}
	return pool[x%uint64(len(pool))]
}

func (w *l1World) close() { w.env.Close() }

func (w *l1World) addClient() (*l1Client, error) {
	pc, err := w.env.NewPackClient(w.col, fmt.Sprintf("c%d", len(w.clients))+w.aliasSuffix)
	if err != nil {
		return nil, err
	}
	c := &l1Client{idx: len(w.clients), pc: pc, dts: map[string]*l1DT{}}
	w.clients = append(w.clients, c)
	knownCUIDs[pc.CUID()] = true
	return c, nil
}

func (d *l1DT) handlers() *orda.Handlers {
	return orda.NewHandlers(
		func(dt orda.Datatype, old model.StateOfDatatype, nw model.StateOfDatatype) {
			d.mu.Lock()
			if nw == model.StateOfDatatype_SUBSCRIBED {
				d.subEvents++
			}
			d.mu.Unlock()
		},
		func(dt orda.Datatype, opList []interface{}) {
			d.mu.Lock()
			d.remoteOps += len(opList)
			d.mu.Unlock()
		},
		func(dt orda.Datatype, errs ...ordaerrors.OrdaError) {
			d.mu.Lock()
			for _, e := range errs {
				d.errEvents = append(d.errEvents, firstLineOf(e.Error()))
			}
			d.mu.Unlock()
		})
}

func firstLineOf(s string) string {
	if i := strings.IndexByte(s, '\n'); i >= 0 {
		return s[:i]
	}
	return s
}

// open creates the client-side datatype in the given entry mode.
func (w *l1World) open(c *l1Client, k *l1Key, mode string) *l1DT {
	d := &l1DT{key: k, mode: mode, client: c, sent: map[uint64]*model.Operation{}, lastCP: &model.CheckPoint{}}
	h := d.handlers()
	var v interface{}
	switch k.Kind {
	case sim.Counter:
		switch mode {
		case "create":
			v = c.pc.CreateCounter(k.Name, h)
		case "subscribe":
			v = c.pc.SubscribeCounter(k.Name, h)
		default:
			v = c.pc.SubscribeOrCreateCounter(k.Name, h)
		}
	case sim.Map:
		switch mode {
		case "create":
			v = c.pc.CreateMap(k.Name, h)
		case "subscribe":
			v = c.pc.SubscribeMap(k.Name, h)
		default:
			v = c.pc.SubscribeOrCreateMap(k.Name, h)
		}
	case sim.List:
		switch mode {
		case "create":
			v = c.pc.CreateList(k.Name, h)
		case "subscribe":
			v = c.pc.SubscribeList(k.Name, h)
		default:
			v = c.pc.SubscribeOrCreateList(k.Name, h)
		}
	default:
		switch mode {
		case "create":
			v = c.pc.CreateDocument(k.Name, h)
		case "subscribe":
			v = c.pc.SubscribeDocument(k.Name, h)
		default:
			v = c.pc.SubscribeOrCreateDocument(k.Name, h)
		}
	}
	d.dt = v.(iface.Datatype)
	c.dts[k.Name] = d
	return d
}

// exchange is the outcome of one request.
type exchange struct {
	req      *model.PushPullMessage
	resp     *model.PushPullMessage
	rpcErr   error
	timedOut bool
	applyErr error
	errPacks map[string]string // key -> error text of an error pack
}

// packError returns the error text of an error response ("" for an ordinary one). A pack is an
// error response when its option carries the error bit (read from the raw option value) or when it
// carries an operation of type ERROR - the server's refusal is that operation; a response that
// carries one without announcing it in the option is still a refusal.
func packError(p *model.PushPullPack) string {
	const errorBit = 0x20
	hasBit := p.GetPushPullPackOption().HasErrorBit() || (p.GetOption()&errorBit) != 0
	for _, op := range p.Operations {
		if op.OpType == model.TypeOfOperation_ERROR {
			return string(op.Body)
		}
	}
	if hasBit {
		if len(p.Operations) > 0 {
			return string(p.Operations[0].Body)
		}
		return "error pack"
	}
	return ""
}

// send delivers a request to the service and records what the server accepted.
func (w *l1World) send(c *l1Client, req *model.PushPullMessage) *exchange {
	ex := w.rawSend(req)
	w.record(c, ex)
	if w.waitBG {
		w.env.WaitBackground(5 * time.Second)
	}
	return ex
}

// rawSend only talks to the service (safe to call from several goroutines).
func (w *l1World) rawSend(req *model.PushPullMessage) *exchange {
	ex := &exchange{req: req, errPacks: map[string]string{}}
	ex.resp, ex.rpcErr, ex.timedOut = w.env.ProcessPushPull(req, l1Deadline)
	return ex
}

// record does the harness' bookkeeping for an exchange.
func (w *l1World) record(c *l1Client, ex *exchange) {
	req := ex.req
	w.reqs++
	for _, p := range req.PushPullPacks {
		for _, op := range p.Operations {
			w.sentAny[opKey(op)] = true
		}
	}
	if ex.resp != nil {
		for _, p := range ex.resp.PushPullPacks {
			if e := packError(p); e != "" {
				ex.errPacks[p.Key] = e
			}
		}
	}
	if ex.rpcErr == nil && !ex.timedOut && ex.resp != nil {
		answered := map[string]*model.PushPullPack{}
		for _, p := range ex.resp.PushPullPacks {
			answered[p.Key] = p
		}
		for _, p := range req.PushPullPacks {
			rp := answered[p.Key]
			if rp == nil || ex.errPacks[p.Key] != "" {
				continue
			}
			d := c.dts[p.Key]
			if d == nil {
				continue
			}
			opt := rp.GetPushPullPackOption()
			if opt.HasSubscribeBit() {
				// subscribed: the pushed operations were discarded by design
				d.key.duid = rp.DUID
				continue
			}
			if opt.HasCreateBit() {
				d.key.created, d.key.duid = true, rp.DUID
			}
			duid := rp.DUID
			if w.accepted[duid] == nil {
				w.accepted[duid] = map[string]*model.Operation{}
			}
			for _, op := range p.Operations {
				w.accepted[duid][opKey(op)] = proto.Clone(op).(*model.Operation)
			}
		}
	}
}

// apply hands the response to the client.
func (w *l1World) apply(c *l1Client, ex *exchange) {
	if ex.resp == nil || ex.rpcErr != nil || ex.timedOut {
		return
	}
	ex.applyErr = c.pc.ApplyResponse(ex.resp)
	for _, p := range ex.resp.PushPullPacks {
		if d := c.dts[p.Key]; d != nil && ex.errPacks[p.Key] == "" {
			d.entered = true
		}
	}
}

// syncClient is one honest exchange of all datatypes of the client.
func (w *l1World) syncClient(c *l1Client) *exchange {
	var dts []iface.Datatype
	var names []string
	for n := range c.dts {
		names = append(names, n)
	}
	sort.Strings(names)
	for _, n := range names {
		dts = append(dts, c.dts[n].dt)
	}
	if len(dts) == 0 {
		return nil
	}
	req := c.pc.BuildRequest(dts...)
	ex := w.send(c, req)
	w.apply(c, ex)
	return ex
}

// waitHandlers lets the handler goroutines that ApplyPushPullPack spawned finish.
func waitHandlers() {
	deadline := time.Now().Add(2 * time.Second)
	for time.Now().Before(deadline) {
		if !stackContains("callHandlers") {
			return
		}
		time.Sleep(200 * time.Microsecond)
	}
}

// ---------------------------------------------------------------------------------------------
// stored-log invariants (C06)

type storedOp struct {
	sseq int64
	op   *model.Operation
	id   string
}

// storedLog reads the operations of one DUID out of the fake MongoDB.
func (w *l1World) storedLog(duid string) ([]storedOp, error) {
	dump := w.env.Mongo.Dump()
	var out []storedOp
	for _, d := range dump[w.env.DBName+".-_-Operations"] {
		if bstr(bget(d, "duid")) != duid {
			continue
		}
		typ := model.TypeOfOperation(model.TypeOfOperation_value[bstr(bget(d, "type"))])
		op := &model.Operation{
			ID: &model.OperationID{Era: uint32(bint(bget(d, "id", "era"))), Lamport: uint64(bint(bget(d, "id", "lamport"))),
				CUID: bstr(bget(d, "id", "cuid")), Seq: uint64(bint(bget(d, "id", "seq")))},
			OpType: typ, Body: bbytes(bget(d, "body")),
		}
		out = append(out, storedOp{sseq: bint(bget(d, "sseq")), op: op, id: bstr(bget(d, "_id"))})
	}
	sort.SliceStable(out, func(i, j int) bool { return out[i].sseq < out[j].sseq })
	return out, nil
}

func (w *l1World) datatypeDocs() []bson.D { return w.env.Mongo.Dump()[w.env.DBName+".-_-Datatypes"] }

// checkLogInvariants verifies the C06 statement on the stored collections.
func (w *l1World) checkLogInvariants() error {
	for _, dd := range w.datatypeDocs() {
		duid := bstr(bget(dd, "_id"))
		end := bint(bget(dd, "sseq", "end"))
		log, _ := w.storedLog(duid)
		perClient := map[string]uint64{}
		storedSet := map[string]bool{}
		for i, so := range log {
			if so.sseq != int64(i+1) {
				return fmt.Errorf("datatype %s: stored operation %d has server sequence number %d (gap or repeat in the log)", duid, i+1, so.sseq)
			}
			if so.id != fmt.Sprintf("%s:%d", duid, so.sseq) {
				return fmt.Errorf("datatype %s: operation with sseq %d is stored under _id %q", duid, so.sseq, so.id)
			}
			k := opKey(so.op)
			// (operations issued by the REST patch endpoint take part in the accounting like any other: every
			// patch is a replica of its own since the S17b repair; before, patches reused (client id, sequence number))
			if isOpen("S17b") && patchesHappened && w.foreignStoredOK(duid, k) {
				continue
			}
			if storedSet[k] {
				var all []string
				for _, x := range log {
					all = append(all, fmt.Sprintf("%d=%s/%s", x.sseq, opKey(x.op), x.op.OpType))
				}
				return fmt.Errorf("datatype %s: operation %s is stored twice (log: %v)", duid, k, all)
			}
			storedSet[k] = true
			if last, ok := perClient[so.op.ID.CUID]; ok && so.op.ID.Seq != last+1 {
				return fmt.Errorf("datatype %s: operations of client %s are stored out of order or with a gap: seq %d follows %d (sseq %d)", duid, so.op.ID.CUID, so.op.ID.Seq, last, so.sseq)
			}
			perClient[so.op.ID.CUID] = so.op.ID.Seq
		}
		if end != int64(len(log)) {
			return fmt.Errorf("datatype %s: recorded end of the log is %d but %d operations are stored", duid, end, len(log))
		}
		// exactly the pushed operations
		for k, op := range w.accepted[duid] {
			if !storedSet[k] {
				return fmt.Errorf("datatype %s: operation %s (%s) was pushed in a request answered without error but is not stored", duid, k, op.OpType)
			}
		}
		for k := range storedSet {
			if w.accepted[duid] == nil || w.accepted[duid][k] == nil {
				if !w.foreignStoredOK(duid, k) && !w.sentAny[k] {
					return fmt.Errorf("datatype %s: stored operation %s was never pushed by any client in an answered request", duid, k)
				}
			}
		}
		// checkpoints
		if rw, ok := bget(dd, "rwClients").(bson.D); ok {
			for _, e := range rw {
				cd, _ := e.Value.(bson.D)
				s, c := bint(bget(cd, "cp", "s")), bint(bget(cd, "cp", "c"))
				if s > int64(len(log)) {
					return fmt.Errorf("datatype %s: checkpoint of client %s acknowledges server sequence %d but only %d operations are stored", duid, e.Key, s, len(log))
				}
				if c > int64(perClient[e.Key]) {
					return fmt.Errorf("datatype %s: checkpoint of client %s acknowledges its operation %d but the newest stored one is %d", duid, e.Key, c, perClient[e.Key])
				}
			}
		}
	}
	return nil
}

// foreignStoredOK lets checks that push operations outside send() (REST patch) declare them.
func (w *l1World) foreignStoredOK(duid, key string) bool {
	if strings.HasPrefix(key, "!@#$OrdaPatchAPI:") {
		return true
	}
	if !patchesHappened {
		return false
	}
	// the REST patch endpoint issues its operations through a temporary local client with a random id
	cuid := key[:strings.LastIndex(key, ":")]
	return !knownCUIDs[cuid]
}

// knownCUIDs holds the ids of every client the harness created in the current case (all collections).
var knownCUIDs = map[string]bool{}

// patchesHappened is set by checks that call the REST patch endpoint in the current case.
var patchesHappened bool

// ---------------------------------------------------------------------------------------------
// convergence (C05)

func (w *l1World) settle() error {
	for round := 0; round < 6; round++ {
		for _, c := range w.clients {
			ex := w.syncClient(c)
			if ex == nil {
				continue
			}
			if err := exchangeProblem(c, ex); err != nil {
				return err
			}
		}
	}
	waitHandlers()
	return nil
}

func exchangeProblem(c *l1Client, ex *exchange) error {
	if ex.timedOut {
		return fmt.Errorf("client %d: the server did not answer the sync within %v", c.idx, l1Deadline)
	}
	if ex.rpcErr != nil {
		return fmt.Errorf("client %d: sync failed: %v", c.idx, ex.rpcErr)
	}
	for k, e := range ex.errPacks {
		return fmt.Errorf("client %d: server refused the sync of %s: %s", c.idx, k, e)
	}
	if ex.applyErr != nil {
		return fmt.Errorf("client %d: applying the response failed: %v", c.idx, ex.applyErr)
	}
	return nil
}

// serverCopy rebuilds the datatype the way the server does (latest snapshot + later operations).
func (w *l1World) serverCopy(k *l1Key) (iface.Datatype, uint64, error) {
	return cluster.LatestDatatype(w.env, w.col, k.Name)
}

func (w *l1World) checkConverged() error {
	for _, k := range w.keys {
		if !k.created || w.skipConverge[k.Name] {
			continue
		}
		log, _ := w.storedLog(k.duid)
		var ops []*model.Operation
		for _, so := range log {
			ops = append(ops, so.op)
		}
		st, err := refmodel.Compute(string(k.Kind), ops)
		if err != nil {
			return err
		}
		if len(st.Ignored) > 0 {
			return fmt.Errorf("key %s: the stored log is not a causal history: %v", k.Name, st.Ignored)
		}
		want := sim.Canon(st.JSON())
		// every read and the size, not only the JSON view: a fresh instance that replays the stored log is
		// the reference for those (the JSON view is compared with the reference model above it)
		replay, err := replayInstance(k, ops)
		if err != nil {
			return err
		}
		full := sim.Observe(k.Kind, replay, l1ReadKeys)
		if full.JSON != want {
			return fmt.Errorf("key %s: a fresh instance that replays the stored log differs from the state defined by its operations:\n  replay: %s\n  model:  %s", k.Name, full.JSON, want)
		}
		for _, c := range w.clients {
			d := c.dts[k.Name]
			if d == nil || !d.entered {
				continue
			}
			if got := sim.Canon(d.dt.(orda.Datatype).ToJSON()); got != want {
				return fmt.Errorf("key %s: client %d differs from the state defined by the stored log after everybody synced:\n  client: %s\n  log:    %s", k.Name, c.idx, got, want)
			}
			if got := sim.Observe(k.Kind, d.dt, l1ReadKeys); got != full {
				return fmt.Errorf("key %s: client %d has the JSON view of the stored log but its size or element reads differ from a replay of the log:\n  client: %s\n  replay: %s", k.Name, c.idx, got, full)
			}
		}
		srv, _, err := w.serverCopy(k)
		if err != nil {
			return fmt.Errorf("key %s: the server cannot rebuild the datatype: %v", k.Name, err)
		}
		if got := sim.Canon(srv.(orda.Datatype).ToJSON()); got != want {
			return fmt.Errorf("key %s: the state the server rebuilds differs from the stored log:\n  server: %s\n  log:    %s", k.Name, got, want)
		}
		if got := sim.Observe(k.Kind, srv, l1ReadKeys); got != full {
			return fmt.Errorf("key %s: the state the server rebuilds has the JSON view of the stored log but its size or element reads differ from a replay of the log:\n  server: %s\n  replay: %s", k.Name, got, full)
		}
	}
	return nil
}

// l1ReadKeys are the keys whose reads are compared (every key the generators use).
var l1ReadKeys = append(append([]string{}, keyPoolPlain...), keyPoolHostile...)

// replayInstance feeds operations (a causal log prefix) to a fresh instance, as a new subscriber
// or the server's rebuild without any snapshot would.
func replayInstance(k *l1Key, ops []*model.Operation) (iface.Datatype, error) {
	_, fresh := (&sim.World{Kind: k.Kind, Key: k.Name}).NewInstance("replay", false)
	var perr interface{}
	var derr error
	func() {
		defer func() { perr = recover() }()
		_, e := fresh.ReceiveRemoteModelOperations(cloneOps(ops, 0), false)
		if e != nil {
			derr = e
		}
	}()
	if perr != nil || derr != nil {
		return nil, fmt.Errorf("key %s: a fresh instance cannot replay the stored log: error=%v panic=%v", k.Name, derr, perr)
	}
	return fresh, nil
}

// checkCheckpoints: a client's checkpoint never moves backwards.
func (w *l1World) checkCheckpoints() error {
	for _, c := range w.clients {
		for _, d := range c.dts {
			cp := d.dt.CreatePushPullPack().CheckPoint
			pending := uint64(len(d.dt.CreatePushPullPack().Operations))
			cur := &model.CheckPoint{Sseq: cp.Sseq, Cseq: cp.Cseq - pending}
			if d.entered && d.mode != "create" && d.lastCP.Sseq == 0 && d.lastCP.Cseq == 0 {
				d.lastCP = cur
				continue
			}
			if cur.Sseq < d.lastCP.Sseq || cur.Cseq < d.lastCP.Cseq {
				return fmt.Errorf("client %d key %s: checkpoint moved backwards from (s:%d c:%d) to (s:%d c:%d)", c.idx, d.key.Name, d.lastCP.Sseq, d.lastCP.Cseq, cur.Sseq, cur.Cseq)
			}
			d.lastCP = cur
		}
	}
	return nil
}

// genLocalCall draws a valid-biased local call for a datatype (reuses the L0 generators).
func genLocalCall(rt *rapid.T, kind sim.Kind, dt iface.Datatype, conflict bool) sim.Call {
	m := &l0Machine{cfg: l0Config{Kind: kind, Conflict: conflict}, labels: map[string]bool{}, mapKeys: map[string]bool{}}
	m.w = &sim.World{Kind: kind, Reps: []*sim.Replica{{DT: dt}}}
	var view interface{}
	if kind == sim.Document {
		view = sim.Normalize(dt.(orda.Document).GetValue())
	}
	c := m.genCall(rt, 0, view)
	if isOpen("S38") && (kind == sim.Map || kind == sim.Document) && len(c.Path) == 0 && (c.Key == "_id" || c.Key == "_orda_ver_") {
		// known finding S38: a top-level member with one of the two names the server writes into the
		// user-visible document itself. Excluded by construction (the member is called "a" instead) and
		// counted; TestC11KnownS38 re-demonstrates the finding.
		c.Key = "a"
		s38Excluded++
	}
	return c
}

// s38Excluded counts the calls renamed because of known finding S38 since the last newL1World.
var s38Excluded int
