package props

import (
	"encoding/json"
	"fmt"
	"strings"
	"sync"
	"testing"
	"time"

	ordaerrors "github.com/orda-io/orda/client/pkg/errors"
	"github.com/orda-io/orda/client/pkg/iface"
	"github.com/orda-io/orda/client/pkg/model"
	"github.com/orda-io/orda/client/pkg/orda"
	"google.golang.org/protobuf/proto"
	"pgregory.net/rapid"
	"verif/cluster"
	"verif/fakemqtt"
	"verif/refmodel"
	"verif/sim"
	"verif/stats"
)

// TestC18Notify: every request that stored operations is announced exactly once, with the right
// topic and payload; pull-only requests publish nothing.
func TestC18Notify(t *testing.T) {
	col := stats.New("C18", t.Name(),
		"generated client/server histories (C05/C06 generators incl. bursts, empty pushes, several keys per message) against the real server whose notifier talks to an in-process MQTT broker that records every publish; publishes are matched by content: every request that stored >=1 operation of a datatype expects exactly one publish {CUID = pusher, DUID = the datatype, sseq = new end of its log} on topic <collection>/<key> (it must arrive within 30 s; the server publishes with QoS 0 after the response), "+
			"every publish must consume one such expectation - a publish by a pull-only sync, a duplicate, or a wrong end of log has none; REST patches of existing documents are mixed in (a push by the endpoint's own client: one publish, carrying an id that is not the id of any registered client); "+
			"non-trivial = the history mixes pushing and pull-only syncs of >=2 clients; distinct = hash of the action sequence")
	checkProp(t, "C18", col, func(c *caseCtx) {
		rt := c.rt
		nk := rapid.IntRange(1, 3).Draw(rt, "keys")
		var kinds []sim.Kind
		for i := 0; i < nk; i++ {
			kinds = append(kinds, kindFromDraw(rt))
		}
		idseed := rapid.Uint64Range(1, 1<<40).Draw(rt, "idseed")
		dep := drawDeployment(rt)
		w, err := newL1World(idseed, kinds)
		if err != nil {
			c.failf("HARNESS-ERROR: %v", err)
		}
		defer w.close()
		w.noConverge = true
		c.j.Header = map[string]interface{}{"kinds": kinds, "id_seed": idseed, "deployment": dep}
		var canon strings.Builder
		pushing, pullOnly := map[int]bool{}, map[int]bool{}
		logLens := func() map[string]int64 {
			m := map[string]int64{}
			for _, dd := range w.datatypeDocs() {
				m[bstr(bget(dd, "_id"))] = bint(bget(dd, "sseq", "end"))
			}
			return m
		}
		keyOf := func(duid string) string {
			for _, dd := range w.datatypeDocs() {
				if bstr(bget(dd, "_id")) == duid {
					return bstr(bget(dd, "key"))
				}
			}
			return ""
		}
		// The server publishes with QoS 0 from its post-response goroutine: the broker may see a publish
		// some time after the request returned. Publishes are therefore matched by content, not by the
		// moment they arrive: every storing request adds (datatype, new end of log) to the expected set,
		// every publish must take exactly one expected entry (anything else - pull-only syncs that publish,
		// duplicates, wrong end of log - names an entry that is not there), and expected entries must
		// arrive within a generous deadline.
		type expect struct {
			cuid, topic, by string
		}
		expected := map[string]expect{} // "duid:sseq" -> who / where
		consumed := 0
		drain := func(deadline time.Duration) {
			dl := time.Now().Add(deadline)
			for {
				pubs := w.env.MQTT.Publishes()
				for ; consumed < len(pubs); consumed++ {
					p := pubs[consumed]
					var n model.Notification
					if err := json.Unmarshal(p.Payload, &n); err != nil {
						c.failf("notification payload is not JSON: %q", p.Payload)
					}
					key := fmt.Sprintf("%s:%d", n.DUID, n.Sseq)
					e, ok := expected[key]
					if !ok {
						c.failf("a notification {datatype %s, sseq %d, cuid %s} on topic %q was published although no request stored operations up to that end of the log (pull-only sync, duplicate, or wrong sseq); outstanding: %v", n.DUID, n.Sseq, n.CUID, p.Topic, expected)
					}
					if e.cuid == "" {
						// a REST patch is pushed by the endpoint's own pseudo-client: the announcement must not carry
						// the id of any real client (that client would take it for its own and not pull)
						if n.CUID == "" || knownCUIDs[n.CUID] {
							c.failf("notification for %s (%s) carries CUID %q: empty, or the id of a registered client that did not push this", key, e.by, n.CUID)
						}
					} else if n.CUID != e.cuid {
						c.failf("notification for %s carries CUID %s, the pusher (%s) is %s", key, n.CUID, e.by, e.cuid)
					}
					if p.Topic != e.topic {
						c.failf("notification for %s published on topic %q, want %q", key, p.Topic, e.topic)
					}
					delete(expected, key)
				}
				if len(expected) == 0 || time.Now().After(dl) {
					return
				}
				time.Sleep(200 * time.Microsecond)
			}
		}
		run := func(a l1Action) {
			c.j.add(a)
			canon.WriteString(a.String() + ";")
			if a.K != "sync" {
				if err := w.applyL1(a); err != nil {
					c.failf("%s: %v", a, err)
				}
				return
			}
			cl := w.clients[a.C]
			before := logLens()
			if err := w.applyL1(a); err != nil {
				c.failf("%s: %v", a, err)
			}
			after := logLens()
			stored := 0
			for duid, end := range after {
				if end > before[duid] {
					stored++
					expected[fmt.Sprintf("%s:%d", duid, end)] = expect{cuid: cl.pc.CUID(), topic: w.col + "/" + keyOf(duid), by: a.String()}
				}
			}
			if stored > 0 {
				pushing[a.C] = true
			} else if len(cl.dts) > 0 {
				pullOnly[a.C] = true
			}
			drain(30 * time.Second)
			if len(expected) > 0 {
				c.failf("%s stored operations but these notifications were not published within 30 s: %v", a, expected)
			}
		}
		for _, a := range genPrelude(rt, w, 3) {
			run(a)
		}
		// a push through the REST patch endpoint is a push like any other: it stores operations under the
		// endpoint's own client id and has to be announced on the document's topic
		patches, patchPublishes := 0, 0
		patch := func(k *l1Key, i int) {
			patchesHappened = true
			js := fmt.Sprintf(`{"p":%d,"q":{"r":[%d]}}`, i, i)
			c.j.add(map[string]interface{}{"k": "rest-patch", "key": k.Name, "json": js})
			canon.WriteString("patch(" + k.Name + ");")
			before := logLens()
			resp, err, timedOut := w.env.PatchDocument(&model.PatchMessage{Collection: w.col, Key: k.Name, Json: js}, l1Deadline)
			if timedOut || err != nil || resp == nil {
				c.failf("REST patch of %s: timeout=%v err=%v", k.Name, timedOut, err)
			}
			patches++
			w.env.WaitBackground(5 * time.Second)
			for duid, end := range logLens() {
				if end > before[duid] {
					patchPublishes++
					expected[fmt.Sprintf("%s:%d", duid, end)] = expect{cuid: "", topic: w.col + "/" + keyOf(duid), by: "REST patch of " + k.Name}
				}
			}
			drain(30 * time.Second)
			if len(expected) > 0 {
				c.failf("a REST patch stored operations but these notifications were not published within 30 s: %v", expected)
			}
		}
		n := rapid.IntRange(3, 30).Draw(rt, "steps")
		for i := 0; i < n; i++ {
			var docKeys []*l1Key
			for _, k := range w.keys {
				if k.Kind == sim.Document && k.created {
					docKeys = append(docKeys, k)
				}
			}
			if len(docKeys) > 0 && rapid.IntRange(0, 7).Draw(rt, "rest_patch") == 0 {
				patch(docKeys[rapid.IntRange(0, len(docKeys)-1).Draw(rt, "patch_key")], i)
				continue
			}
			a := genL1Action(rt, w, 4)
			if a.K == "settle" {
				a = l1Action{K: "sync", C: a.C}
			}
			run(a)
		}
		// trailing publishes (a pull-only last request that publishes) get some time to show up
		w.env.WaitBackground(5 * time.Second)
		time.Sleep(3 * time.Millisecond)
		drain(0)
		both := 0
		for ci := range pushing {
			if pullOnly[ci] {
				both++
			}
		}
		nlabels := []string{fmt.Sprintf("pushers=%d", len(pushing)), dep}
		if patchPublishes > 0 {
			nlabels = append(nlabels, "rest-patch-that-stored-operations")
		}
		col.Case(len(pushing) >= 2 && len(pullOnly) >= 1, canon.String(), nlabels, func() interface{} {
			return map[string]interface{}{"kinds": kinds, "actions": canon.String(), "publishes": len(w.env.MQTT.Publishes())}
		})
	})
}

// ---------------------------------------------------------------------------------------------
// (b) realtime clients converge by themselves

type c18Op struct {
	C     int      `json:"c"`
	Call  sim.Call `json:"call"`
	Sleep int      `json:"sleep_us"`
	// Tx: the call is made inside a user transaction whose function then pauses TxSleep microseconds (syncs of
	// the client begin and end meanwhile) and, with TxFail, returns an error (the transaction is rolled back)
	Tx      bool `json:"tx,omitempty"`
	TxSleep int  `json:"tx_sleep_us,omitempty"`
	TxFail  bool `json:"tx_fail,omitempty"`
}

// c18ExecTx runs one call inside a user transaction of a real client's datatype.
func c18ExecTx(kind sim.Kind, dt interface{}, op c18Op) (res sim.Result) {
	body := func(view interface{}) error {
		res = sim.Exec(kind, view, op.Call)
		if res.Panic != nil {
			panic(res.Panic)
		}
		if op.TxSleep > 0 {
			time.Sleep(time.Duration(op.TxSleep) * time.Microsecond)
		}
		if op.TxFail {
			return fmt.Errorf("generated failure")
		}
		return nil
	}
	defer func() {
		if p := recover(); p != nil {
			res = sim.Result{Panic: p}
		}
	}()
	switch kind {
	case sim.Counter:
		_ = dt.(orda.Counter).Transaction("t", func(c orda.CounterInTx) error { return body(c) })
	case sim.Map:
		_ = dt.(orda.Map).Transaction("t", func(c orda.MapInTx) error { return body(c) })
	case sim.List:
		_ = dt.(orda.List).Transaction("t", func(c orda.ListInTx) error { return body(c) })
	default:
		_ = dt.(orda.Document).Transaction("t", func(c orda.DocumentInTx) error { return body(c) })
	}
	return res
}

type c18Workload struct {
	Kind    sim.Kind `json:"kind"`
	Clients int      `json:"clients"`
	Ops     []c18Op  `json:"ops"`
	FwdMax  int      `json:"forward_delay_max_us"`
	RPCMax  int      `json:"rpc_delay_max_us,omitempty"`
	// LoseAnswers: the answers to the first n push-pull requests (the creator's entry) are lost on their way back
	LoseAnswers int `json:"lose_first_answers,omitempty"`
	// SubDelay: the broker takes this long before a SUBSCRIBE is in force and acknowledged; the harness then
	// does not wait for the broker either: the operations start as soon as the last client reports SUBSCRIBED
	SubDelay int    `json:"subscribe_delay_us,omitempty"`
	IDSeed   uint64 `json:"id_seed"`
	// SideOps > 0: every client also holds a second datatype (a counter under another key). Before the workload
	// client 0 increases it SideOps times, after the workload the last client increases it once more: the logs of
	// the two datatypes have different lengths, and each is numbered from 1
	SideOps int `json:"side_counter_ops,omitempty"`
	// SideLate: clients 1.. open their second datatype right after issuing an operation on the first one, i.e.
	// while the sync of that operation is in flight (RPCMax should be > 0)
	SideLate bool `json:"side_opened_during_a_sync,omitempty"`
}

type rtClient struct {
	cl        orda.Client
	dt        iface.Datatype
	side      iface.Datatype // second datatype of the client (nil unless the workload has SideOps)
	mu        sync.Mutex
	subs      int
	errs      []string
	remoteOps int
}

func (r *rtClient) handlers() *orda.Handlers {
	return orda.NewHandlers(
		func(dt orda.Datatype, old, nw model.StateOfDatatype) {
			r.mu.Lock()
			if nw == model.StateOfDatatype_SUBSCRIBED {
				r.subs++
			}
			r.mu.Unlock()
		},
		func(dt orda.Datatype, ops []interface{}) {
			r.mu.Lock()
			r.remoteOps += len(ops)
			r.mu.Unlock()
		},
		func(dt orda.Datatype, errs ...ordaerrors.OrdaError) {
			r.mu.Lock()
			for _, e := range errs {
				r.errs = append(r.errs, firstLineOf(e.Error()))
			}
			r.mu.Unlock()
		})
}

func (r *rtClient) subscribed() bool {
	r.mu.Lock()
	defer r.mu.Unlock()
	return r.subs > 0
}

func openRealtime(cl orda.Client, kind sim.Kind, key string, create bool, h *orda.Handlers) iface.Datatype {
	var v interface{}
	switch kind {
	case sim.Counter:
		if create {
			v = cl.CreateCounter(key, h)
		} else {
			v = cl.SubscribeCounter(key, h)
		}
	case sim.Map:
		if create {
			v = cl.CreateMap(key, h)
		} else {
			v = cl.SubscribeMap(key, h)
		}
	case sim.List:
		if create {
			v = cl.CreateList(key, h)
		} else {
			v = cl.SubscribeList(key, h)
		}
	default:
		if create {
			v = cl.CreateDocument(key, h)
		} else {
			v = cl.SubscribeDocument(key, h)
		}
	}
	return v.(iface.Datatype)
}

// c18Run executes a realtime workload; quiescent=false means the budget ran out (inconclusive).
func c18Run(wl c18Workload) (quiescent bool, calls map[string]int, err error) {
	kinds := []sim.Kind{wl.Kind}
	if wl.SideOps > 0 {
		kinds = append(kinds, sim.Counter)
	}
	w, e := newL1World(wl.IDSeed, kinds)
	if e != nil {
		return false, nil, fmt.Errorf("HARNESS-ERROR: %v", e)
	}
	defer w.close()
	k := w.keys[0]
	calls = map[string]int{}
	var cmu sync.Mutex
	ncall := 0
	w.env.SetGRPCHook(func(method string, req proto.Message) bool {
		if m, ok := req.(*model.PushPullMessage); ok {
			cmu.Lock()
			calls[m.Cuid]++
			ncall++
			n := ncall
			cmu.Unlock()
			if wl.RPCMax > 0 {
				// a slow network: requests stay in flight while further operations and notifications arrive
				time.Sleep(time.Duration((n*104729)%(wl.RPCMax+1)) * time.Microsecond)
			}
			if n <= wl.LoseAnswers {
				return true // handled by the server, the answer never arrives
			}
		}
		return false
	})
	if wl.SubDelay > 0 {
		w.env.MQTT.SetSubscribeDelay(time.Duration(wl.SubDelay) * time.Microsecond)
	}
	if wl.FwdMax > 0 {
		n := 0
		w.env.MQTT.SetForwardDelay(func(p fakemqtt.Publish) time.Duration {
			n++
			return time.Duration((n*7919)%(wl.FwdMax+1)) * time.Microsecond
		})
	}
	var cls []*rtClient
	defer func() {
		for _, r := range cls {
			r := r
			// Close() waits for the notification loop: it never returns when that loop is blocked
			watchdog(3*time.Second, func() { _ = r.cl.Close() })
		}
	}()
	for i := 0; i < wl.Clients; i++ {
		cl, e := w.env.NewRealClient(w.col, fmt.Sprintf("rt%d", i), model.SyncType_REALTIME)
		if e != nil {
			return false, calls, fmt.Errorf("HARNESS-ERROR: %v", e)
		}
		if e := cl.Connect(); e != nil {
			return false, calls, fmt.Errorf("HARNESS-ERROR: connect: %v", e)
		}
		r := &rtClient{cl: cl}
		cls = append(cls, r)
		r.dt = openRealtime(cl, wl.Kind, k.Name, i == 0, r.handlers())
		if !waitUntil(5*time.Second, r.subscribed) {
			return false, calls, fmt.Errorf("realtime client %d never became subscribed by itself (errors: %v)", i, r.errs)
		}
		if wl.SubDelay == 0 {
			waitUntil(2*time.Second, func() bool { return w.env.MQTT.Subscribers(w.col+"/"+k.Name) >= i+1 })
		}
		if wl.SideOps > 0 {
			sk := w.keys[1]
			if wl.SideLate && i > 0 {
				call := c06CheapCall(wl.Kind, 8000+i)
				if wl.Kind == sim.Counter {
					call = c07Op(wl.Kind, 8000+i)
				}
				if res := sim.Exec(wl.Kind, r.dt, call); res.Panic != nil {
					return false, calls, fmt.Errorf("local call on a realtime client panicked: %v", res.Panic)
				}
				time.Sleep(time.Duration(100*i) * time.Microsecond)
			}
			r.side = openRealtime(cl, sim.Counter, sk.Name, i == 0, r.handlers())
			if !waitUntil(5*time.Second, func() bool { return r.side.GetState() == model.StateOfDatatype_SUBSCRIBED }) {
				return false, calls, fmt.Errorf("realtime client %d: its second datatype never became subscribed by itself (errors: %v)", i, r.errs)
			}
			waitUntil(2*time.Second, func() bool { return w.env.MQTT.Subscribers(w.col+"/"+sk.Name) >= i+1 })
		}
	}
	// stuck: nothing is active any more (no call in flight, no notification queued, no background work, no
	// goroutine of the client inside or about to enter a sync) for 3 s, but a client still holds an
	// operation it has not pushed. The client library has no timers: nobody is ever going to push it.
	stuck := -1
	blockedNotify := false
	quiesce := func() bool {
		stable := 0
		var idleSince time.Time
		return waitUntil(12*time.Second, func() bool {
			// (a goroutine that sits in ReceiveNotification without being inside a sync is waiting for the sync
			// semaphore; its holder is inside syncPushPullPacks - or nobody is, and then it waits for ever)
			active := w.env.InFlight() > 0 || w.env.MQTT.QueuedForwards() > 0 || cluster.BackgroundBusy() ||
				stackContains("syncPushPullPacks") || stackContains("DeliverTransaction.func")
			unpushed := -1
			for i, r := range cls {
				if r.dt.NeedPush() || (r.side != nil && r.side.NeedPush()) {
					unpushed = i
				}
			}
			if unpushed < 0 && stackContains("ReceiveNotification") {
				// a notification is being handled but no sync is running: the handler is blocked
				blockedNotify = true
				unpushed = 0
			} else {
				blockedNotify = false
			}
			if active {
				stable, idleSince = 0, time.Time{}
				return false
			}
			if unpushed >= 0 {
				stable = 0
				if idleSince.IsZero() {
					idleSince = time.Now()
				}
				if time.Since(idleSince) > 3*time.Second {
					stuck = unpushed
					return true
				}
				return false
			}
			idleSince = time.Time{}
			stable++
			return stable > 40 // ~ 10 ms of calm
		})
	}
	stuckErr := func() error {
		r := cls[stuck]
		r.mu.Lock()
		errs := append([]string{}, r.errs...)
		r.mu.Unlock()
		if blockedNotify {
			return fmt.Errorf("a realtime client has been handling a notification for 3 s without any sync running (no call in flight, nothing queued): its notification handler is blocked for ever, later pushes of other clients will never be pulled (client errors: %v)", errs)
		}
		pack := r.dt.CreatePushPullPack()
		return fmt.Errorf("realtime client %d holds %d operation(s) that it never pushes: for 3 s no call was in flight, no notification queued and no sync pending, and the client library has no timer that would push later (client errors: %v)", stuck, len(pack.Operations), errs)
	}
	if wl.SubDelay == 0 {
		if !quiesce() {
			return false, calls, nil
		}
		if stuck >= 0 {
			return true, calls, stuckErr()
		}
	}
	for i := 0; i < wl.SideOps; i++ {
		if res := sim.Exec(sim.Counter, cls[0].side, sim.Call{M: "Increase"}); res.Panic != nil || res.Err != nil {
			return false, calls, fmt.Errorf("HARNESS-ERROR: increase of the second datatype: %v %v", res.Err, res.Panic)
		}
		time.Sleep(200 * time.Microsecond)
	}
	for i, op := range wl.Ops {
		if op.C < 0 {
			// a push through the REST patch endpoint: announced like any other push, the realtime clients have
			// to pull it by themselves
			js := fmt.Sprintf(`{"patched":%d,"b0":"p"}`, i)
			if _, err, to := w.env.PatchDocument(&model.PatchMessage{Collection: w.col, Key: k.Name, Json: js}, l1Deadline); err != nil || to {
				return false, calls, fmt.Errorf("REST patch during the realtime workload: err=%v timeout=%v", err, to)
			}
			if op.Sleep > 0 {
				time.Sleep(time.Duration(op.Sleep) * time.Microsecond)
			}
			continue
		}
		r := cls[op.C%len(cls)]
		var res sim.Result
		if op.Tx {
			res = c18ExecTx(wl.Kind, r.dt, op)
		} else {
			res = sim.Exec(wl.Kind, r.dt, op.Call)
		}
		if res.Panic != nil {
			return false, calls, fmt.Errorf("local call on a realtime client panicked: %v at %s", res.Panic, res.Stack)
		}
		if op.Sleep > 0 {
			time.Sleep(time.Duration(op.Sleep) * time.Microsecond)
		}
	}
	if wl.SideOps > 0 {
		if !quiesce() {
			return false, calls, nil
		}
		if res := sim.Exec(sim.Counter, cls[len(cls)-1].side, sim.Call{M: "Increase"}); res.Panic != nil || res.Err != nil {
			return false, calls, fmt.Errorf("HARNESS-ERROR: increase of the second datatype: %v %v", res.Err, res.Panic)
		}
	}
	if !quiesce() {
		return false, calls, nil
	}
	if stuck >= 0 {
		return true, calls, stuckErr()
	}
	if wl.SideOps > 0 {
		for i, r := range cls {
			if got, want := sim.Canon(r.side.(orda.Datatype).ToJSON()), sim.Canon(map[string]interface{}{"Counter": float64(wl.SideOps + 1)}); got != want {
				return true, calls, fmt.Errorf("the system is quiescent but the second datatype of realtime client %d (a counter increased %d times by client 0 and once by client %d) shows %s", i, wl.SideOps, len(cls)-1, got)
			}
		}
	}
	// quiescent => converged
	log, _ := w.storedLogByKey(k.Name)
	var ops []*model.Operation
	for _, so := range log {
		ops = append(ops, so.op)
	}
	st, e2 := refmodel.Compute(string(wl.Kind), ops)
	if e2 != nil {
		return true, calls, e2
	}
	want := sim.Canon(st.JSON())
	for i, r := range cls {
		r.mu.Lock()
		errs := append([]string{}, r.errs...)
		r.mu.Unlock()
		if got := sim.Canon(r.dt.(orda.Datatype).ToJSON()); got != want {
			return true, calls, fmt.Errorf("the system is quiescent (no call in flight, no notification queued, nothing to push) but realtime client %d differs from the stored log:\n  client: %s\n  log:    %s\n  client errors: %v", i, got, want, errs)
		}
	}
	return true, calls, nil
}

// storedLogByKey finds the datatype of a key in this world's collection and returns its log.
func (w *l1World) storedLogByKey(key string) ([]storedOp, error) {
	for _, dd := range w.datatypeDocs() {
		if bstr(bget(dd, "key")) == key {
			return w.storedLog(bstr(bget(dd, "_id")))
		}
	}
	return nil, nil
}

func testC18Realtime(t *testing.T, kind sim.Kind) {
	col := stats.New("C18", t.Name(),
		"2-4 REAL clients in REALTIME mode (gRPC on loopback through a proxy, MQTT through the in-process broker with drawn forward delays); after each has subscribed by itself they only perform drawn local operations at drawn pauses (a fifth of them inside a user transaction that stays open 0-12 ms and fails in half of the cases) - no Sync call (document workloads also contain REST patches of the document: pushes by the server's own client that the realtime clients have to pull by themselves); "+
			"the harness waits for quiescence (no RPC in flight, no notification queued, no background work, nothing to push, calm for ~10 ms) and then requires every client = refmodel(stored log); an operation that stays unpushed while nothing at all is active for 3 s is a violation (the client library has no timers, nobody will push it); otherwise not reaching quiescence within 12 s makes the case inconclusive (skipped, counted), never a violation; "+
			"non-trivial = >=2 clients issued operations; distinct = hash of the workload (the schedule is sampled, not controlled)")
	col.Assume("schedule coverage is sampled; convergence is checked in its safety form quiescent => converged")
	checkProp(t, "C18", col, func(c *caseCtx) {
		rt := c.rt
		wl := c18Workload{Kind: kind, Clients: rapid.IntRange(2, 4).Draw(rt, "clients"), FwdMax: rapid.SampledFrom([]int{0, 200, 2000}).Draw(rt, "fwd"),
			RPCMax: rapid.SampledFrom([]int{0, 0, 1000, 10000}).Draw(rt, "rpcdelay"),
			IDSeed: rapid.Uint64Range(1, 1<<40).Draw(rt, "idseed")}
		// a third of the workloads: every client holds a second datatype whose log has another length
		wl.SideOps = rapid.SampledFrom([]int{0, 0, 2, 12}).Draw(rt, "side_ops")
		n := rapid.IntRange(1, 25).Draw(rt, "ops")
		issuers := map[int]bool{}
		patches, txs := 0, 0
		for i := 0; i < n; i++ {
			ci := rapid.IntRange(0, wl.Clients-1).Draw(rt, "c")
			issuers[ci] = true
			call := c06CheapCall(kind, i)
			switch {
			case kind == sim.Counter:
				call = c07Op(kind, i)
			case kind == sim.Map && rapid.IntRange(0, 3).Draw(rt, "rm") == 0:
				// few keys, so that puts and removes of different clients meet on one key
				call = sim.Call{M: "Remove", Key: fmt.Sprintf("b%d", rapid.IntRange(0, 2).Draw(rt, "rmkey"))}
			case kind == sim.Map:
				call = sim.Call{M: "Put", Key: fmt.Sprintf("b%d", rapid.IntRange(0, 2).Draw(rt, "putkey")), Vals: []sim.Val{sim.I(int64(i))}}
			case kind == sim.Document && rapid.IntRange(0, 3).Draw(rt, "rm") == 0:
				call = sim.Call{M: "DeleteInObject", Key: fmt.Sprintf("b%d", rapid.IntRange(0, 2).Draw(rt, "rmkey"))}
			case kind == sim.Document:
				v := sim.I(int64(i))
				if rapid.Bool().Draw(rt, "nested") {
					v = sim.Obj(sim.KV{K: "n", V: sim.Arr(sim.I(int64(i)))})
				}
				call = sim.Call{M: "PutToObject", Key: fmt.Sprintf("b%d", rapid.IntRange(0, 2).Draw(rt, "putkey")), Vals: []sim.Val{v}}
			}
			if kind == sim.Document && rapid.IntRange(0, 7).Draw(rt, "rest_patch") == 0 {
				ci = -1 // a REST patch of the document instead of a client operation
				patches++
			}
			op := c18Op{C: ci, Call: call, Sleep: rapid.SampledFrom([]int{0, 0, 100, 1000, 3000}).Draw(rt, "sleep")}
			if ci >= 0 && rapid.IntRange(0, 4).Draw(rt, "in_tx") == 0 {
				// inside a user transaction that stays open for a while and may fail (nothing of it is pushed then,
				// but whatever the client issued before still has to be)
				op.Tx, op.TxSleep, op.TxFail = true, rapid.SampledFrom([]int{0, 500, 3000, 12000}).Draw(rt, "tx_sleep"), rapid.Bool().Draw(rt, "tx_fail")
				txs++
			}
			wl.Ops = append(wl.Ops, op)
		}
		c.j.Header = wl
		q, _, err := c18Run(wl)
		if err != nil {
			if strings.Contains(err.Error(), "HARNESS-ERROR") {
				rt.Skip(err.Error())
			}
			c.failf("%v", err)
		}
		if !q {
			col.Label("no-quiescence-within-budget")
			rt.Skip("no quiescence")
		}
		b, _ := json.Marshal(wl)
		rl := []string{"kind=" + string(kind), fmt.Sprintf("clients=%d", wl.Clients)}
		if patches > 0 {
			rl = append(rl, "rest-patch-during-the-workload")
		}
		if txs > 0 {
			rl = append(rl, "user-transactions(open-for-a-while,some-fail)")
		}
		if wl.SideOps > 0 {
			rl = append(rl, "clients-hold-two-datatypes")
		}
		col.Case(len(issuers) >= 2, string(b), rl, func() interface{} { return wl })
	})
}

func TestC18RealtimeCounter(t *testing.T) { testC18Realtime(t, sim.Counter) }
func TestC18RealtimeList(t *testing.T)    { testC18Realtime(t, sim.List) }
func TestC18RealtimeMap(t *testing.T)     { testC18Realtime(t, sim.Map) }
func TestC18RealtimeDocument(t *testing.T) {
	testC18Realtime(t, sim.Document)
}

// TestC18OwnNotifications: a realtime client does not sync because of notifications it caused.
func TestC18OwnNotifications(t *testing.T) {
	col := stats.New("C18", t.Name(),
		"one REAL realtime client alone on a key performs n local operations, waiting for quiescence after each; every push causes a notification that is forwarded back to it; oracle: the number of push-pull requests it sent is exactly n + 1 (entry + one per operation), i.e. no request was caused by its own notifications; non-trivial = n >= 2; distinct = n and delays")
	checkProp(t, "C18", col, func(c *caseCtx) {
		rt := c.rt
		n := rapid.IntRange(1, 6).Draw(rt, "n")
		wl := c18Workload{Kind: sim.Counter, Clients: 1, IDSeed: rapid.Uint64Range(1, 1<<30).Draw(rt, "idseed"), FwdMax: rapid.SampledFrom([]int{0, 500}).Draw(rt, "fwd")}
		for i := 0; i < n; i++ {
			wl.Ops = append(wl.Ops, c18Op{C: 0, Call: c07Op(sim.Counter, i), Sleep: 30000})
		}
		c.j.Header = wl
		q, calls, err := c18Run(wl)
		if err != nil {
			c.failf("%v", err)
		}
		if !q {
			rt.Skip("no quiescence")
		}
		total := 0
		for _, v := range calls {
			total += v
		}
		if total > n+1 {
			c.failf("a lone realtime client sent %d push-pull requests for its entry and %d operations: %d of them were caused by its own notifications", total, n, total-n-1)
		}
		col.Case(n >= 2, fmt.Sprint(n, wl.FwdMax, wl.IDSeed), nil, func() interface{} { return map[string]interface{}{"ops": n, "requests": total} })
	})
}

// TestC18LateJoiner: a push that is announced right after another realtime client completed its
// first sync must reach that client, however slow the broker is in acknowledging subscriptions.
func TestC18LateJoiner(t *testing.T) {
	col := stats.New("C18", t.Name(),
		"2-4 REAL realtime clients subscribe one after the other to a Counter / List while the broker takes 0.5-50 ms (drawn) to put a SUBSCRIBE into force and acknowledge it; as soon as the LAST client reports SUBSCRIBED (its first sync is complete) 1-3 operations are issued by the first client without any pause and nothing else happens afterwards; "+
			"oracle: at quiescence every client = refmodel(stored log) - an announcement published while a subscription was not yet in force would be lost for good; "+
			"non-trivial = the broker delay is >= 5 ms (longer than a push takes); distinct = the workload")
	checkProp(t, "C18", col, func(c *caseCtx) {
		rt := c.rt
		kind := []sim.Kind{sim.Counter, sim.List}[rapid.IntRange(0, 1).Draw(rt, "kind")]
		wl := c18Workload{Kind: kind, Clients: rapid.IntRange(2, 4).Draw(rt, "clients"), IDSeed: rapid.Uint64Range(1, 1<<30).Draw(rt, "idseed"),
			SubDelay: rapid.SampledFrom([]int{500, 5000, 20000, 50000}).Draw(rt, "subdelay")}
		n := rapid.IntRange(1, 3).Draw(rt, "ops")
		for i := 0; i < n; i++ {
			call := c06CheapCall(kind, i)
			if kind == sim.Counter {
				call = c07Op(kind, i)
			}
			wl.Ops = append(wl.Ops, c18Op{C: 0, Call: call})
		}
		c.j.Header = wl
		q, _, err := c18Run(wl)
		if err != nil {
			if strings.Contains(err.Error(), "HARNESS-ERROR") {
				rt.Skip(err.Error())
			}
			c.failf("%v", err)
		}
		if !q {
			col.Label("no-quiescence-within-budget")
			rt.Skip("no quiescence")
		}
		b, _ := json.Marshal(wl)
		col.Case(wl.SubDelay >= 5000, string(b), []string{"kind=" + string(kind), fmt.Sprintf("subscribe-delay-us=%d", wl.SubDelay)}, func() interface{} { return wl })
	})
}

// TestC18OpenTransaction: operations issued while a sync of the realtime client is in flight are pushed by the
// follow-up sync that the running one starts when it ends. Here a user transaction is open at that moment -
// and is rolled back afterwards in half of the cases, so that nothing later comes to the rescue.
func TestC18OpenTransaction(t *testing.T) {
	col := stats.New("C18", t.Name(),
		"2-3 REAL realtime clients on a Counter / Map / List / Document; RPCs take 1-5 ms (drawn); client 0 issues 2-4 operations without any pause (the first starts a sync, the others find it in flight) and at once opens a user transaction with one more call that stays open 8-25 ms - across the end of that sync - and then commits or fails (drawn); nothing else happens; "+
			"oracle: at quiescence every client = refmodel(stored log), and an operation that stays unpushed while nothing is active is a violation (as in TestC18Realtime*); non-trivial = the transaction fails; distinct = the drawn parameters")
	col.Assume("schedule coverage is sampled; convergence is checked in its safety form quiescent => converged")
	checkProp(t, "C18", col, func(c *caseCtx) {
		rt := c.rt
		kind := kindFromDraw(rt)
		wl := c18Workload{Kind: kind, Clients: rapid.IntRange(2, 3).Draw(rt, "clients"), IDSeed: rapid.Uint64Range(1, 1<<40).Draw(rt, "idseed"),
			RPCMax: rapid.SampledFrom([]int{1000, 3000, 5000}).Draw(rt, "rpcdelay")}
		call := func(i int) sim.Call {
			if kind == sim.Counter {
				return c07Op(kind, i)
			}
			return c06CheapCall(kind, i)
		}
		n := rapid.IntRange(2, 4).Draw(rt, "quick_ops")
		for i := 0; i < n; i++ {
			wl.Ops = append(wl.Ops, c18Op{C: 0, Call: call(i)})
		}
		fail := rapid.Bool().Draw(rt, "tx_fail")
		wl.Ops = append(wl.Ops, c18Op{C: 0, Call: call(n), Tx: true, TxSleep: rapid.SampledFrom([]int{8000, 15000, 25000}).Draw(rt, "tx_open_us"), TxFail: fail})
		c.j.Header = wl
		q, _, err := c18Run(wl)
		if err != nil {
			if strings.Contains(err.Error(), "HARNESS-ERROR") {
				rt.Skip(err.Error())
			}
			c.failf("%v", err)
		}
		if !q {
			col.Label("no-quiescence-within-budget")
			rt.Skip("no quiescence")
		}
		b, _ := json.Marshal(wl)
		col.Case(fail, string(b), []string{"kind=" + string(kind), fmt.Sprintf("tx-fails=%v", fail)}, func() interface{} { return wl })
	})
}

// TestC18SecondDatatypeWhileSyncing: a realtime client opens (subscribes to) a second datatype while the sync of an
// operation on its first datatype is in flight: the second datatype has to become subscribed by itself all the same.
func TestC18SecondDatatypeWhileSyncing(t *testing.T) {
	col := stats.New("C18", t.Name(),
		"2-3 REAL realtime clients on a Counter / Map / List / Document; RPCs take up to 3-10 ms (drawn); client 0 creates a second datatype (a counter); every other client issues one operation on the first datatype and, 100-200 us later - the sync of that operation is in flight -, subscribes to the second one; then 0-3 operations by drawn clients; "+
			"oracle: every second datatype becomes subscribed by itself within 5 s; at quiescence every client = refmodel(stored log) for both datatypes (as in TestC18Realtime*); non-trivial = every case; distinct = hash of the workload")
	col.Assume("schedule coverage is sampled; convergence is checked in its safety form quiescent => converged")
	checkProp(t, "C18", col, func(c *caseCtx) {
		rt := c.rt
		kind := kindFromDraw(rt)
		wl := c18Workload{Kind: kind, Clients: rapid.IntRange(2, 3).Draw(rt, "clients"), IDSeed: rapid.Uint64Range(1, 1<<40).Draw(rt, "idseed"),
			RPCMax: rapid.SampledFrom([]int{3000, 6000, 10000}).Draw(rt, "rpcdelay"), SideOps: 2, SideLate: true}
		for i, n := 0, rapid.IntRange(0, 3).Draw(rt, "ops"); i < n; i++ {
			call := c06CheapCall(kind, i)
			if kind == sim.Counter {
				call = c07Op(kind, i)
			}
			wl.Ops = append(wl.Ops, c18Op{C: rapid.IntRange(0, wl.Clients-1).Draw(rt, "c"), Call: call, Sleep: rapid.SampledFrom([]int{0, 500}).Draw(rt, "sleep")})
		}
		c.j.Header = wl
		q, _, err := c18Run(wl)
		if err != nil {
			if strings.Contains(err.Error(), "HARNESS-ERROR") {
				rt.Skip(err.Error())
			}
			c.failf("%v", err)
		}
		if !q {
			col.Label("no-quiescence-within-budget")
			rt.Skip("no quiescence")
		}
		b, _ := json.Marshal(wl)
		col.Case(true, string(b), []string{"kind=" + string(kind), fmt.Sprintf("clients=%d", wl.Clients)}, func() interface{} { return wl })
	})
}

// TestC18LostEntryAnswer: the answer to a realtime client's entry request (create / subscribe-or-create) is lost;
// the client enters with its next request. From then on it is a realtime client like any other: it has to hear
// of the other clients' pushes by itself.
func TestC18LostEntryAnswer(t *testing.T) {
	col := stats.New("C18", t.Name(),
		"2-3 REAL realtime clients on a Counter / List; the answers to the first 1-2 push-pull requests (the entry of client 0, which creates the key) are lost after the server has handled them; once every client reports SUBSCRIBED, the OTHER clients issue 1-4 operations and client 0 none; "+
			"oracle: every client becomes subscribed by itself; at quiescence every client = refmodel(stored log) - client 0 included, which only gets there if it is notified; non-trivial = every case; distinct = the drawn parameters")
	col.Assume("schedule coverage is sampled; convergence is checked in its safety form quiescent => converged")
	checkProp(t, "C18", col, func(c *caseCtx) {
		rt := c.rt
		kind := []sim.Kind{sim.Counter, sim.List}[rapid.IntRange(0, 1).Draw(rt, "kind")]
		wl := c18Workload{Kind: kind, Clients: rapid.IntRange(2, 3).Draw(rt, "clients"), IDSeed: rapid.Uint64Range(1, 1<<40).Draw(rt, "idseed"),
			LoseAnswers: rapid.IntRange(1, 2).Draw(rt, "lost_answers")}
		for i, n := 0, rapid.IntRange(1, 4).Draw(rt, "ops"); i < n; i++ {
			call := c06CheapCall(kind, i)
			if kind == sim.Counter {
				call = c07Op(kind, i)
			}
			wl.Ops = append(wl.Ops, c18Op{C: 1 + rapid.IntRange(0, wl.Clients-2).Draw(rt, "c"), Call: call, Sleep: rapid.SampledFrom([]int{0, 500, 3000}).Draw(rt, "sleep")})
		}
		c.j.Header = wl
		q, _, err := c18Run(wl)
		if err != nil {
			if strings.Contains(err.Error(), "HARNESS-ERROR") {
				rt.Skip(err.Error())
			}
			c.failf("%v", err)
		}
		if !q {
			col.Label("no-quiescence-within-budget")
			rt.Skip("no quiescence")
		}
		b, _ := json.Marshal(wl)
		col.Case(true, string(b), []string{"kind=" + string(kind), fmt.Sprintf("lost-answers=%d", wl.LoseAnswers)}, func() interface{} { return wl })
	})
}
