package props

import (
	"fmt"
	"strings"
	"testing"

	"pgregory.net/rapid"
	"verif/sim"
	"verif/stats"
)

// l1Action is one step of a client/server history.
type l1Action struct {
	K    string    `json:"k"` // client | open | local | sync | settle
	C    int       `json:"c"`
	Key  int       `json:"key"`
	Mode string    `json:"mode,omitempty"`
	Call *sim.Call `json:"call,omitempty"`
	Tx   *sim.Tx   `json:"tx,omitempty"`
	N    int       `json:"n,omitempty"` // backlog: number of plain operations before the closing transaction
}

func (a l1Action) String() string {
	switch a.K {
	case "open":
		return fmt.Sprintf("c%d.%s(k%d)", a.C, a.Mode, a.Key)
	case "local":
		return fmt.Sprintf("c%d.k%d.%s", a.C, a.Key, a.Call)
	case "tx":
		return fmt.Sprintf("c%d.k%d.tx(fail_at=%d,%d calls)", a.C, a.Key, a.Tx.FailAt, len(a.Tx.Calls))
	case "backlog":
		return fmt.Sprintf("c%d.k%d.backlog(%d ops + tx of %d)", a.C, a.Key, a.N, len(a.Tx.Calls))
	}
	return fmt.Sprintf("%s(c%d)", a.K, a.C)
}

// genL1Action draws a well-formed action: entry modes are only used where they must succeed.
func genL1Action(rt *rapid.T, w *l1World, maxClients int) l1Action {
	if len(w.clients) == 0 {
		return l1Action{K: "client"}
	}
	ci := rapid.IntRange(0, len(w.clients)-1).Draw(rt, "client")
	c := w.clients[ci]
	x := rapid.IntRange(0, 99).Draw(rt, "action")
	switch {
	case x < 8 && len(w.clients) < maxClients:
		return l1Action{K: "client"}
	case x < 25:
		// open a key this client does not have yet, in a mode that is well-formed now
		ki := rapid.IntRange(0, len(w.keys)-1).Draw(rt, "key")
		k := w.keys[ki]
		if c.dts[k.Name] == nil {
			pendingCreate := false
			for _, o := range w.clients {
				if d := o.dts[k.Name]; d != nil && !d.entered {
					pendingCreate = true
				}
			}
			switch {
			case k.created:
				mode := rapid.SampledFrom([]string{"subscribe", "subscribe-or-create"}).Draw(rt, "mode")
				return l1Action{K: "open", C: ci, Key: ki, Mode: mode}
			case !pendingCreate:
				mode := rapid.SampledFrom([]string{"create", "subscribe-or-create"}).Draw(rt, "mode")
				return l1Action{K: "open", C: ci, Key: ki, Mode: mode}
			}
		}
		return l1Action{K: "sync", C: ci}
	case x < 70:
		// local operation on a datatype that is allowed to take one
		var names []int
		for i, k := range w.keys {
			d := c.dts[k.Name]
			if d == nil {
				continue
			}
			// subscribers discard local operations made before their first sync (by design): such
			// operations must vanish on the client and must not reach the log; generated less often
			if d.entered || d.mode == "create" || x%5 == 0 {
				names = append(names, i)
			}
		}
		if len(names) == 0 {
			return l1Action{K: "sync", C: ci}
		}
		ki := rapid.SampledFrom(names).Draw(rt, "lkey")
		if x == 61 && c.dts[w.keys[ki].Name].entered && rapid.Bool().Draw(rt, "backlog") {
			// a long offline period: hundreds or thousands of operations pile up unpushed, the last ones inside
			// a transaction (sizes around the powers of two where buffers and batch limits tend to sit)
			n := rapid.SampledFrom([]int{250, 1019, 1030, 2045}).Draw(rt, "backlog_n")
			tx := sim.Tx{Tag: "backlog", FailAt: -1}
			for i, m := 0, rapid.IntRange(3, 8).Draw(rt, "backlog_tx"); i < m; i++ {
				tx.Calls = append(tx.Calls, c06CheapCall(w.keys[ki].Kind, 5000+i))
			}
			return l1Action{K: "backlog", C: ci, Key: ki, N: n, Tx: &tx}
		}
		if x >= 62 {
			// a transaction, half of them failing (rolled back: state and identifiers restored on a
			// client that may already have applied pulled operations)
			tx := sim.Tx{Tag: fmt.Sprintf("t%d", rapid.IntRange(0, 999).Draw(rt, "txtag")), FailAt: -1}
			for i, n := 0, rapid.IntRange(0, 3).Draw(rt, "txlen"); i < n; i++ {
				tx.Calls = append(tx.Calls, genLocalCall(rt, w.keys[ki].Kind, c.dts[w.keys[ki].Name].dt, false))
			}
			if rapid.Bool().Draw(rt, "txfail") {
				tx.FailAt = rapid.IntRange(0, len(tx.Calls)).Draw(rt, "failat")
			}
			return l1Action{K: "tx", C: ci, Key: ki, Tx: &tx}
		}
		call := genLocalCall(rt, w.keys[ki].Kind, c.dts[w.keys[ki].Name].dt, false)
		return l1Action{K: "local", C: ci, Key: ki, Call: &call}
	case x < 93:
		return l1Action{K: "sync", C: ci}
	default:
		return l1Action{K: "settle"}
	}
}

// genPrelude draws the opening of a history so that most cases start with several clients sharing
// keys: clients are registered, the first one creates every key and pushes, the others join some
// of the keys. The actions are ordinary ones (journalled and checked like the rest).
func genPrelude(rt *rapid.T, w *l1World, maxClients int) []l1Action {
	var out []l1Action
	nc := rapid.IntRange(1, maxClients).Draw(rt, "prelude_clients")
	for i := 0; i < nc; i++ {
		out = append(out, l1Action{K: "client"})
	}
	for ki := range w.keys {
		mode := rapid.SampledFrom([]string{"create", "subscribe-or-create"}).Draw(rt, "prelude_mode")
		out = append(out, l1Action{K: "open", C: 0, Key: ki, Mode: mode})
	}
	out = append(out, l1Action{K: "sync", C: 0})
	for ci := 1; ci < nc; ci++ {
		joined := false
		for ki := range w.keys {
			if rapid.IntRange(0, 9).Draw(rt, "prelude_join") < 7 {
				mode := rapid.SampledFrom([]string{"subscribe", "subscribe-or-create"}).Draw(rt, "prelude_jmode")
				out = append(out, l1Action{K: "open", C: ci, Key: ki, Mode: mode})
				joined = true
			}
		}
		if joined {
			out = append(out, l1Action{K: "sync", C: ci})
		}
	}
	return out
}

func (w *l1World) applyL1(a l1Action) error {
	switch a.K {
	case "client":
		if _, err := w.addClient(); err != nil {
			return fmt.Errorf("registering a client failed: %v", err)
		}
	case "open":
		k := w.keys[a.Key]
		d := w.open(w.clients[a.C], k, a.Mode)
		w.labels["mode="+a.Mode] = true
		if k.created {
			w.labels["late-subscriber"] = true
		}
		_ = d
	case "local":
		c := w.clients[a.C]
		d := c.dts[w.keys[a.Key].Name]
		res := sim.Exec(d.key.Kind, d.dt, *a.Call)
		if res.Panic != nil {
			return fmt.Errorf("local call panicked: %v", res.Panic)
		}
		if !d.entered && d.mode == "create" {
			w.labels["local-op-before-first-sync(creator)"] = true
		} else if !d.entered {
			w.labels["local-op-before-first-sync(subscriber)"] = true
		}
	case "backlog":
		c := w.clients[a.C]
		d := c.dts[w.keys[a.Key].Name]
		for i := 0; i < a.N; i++ {
			if res := sim.Exec(d.key.Kind, d.dt, c06CheapCall(d.key.Kind, i)); res.Panic != nil {
				return fmt.Errorf("local call panicked: %v", res.Panic)
			}
		}
		if _, txErr, pan := sim.ExecTx(d.key.Kind, d.dt, *a.Tx); pan != nil || txErr != nil {
			return fmt.Errorf("the transaction that closes a backlog of %d operations failed: err=%v panic=%v", a.N, txErr, pan)
		}
		w.labels[fmt.Sprintf("backlog>=%d", a.N/1000*1000)] = true
	case "tx":
		c := w.clients[a.C]
		d := c.dts[w.keys[a.Key].Name]
		ident := func() string {
			p := d.dt.CreatePushPullPack()
			meta, _ := d.dt.GetMeta()
			return fmt.Sprintf("duid=%s option=%d checkpoint=(%d,%d) unpushed=%d meta=%s state=%v view=%s", p.DUID, p.Option, p.CheckPoint.Sseq, p.CheckPoint.Cseq,
				len(p.Operations), meta, d.dt.GetState(), sim.Observe(d.key.Kind, d.dt, nil))
		}
		before := ident()
		_, txErr, pan := sim.ExecTx(d.key.Kind, d.dt, *a.Tx)
		if pan != nil {
			return fmt.Errorf("transaction panicked: %v", pan)
		}
		if after := ident(); txErr != nil && after != before {
			return fmt.Errorf("a failed transaction on client %d changed the datatype:\n  before: %s\n  after:  %s", a.C, before, after)
		}
		if txErr != nil {
			w.labels["failed-transaction"] = true
			if d.entered {
				w.labels["failed-transaction-on-synced-client"] = true
			}
		} else {
			w.labels["committed-transaction"] = true
		}
	case "sync":
		c := w.clients[a.C]
		ex := w.syncClient(c)
		if ex != nil {
			if err := exchangeProblem(c, ex); err != nil {
				return err
			}
		}
		if err := w.checkLogInvariants(); err != nil {
			return err
		}
		if err := w.checkCheckpoints(); err != nil {
			return err
		}
	case "settle":
		if err := w.settle(); err != nil && !w.noConverge {
			return err
		}
		if err := w.checkLogInvariants(); err != nil {
			return err
		}
		if err := w.checkCheckpoints(); err != nil {
			return err
		}
		if w.noConverge {
			return nil
		}
		return w.checkConverged()
	}
	return nil
}

func TestC05(t *testing.T) {
	col := stats.New("C05", t.Name(),
		"rapid state machine over the REAL server (service layer in process on fake MongoDB/MQTT wire servers) and 1-6 pack-level clients of the real client library: actions new client, open a key (create / subscribe / subscribe-or-create, only where the mode must succeed), local operation, Sync of a client (all its datatypes in one message), settle; 1-3 keys of drawn kinds; "+
			"oracle after every sync: stored-log invariants (C06) and monotone checkpoints; at every settle and at the end: every entered client equals refmodel(stored log), and the server's own rebuild (latest snapshot + later operations) equals it too; "+
			"non-trivial = >=2 clients pushed operations on the same key and >=1 client joined a key that already had stored operations; distinct = hash of the action sequence")
	col.Assume("MongoDB and the MQTT broker are replaced by the in-process wire-protocol fakes of DESIGN.md §3.3 (the real mongo-driver and paho clients talk to them)")
	col.Assume(deploymentNote)
	checkProp(t, "C05", col, func(c *caseCtx) {
		rt := c.rt
		nk := rapid.IntRange(1, 3).Draw(rt, "keys")
		var kinds []sim.Kind
		for i := 0; i < nk; i++ {
			kinds = append(kinds, kindFromDraw(rt))
		}
		idseed := rapid.Uint64Range(1, 1<<40).Draw(rt, "idseed")
		dep := drawDeployment(rt)
		w, err := newL1World(idseed, kinds)
		if err != nil {
			c.failf("HARNESS-ERROR: cannot start the environment: %v", err)
		}
		defer w.close()
		w.labels[dep] = true
		c.j.Header = map[string]interface{}{"kinds": kinds, "id_seed": idseed, "deployment": dep}
		maxClients := 4
		if thorough() {
			maxClients = 6
		}
		n := rapid.IntRange(3, envInt("VERIF_L1_STEPS", 40)).Draw(rt, "steps")
		var canon strings.Builder
		for i, a := range genPrelude(rt, w, maxClients) {
			c.j.add(a)
			canon.WriteString(a.String() + ";")
			if err := w.applyL1(a); err != nil {
				c.failf("prelude step %d %s: %v", i, a, err)
			}
		}
		for i := 0; i < n; i++ {
			a := genL1Action(rt, w, maxClients)
			c.j.add(a)
			canon.WriteString(a.String() + ";")
			if err := w.applyL1(a); err != nil {
				c.failf("step %d %s: %v", i, a, err)
			}
		}
		fin := l1Action{K: "settle"}
		c.j.add(fin)
		if err := w.applyL1(fin); err != nil {
			c.failf("final settle: %v", err)
		}
		if err := w.infraProblem(); err != nil {
			c.failf("%v", err)
		}
		pushers := map[string]map[string]bool{}
		for duid, ops := range w.accepted {
			pushers[duid] = map[string]bool{}
			for _, op := range ops {
				pushers[duid][op.ID.CUID] = true
			}
		}
		multi := false
		for _, p := range pushers {
			if len(p) >= 2 {
				multi = true
			}
		}
		if multi {
			w.labels[">=2-pushers-on-one-key"] = true
		}
		var labels []string
		for l := range w.labels {
			labels = append(labels, l)
		}
		for _, k := range kinds {
			labels = append(labels, "kind="+string(k))
		}
		col.Case(multi && w.labels["late-subscriber"], canon.String(), labels, func() interface{} {
			return map[string]interface{}{"kinds": kinds, "actions": canon.String(), "requests": w.reqs}
		})
	})
}
