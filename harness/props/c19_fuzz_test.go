package props

import (
	"encoding/json"
	"testing"

	"github.com/orda-io/orda/client/pkg/orda"
	"verif/sim"
)

// jsonObj decodes fuzz bytes into a JSON object without nulls (the stated domain of C19).
func (p *byteProvider) jsonVal(depth int) interface{} {
	switch p.n(7) {
	case 0, 1:
		return p.str()
	case 2:
		return float64(int64(p.byte()) - 100)
	case 3:
		return p.byte()%2 == 0
	case 4, 5:
		if depth <= 0 {
			return p.str()
		}
		return p.jsonObj(depth - 1)
	default:
		if depth <= 0 {
			return float64(p.byte())
		}
		n := p.n(4)
		l := make([]interface{}, 0, n)
		for i := 0; i < n; i++ {
			l = append(l, p.jsonVal(depth-1))
		}
		return l
	}
}

var c19FuzzKeys = []string{"a", "b", "c", "k/1", "~", "~0", "~1", "-", "0", "1", "", "x y", "é"}

func (p *byteProvider) jsonObj(depth int) map[string]interface{} {
	n := p.n(4)
	m := map[string]interface{}{}
	for i := 0; i < n; i++ {
		var k string
		if p.byte()%4 == 0 {
			k = p.str()
		} else {
			k = c19FuzzKeys[p.n(len(c19FuzzKeys)-1)]
		}
		m[k] = p.jsonVal(depth)
	}
	return m
}

// FuzzC19Patch: coverage-guided search of (current document, target) pairs: the bytes are decoded
// into a chain of 2-4 JSON objects; each is applied with PatchByJSON on alternating replicas.
// Oracle as in TestC19Local: no error, no panic, the document equals the target, the other replica
// equals it after delivery.
// c19Enc is the inverse of the decoder above (for seed inputs): objects with at most 4 members whose
// keys come from c19FuzzKeys, arrays with at most 4 elements, short ASCII strings, small integers, booleans.
func c19Enc(v interface{}) []byte {
	switch x := v.(type) {
	case string:
		return append([]byte{0, byte(len(x))}, []byte(x)...)
	case float64:
		return []byte{2, byte(int(x) + 100)}
	case int:
		return []byte{2, byte(x + 100)}
	case bool:
		if x {
			return []byte{3, 0}
		}
		return []byte{3, 1}
	case map[string]interface{}:
		return append([]byte{4}, c19EncObj(x)...)
	case []interface{}:
		out := []byte{6, byte(len(x))}
		for _, e := range x {
			out = append(out, c19Enc(e)...)
		}
		return out
	}
	panic("c19Enc: unsupported seed value")
}

func c19EncObj(m map[string]interface{}) []byte {
	out := []byte{byte(len(m))}
	for ki, k := range c19FuzzKeys { // pool order: deterministic
		if v, ok := m[k]; ok {
			out = append(out, 1, byte(ki))
			out = append(out, c19Enc(v)...)
		}
	}
	return out
}

func c19Seed(idseed byte, chain ...map[string]interface{}) []byte {
	out := []byte{idseed, byte(len(chain) - 2)}
	for _, m := range chain {
		out = append(out, c19EncObj(m)...)
	}
	return out
}

func FuzzC19Patch(f *testing.F) {
	type o = map[string]interface{}
	type l = []interface{}
	f.Add([]byte{0})
	f.Add(c19Seed(1, o{"a": l{"x", "y", "z"}}, o{"a": l{"z", "x", "y"}}))                                      // reorder
	f.Add(c19Seed(2, o{"a": l{1, 2, 3}}, o{"a": l{1, 20, 3}}, o{"a": l{1, 21, 3}}))                            // the same slot twice
	f.Add(c19Seed(3, o{"k/1": o{"~1": 1, "~0": 2}}, o{"k/1": o{"~1": 2, "~": l{true}}}))                       // keys that need escaping
	f.Add(c19Seed(4, o{"a": o{"b": l{o{"c": 1}, l{1, 2}}}}, o{"a": l{o{"b": 1}}}, o{"a": "s", "": 0}))         // type changes
	f.Add(c19Seed(5, o{"a": l{l{1, 2}, l{3, 4}}, "b": 1}, o{"a": l{l{2, 1}, l{3, 4}, "t"}}, o{}, o{"-": l{}})) // nested arrays, empty document
	f.Fuzz(func(t *testing.T, data []byte) {
		p := &byteProvider{b: data}
		sim.SeedIDs(uint64(p.byte()) + 1)
		w := sim.NewWorld(sim.Document, 2, 2)
		chain := 2 + p.n(2)
		for i := 0; i < chain; i++ {
			r := i % 2
			target := p.jsonObj(2)
			tb, _ := json.Marshal(target)
			doc := w.Reps[r].DT.(orda.Document)
			var perr error
			var pan interface{}
			func() {
				defer func() { pan = recover() }()
				if _, e := doc.PatchByJSON(string(tb)); e != nil {
					perr = e
				}
			}()
			if pan != nil || perr != nil {
				t.Fatalf("patch %d to %s: err=%v panic=%v", i, tb, perr, pan)
			}
			var want interface{}
			_ = json.Unmarshal(tb, &want)
			if got := sim.Canon(doc.GetValue()); got != sim.Canon(want) {
				t.Fatalf("patch %d: document is %s, target %s", i, got, sim.Canon(want))
			}
			w.Reps[r].NoteEmitted()
			if err := w.Quiesce(); err != nil {
				t.Fatalf("delivery: %v", err)
			}
			if got := sim.Canon(w.Reps[1-r].DT.(orda.Document).GetValue()); got != sim.Canon(want) {
				t.Fatalf("patch %d: the other replica is %s, target %s", i, got, sim.Canon(want))
			}
		}
	})
}
