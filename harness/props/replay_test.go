package props

import (
	"encoding/json"
	"fmt"
	"os"
	"strings"
	"testing"
	"time"

	"github.com/orda-io/orda/client/pkg/model"
	"github.com/orda-io/orda/client/pkg/orda"
	"verif/sim"
)

// TestReplay re-executes a saved failing case (VERIF_REPLAY_FILE) with a plain interpreter: no
// rapid, no generation. It fails (and prints the reason) if the violation is still there.
// Families with an interpreter: the L0 state machine (C01, C02, C04, C15 histories), C07, C08,
// C13, C15 (order / hash), C19 local chains, C20 and C18 realtime workloads. For the other checks
// the journal records the PRNG value of the failing run and `vcheck replay` regenerates the case.
func TestReplay(t *testing.T) {
	path := os.Getenv("VERIF_REPLAY_FILE")
	if path == "" {
		t.Skip("VERIF_REPLAY_FILE not set")
	}
	b, err := os.ReadFile(path)
	if err != nil {
		t.Fatalf("cannot read %s: %v", path, err)
	}
	var j struct {
		Property string            `json:"property"`
		Test     string            `json:"test"`
		Header   json.RawMessage   `json:"header"`
		Actions  []json.RawMessage `json:"actions"`
		Failure  string            `json:"failure"`
	}
	if err := json.Unmarshal(b, &j); err != nil {
		t.Fatalf("cannot parse %s: %v", path, err)
	}
	fmt.Printf("replaying %s (%s); recorded failure: %s\n", j.Test, j.Property, firstLineOf(j.Failure))
	fail := func(err error) {
		if err != nil {
			fmt.Printf("REPRODUCED: %v\n", err)
			t.Fatalf("%v", err)
		}
		fmt.Println("NOT REPRODUCED: the replayed case passes on this tree")
	}
	if singleThreaded(j.Test) {
		// a replayed self-deadlock hangs again: report it instead of waiting for the test deadline
		go func() {
			prev := ""
			for {
				time.Sleep(5 * time.Second)
				where := blockedInOrdaMutex()
				if where != "" && where == prev {
					fmt.Printf("REPRODUCED: deadlock: %s\n", where)
					os.Exit(1)
				}
				prev = where
			}
		}()
	}
	switch {
	case strings.HasPrefix(j.Test, "TestC01"), strings.HasPrefix(j.Test, "TestC02"), strings.HasPrefix(j.Test, "TestC04"), strings.HasPrefix(j.Test, "TestC15History"):
		var cfg l0Config
		if err := json.Unmarshal(j.Header, &cfg); err != nil {
			t.Fatalf("header: %v", err)
		}
		fail(replayL0(j.Test, cfg, j.Actions))
	case strings.HasPrefix(j.Test, "TestC07"):
		var h struct {
			Scenario c07Scenario `json:"scenario"`
			Faults   []c07Fault  `json:"faults"`
		}
		if err := json.Unmarshal(j.Header, &h); err != nil {
			t.Fatalf("header: %v", err)
		}
		fail(c07Run(h.Scenario, h.Faults, 1).err)
	case strings.HasPrefix(j.Test, "TestC08"):
		var h struct {
			Scenario c07Scenario `json:"scenario"`
			Fault    *c08Fault   `json:"fault"`
			IDSeed   uint64      `json:"id_seed"`
		}
		if err := json.Unmarshal(j.Header, &h); err != nil {
			t.Fatalf("header: %v", err)
		}
		if h.IDSeed == 0 {
			h.IDSeed = 1
		}
		r := c08Run(h.Scenario, h.Fault, h.IDSeed)
		if r.err != nil && h.Fault != nil && c08Classify(r, h.Fault) != "" {
			fmt.Printf("KNOWN-FINDING: property=C08 %s (replayed)\n", c08Classify(r, h.Fault))
			return
		}
		fail(r.err)
	case strings.HasPrefix(j.Test, "TestC13"):
		var cell c13Cell
		if err := json.Unmarshal(j.Header, &cell); err != nil {
			t.Fatalf("header: %v", err)
		}
		_, err := c13Run(cell)
		fail(err)
	case strings.HasPrefix(j.Test, "TestC15Order"):
		var h map[string]c15TS
		if err := json.Unmarshal(j.Header, &h); err != nil {
			t.Fatalf("header: %v", err)
		}
		for _, x := range h {
			for _, y := range h {
				if x.sameClock(y) != (x.ts().Compare(y.ts()) == 0) || sign(x.ts().Compare(y.ts())) != -sign(y.ts().Compare(x.ts())) {
					fail(fmt.Errorf("comparison law broken for %+v %+v", x, y))
				}
			}
		}
		fail(nil)
	case strings.HasPrefix(j.Test, "TestC15HashGrid"):
		var h struct {
			A, B c15TS
		}
		if err := json.Unmarshal(j.Header, &h); err != nil {
			t.Fatalf("header: %v", err)
		}
		if h.A != h.B && h.A.ts().Hash() == h.B.ts().Hash() {
			fail(fmt.Errorf("distinct timestamps %+v and %+v share the key %q", h.A, h.B, h.A.ts().Hash()))
		}
		fail(nil)
	case strings.HasPrefix(j.Test, "TestC19Local"):
		fail(replayC19(j.Header, j.Actions))
	case strings.HasPrefix(j.Test, "TestC20") && !strings.Contains(j.Test, "Known"):
		var wl c20Workload
		if err := json.Unmarshal(j.Header, &wl); err != nil {
			t.Fatalf("header: %v", err)
		}
		// the schedule is not part of the journal: try the workload several times
		for i := 0; i < 20; i++ {
			w, out := c20Run(wl)
			if err := c20Check(wl, w, out); err != nil {
				fail(err)
			}
		}
		fail(nil)
	case strings.HasPrefix(j.Test, "TestC18Realtime"), strings.HasPrefix(j.Test, "TestC18OwnNotifications"):
		var wl c18Workload
		if err := json.Unmarshal(j.Header, &wl); err != nil {
			t.Fatalf("header: %v", err)
		}
		for i := 0; i < 10; i++ {
			if _, _, err := c18Run(wl); err != nil {
				fail(err)
			}
		}
		fail(nil)
	default:
		fmt.Printf("NO-INTERPRETER: %s has no plain interpreter; the journal documents the case, `vcheck replay` regenerates it from the recorded PRNG value\n", j.Test)
		t.Skip("no interpreter")
	}
}

// replayL0 re-executes a journal of the L0 machine with the oracle of the test that recorded it.
func replayL0(test string, cfg l0Config, raw []json.RawMessage) error {
	m := newL0Machine(cfg)
	st := newC04State()
	for i, r := range raw {
		var a l0Action
		if err := json.Unmarshal(r, &a); err != nil || a.K == "" {
			continue
		}
		si, err := m.apply(a)
		if err != nil {
			return fmt.Errorf("step %d %s: %v", i, a, err)
		}
		if si.panic != nil {
			return fmt.Errorf("step %d %s: panic: %v", i, a, si.panic)
		}
		if strings.HasPrefix(test, "TestC04") {
			if err := c04ReadBack(m, a, si); err != nil {
				return fmt.Errorf("step %d %s: %v", i, a, err)
			}
			rs := []int{a.R}
			if a.K == "quiesce" || a.K == "join" {
				rs = nil
				for r := range m.w.Reps {
					rs = append(rs, r)
				}
			}
			if a.K != "start" {
				for _, r := range rs {
					if err := st.checkReplica(m, r); err != nil {
						return fmt.Errorf("step %d %s: %v", i, a, err)
					}
				}
			}
		}
		if strings.HasPrefix(test, "TestC15History") {
			for ri, rep := range m.w.Reps {
				for k, op := range rep.Emitted {
					if op.ID.Seq != uint64(k+1) {
						return fmt.Errorf("step %d: replica %d operation %d has seq %d", i, ri, k, op.ID.Seq)
					}
				}
			}
		}
		if si.quiesce {
			if err := replayL0Oracle(test, m); err != nil {
				return fmt.Errorf("at quiescence after step %d: %v", i, err)
			}
		}
	}
	return nil
}

func replayL0Oracle(test string, m *l0Machine) error {
	switch {
	case strings.HasPrefix(test, "TestC02"):
		return m.matchesReference()
	case strings.HasPrefix(test, "TestC15History"):
		return nil
	}
	return m.converged()
}

func replayC19(header json.RawMessage, raw []json.RawMessage) error {
	var h struct {
		IDSeed uint64 `json:"id_seed"`
	}
	_ = json.Unmarshal(header, &h)
	sim.SeedIDs(h.IDSeed)
	w := sim.NewWorld(sim.Document, 2, 2)
	for i, r := range raw {
		var p c19Patch
		if json.Unmarshal(r, &p) != nil || p.K != "patch" {
			continue
		}
		doc := w.Reps[p.R].DT.(orda.Document)
		var target interface{}
		_ = json.Unmarshal([]byte(p.Target), &target)
		var perr error
		var pan interface{}
		func() {
			defer func() { pan = recover() }()
			if _, e := doc.PatchByJSON(p.Target); e != nil {
				perr = e
			}
		}()
		if pan != nil || perr != nil {
			return fmt.Errorf("patch %d failed: err=%v panic=%v", i, perr, pan)
		}
		if got, want := sim.Canon(doc.GetValue()), sim.Canon(target); got != want {
			return fmt.Errorf("patch %d: document is %s, target %s", i, got, want)
		}
		w.Reps[p.R].NoteEmitted()
		if err := w.Quiesce(); err != nil {
			return err
		}
		if got, want := sim.Canon(w.Reps[1-p.R].DT.(orda.Document).GetValue()), sim.Canon(target); got != want {
			return fmt.Errorf("patch %d: the other replica is %s, target %s", i, got, want)
		}
	}
	return nil
}

var _ = model.CheckPoint{}
