package props

import (
	"fmt"
	"testing"

	"pgregory.net/rapid"
	"verif/sim"
	"verif/stats"
)

func testC02(t *testing.T, kind sim.Kind) {
	col := stats.New("C02", t.Name(),
		"conflict-biased rapid state machine (2-3 keys, inserts/updates/deletes at the same positions, put/remove of the same object key with container values, counter deltas near +-2^31), 2-4 replicas; "+
			"oracle = every replica and the server-style copy equal refmodel.Compute(all emitted operations) (LWW by (lamport,cuid), RGA insertion tree newest-first, delete wins, int32 sum); "+
			"non-trivial = >=1 pair of concurrent conflicting operations whose timestamp winner comes EARLIER in the log than the loser (an arrival-order-wins implementation would differ); distinct = hash of the action sequence")
	col.Assume("document values are expanded into nodes by the wire identity rule of DESIGN.md §3.4 (pre-order, sorted member order)")
	checkProp(t, "C02", col, func(c *caseCtx) {
		cfg := drawL0Config(c.rt, kind)
		cfg.Conflict = true
		cfg.Invalid = false
		cfg.MaxReplicas = 4
		m, actions := runL0(c, cfg, maxStepsL0(), nil, func(m *l0Machine) error { return m.matchesReference() })
		pairs, wnl := m.conflictStats()
		if pairs > 0 {
			m.labels["concurrent-conflict"] = true
		}
		if wnl > 0 {
			m.labels["winner-not-last-in-log"] = true
		}
		labels := append(m.labelList(), "kind="+string(kind))
		nontrivial := wnl > 0
		if kind == sim.Counter {
			nontrivial = pairs > 0
		}
		col.Case(nontrivial, m.canonical(actions), labels, func() interface{} {
			return map[string]interface{}{"config": cfg, "actions": fmt.Sprint(actions), "log_len": len(m.w.Log),
				"concurrent_conflicting_pairs": pairs, "pairs_with_winner_earlier_in_log": wnl}
		})
	})
}

func TestC02Counter(t *testing.T)  { testC02(t, sim.Counter) }
func TestC02Map(t *testing.T)      { testC02(t, sim.Map) }
func TestC02List(t *testing.T)     { testC02(t, sim.List) }
func TestC02Document(t *testing.T) { testC02(t, sim.Document) }

var _ = rapid.Bool
