package props

import (
	"fmt"
	"github.com/orda-io/orda/client/pkg/orda"
	"math"
	"sort"
	"strings"
	"testing"

	"pgregory.net/rapid"
	"verif/sim"
	"verif/stats"
)

// contract classes of DESIGN.md §5 C03
const (
	mustOK  = "must-succeed"
	mustErr = "must-error"
	either  = "either"
)

// expectation is what the plain-structure model demands of one call.
type expectation struct {
	class    string
	why      string
	ret      interface{} // expected normalised return value when the call succeeds (nil = not compared)
	checkRet bool
	apply    func() // model update when the call succeeds
	ops      int    // operations a successful call must emit (outside a transaction)
}

// plainModel is the sequential reference: an int32, a map, a slice (documents: c03doc_test.go).
type plainModel struct {
	kind    sim.Kind
	counter int32
	m       map[string]interface{}
	l       []interface{}
	doc     *docModel
}

func newPlainModel(kind sim.Kind) *plainModel {
	pm := &plainModel{kind: kind, m: map[string]interface{}{}, l: []interface{}{}}
	if kind == sim.Document {
		pm.doc = newDocModel()
	}
	return pm
}

func (pm *plainModel) clone() *plainModel {
	c := &plainModel{kind: pm.kind, counter: pm.counter, m: map[string]interface{}{}, l: append([]interface{}{}, pm.l...)}
	for k, v := range pm.m {
		c.m[k] = v
	}
	if pm.doc != nil {
		c.doc = pm.doc.clone()
	}
	return c
}

func (pm *plainModel) json() interface{} {
	switch pm.kind {
	case sim.Counter:
		return map[string]interface{}{"Counter": float64(pm.counter)}
	case sim.Map:
		return pm.m
	case sim.List:
		return map[string]interface{}{"List": pm.l}
	}
	return pm.doc.root.view()
}

func (pm *plainModel) size() int {
	switch pm.kind {
	case sim.Map:
		return len(pm.m)
	case sim.List:
		return len(pm.l)
	}
	return -1
}

// anyNil: a value that has no JSON form other than null - nil, a nil pointer, a nil slice, a nil map - or no
// JSON form at all (NaN, infinities, channels, functions, complex numbers, also nested in a container).
func anyNil(vs []sim.Val) bool {
	for _, v := range vs {
		if v.IsNullLike() || v.Unencodable() {
			return true
		}
	}
	return false
}

// anyNull is anyNil (kept for the call sites of Map and List).
func anyNull(vs []sim.Val) bool { return anyNil(vs) }

func jsonVals(vs []sim.Val) []interface{} {
	out := make([]interface{}, 0, len(vs))
	for _, v := range vs {
		out = append(out, v.JSON())
	}
	return out
}

// rangeOK mirrors the documented ranges: 0 <= pos, n >= 1, pos+n <= size (computed without overflow).
func rangeOK(pos, n, size int) bool {
	return pos >= 0 && n >= 1 && pos < size && n <= size-pos
}

func (pm *plainModel) expect(c sim.Call) expectation {
	switch pm.kind {
	case sim.Counter:
		switch c.M {
		case "Get":
			return expectation{class: mustOK, ret: float64(pm.counter), checkRet: true}
		case "Increase":
			nv := pm.counter + 1
			return expectation{class: mustOK, ret: float64(nv), checkRet: true, ops: 1, apply: func() { pm.counter = nv }}
		case "IncreaseBy":
			nv := pm.counter + int32(c.Vals[0].I)
			return expectation{class: mustOK, ret: float64(nv), checkRet: true, ops: 1, apply: func() { pm.counter = nv }}
		}
	case sim.Map:
		switch c.M {
		case "Get":
			return expectation{class: mustOK, ret: pm.m[c.Key], checkRet: true}
		case "Size":
			return expectation{class: mustOK, ret: float64(len(pm.m)), checkRet: true}
		case "Put":
			if c.Key == "" {
				return expectation{class: mustErr, why: "empty key"}
			}
			if anyNull(c.Vals) {
				return expectation{class: mustErr, why: "null value"}
			}
			old := pm.m[c.Key]
			v := c.Vals[0].JSON()
			return expectation{class: mustOK, ret: old, checkRet: true, ops: 1, apply: func() { pm.m[c.Key] = v }}
		case "Remove":
			if c.Key == "" {
				return expectation{class: mustErr, why: "empty key"}
			}
			old, ok := pm.m[c.Key]
			if !ok {
				return expectation{class: either, why: "remove of an absent key", apply: func() {}, ops: 1}
			}
			return expectation{class: mustOK, ret: old, checkRet: true, ops: 1, apply: func() { delete(pm.m, c.Key) }}
		}
	case sim.List:
		size := len(pm.l)
		switch c.M {
		case "Size":
			return expectation{class: mustOK, ret: float64(size), checkRet: true}
		case "Get":
			if c.Pos < 0 || c.Pos >= size {
				return expectation{class: mustErr, why: "index out of range"}
			}
			return expectation{class: mustOK, ret: pm.l[c.Pos], checkRet: true}
		case "GetMany":
			if !rangeOK(c.Pos, c.N, size) {
				return expectation{class: mustErr, why: "range out of bounds"}
			}
			return expectation{class: mustOK, ret: append([]interface{}{}, pm.l[c.Pos:c.Pos+c.N]...), checkRet: true}
		case "Insert", "InsertMany":
			if c.Pos < 0 || c.Pos > size {
				return expectation{class: mustErr, why: "insert position out of range"}
			}
			if anyNull(c.Vals) {
				return expectation{class: mustErr, why: "null value"}
			}
			vs := jsonVals(c.Vals)
			ap := func() {
				nl := append([]interface{}{}, pm.l[:c.Pos]...)
				nl = append(nl, vs...)
				pm.l = append(nl, pm.l[c.Pos:]...)
			}
			if len(vs) == 0 {
				return expectation{class: either, why: "insert of zero values", apply: ap, ops: 1}
			}
			return expectation{class: mustOK, ret: vs, checkRet: true, ops: 1, apply: ap}
		case "Update":
			if !rangeOK(c.Pos, len(c.Vals), size) {
				return expectation{class: mustErr, why: "range out of bounds"}
			}
			if anyNull(c.Vals) {
				return expectation{class: mustErr, why: "null value"}
			}
			vs := jsonVals(c.Vals)
			old := append([]interface{}{}, pm.l[c.Pos:c.Pos+len(vs)]...)
			return expectation{class: mustOK, ret: old, checkRet: true, ops: 1, apply: func() { copy(pm.l[c.Pos:], vs) }}
		case "Delete":
			if c.Pos < 0 || c.Pos >= size {
				return expectation{class: mustErr, why: "index out of range"}
			}
			old := pm.l[c.Pos]
			return expectation{class: mustOK, ret: old, checkRet: true, ops: 1, apply: func() { pm.l = append(append([]interface{}{}, pm.l[:c.Pos]...), pm.l[c.Pos+1:]...) }}
		case "DeleteMany":
			if !rangeOK(c.Pos, c.N, size) {
				return expectation{class: mustErr, why: "range out of bounds"}
			}
			old := append([]interface{}{}, pm.l[c.Pos:c.Pos+c.N]...)
			return expectation{class: mustOK, ret: old, checkRet: true, ops: 1, apply: func() { pm.l = append(append([]interface{}{}, pm.l[:c.Pos]...), pm.l[c.Pos+c.N:]...) }}
		}
	case sim.Document:
		return pm.doc.expectPath(c)
	}
	panic("plainModel.expect: unknown call " + c.M)
}

// ---------------------------------------------------------------------------------------------
// argument generation over the whole surface

func genIntArg(rt *rapid.T, label string, size int) int {
	switch rapid.IntRange(0, 9).Draw(rt, label+".intclass") {
	case 0:
		return rapid.SampledFrom([]int{math.MinInt64, -1, math.MaxInt64, 1 << 31, math.MaxInt32, size + 1, size + 2, -2}).Draw(rt, label+".boundary")
	case 1:
		return rapid.SampledFrom([]int{size - 1, size, 0, 1}).Draw(rt, label+".edge")
	default:
		hi := size
		if hi < 1 {
			hi = 1
		}
		return rapid.IntRange(0, hi).Draw(rt, label+".inrange")
	}
}

func genC03Val(rt *rapid.T, label string) sim.Val {
	switch rapid.IntRange(0, 19).Draw(rt, label+".c03class") {
	case 0:
		return sim.Nil()
	case 1:
		return sim.Val{T: "nilptr"}
	case 7:
		// no JSON form at all: bare, or inside a slice / a map
		u := sim.Val{T: rapid.SampledFrom([]string{"nan", "+inf", "-inf", "f32nan", "*nan", "chan", "func", "complex"}).Draw(rt, label+".unenc")}
		switch rapid.IntRange(0, 3).Draw(rt, label+".unencwrap") {
		case 0:
			return sim.Val{T: "slice", L: []sim.Val{sim.I(1), u}}
		case 1:
			return sim.Val{T: "map", M: []sim.KV{{K: "a", V: sim.S("x")}, {K: "b", V: u}}}
		}
		return u
	case 2, 3, 4, 5, 6:
		return genGoVal(rt, label, 2)
	default:
		return genJSONVal(rt, label, 2, keyPoolPlain)
	}
}

func genC03Batch(rt *rapid.T, label string) []sim.Val {
	n := rapid.SampledFrom([]int{0, 1, 1, 1, 1, 2, 3, 4, 11, 12}).Draw(rt, label+".n")
	vs := make([]sim.Val, 0, n)
	for i := 0; i < n; i++ {
		if n > 4 {
			vs = append(vs, sim.I(int64(i)))
		} else {
			vs = append(vs, genC03Val(rt, fmt.Sprintf("%s.%d", label, i)))
		}
	}
	return vs
}

func genC03Call(rt *rapid.T, pm *plainModel) sim.Call {
	switch pm.kind {
	case sim.Counter:
		switch rapid.IntRange(0, 3).Draw(rt, "cm") {
		case 0:
			return sim.Call{M: "Get"}
		case 1:
			return sim.Call{M: "Increase"}
		default:
			d := rapid.SampledFrom([]int64{0, 1, -1, 5, math.MaxInt32, math.MinInt32, 1 << 30, -(1 << 30)}).Draw(rt, "delta")
			return sim.Call{M: "IncreaseBy", Vals: []sim.Val{sim.I(d)}}
		}
	case sim.Map:
		k := rapid.SampledFrom(keyPoolHostile).Draw(rt, "key")
		if len(pm.m) > 0 && rapid.Bool().Draw(rt, "existing") {
			ks := make([]string, 0, len(pm.m))
			for x := range pm.m {
				ks = append(ks, x)
			}
			sort.Strings(ks)
			k = rapid.SampledFrom(ks).Draw(rt, "exkey")
		}
		switch rapid.IntRange(0, 9).Draw(rt, "mm") {
		case 0:
			return sim.Call{M: "Size"}
		case 1, 2:
			return sim.Call{M: "Get", Key: k}
		case 3, 4, 5:
			return sim.Call{M: "Remove", Key: k}
		default:
			return sim.Call{M: "Put", Key: k, Vals: []sim.Val{genC03Val(rt, "val")}}
		}
	case sim.List:
		size := len(pm.l)
		switch rapid.IntRange(0, 13).Draw(rt, "lm") {
		case 0:
			return sim.Call{M: "Size"}
		case 1:
			return sim.Call{M: "Get", Pos: genIntArg(rt, "pos", size)}
		case 2:
			if size >= 2 && rapid.Bool().Draw(rt, "fit") {
				pos := rapid.IntRange(0, size-2).Draw(rt, "fitpos")
				return sim.Call{M: "GetMany", Pos: pos, N: rapid.IntRange(2, size-pos).Draw(rt, "fitn")}
			}
			return sim.Call{M: "GetMany", Pos: genIntArg(rt, "pos", size), N: genIntArg(rt, "n", size)}
		case 3, 4, 5:
			return sim.Call{M: "Insert", Pos: genIntArg(rt, "pos", size), Vals: []sim.Val{genC03Val(rt, "val")}}
		case 6, 7, 8:
			return sim.Call{M: "InsertMany", Pos: genIntArg(rt, "pos", size), Vals: genC03Batch(rt, "vals")}
		case 9, 10:
			if size >= 2 && rapid.Bool().Draw(rt, "fit") {
				// a batch that fits, so that ranges crossing earlier deletions / updates are reached
				pos := rapid.IntRange(0, size-2).Draw(rt, "fitpos")
				cnt := rapid.IntRange(2, minInt(size-pos, 4)).Draw(rt, "fitn")
				vs := make([]sim.Val, 0, cnt)
				for i := 0; i < cnt; i++ {
					vs = append(vs, genC03Val(rt, fmt.Sprintf("fit.%d", i)))
				}
				return sim.Call{M: "Update", Pos: pos, Vals: vs}
			}
			return sim.Call{M: "Update", Pos: genIntArg(rt, "pos", size), Vals: genC03Batch(rt, "vals")}
		case 11:
			return sim.Call{M: "Delete", Pos: genIntArg(rt, "pos", size)}
		default:
			if size >= 2 && rapid.Bool().Draw(rt, "fit") {
				pos := rapid.IntRange(0, size-2).Draw(rt, "fitpos")
				return sim.Call{M: "DeleteMany", Pos: pos, N: rapid.IntRange(2, size-pos).Draw(rt, "fitn")}
			}
			return sim.Call{M: "DeleteMany", Pos: genIntArg(rt, "pos", size), N: genIntArg(rt, "n", size)}
		}
	}
	return pm.doc.genPathCall(rt)
}

func argClass(c sim.Call, size int) string {
	var cls []string
	if c.Pos < 0 || c.N < 0 {
		cls = append(cls, "negative")
	}
	if c.Pos > size+1 || c.N > size+1 {
		cls = append(cls, "huge")
	}
	for _, v := range c.Vals {
		if v.T == "nil" {
			cls = append(cls, "nil")
		} else if v.T == "nilptr" {
			cls = append(cls, "nil-pointer")
		} else if v.T == "nilslice" || v.T == "nilmap" {
			cls = append(cls, "nil-slice-or-map")
		} else if v.T == "bytes" {
			cls = append(cls, "byte-slice")
		} else if v.T == "f64array" || v.T == "bytearray" {
			cls = append(cls, "go-array")
		} else if v.T == "time" || v.T == "*time" || v.T == "intkeymap" || v.T == "rawjson" || v.T == "bigint" || v.T == "timestruct" {
			cls = append(cls, "own-json-encoding")
		} else if strings.HasPrefix(v.T, "*") {
			cls = append(cls, "pointer")
		} else if v.T == "tagged" || v.T == "plain" {
			cls = append(cls, "struct")
		} else if v.IsContainer() {
			cls = append(cls, "container")
		}
	}
	if len(c.Vals) == 0 && (c.M == "InsertMany" || c.M == "Update" || c.M == "InsertToArray" || c.M == "UpdateManyInArray") {
		cls = append(cls, "empty-batch")
	}
	if len(c.Vals) >= 11 {
		cls = append(cls, "batch>=11")
	}
	if c.Key == "" && (c.M == "Put" || c.M == "Remove" || c.M == "PutToObject" || c.M == "DeleteInObject") {
		cls = append(cls, "empty-key")
	}
	if len(cls) == 0 {
		return "plain"
	}
	sort.Strings(cls)
	return strings.Join(cls, "+")
}

// ---------------------------------------------------------------------------------------------

type c03Action struct {
	K    string    `json:"k"` // call | tx
	Call *sim.Call `json:"call,omitempty"`
	Tx   *sim.Tx   `json:"tx,omitempty"`
}

func (a c03Action) String() string {
	if a.K == "call" {
		return a.Call.String()
	}
	return fmt.Sprintf("tx(fail_at=%d,stop=%v,%d calls)", a.Tx.FailAt, a.Tx.StopOnErr, len(a.Tx.Calls))
}

// c03Known classifies a deviation as a listed known finding (id) or "".
func c03Known(kind sim.Kind, c sim.Call, res sim.Result, ex expectation) string {
	return ""
}

type c03Machine struct {
	kind                           sim.Kind
	w                              *sim.World
	pm                             *plainModel
	col                            *stats.Collector
	succ                           int
	invalidAfter3, readAfterDelete bool
	deleted                        bool
	// first outcome seen for the "either" classes whose outcome may not depend on the history: a key that was
	// never put and a key that was removed are the same plain state
	eitherSeen map[string]string
}

// stateOnlyEither: "either" classes in which the plain state decides everything the call can depend on.
var stateOnlyEither = map[string]bool{"remove of an absent key": true, "delete of an absent member": true}

// checkCall compares one executed call with the model's expectation; inTx = no emission accounting.
func (m *c03Machine) checkCall(c sim.Call, res sim.Result, emitted int, inTx bool) error {
	return m.checkCallEx(c, res, emitted, inTx, m.pm.expect(c))
}

func (m *c03Machine) checkCallEx(c sim.Call, res sim.Result, emitted int, inTx bool, ex expectation) error {
	m.col.Label(fmt.Sprintf("%s.%s[%s]", m.kind, c.M, argClass(c, m.pm.size())))
	m.col.Label("class=" + ex.class)
	if res.Panic != nil {
		return fmt.Errorf("%s panicked: %v", c, res.Panic)
	}
	failed := res.Err != nil || res.NavErr != nil
	if ex.class == mustErr {
		if m.succ >= 3 {
			m.invalidAfter3 = true
		}
		if !failed {
			return fmt.Errorf("%s must return an error (%s) but succeeded with %s", c, ex.why, res)
		}
	}
	if ex.class == mustOK && failed {
		return fmt.Errorf("%s must succeed on a plain %s but returned %s", c, m.kind, res)
	}
	if ex.class == either && stateOnlyEither[ex.why] {
		out := "succeeded"
		if failed {
			out = "returned an error"
		}
		if m.eitherSeen == nil {
			m.eitherSeen = map[string]string{}
		}
		if prev, ok := m.eitherSeen[ex.why]; ok && !strings.HasPrefix(prev, out) {
			return fmt.Errorf("%s (%s) %s, but the same kind of call on the same plain state %s earlier in this history: the outcome depends on something a plain %s does not have", c, ex.why, out, prev, m.kind)
		} else if !ok {
			m.eitherSeen[ex.why] = out + " for " + c.String()
		}
	}
	if failed {
		if !inTx && emitted != 0 {
			return fmt.Errorf("%s returned an error but queued %d operation(s) for push", c, emitted)
		}
		return nil
	}
	if ex.checkRet {
		if got, want := sim.Canon(res.Ret), sim.Canon(ex.ret); got != want {
			return fmt.Errorf("%s returned %s, the plain structure gives %s", c, got, want)
		}
	}
	if ex.apply != nil {
		ex.apply()
		m.succ++
		if strings.Contains(c.M, "Delete") || strings.Contains(c.M, "Remove") {
			m.deleted = true
		}
	} else if m.deleted {
		m.readAfterDelete = true
	}
	if !inTx {
		want := ex.ops
		if emitted != want {
			return fmt.Errorf("%s succeeded and queued %d operation(s) for push, expected %d", c, emitted, want)
		}
	}
	return nil
}

func (m *c03Machine) checkState(after string) error {
	rep := m.w.Reps[0]
	var keys []string
	if m.kind == sim.Map {
		keys = append(keys, keyPoolHostile...)
	}
	v := sim.Observe(m.kind, rep.DT, keys)
	if strings.Contains(v.Reads, "!PANIC") {
		return fmt.Errorf("after %s: %s", after, v.Reads)
	}
	if got, want := v.JSON, sim.Canon(m.pm.json()); got != want {
		return fmt.Errorf("after %s: readable state differs from the plain structure:\n  got:  %s\n  want: %s", after, got, want)
	}
	if want := m.pm.size(); want >= 0 && v.Size != want {
		return fmt.Errorf("after %s: Size()=%d, the plain structure has %d", after, v.Size, want)
	}
	if m.kind == sim.Map {
		for _, k := range keys {
			_ = k
		}
	}
	for i, op := range rep.Emitted {
		if op.ID.Seq != uint64(i+1) {
			return fmt.Errorf("after %s: operation %d awaiting push has sequence number %d (gap or repeat)", after, i, op.ID.Seq)
		}
	}
	return nil
}

func testC03(t *testing.T, kind sim.Kind) {
	col := stats.New("C03", t.Name(),
		"one replica, no remote operations; rapid sequence of public API calls over the whole surface of the datatype with valid and invalid arguments (boundary integers incl. MinInt/MaxInt, empty keys, nil / nil-pointer values, nil inside a batch, empty batches, every Go numeric width, pointers, structs, nested values) plus transactions; "+
			"oracle: no panic; result and error agree with the plain structure (int32 / map / slice / JSON tree) by the contract table of DESIGN.md §5 C03; after every call ToJSON, Size and all reads equal the model; a failed call queues nothing, a successful mutating call queues exactly one operation, sequence numbers stay 1..n; "+
			"non-trivial = >=1 must-error call after >=3 successful mutating calls and >=1 read after a delete/remove; distinct = hash of the call sequence")
	checkProp(t, "C03", col, func(c *caseCtx) {
		idseed := rapid.Uint64Range(1, 1<<40).Draw(c.rt, "idseed")
		sim.SeedIDs(idseed)
		m := &c03Machine{kind: kind, w: sim.NewWorld(kind, 1, 1), pm: newPlainModel(kind), col: col}
		if kind == sim.Document {
			m.pm.doc.bind(m.w.Reps[0].DT)
			m.pm.doc.focus = rapid.IntRange(0, 3).Draw(c.rt, "arrayfocus") == 0
		}
		c.j.Header = map[string]interface{}{"kind": kind, "id_seed": idseed}
		n := rapid.IntRange(1, envInt("VERIF_C03_STEPS", 80)).Draw(c.rt, "steps")
		holes0 := c03BatchOverHole
		var canon strings.Builder
		for i := 0; i < n; i++ {
			if rapid.IntRange(0, 9).Draw(c.rt, "istx") == 0 {
				k := rapid.IntRange(0, 4).Draw(c.rt, "txlen")
				tx := sim.Tx{Tag: fmt.Sprintf("t%d", i), FailAt: -1}
				shadow := m.pm.clone()
				for j := 0; j < k; j++ {
					call := genC03Call(c.rt, shadow)
					tx.Calls = append(tx.Calls, call)
					if ex := shadow.expect(call); ex.class == mustOK && ex.apply != nil {
						ex.apply()
					}
				}
				if rapid.IntRange(0, 2).Draw(c.rt, "txfail") == 0 {
					tx.FailAt = rapid.IntRange(0, k).Draw(c.rt, "failat")
				}
				a := c03Action{K: "tx", Tx: &tx}
				c.j.add(a)
				canon.WriteString(a.String() + ";")
				before := m.pm.clone()
				if kind == sim.Document {
					m.pm.doc.beginTx()
				}
				rs, txErr, pan, emitted := m.w.Transaction(0, tx)
				if pan != nil {
					c.failf("step %d %s: panic: %v", i, a, pan)
				}
				for j, r := range rs {
					if err := m.checkCall(tx.Calls[j], r, 0, true); err != nil {
						c.failf("step %d, transaction call %d: %v", i, j, err)
					}
				}
				if (tx.FailAt >= 0) != (txErr != nil) {
					c.failf("step %d %s: body returned error=%v but Transaction returned %v", i, a, tx.FailAt >= 0, txErr)
				}
				if txErr != nil {
					m.pm = before
					if kind == sim.Document {
						m.pm.doc.bind(m.w.Reps[0].DT)
						m.pm.doc.afterRollback(col)
					}
					if emitted != 0 {
						c.failf("step %d %s: failed transaction queued %d operations", i, a, emitted)
					}
				} else {
					if kind == sim.Document {
						m.pm.doc.endTx()
					}
					mut := 0
					for j, r := range rs {
						if r.Err == nil && r.NavErr == nil && sim.Mutating(tx.Calls[j].M) {
							mut++
						}
					}
					if emitted != mut+1 {
						c.failf("step %d %s: committed transaction with %d successful mutating calls queued %d operations (want header + %d)", i, a, mut, emitted, mut)
					}
				}
				col.Label("transaction")
				if err := m.checkState(a.String()); err != nil {
					c.failf("step %d: %v", i, err)
				}
				continue
			}
			var a c03Action
			var res sim.Result
			var emitted int
			if kind == sim.Document && !m.pm.doc.focus && rapid.IntRange(0, 2).Draw(c.rt, "viahandle") > 0 {
				// handle-based call (c03doc_test.go)
				hc := m.pm.doc.genHandleCall(c.rt)
				c.j.add(hc)
				canon.WriteString(hc.String() + ";")
				if err := m.pm.doc.execHandleCall(m, hc); err != nil {
					c.failf("step %d %s: %v", i, hc, err)
				}
				if err := m.checkState(hc.String()); err != nil {
					c.failf("step %d: %v", i, err)
				}
				continue
			}
			call := genC03Call(c.rt, m.pm)
			a = c03Action{K: "call", Call: &call}
			c.j.add(a)
			canon.WriteString(a.String() + ";")
			res, emitted = m.w.Call(0, call)
			if err := m.checkCall(call, res, emitted, false); err != nil {
				c.failf("step %d: %v", i, err)
			}
			if err := m.checkState(a.String()); err != nil {
				c.failf("step %d: %v", i, err)
			}
		}
		labels := []string{"kind=" + string(kind)}
		if m.invalidAfter3 {
			labels = append(labels, "invalid-after-3-successes")
		}
		if m.readAfterDelete {
			labels = append(labels, "read-after-delete")
		}
		if c03BatchOverHole > holes0 {
			labels = append(labels, "batch-update-of-array-with-inner-deletion")
		}
		col.Case(m.invalidAfter3 && m.readAfterDelete, string(kind)+canon.String(), labels, func() interface{} {
			return map[string]interface{}{"kind": kind, "calls": canon.String()}
		})
	})
}

func TestC03Counter(t *testing.T)  { testC03(t, sim.Counter) }
func TestC03Map(t *testing.T)      { testC03(t, sim.Map) }
func TestC03List(t *testing.T)     { testC03(t, sim.List) }
func TestC03Document(t *testing.T) { testC03(t, sim.Document) }

// TestC03KnownS21 is the minimal probe of known finding S21 (stale child handles after a rollback).
func TestC03KnownS21(t *testing.T) {
	col := stats.New("C03", t.Name(), "minimal probe of known finding S21 (child handle used after a rolled-back transaction)")
	defer col.Flush()
	sim.SeedIDs(21)
	w := sim.NewWorld(sim.Document, 1, 1)
	root := w.Reps[0].DT.(orda.Document)
	_, _ = root.PutToObject("a", map[string]interface{}{"x": 1})
	child, _ := root.GetFromObject("a")
	_ = root.Transaction("fails", func(d orda.DocumentInTx) error { return fmt.Errorf("no") })
	fresh, _ := root.GetFromObject("a")
	_, err := fresh.PutToObject("y", 2)
	stale, current := sim.Canon(child.GetValue()), sim.Canon(fresh.GetValue())
	view := stale
	reproduced := err == nil && stale != current && !child.Equal(fresh)
	col.Bulk(1, 0)
	t.Logf("S21 probe: err=%v stale=%s current=%s equal=%v", err, stale, current, child.Equal(fresh))
	switch {
	case reproduced && isOpen("S21"):
		reportKnown(col, "C03", "S21", "a child handle obtained before a failed transaction keeps reading "+stale+" after the member became "+current+", and is not Equal() to a freshly obtained handle of the same member")
	case reproduced:
		j := &Journal{Property: "C03", Test: t.Name(), Header: "PutToObject(a,{x:1}); h=GetFromObject(a); failing Transaction; GetFromObject(a).PutToObject(y,2); h.GetValue()"}
		enumFail(t, "C03", j, "child handle is stale after a rolled-back transaction: reads %s, the document has %s", view, current)
	case isOpen("S21"):
		col.Note("known finding S21 no longer reproduces")
	}
}
