package props

import (
	"encoding/json"
	"fmt"
	"sort"
	"strings"

	"github.com/orda-io/orda/client/pkg/model"
	"github.com/orda-io/orda/client/pkg/orda"
	"pgregory.net/rapid"
	"verif/refmodel"
	"verif/sim"
)

// l0Config selects generator bias for the multi-replica machine.
type l0Config struct {
	Kind        sim.Kind `json:"kind"`
	Replicas    int      `json:"replicas"`
	MaxReplicas int      `json:"max_replicas"`
	Conflict    bool     `json:"conflict"` // few keys / same positions
	Tagged      bool     `json:"tagged"`   // list/array values are unique tags (C04)
	Tx          bool     `json:"tx"`       // generate transactions
	BigBatch    bool     `json:"big_batch"`
	Invalid     bool     `json:"invalid"` // also generate invalid calls
	IDSeed      uint64   `json:"id_seed"`
	ArrayOnly   bool     `json:"array_only"` // documents: one top-level array "arr" is the playground (C04)
	TxPct       int      `json:"tx_pct"`     // extra probability (percent) of a transaction action
	TxStopOnErr bool     `json:"tx_stop_on_err"`
	WideFirst   bool     `json:"wide_first,omitempty"` // list/document: every initial replica starts with one wide operation (11-25 values: large delimiters at small clock values)
	SoloRun     int      `json:"solo_run,omitempty"`   // after the wide operations replica 0 makes this many local calls in a row (its clock walks through 2..SoloRun+1 without gaps)
	Nested      bool     `json:"nested,omitempty"`     // documents: containers inside arrays are the playground (batches of nested values, later edits inside them)
}

// l0Action is one step of a history.
type l0Action struct {
	K    string    `json:"k"` // local | tx | start | finish | quiesce | join
	R    int       `json:"r"`
	Call *sim.Call `json:"call,omitempty"`
	Tx   *sim.Tx   `json:"tx,omitempty"`
}

func (a l0Action) String() string {
	switch a.K {
	case "local":
		return fmt.Sprintf("r%d.%s", a.R, a.Call)
	case "tx":
		return fmt.Sprintf("r%d.tx(fail_at=%d,%d calls)", a.R, a.Tx.FailAt, len(a.Tx.Calls))
	}
	return fmt.Sprintf("%s(r%d)", a.K, a.R)
}

// opInfo is the bookkeeping for one emitted operation.
type opInfo struct {
	op      *model.Operation
	owner   int
	dp      int // log prefix whose foreign operations the owner had applied when it emitted the op
	li      int // index in the log (-1 until pushed)
	step    int // machine step at which it was emitted
	touches []string
}

type l0Machine struct {
	cfg     l0Config
	w       *sim.World
	ops     []*opInfo          // every emitted operation, emission order
	byID    map[string]*opInfo // "cuid:seq" -> info
	perRep  [][]*opInfo        // per replica, own ops in emission order
	labels  map[string]bool    // labels of this case
	mapKeys map[string]bool    // every map key ever used
	tagN    int                // tag counter (C04)
	steps   int
	hist    []string
	applied map[int]int // replica -> number of own buffer ops already linked to log
	// script: actions queued by a scripted scenario (see scriptBatchUpdateVsDelete); they run before anything is drawn
	script []func(rt *rapid.T) *l0Action
}

func newL0Machine(cfg l0Config) *l0Machine {
	sim.SeedIDs(cfg.IDSeed)
	m := &l0Machine{cfg: cfg, byID: map[string]*opInfo{}, labels: map[string]bool{}, mapKeys: map[string]bool{}, applied: map[int]int{}}
	m.w = sim.NewWorld(cfg.Kind, cfg.Replicas, cfg.MaxReplicas)
	m.perRep = make([][]*opInfo, len(m.w.Reps))
	for i := range m.w.Reps {
		m.noteOps(i, 0)
	}
	m.linkLog()
	if cfg.ArrayOnly && cfg.Kind == sim.Document {
		// the playground array is created by replica 0 and distributed before the history starts
		m.w.Call(0, sim.Call{M: "PutToObject", Key: "arr", Vals: []sim.Val{sim.Arr()}})
		m.noteOps(0, m.delivered(0))
		_ = m.w.Quiesce()
		m.linkLog()
	}
	return m
}

func opKey(op *model.Operation) string { return fmt.Sprintf("%s:%d", op.ID.CUID, op.ID.Seq) }

func (m *l0Machine) delivered(r int) int {
	// foreign operations of log[0:x) have been applied at replica r
	rep := m.w.Reps[r]
	_ = rep
	return m.w.DeliveredPrefix(r)
}

// noteOps registers operations newly emitted by replica r.
func (m *l0Machine) noteOps(r int, dp int) {
	for len(m.perRep) <= r {
		m.perRep = append(m.perRep, nil)
	}
	em := m.w.Reps[r].Emitted
	for i := len(m.perRep[r]); i < len(em); i++ {
		oi := &opInfo{op: em[i], owner: r, dp: dp, li: -1, step: m.steps, touches: touches(em[i])}
		m.ops = append(m.ops, oi)
		m.perRep[r] = append(m.perRep[r], oi)
		m.byID[opKey(em[i])] = oi
	}
}

// linkLog assigns log indices to operations that have been pushed.
func (m *l0Machine) linkLog() {
	for i, op := range m.w.Log {
		if oi := m.byID[opKey(op)]; oi != nil && oi.li < 0 {
			oi.li = i
		}
	}
}

// touches returns the conflict keys of an operation: map key, list anchor / targets, document
// container+key, container+anchor/targets and the container itself.
func touches(op *model.Operation) []string {
	var b map[string]json.RawMessage
	if json.Unmarshal(op.Body, &b) != nil {
		return nil
	}
	var out []string
	if op.OpType == model.TypeOfOperation_COUNTER_INCREASE {
		return []string{"counter"}
	}
	p := ""
	if raw, ok := b["P"]; ok {
		p = "P" + string(raw)
		out = append(out, p)
	}
	if raw, ok := b["Key"]; ok {
		out = append(out, "key"+string(raw))
	}
	if raw, ok := b["K"]; ok {
		out = append(out, p+"/K"+string(raw))
	}
	if raw, ok := b["T"]; ok {
		var one json.RawMessage
		var many []json.RawMessage
		if json.Unmarshal(raw, &many) == nil {
			for _, t := range many {
				out = append(out, p+"/T"+string(t))
			}
		} else if json.Unmarshal(raw, &one) == nil {
			out = append(out, p+"/T"+string(one))
		}
	}
	return out
}

func intersects(a, b []string) bool {
	for _, x := range a {
		for _, y := range b {
			if x == y {
				return true
			}
		}
	}
	return false
}

func clockGreater(a, b *model.Operation) bool {
	if a.ID.Lamport != b.ID.Lamport {
		return a.ID.Lamport > b.ID.Lamport
	}
	return strings.Compare(a.ID.CUID, b.ID.CUID) > 0
}

// conflictStats: number of concurrent conflicting pairs from different replicas, and how many of
// them have the timestamp winner earlier in the log (arrival-order-wins would get those wrong).
func (m *l0Machine) conflictStats() (pairs, winnerNotLast int) {
	for i, a := range m.ops {
		if a.li < 0 || len(a.touches) == 0 {
			continue
		}
		for _, b := range m.ops[i+1:] {
			if b.li < 0 || a.owner == b.owner || len(b.touches) == 0 {
				continue
			}
			if a.li >= b.dp && b.li >= a.dp && intersects(a.touches, b.touches) {
				pairs++
				first, second := a, b
				if b.li < a.li {
					first, second = b, a
				}
				if clockGreater(first.op, second.op) {
					winnerNotLast++
				}
			}
		}
	}
	return
}

// ---------------------------------------------------------------------------------------------
// generation

func (m *l0Machine) nextTag(r int) sim.Val {
	m.tagN++
	return sim.S(fmt.Sprintf("s%d#%d", m.tagN, r))
}

// nestedVal draws a small container value (object or array, sometimes two levels).
func (m *l0Machine) nestedVal(rt *rapid.T, label string) sim.Val {
	k := rapid.SampledFrom(keyPoolPlain[:3]).Draw(rt, label+".nk")
	switch rapid.IntRange(0, 4).Draw(rt, label+".nshape") {
	case 4:
		// two sibling containers under keys that are different strings but equal under some folding (letter case,
		// unicode composition, trailing blank): the order in which the members of one value are visited decides
		// their identities and has to be the same on every replica for ANY two distinct keys
		pair := rapid.SampledFrom([][2]string{{"id", "ID"}, {"a", "A"}, {"\u00e9", "e\u0301"}, {"b", "b "}, {"c", "C"}}).Draw(rt, label+".confusable")
		return sim.Obj(sim.KV{K: pair[0], V: sim.Arr(genPrim(rt, label+".np0"))}, sim.KV{K: pair[1], V: sim.Arr(genPrim(rt, label+".np1"))}, sim.KV{K: k + "z", V: sim.Obj(sim.KV{K: k, V: genPrim(rt, label+".np2")})})
	case 0:
		return sim.Obj(sim.KV{K: k, V: genPrim(rt, label+".np")})
	case 1:
		return sim.Arr(genPrim(rt, label+".np0"), genPrim(rt, label+".np1"))
	case 2:
		return sim.Obj(sim.KV{K: k, V: sim.Arr(genPrim(rt, label+".np"))})
	}
	return sim.Arr(sim.Obj(sim.KV{K: k, V: genPrim(rt, label+".np")}))
}

func (m *l0Machine) genVal(rt *rapid.T, r int, label string) sim.Val {
	if m.cfg.Nested && !m.cfg.Tagged && rapid.IntRange(0, 2).Draw(rt, label+".forcenested") > 0 {
		return m.nestedVal(rt, label)
	}
	if m.cfg.Tagged {
		if m.cfg.Kind == sim.Document && rapid.IntRange(0, 5).Draw(rt, label+".nestedarr") == 0 {
			return sim.Arr(m.nextTag(r), m.nextTag(r))
		}
		return m.nextTag(r)
	}
	if !m.cfg.Tagged && rapid.IntRange(0, 3).Draw(rt, label+".smallpool") == 0 {
		// three values only: writing the value a key / slot already holds (here or on another replica) is an
		// operation like any other - its timestamp has to win or lose conflicts as usual
		return rapid.SampledFrom([]sim.Val{sim.S("v"), sim.S("w"), sim.I(1)}).Draw(rt, label+".small")
	}
	if rapid.IntRange(0, 7).Draw(rt, label+".gotyped") == 0 {
		// every Go value class of the generators (numeric widths, pointers, structs, typed slices and maps,
		// nil slices / maps, byte slices, fixed-size arrays): what the issuing replica keeps for such a
		// value has to be what the others decode
		m.labels["go-typed-value"] = true
		return genGoVal(rt, label, 2)
	}
	depth := 0
	if m.cfg.Kind == sim.Document {
		depth = 3
	} else if rapid.IntRange(0, 3).Draw(rt, label+".nest") == 0 {
		depth = 2
	}
	keys := keyPoolPlain
	if !m.cfg.Conflict && rapid.IntRange(0, 3).Draw(rt, label+".hostile") == 0 {
		keys = keyPoolHostile // including the empty key, which a Document accepts
	}
	return genJSONVal(rt, label, depth, keys)
}

func (m *l0Machine) genBatch(rt *rapid.T, r int, label string, max int) []sim.Val {
	var n int
	switch rapid.IntRange(0, 9).Draw(rt, label+".batchclass") {
	case 0, 1, 2, 3, 4:
		n = 1
	case 5, 6, 7:
		n = rapid.IntRange(2, 4).Draw(rt, label+".small")
	case 8:
		n = rapid.IntRange(10, 13).Draw(rt, label+".eleven")
	default:
		if m.cfg.BigBatch {
			n = rapid.SampledFrom([]int{20, 100, 300}).Draw(rt, label+".big")
		} else {
			n = rapid.IntRange(5, 9).Draw(rt, label+".mid")
		}
	}
	if max > 0 && n > max {
		n = max
	}
	vs := make([]sim.Val, 0, n)
	for i := 0; i < n; i++ {
		if n > 4 {
			// keep big batches cheap: tags or small ints
			if m.cfg.Tagged {
				vs = append(vs, m.nextTag(r))
			} else {
				vs = append(vs, sim.I(int64(i)))
			}
			continue
		}
		vs = append(vs, m.genVal(rt, r, fmt.Sprintf("%s.v%d", label, i)))
	}
	return vs
}

func (m *l0Machine) genPos(rt *rapid.T, label string, size int, forInsert bool) int {
	hi := size - 1
	if forInsert {
		hi = size
	}
	if m.cfg.Invalid && rapid.IntRange(0, 11).Draw(rt, label+".badpos") == 0 {
		return rapid.SampledFrom([]int{-1, size + 1, size + 7}).Draw(rt, label+".bad")
	}
	if hi < 0 {
		return 0
	}
	if m.cfg.Conflict && hi > 2 && rapid.Bool().Draw(rt, label+".front") {
		hi = 2
	}
	return rapid.IntRange(0, hi).Draw(rt, label+".pos")
}

func (m *l0Machine) genCall(rt *rapid.T, r int, view interface{}) sim.Call {
	rep := m.w.Reps[r]
	switch m.cfg.Kind {
	case sim.Counter:
		if rapid.Bool().Draw(rt, "inc1") {
			return sim.Call{M: "Increase"}
		}
		d := rapid.SampledFrom([]int64{1, -1, 7, -13, 1 << 30, -(1 << 30), 2147483647, -2147483648, 0}).Draw(rt, "delta")
		return sim.Call{M: "IncreaseBy", Vals: []sim.Val{sim.I(d)}}
	case sim.Map:
		keys := keyPoolPlain
		if m.cfg.Conflict {
			keys = keyPoolPlain[:2]
		} else if rapid.IntRange(0, 4).Draw(rt, "hostilekey") == 0 {
			keys = keyPoolHostile
		}
		// with one or two keys left, a quarter of the calls remove one of them: maps that hold nothing but
		// tombstones (and are exported, restored, rolled back in that state) should not be rare
		if live := liveMapKeys(rep.DT); len(live) > 0 && len(live) <= 2 && rapid.IntRange(0, 3).Draw(rt, "rmlive") == 0 {
			return sim.Call{M: "Remove", Key: rapid.SampledFrom(live).Draw(rt, "livekey")}
		}
		k := rapid.SampledFrom(keys).Draw(rt, "key")
		m.mapKeys[k] = true
		if rapid.IntRange(0, 2).Draw(rt, "putrm") == 0 {
			return sim.Call{M: "Remove", Key: k}
		}
		return sim.Call{M: "Put", Key: k, Vals: []sim.Val{m.genVal(rt, r, "val")}}
	case sim.List:
		size := rep.DT.(orda.List).Size()
		c := rapid.IntRange(0, 9).Draw(rt, "listop")
		switch {
		case size == 0 || c < 5:
			vs := m.genBatch(rt, r, "ins", 0)
			if len(vs) == 1 && rapid.Bool().Draw(rt, "single") {
				return sim.Call{M: "Insert", Pos: m.genPos(rt, "ins", size, true), Vals: vs}
			}
			return sim.Call{M: "InsertMany", Pos: m.genPos(rt, "ins", size, true), Vals: vs}
		case c < 7:
			pos := m.genPos(rt, "upd", size, false)
			max := size - pos
			if max < 1 {
				max = 1
			}
			vs := m.genBatch(rt, r, "upd", max)
			if m.cfg.Tagged {
				vs = m.retag(rep, pos, vs, r)
			}
			return sim.Call{M: "Update", Pos: pos, Vals: vs}
		default:
			pos := m.genPos(rt, "del", size, false)
			if rapid.Bool().Draw(rt, "delone") {
				return sim.Call{M: "Delete", Pos: pos}
			}
			max := size - pos
			if max < 1 {
				max = 1
			}
			n := rapid.IntRange(1, max).Draw(rt, "deln")
			if n > 4 && !m.cfg.BigBatch {
				n = 4
			}
			return sim.Call{M: "DeleteMany", Pos: pos, N: n}
		}
	case sim.Document:
		return m.genDocCall(rt, r, view)
	}
	panic("unreachable")
}

// retag: C04 updates keep the slot tag and bump the suffix.
func (m *l0Machine) retag(rep *sim.Replica, pos int, vs []sim.Val, r int) []sim.Val {
	cur, err := rep.DT.(orda.List).GetMany(pos, len(vs))
	if err != nil || len(cur) != len(vs) {
		return vs
	}
	out := make([]sim.Val, len(vs))
	for i := range vs {
		s, _ := cur[i].(string)
		m.tagN++
		out[i] = sim.S(fmt.Sprintf("%s#%d.%d", slotTag(s), r, m.tagN))
	}
	return out
}

func slotTag(s string) string {
	if i := strings.IndexByte(s, '#'); i >= 0 {
		return s[:i]
	}
	return s
}

func (m *l0Machine) genDocCall(rt *rapid.T, r int, view interface{}) sim.Call {
	cs := containersOf(view)
	if m.cfg.ArrayOnly {
		var arrs []containerRef
		for _, c := range cs {
			if c.isArr {
				arrs = append(arrs, c)
			}
		}
		if len(arrs) > 0 {
			cs = arrs
		}
	}
	// prefer deeper containers sometimes so nested edits by other replicas happen
	c := cs[rapid.IntRange(0, len(cs)-1).Draw(rt, "container")]
	insertBelow := 5
	if m.cfg.Nested {
		var arrs, inArr []containerRef
		for _, x := range cs {
			through := false
			for _, st := range x.path {
				if st.I != nil {
					through = true
				}
			}
			switch {
			case through:
				inArr = append(inArr, x)
			case x.isArr:
				arrs = append(arrs, x)
			}
		}
		if len(arrs) == 0 {
			// plant the playground: an array of nested values
			return sim.Call{M: "PutToObject", Key: "arr", Vals: []sim.Val{sim.Arr(m.nestedVal(rt, "plant0"), m.nestedVal(rt, "plant1"), sim.S("p"), m.nestedVal(rt, "plant2"))}}
		}
		switch w := rapid.IntRange(0, 4).Draw(rt, "nestedpick"); {
		case w < 2 && len(inArr) > 0:
			c = inArr[rapid.IntRange(0, len(inArr)-1).Draw(rt, "inarr")]
		case w < 4:
			c = arrs[rapid.IntRange(0, len(arrs)-1).Draw(rt, "toparr")]
		}
		insertBelow = 3
	}
	if c.isArr {
		op := rapid.IntRange(0, 9).Draw(rt, "arrop")
		switch {
		case c.size == 0 || op < insertBelow:
			return sim.Call{M: "InsertToArray", Path: c.path, Pos: m.genPos(rt, "ains", c.size, true), Vals: m.genArrVals(rt, r, "ains", 0, view, c, -1)}
		case op < 7:
			pos := m.genPos(rt, "aupd", c.size, false)
			max := c.size - pos
			if max < 1 {
				max = 1
			}
			if max > 3 {
				max = 3
			}
			return sim.Call{M: "UpdateManyInArray", Path: c.path, Pos: pos, Vals: m.genArrVals(rt, r, "aupd", max, view, c, pos)}
		default:
			pos := m.genPos(rt, "adel", c.size, false)
			if rapid.Bool().Draw(rt, "adelone") {
				return sim.Call{M: "DeleteInArray", Path: c.path, Pos: pos}
			}
			max := c.size - pos
			if max < 1 {
				max = 1
			}
			if max > 3 {
				max = 3
			}
			return sim.Call{M: "DeleteManyInArray", Path: c.path, Pos: pos, N: rapid.IntRange(1, max).Draw(rt, "adeln")}
		}
	}
	keys := keyPoolPlain
	if m.cfg.Conflict {
		keys = keyPoolPlain[:3]
	} else if rapid.IntRange(0, 4).Draw(rt, "dhostile") == 0 {
		keys = keyPoolHostile // including the empty key, which a Document accepts
	}
	if m.cfg.Invalid && rapid.IntRange(0, 11).Draw(rt, "missingrm") == 0 {
		// a key from the pool: mostly absent or already deleted (a clean error, no operation)
		return sim.Call{M: "DeleteInObject", Path: c.path, Key: rapid.SampledFrom(keys).Draw(rt, "missingkey")}
	}
	if len(c.keys) > 0 && rapid.IntRange(0, 3).Draw(rt, "objrm") == 0 {
		return sim.Call{M: "DeleteInObject", Path: c.path, Key: rapid.SampledFrom(c.keys).Draw(rt, "rmkey")}
	}
	k := rapid.SampledFrom(keys).Draw(rt, "dkey")
	if len(c.keys) > 0 && rapid.Bool().Draw(rt, "existing") {
		k = rapid.SampledFrom(c.keys).Draw(rt, "exkey")
	}
	return sim.Call{M: "PutToObject", Path: c.path, Key: k, Vals: []sim.Val{m.genVal(rt, r, "dval")}}
}

// genArrVals draws array values; in tagged mode they are unique tags, and updates keep the slot tag.
func (m *l0Machine) genArrVals(rt *rapid.T, r int, label string, max int, view interface{}, c containerRef, updPos int) []sim.Val {
	vs := m.genBatch(rt, r, label, max)
	if m.cfg.Tagged && updPos >= 0 {
		arr := lookupPath(view, c.path)
		if l, ok := arr.([]interface{}); ok {
			for i := range vs {
				if updPos+i < len(l) {
					if s, ok := l[updPos+i].(string); ok {
						m.tagN++
						vs[i] = sim.S(fmt.Sprintf("%s#%d.%d", slotTag(s), r, m.tagN))
					} else {
						// the slot holds a nested array: replace it by another nested array so that no
						// top-level slot tag is invented by an update
						vs[i] = sim.Arr(m.nextTag(r), m.nextTag(r))
					}
				}
			}
		}
	}
	return vs
}

func lookupPath(v interface{}, path []sim.Step) interface{} {
	cur := v
	for _, s := range path {
		switch x := cur.(type) {
		case map[string]interface{}:
			if s.K == nil {
				return nil
			}
			cur = x[*s.K]
		case []interface{}:
			if s.I == nil || *s.I < 0 || *s.I >= len(x) {
				return nil
			}
			cur = x[*s.I]
		default:
			return nil
		}
	}
	return cur
}

func (m *l0Machine) docView(r int) interface{} {
	if m.cfg.Kind != sim.Document {
		return nil
	}
	return sim.Normalize(m.w.Reps[r].DT.(orda.Document).GetValue())
}

// scriptBatchUpdateVsDelete queues: everybody in sync; replica a updates two or three neighbouring elements of an
// array with NESTED values in one call while replica b, concurrently, deletes the first of them; everybody in sync;
// then a call addressed to what the update put into the following slot (by path, i.e. by identity on the wire).
func (m *l0Machine) scriptBatchUpdateVsDelete(rt *rapid.T, a, b int) {
	var path []sim.Step
	pos := -1
	m.script = []func(rt *rapid.T) *l0Action{
		func(rt *rapid.T) *l0Action { return &l0Action{K: "quiesce"} },
		func(rt *rapid.T) *l0Action {
			var cands []containerRef
			for _, c := range containersOf(m.docView(a)) {
				if c.isArr && c.size >= 2 {
					cands = append(cands, c)
				}
			}
			if len(cands) == 0 {
				m.script = nil
				return nil
			}
			c := cands[rapid.IntRange(0, len(cands)-1).Draw(rt, "s.arr")]
			path, pos = c.path, rapid.IntRange(0, c.size-2).Draw(rt, "s.pos")
			vals := []sim.Val{m.nestedVal(rt, "s.v0"), m.nestedVal(rt, "s.v1")}
			if pos+3 <= c.size && rapid.Bool().Draw(rt, "s.three") {
				vals = append(vals, m.nestedVal(rt, "s.v2"))
			}
			m.labels["script:batch-update-of-nested-values-vs-concurrent-delete"] = true
			call := sim.Call{M: "UpdateManyInArray", Path: path, Pos: pos, Vals: vals}
			return &l0Action{K: "local", R: a, Call: &call}
		},
		func(rt *rapid.T) *l0Action {
			call := sim.Call{M: "DeleteInArray", Path: path, Pos: pos}
			return &l0Action{K: "local", R: b, Call: &call}
		},
		func(rt *rapid.T) *l0Action { return &l0Action{K: "quiesce"} },
		func(rt *rapid.T) *l0Action {
			who := a
			if rapid.Bool().Draw(rt, "s.who") {
				who = b
			}
			at := append(append([]sim.Step{}, path...), sim.IStep(pos))
			var call sim.Call
			switch lookupPath(m.docView(who), at).(type) {
			case map[string]interface{}:
				call = sim.Call{M: "PutToObject", Path: at, Key: "z", Vals: []sim.Val{sim.S("after")}}
			case []interface{}:
				call = sim.Call{M: "InsertToArray", Path: at, Pos: 0, Vals: []sim.Val{sim.S("after")}}
			default:
				return nil
			}
			return &l0Action{K: "local", R: who, Call: &call}
		},
		func(rt *rapid.T) *l0Action { return &l0Action{K: "quiesce"} },
	}
}

// scriptThreeWayKey queues: everybody in sync with key k present; then three replicas, concurrently and each after
// 0-3 operations on other keys (so that their clocks differ), remove k, put k and remove k again; their pushes
// reach the log in a drawn order; everybody in sync. Whatever the order of arrival, the newest of the three wins.
func (m *l0Machine) scriptThreeWayKey(rt *rapid.T) {
	n := len(m.w.Reps)
	perm := rapid.Permutation([]int{0, 1, 2}).Draw(rt, "s3.roles") // who removes first / puts / removes
	base := rapid.IntRange(0, n-3).Draw(rt, "s3.base")
	who := []int{base + perm[0], base + perm[1], base + perm[2]}
	key := "s3k"
	put := func(r int, k string, v sim.Val) *l0Action {
		call := sim.Call{M: "Put", Key: k, Vals: []sim.Val{v}}
		if m.cfg.Kind == sim.Document {
			call = sim.Call{M: "PutToObject", Key: k, Vals: []sim.Val{v}}
		}
		return &l0Action{K: "local", R: r, Call: &call}
	}
	rm := func(r int) *l0Action {
		call := sim.Call{M: "Remove", Key: key}
		if m.cfg.Kind == sim.Document {
			call = sim.Call{M: "DeleteInObject", Key: key}
		}
		return &l0Action{K: "local", R: r, Call: &call}
	}
	m.script = []func(rt *rapid.T) *l0Action{
		func(rt *rapid.T) *l0Action { return put(who[0], key, sim.S("base")) },
		func(rt *rapid.T) *l0Action { return &l0Action{K: "quiesce"} },
	}
	for i, r := range who {
		i, r := i, r
		for p, np := 0, rapid.IntRange(0, 3).Draw(rt, fmt.Sprintf("s3.pad%d", i)); p < np; p++ {
			p := p
			m.script = append(m.script, func(rt *rapid.T) *l0Action { return put(r, fmt.Sprintf("pad%d", r), sim.I(int64(p))) })
		}
		if i == 1 {
			m.script = append(m.script, func(rt *rapid.T) *l0Action { return put(r, key, sim.S("between")) })
		} else {
			m.script = append(m.script, func(rt *rapid.T) *l0Action { return rm(r) })
		}
	}
	// the pushes reach the log in a drawn order
	for _, i := range rapid.Permutation([]int{0, 1, 2}).Draw(rt, "s3.pushorder") {
		r := who[i]
		m.script = append(m.script,
			func(rt *rapid.T) *l0Action { return &l0Action{K: "start", R: r} },
			func(rt *rapid.T) *l0Action { return &l0Action{K: "finish", R: r} })
	}
	m.script = append(m.script, func(rt *rapid.T) *l0Action { return &l0Action{K: "quiesce"} })
	m.labels["script:remove-put-remove-of-one-key-by-three-replicas"] = true
}

func (m *l0Machine) gen(rt *rapid.T) l0Action {
	for len(m.script) > 0 {
		f := m.script[0]
		m.script = m.script[1:]
		if a := f(rt); a != nil {
			return *a
		}
	}
	n := len(m.w.Reps)
	r := rapid.IntRange(0, n-1).Draw(rt, "replica")
	c := rapid.IntRange(0, 99).Draw(rt, "action")
	if (m.cfg.Kind == sim.Map || m.cfg.Kind == sim.Document) && !m.cfg.Tagged && !m.cfg.ArrayOnly && n >= 3 && rapid.IntRange(0, 19).Draw(rt, "scripted3") == 0 {
		m.scriptThreeWayKey(rt)
		return m.gen(rt)
	}
	if m.cfg.Kind == sim.Document && !m.cfg.Tagged && n >= 2 && rapid.IntRange(0, 11).Draw(rt, "scripted") == 0 {
		b := rapid.IntRange(0, n-2).Draw(rt, "s.other")
		if b >= r {
			b++
		}
		m.scriptBatchUpdateVsDelete(rt, r, b)
		return m.gen(rt)
	}
	if m.cfg.WideFirst && m.steps < m.cfg.Replicas && m.steps < n {
		r = m.steps
		k := rapid.IntRange(11, 25).Draw(rt, "wide")
		vs := make([]sim.Val, 0, k)
		for i := 0; i < k; i++ {
			switch {
			case m.cfg.Tagged:
				vs = append(vs, m.nextTag(r))
			case m.cfg.Kind == sim.Document && i%5 == 4:
				vs = append(vs, sim.Obj(sim.KV{K: "w", V: sim.I(int64(i))}))
			default:
				vs = append(vs, sim.I(int64(i)))
			}
		}
		if m.cfg.Kind == sim.List {
			call := sim.Call{M: "InsertMany", Pos: 0, Vals: vs}
			return l0Action{K: "local", R: r, Call: &call}
		}
		key := "arr"
		if !m.cfg.ArrayOnly {
			key = fmt.Sprintf("w%d", r)
		}
		call := sim.Call{M: "PutToObject", Key: key, Vals: []sim.Val{sim.Arr(vs...)}}
		return l0Action{K: "local", R: r, Call: &call}
	}
	if m.cfg.WideFirst && m.steps >= m.cfg.Replicas && m.steps < m.cfg.Replicas+m.cfg.SoloRun {
		call := m.genCall(rt, 0, m.docView(0))
		return l0Action{K: "local", R: 0, Call: &call}
	}
	if m.cfg.TxPct > 0 && rapid.IntRange(0, 99).Draw(rt, "txbias") < m.cfg.TxPct {
		c = 58
	}
	switch {
	case c < 55:
		call := m.genCall(rt, r, m.docView(r))
		return l0Action{K: "local", R: r, Call: &call}
	case c < 62 && m.cfg.Tx:
		view := m.docView(r)
		k := rapid.IntRange(0, 5).Draw(rt, "txlen")
		tx := sim.Tx{Tag: fmt.Sprintf("tx%d", m.steps)}
		for i := 0; i < k; i++ {
			call := m.genCall(rt, r, view)
			if m.cfg.Tagged && (call.M == "Update" || call.M == "UpdateManyInArray") {
				// tagged updates derive their value from the slot they hit; inside a transaction
				// earlier calls shift the positions, so the derivation would be stale
				continue
			}
			tx.Calls = append(tx.Calls, call)
		}
		if m.cfg.Kind == sim.Document && !m.cfg.Tagged && !m.cfg.ArrayOnly && rapid.IntRange(0, 3).Draw(rt, "txpatch") == 0 {
			// a unit of several operations INSIDE the transaction of the user: PatchByJSON towards the current
			// value with two more members (>= 2 patch operations, issued as a nested unit)
			if top, ok := view.(map[string]interface{}); ok {
				tgt := map[string]interface{}{}
				for k, v := range top {
					tgt[k] = v
				}
				tgt["pj1"], tgt["pj2"] = m.steps, fmt.Sprintf("p%d", m.steps)
				if b, err := json.Marshal(tgt); err == nil {
					pc := sim.Call{M: "PatchByJSON", JSON: string(b)}
					if rapid.Bool().Draw(rt, "txpatchfirst") {
						tx.Calls = append([]sim.Call{pc}, tx.Calls...)
					} else {
						tx.Calls = append(tx.Calls, pc)
					}
				}
			}
		}
		k = len(tx.Calls)
		tx.FailAt = -1
		if rapid.IntRange(0, 2).Draw(rt, "txfail") == 0 {
			tx.FailAt = rapid.IntRange(0, k).Draw(rt, "failat")
		}
		if m.cfg.TxStopOnErr {
			tx.StopOnErr = rapid.Bool().Draw(rt, "stoponerr")
		}
		return l0Action{K: "tx", R: r, Tx: &tx}
	case c < 75:
		return l0Action{K: "start", R: r}
	case c < 90:
		return l0Action{K: "finish", R: r}
	case c < 97:
		return l0Action{K: "quiesce"}
	default:
		if n < m.cfg.MaxReplicas {
			return l0Action{K: "join"}
		}
		return l0Action{K: "quiesce"}
	}
}

// ---------------------------------------------------------------------------------------------
// execution

type stepInfo struct {
	emitted int
	results []sim.Result
	txErr   error
	panic   interface{}
	quiesce bool
}

// preHook, when set, is called right before an action is executed.
var preHook func(m *l0Machine, a l0Action)

func (m *l0Machine) apply(a l0Action) (si stepInfo, err error) {
	m.steps++
	if preHook != nil {
		preHook(m, a)
	}
	switch a.K {
	case "local":
		dp := m.delivered(a.R)
		res, n := m.w.Call(a.R, *a.Call)
		m.noteOps(a.R, dp)
		si.emitted, si.results = n, []sim.Result{res}
		if res.Panic != nil {
			si.panic = res.Panic
		}
		if len(a.Call.Vals) >= 2 {
			m.labels["batch>=2"] = true
		}
		if len(a.Call.Vals) >= 11 {
			m.labels["batch>=11"] = true
		}
		for _, v := range a.Call.Vals {
			if v.IsContainer() {
				m.labels["nested-value"] = true
			}
		}
	case "tx":
		dp := m.delivered(a.R)
		rs, txErr, p, n := m.w.Transaction(a.R, *a.Tx)
		m.noteOps(a.R, dp)
		si.emitted, si.results, si.txErr, si.panic = n, rs, txErr, p
		m.labels["transaction"] = true
		if txErr != nil {
			m.labels["rollback"] = true
		}
	case "start":
		m.w.SyncStart(a.R)
		m.linkLog()
	case "finish":
		_, e, p := m.w.SyncFinish(a.R)
		if p != nil {
			return si, fmt.Errorf("replica %d panicked while applying remote operations: %v", a.R, p)
		}
		if e != nil {
			return si, fmt.Errorf("replica %d returned an error while applying remote operations: %v", a.R, e)
		}
	case "quiesce":
		si.quiesce = true
		if e := m.w.Quiesce(); e != nil {
			return si, e
		}
		m.linkLog()
	case "join":
		if rep := m.w.Join(); rep != nil {
			m.noteOps(rep.Idx, 0)
			m.linkLog()
			m.labels["late-join"] = true
		}
	}
	if len(m.w.Reps) >= 3 {
		m.labels[">=3 replicas"] = true
	}
	return si, nil
}

func (m *l0Machine) keys() []string {
	ks := make([]string, 0, len(m.mapKeys))
	for k := range m.mapKeys {
		ks = append(ks, k)
	}
	sort.Strings(ks)
	return ks
}

// converged checks the C01 oracle: every replica and the server-style copy expose identical state.
func (m *l0Machine) converged() error {
	keys := m.keys()
	base := sim.Observe(m.w.Kind, m.w.Reps[0].DT, keys)
	if strings.Contains(base.Reads, "!PANIC") {
		return fmt.Errorf("replica 0: %s", base.Reads)
	}
	for i := 1; i < len(m.w.Reps); i++ {
		v := sim.Observe(m.w.Kind, m.w.Reps[i].DT, keys)
		if v != base {
			return fmt.Errorf("replicas 0 and %d differ after receiving the same operations:\n  r0: %s\n  r%d: %s", i, base, i, v)
		}
	}
	srv, err := m.w.ServerCopy()
	if err != nil {
		return err
	}
	v := sim.Observe(m.w.Kind, srv, keys)
	if v != base {
		return fmt.Errorf("server-style copy (fresh instance fed the whole log) differs from replica 0:\n  r0:  %s\n  srv: %s", base, v)
	}
	return nil
}

// matchesReference checks the C02 oracle against refmodel on all emitted operations.
func (m *l0Machine) matchesReference() error {
	st, err := refmodel.Compute(string(m.w.Kind), m.w.AllOps())
	if err != nil {
		return err
	}
	if len(st.Ignored) > 0 {
		return fmt.Errorf("harness: reference model could not place operations of a causal history: %v", st.Ignored)
	}
	want := sim.Canon(st.JSON())
	check := func(who string, dt interface{}) error {
		got := sim.Canon(dt.(orda.Datatype).ToJSON())
		if got != want {
			return fmt.Errorf("%s differs from the outcome defined by the operation timestamps:\n  got:  %s\n  want: %s", who, got, want)
		}
		switch m.w.Kind {
		case sim.Map:
			if sz := dt.(orda.Map).Size(); sz != len(st.Map) {
				return fmt.Errorf("%s: Size()=%d but %d keys are present by the operation timestamps (%s)", who, sz, len(st.Map), want)
			}
		case sim.List:
			if sz := dt.(orda.List).Size(); sz != len(st.List) {
				return fmt.Errorf("%s: Size()=%d but the reference list has %d elements", who, sz, len(st.List))
			}
		case sim.Counter:
			if g := dt.(orda.Counter).Get(); g != st.Counter {
				return fmt.Errorf("%s: Get()=%d, sum of increments=%d", who, g, st.Counter)
			}
		}
		return nil
	}
	for i, r := range m.w.Reps {
		if err := check(fmt.Sprintf("replica %d", i), r.DT); err != nil {
			return err
		}
	}
	srv, err := m.w.ServerCopy()
	if err != nil {
		return err
	}
	return check("server-style copy", srv)
}

func (m *l0Machine) labelList() []string {
	out := make([]string, 0, len(m.labels))
	for l := range m.labels {
		out = append(out, l)
	}
	sort.Strings(out)
	return out
}

func (m *l0Machine) canonical(actions []l0Action) string {
	var sb strings.Builder
	fmt.Fprintf(&sb, "%s/%d|", m.cfg.Kind, m.cfg.Replicas)
	for _, a := range actions {
		sb.WriteString(a.String())
		sb.WriteByte(';')
	}
	return sb.String()
}

func kindFromDraw(rt *rapid.T) sim.Kind {
	return sim.AllKinds[rapid.IntRange(0, 3).Draw(rt, "kind")]
}

// liveMapKeys returns the keys a Map shows, sorted.
func liveMapKeys(dt interface{}) []string {
	b, err := json.Marshal(dt.(orda.Datatype).ToJSON())
	if err != nil {
		return nil
	}
	var mm map[string]interface{}
	if json.Unmarshal(b, &mm) != nil {
		return nil
	}
	var ks []string
	for k := range mm {
		ks = append(ks, k)
	}
	sort.Strings(ks)
	return ks
}
