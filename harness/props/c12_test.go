package props

import (
	"bytes"
	gocontext "context"
	"encoding/json"
	"fmt"
	"strings"
	"sync"
	"testing"
	"time"

	"github.com/orda-io/orda/client/pkg/model"
	"github.com/orda-io/orda/client/pkg/orda"
	"go.mongodb.org/mongo-driver/bson"
	"pgregory.net/rapid"
	"verif/cluster"
	"verif/fakemongo"
	"verif/sim"
	"verif/stats"
)

// c12Round: every listed client performs some local operations, then all their syncs are sent
// at the same moment from separate goroutines.
type c12Round struct {
	Clients []int `json:"clients"`
	Ops     []int `json:"ops"` // local operations per listed client before the round
	Patch   bool  `json:"patch"`
	Reg     bool  `json:"register"` // a new client registers concurrently
	// Bad: one more concurrent request that the server has to refuse (a new client tries to CREATE an existing key)
	Bad bool   `json:"refused_request,omitempty"`
	Rev []bool `json:"reversed,omitempty"` // per listed client: its packs are sent in reverse order (real clients list their datatypes in map order)
}

func TestC12(t *testing.T) { testC12(t, false) }

// TestC12Redis: the same workloads on a deployment whose per-datatype locks are the distributed
// (Redis / redsync) ones: one server instance, or two or three instances on the same database,
// broker and Redis, the concurrent requests being spread over the instances.
func TestC12Redis(t *testing.T) { testC12(t, true) }

func testC12(t *testing.T, redisMode bool) {
	col := stats.New("C12", t.Name(),
		"generated WORKLOADS against the real server: after a warm-up (prelude: 2-6 clients subscribed to 1-2 shared keys, so the lock objects already exist and their creators' request contexts are cancelled) rounds in which 2-6 clients first issue local operations and then ALL send their push-pull (one message with one pack per datatype of the client, the packs in listed or reversed order) at the same moment from separate goroutines "+
			"(each call with its own request context, cancelled on return), optionally together with a REST patch, a client registration and a request that has to be refused (a new client tries to create an existing key); per-command database latencies of 0-2 ms are drawn as perturbation; after each round the responses are applied; "+
			"oracle: every call returns within its deadline, the process survives, after every round the stored-log invariants hold (gapless, exactly once, per-client order - i.e. the result equals some one-at-a-time order), at the end everybody converges to refmodel(log); "+
			"with the -race binary (thorough tier and quick) no DATA RACE report may name server code on both sides (checked by the driver on the process output); "+
			"non-trivial = in some round >=2 handlers of the same key overlapped in time at the database (their command intervals intersect); distinct = hash of the workload (schedules are sampled)")
	if redisMode {
		col.Assume("Redis is replaced by an in-process RESP stand-in that implements SET NX PX, GET, DEL, PEXPIRE and the two redsync scripts (release, extend); the lock library and its Redis client are the real ones; a contended lock is polled by redsync every 50-250 ms, so these cases are slower and fewer; interleavings inside a handler between two database commands are not controlled")
	} else {
		col.Assume("Redis is absent (local locks, as the server supports; TestC12Redis covers the distributed lock); interleavings inside a handler between two database commands are not controlled")
	}
	checkProp(t, "C12", col, func(c *caseCtx) {
		rt := c.rt
		instances := 1
		otherProcess := false
		if redisMode {
			instances = rapid.IntRange(1, 3).Draw(rt, "server_instances")
			l1Deploy = cluster.Options{Redis: true, Instances: instances}
			if instances > 1 && rapid.Bool().Draw(rt, "one_in_another_process") {
				// one of the instances is a child process (own table of local locks, own package state)
				l1Deploy = cluster.Options{Redis: true, Instances: instances - 1, RemoteInstances: 1}
				otherProcess = true
			}
		}
		nk := rapid.IntRange(1, 3).Draw(rt, "keys")
		var kinds []sim.Kind
		for i := 0; i < nk; i++ {
			kinds = append(kinds, kindFromDraw(rt))
		}
		idseed := rapid.Uint64Range(1, 1<<40).Draw(rt, "idseed")
		w, err := newL1World(idseed, kinds)
		if err != nil {
			c.failf("HARNESS-ERROR: %v", err)
		}
		defer w.close()
		w.noConverge = true
		var canon strings.Builder
		maxClients := 6
		if redisMode {
			maxClients = 4
			canon.WriteString(fmt.Sprintf("instances=%d;", instances))
		}
		for i, a := range genPrelude(rt, w, maxClients) {
			c.j.add(a)
			canon.WriteString(a.String() + ";")
			if err := w.applyL1(a); err != nil {
				c.failf("prelude %d %s: %v", i, a, err)
			}
		}
		latSeed := rapid.IntRange(0, 1000).Draw(rt, "latency_seed")
		maxLat := rapid.SampledFrom([]int{0, 300, 2000}).Draw(rt, "latency_max_us")
		if maxLat > 0 {
			var lmu sync.Mutex
			n := latSeed
			w.env.Mongo.SetLatencyHook(func(cmd *fakemongo.Cmd) time.Duration {
				lmu.Lock()
				n = (n*1103515245 + 12345) & 0x7fffffff
				v := n
				lmu.Unlock()
				return time.Duration(v%(maxLat+1)) * time.Microsecond
			})
		}
		overlapped, multiPackOpposite, refusedSent := false, false, false
		maxRounds := 6
		if redisMode {
			maxRounds = 3
		}
		rounds := rapid.IntRange(1, maxRounds).Draw(rt, "rounds")
		docKey := ""
		for _, k := range w.keys {
			if k.Kind == sim.Document && k.created {
				docKey = k.Name
			}
		}
		for r := 0; r < rounds; r++ {
			var round c12Round
			for ci, cl := range w.clients {
				if len(cl.dts) == 0 || rapid.IntRange(0, 3).Draw(rt, fmt.Sprintf("in%d_%d", r, ci)) == 0 {
					continue
				}
				round.Clients = append(round.Clients, ci)
				round.Ops = append(round.Ops, rapid.IntRange(0, 4).Draw(rt, fmt.Sprintf("ops%d_%d", r, ci)))
				round.Rev = append(round.Rev, rapid.Bool().Draw(rt, fmt.Sprintf("rev%d_%d", r, ci)))
			}
			round.Patch = docKey != "" && rapid.IntRange(0, 3).Draw(rt, fmt.Sprintf("patch%d", r)) == 0
			round.Reg = rapid.IntRange(0, 3).Draw(rt, fmt.Sprintf("reg%d", r)) == 0
			round.Bad = rapid.IntRange(0, 3).Draw(rt, fmt.Sprintf("bad%d", r)) == 0
			c.j.add(round)
			canon.WriteString(fmt.Sprintf("round%v;", round))
			if len(round.Clients) == 0 {
				continue
			}
			type job struct {
				cl  *l1Client
				req *model.PushPullMessage
				ex  *exchange
			}
			var jobs []*job
			for i, ci := range round.Clients {
				cl := w.clients[ci]
				for _, d := range cl.dts {
					if !d.entered {
						continue
					}
					for j := 0; j < round.Ops[i]; j++ {
						sim.Exec(d.key.Kind, d.dt, c06CheapCall(d.key.Kind, r*100+j))
					}
				}
				var names []string
				for n := range cl.dts {
					names = append(names, n)
				}
				reqJob := &job{cl: cl}
				reqJob.req = cl.pc.BuildRequest()
				if reqJob.req != nil && round.Rev[i] {
					ps := reqJob.req.PushPullPacks
					for a, b := 0, len(ps)-1; a < b; a, b = a+1, b-1 {
						ps[a], ps[b] = ps[b], ps[a]
					}
					if len(ps) > 1 {
						multiPackOpposite = true
					}
				}
				if reqJob.req != nil {
					jobs = append(jobs, reqJob)
				}
			}
			w.env.WaitBackground(3 * time.Second)
			w.env.Mongo.ResetLog()
			var wg sync.WaitGroup
			start := make(chan struct{})
			for _, j := range jobs {
				wg.Add(1)
				go func(j *job) {
					defer wg.Done()
					<-start
					j.ex = w.rawSend(j.req)
				}(j)
			}
			var patchTimedOut, regTimedOut, badTimedOut bool
			if round.Bad {
				// a request that is refused while the others run: it must not disturb them (a handler that
				// leaves by an error path still has to give its lock back)
				var target *l1Key
				for _, k := range w.keys {
					if k.created {
						target = k
					}
				}
				if target != nil {
					pc := w.env.NewUnregisteredPackClient(w.col, fmt.Sprintf("intruder%d", r))
					ic := &l1Client{idx: 1000 + r, pc: pc, dts: map[string]*l1DT{}}
					w.open(ic, target, "create")
					knownCUIDs[pc.CUID()] = true
					if err := pc.Register(l1Deadline); err == nil {
						if req := pc.BuildRequest(); req != nil {
							refusedSent = true
							wg.Add(1)
							go func() {
								defer wg.Done()
								<-start
								ex := w.rawSend(req)
								badTimedOut = ex.timedOut
							}()
						}
					}
				}
			}
			if round.Patch {
				patchesHappened = true
				wg.Add(1)
				go func() {
					defer wg.Done()
					<-start
					_, _, patchTimedOut = w.env.PatchDocument(&model.PatchMessage{Collection: w.col, Key: docKey, Json: fmt.Sprintf(`{"p":%d}`, r)}, l1Deadline)
				}()
			}
			var regErrs []error
			var regMu sync.Mutex
			if round.Reg {
				// a new client registers while the others sync - with 1-3 simultaneous registration calls (a client
				// that re-sends its registration, two processes started with one identity): in every one-at-a-time
				// order each of them succeeds (the first one creates the registration, the others refresh it)
				if r%2 == 1 {
					// ... and the very first requests for ANOTHER collection arrive at the same moment (two clients of a
					// collection that was created a moment ago and that no request has named yet)
					cold := fmt.Sprintf("%s-cold%d", w.col, r)
					if err := w.env.CreateCollection(cold); err == nil {
						for g := 0; g < 2; g++ {
							cpc := w.env.NewUnregisteredPackClient(cold, fmt.Sprintf("cold%d-%d", r, g))
							wg.Add(1)
							go func() {
								defer wg.Done()
								<-start
								if err := cpc.Register(l1Deadline); err != nil {
									if strings.Contains(err.Error(), "did not answer") {
										regTimedOut = true
									}
									regMu.Lock()
									regErrs = append(regErrs, err)
									regMu.Unlock()
								}
							}()
						}
					}
				}
				pc := w.env.NewUnregisteredPackClient(w.col, fmt.Sprintf("late%d", r))
				for g := 0; g < 1+r%3; g++ {
					wg.Add(1)
					go func() {
						defer wg.Done()
						<-start
						if err := pc.Register(l1Deadline); err != nil {
							if strings.Contains(err.Error(), "did not answer") {
								regTimedOut = true
							}
							regMu.Lock()
							regErrs = append(regErrs, err)
							regMu.Unlock()
						}
					}()
				}
			}
			roundStart := time.Now()
			close(start)
			wg.Wait()
			roundWall := time.Since(roundStart)
			if len(regErrs) > 0 && !regTimedOut {
				c.failf("round %d: %d simultaneous registrations of one new client (and, in odd rounds, of two clients of a collection nobody has named before): %d of them were refused (each succeeds in every one-at-a-time order): %v", r, 1+r%3, len(regErrs), regErrs[0])
			}
			if patchTimedOut || regTimedOut || badTimedOut {
				c.failf("round %d: a concurrent patch / registration / refused create was never answered (patch=%v registration=%v refused-create=%v)", r, patchTimedOut, regTimedOut, badTimedOut)
			}
			for _, j := range jobs {
				if j.ex.timedOut {
					c.failf("round %d: the sync of client %d was never answered while %d requests ran concurrently", r, j.cl.idx, len(jobs))
				}
				w.record(j.cl, j.ex)
				if j.ex.rpcErr != nil {
					c.failf("round %d: client %d: RPC error under concurrency: %v", r, j.cl.idx, j.ex.rpcErr)
				}
				for k, e := range j.ex.errPacks {
					if strings.Contains(e, "fail to lock") && roundWall > 4*time.Second {
						// The server gives up on a lock after waiting for its lease time (5 s). A round of a handful of
						// requests that takes that long means the machine is stalled, not that somebody keeps the lock
						// (a lock that is really kept shows in the next round and in the checks after it, which send
						// their requests to a server that is otherwise idle): inconclusive, never a violation.
						col.Label("round-took-longer-than-the-lock-lease(machine-overloaded)")
						c.rt.Skip(fmt.Sprintf("round %d took %v and a request gave up on the lock: machine overloaded", r, roundWall.Round(time.Millisecond)))
					}
					c.failf("round %d: client %d: the server refused the sync of %s under concurrency: %s", r, j.cl.idx, k, e)
				}
				w.apply(j.cl, j.ex)
				if j.ex.applyErr != nil {
					c.failf("round %d: client %d cannot apply its response: %v", r, j.cl.idx, j.ex.applyErr)
				}
			}
			w.env.WaitBackground(5 * time.Second)
			if c12Overlap(w) {
				overlapped = true
			}
			if round.Patch {
				if w.skipConverge == nil {
					w.skipConverge = map[string]bool{}
				}
				w.skipConverge[docKey] = true
			}
			if err := w.checkLogInvariants(); err != nil {
				c.failf("after round %d (%d concurrent syncs): %v", r, len(jobs), err)
			}
		}
		w.env.Mongo.SetLatencyHook(nil)
		w.noConverge = false
		if err := w.applyL1(l1Action{K: "settle"}); err != nil {
			c.failf("final settle: %v", err)
		}
		if err := w.infraProblem(); err != nil {
			c.failf("%v", err)
		}
		var labels []string
		if redisMode {
			labels = append(labels, fmt.Sprintf("server-instances=%d", instances))
			if otherProcess {
				labels = append(labels, "one-instance-in-another-process")
			}
			contended := 0
			for _, rc := range w.env.Redis.CommandLog() {
				if rc.Name == "SET" && rc.Result == "nil" {
					contended++
				}
			}
			if contended > 0 {
				labels = append(labels, "redis-lock-was-contended")
			}
			// every request has returned and the background work is done: no lock may be left behind
			// (it would refuse or delay the next request for that datatype until it expires)
			w.env.WaitBackground(5 * time.Second)
			// (a handler releases its lock AFTER it has answered: the last release may still be on its way; a lock
			// that is really left behind stays for its whole expiry time of 10 s)
			waitUntil(3*time.Second, func() bool { return len(w.env.Redis.Keys()) == 0 })
			if left := w.env.Redis.Keys(); len(left) > 0 {
				c.failf("all requests have been answered and the background work has finished, but these locks are still held in Redis: %v", left)
			}
		}
		if multiPackOpposite {
			labels = append(labels, "multi-pack-requests-in-opposite-orders")
		}
		if refusedSent {
			labels = append(labels, "refused-request-among-the-concurrent-ones")
		}
		if overlapped {
			labels = append(labels, "same-key-handlers-overlapped")
		}
		col.Case(overlapped, canon.String(), labels, func() interface{} {
			return map[string]interface{}{"kinds": kinds, "workload": canon.String(), "latency_max_us": maxLat, "server_instances": instances}
		})
	})
}

// c12Overlap: did the database see commands of two different connections interleave on the
// operations/datatypes collections within the last round (handlers overlapped in time)?
func c12Overlap(w *l1World) bool {
	type iv struct {
		s, e time.Time
		conn int
	}
	var ivs []iv
	for _, r := range w.env.Mongo.CommandLog() {
		if strings.HasSuffix(r.NS, ".-_-Datatypes") || strings.HasSuffix(r.NS, ".-_-Operations") {
			ivs = append(ivs, iv{r.Start, r.End, r.ConnID})
		}
	}
	// two requests overlap if a command of one starts between the first and last command of another:
	// approximate by adjacent commands of different connections with intersecting intervals
	for i := range ivs {
		for j := i + 1; j < len(ivs); j++ {
			if ivs[i].conn != ivs[j].conn && ivs[i].s.Before(ivs[j].e) && ivs[j].s.Before(ivs[i].e) {
				return true
			}
		}
	}
	return false
}

// TestC12Independence: a request for key B completes while a request for key A is stuck in the database.
func TestC12Independence(t *testing.T) {
	col := stats.New("C12", t.Name(),
		"two keys with one client each (drawn kinds), on a drawn deployment (local locks / Redis lock on one server instance / Redis lock on two instances); the gate of the fake MongoDB holds every command that mentions the datatype id of key A; a sync of A is started (it blocks inside the server holding A's lock), then syncs of B, a registration and (for documents) a patch of B must all complete while A is still held; then A is released and must complete too; "+
			"oracle: B's calls return within the deadline while A is pending, A returns after the release, log invariants, B's partition unaffected by A; non-trivial = A was really held when B completed; distinct = kinds and seeds")
	checkProp(t, "C12", col, func(c *caseCtx) {
		rt := c.rt
		kinds := []sim.Kind{kindFromDraw(rt), kindFromDraw(rt)}
		idseed := rapid.Uint64Range(1, 1<<40).Draw(rt, "idseed")
		// a third of the cases each: local locks, the Redis lock on one instance, the Redis lock on two instances
		dep := "deployment=one-instance+local-lock"
		switch rapid.IntRange(0, 3).Draw(rt, "deployment") {
		case 1:
			l1Deploy, dep = cluster.Options{Redis: true}, "deployment=one-instance+redis-lock"
		case 2:
			l1Deploy, dep = cluster.Options{Redis: true, Instances: 2}, "deployment=two-instances+redis-lock"
		case 3:
			l1Deploy, dep = cluster.Options{Redis: true, RemoteInstances: 1}, "deployment=two-processes+redis-lock"
		}
		w, err := newL1World(idseed, kinds)
		if err != nil {
			c.failf("HARNESS-ERROR: %v", err)
		}
		defer w.close()
		defer w.env.Mongo.DisableGate()
		c.j.Header = map[string]interface{}{"kinds": kinds, "id_seed": idseed, "deployment": dep}
		var cls [2]*l1Client
		for i := 0; i < 2; i++ {
			cl, err := w.addClient()
			if err != nil {
				c.failf("HARNESS-ERROR: %v", err)
			}
			cls[i] = cl
			w.open(cl, w.keys[i], "create")
			sim.Exec(kinds[i], cl.dts[w.keys[i].Name].dt, c06CheapCall(kinds[i], 1))
			if ex := w.syncClient(cl); ex == nil || exchangeProblem(cl, ex) != nil {
				c.failf("HARNESS-ERROR: setup sync failed")
			}
		}
		duidA := []byte(w.keys[0].duid)
		w.env.WaitBackground(3 * time.Second)
		w.env.Mongo.EnableGate(func(cmd *fakemongo.Cmd) bool {
			b, _ := bson.Marshal(cmd.Body)
			return bytes.Contains(b, duidA)
		})
		sim.Exec(kinds[0], cls[0].dts[w.keys[0].Name].dt, c06CheapCall(kinds[0], 2))
		reqA := cls[0].pc.BuildRequest()
		var exA *exchange
		done := make(chan struct{})
		go func() { defer close(done); exA = w.rawSend(reqA) }()
		if !w.env.Mongo.WaitPending(1, 5*time.Second) {
			c.failf("HARNESS-ERROR: the request for key A never reached a gated command")
		}
		// B must be served meanwhile
		n := rapid.IntRange(1, 4).Draw(rt, "b_syncs")
		w.waitBG = false
		for i := 0; i < n; i++ {
			sim.Exec(kinds[1], cls[1].dts[w.keys[1].Name].dt, c06CheapCall(kinds[1], 10+i))
			ex := w.syncClient(cls[1])
			if ex.timedOut {
				c.failf("a sync of key B was not answered while a request for key A was stuck in the database (B blocked by A)")
			}
			if err := exchangeProblem(cls[1], ex); err != nil {
				c.failf("sync of key B while A is stuck: %v", err)
			}
		}
		pc := w.env.NewUnregisteredPackClient(w.col, "other")
		if err := pc.Register(l1Deadline); err != nil {
			c.failf("a client registration was not served while a request for key A was stuck: %v", err)
		}
		held := len(w.env.Mongo.Pending()) > 0
		select {
		case <-done:
			held = false
		default:
		}
		w.env.Mongo.DisableGate()
		select {
		case <-done:
		case <-time.After(l1Deadline + 2*time.Second):
			c.failf("the request for key A did not complete after its database command was released")
		}
		if exA.timedOut || exA.rpcErr != nil {
			c.failf("the request for key A failed after the release: timeout=%v err=%v", exA.timedOut, exA.rpcErr)
		}
		w.record(cls[0], exA)
		w.apply(cls[0], exA)
		w.waitBG = true
		w.env.WaitBackground(5 * time.Second)
		if err := w.checkLogInvariants(); err != nil {
			c.failf("%v", err)
		}
		w.noConverge = false
		if err := w.applyL1(l1Action{K: "settle"}); err != nil {
			c.failf("final settle: %v", err)
		}
		if err := w.infraProblem(); err != nil {
			c.failf("%v", err)
		}
		col.Case(held, fmt.Sprint(kinds, idseed, n, dep), []string{fmt.Sprintf("A-held=%v", held), dep}, func() interface{} { return c.j.Header })
	})
}

// TestC12FreshKeyBurst: the very first requests for a key arrive at the same moment (no lock object
// exists for the key yet), mixed with requests for another fresh key.
func TestC12FreshKeyBurst(t *testing.T) {
	col := stats.New("C12", t.Name(),
		"2-8 clients send their FIRST request for a brand-new key (subscribe-or-create with 0-3 initial operations; the lock object of the key does not exist yet) at the same instant from separate goroutines, optionally racing with a REST patch of the same key (documents); then further concurrent rounds of pushes; "+
			"oracle: every call answered, exactly one datatype document for the key, every client that was answered without error holds that datatype id, stored-log invariants after every round (= some serial order), everybody converges to refmodel(log) at the end; "+
			"non-trivial = >=3 first requests raced; distinct = hash of the workload (schedules are sampled)")
	checkProp(t, "C12", col, func(c *caseCtx) {
		rt := c.rt
		kind := kindFromDraw(rt)
		idseed := rapid.Uint64Range(1, 1<<40).Draw(rt, "idseed")
		w, err := newL1World(idseed, []sim.Kind{kind})
		if err != nil {
			c.failf("HARNESS-ERROR: %v", err)
		}
		defer w.close()
		k := w.keys[0]
		n := rapid.IntRange(2, 8).Draw(rt, "clients")
		c.j.Header = map[string]interface{}{"kind": kind, "clients": n, "id_seed": idseed}
		type job struct {
			cl  *l1Client
			req *model.PushPullMessage
			ex  *exchange
		}
		var jobs []*job
		for i := 0; i < n; i++ {
			cl, err := w.addClient()
			if err != nil {
				c.failf("HARNESS-ERROR: %v", err)
			}
			d := w.open(cl, k, "subscribe-or-create")
			for j := rapid.IntRange(0, 3).Draw(rt, fmt.Sprintf("ops%d", i)); j > 0; j-- {
				sim.Exec(kind, d.dt, c06CheapCall(kind, i*10+j))
			}
			jobs = append(jobs, &job{cl: cl, req: cl.pc.BuildRequest()})
		}
		w.env.WaitBackground(3 * time.Second)
		var wg sync.WaitGroup
		start := make(chan struct{})
		for _, j := range jobs {
			wg.Add(1)
			go func(j *job) {
				defer wg.Done()
				<-start
				j.ex = w.rawSend(j.req)
			}(j)
		}
		close(start)
		wg.Wait()
		created := 0
		for _, j := range jobs {
			if j.ex.timedOut {
				c.failf("a first request for the fresh key was never answered (%d raced)", n)
			}
			w.record(j.cl, j.ex)
			if j.ex.rpcErr != nil || len(j.ex.errPacks) > 0 {
				c.failf("a racing subscribe-or-create was refused: %v %v", j.ex.rpcErr, j.ex.errPacks)
			}
			for _, p := range j.ex.resp.PushPullPacks {
				if p.GetPushPullPackOption().HasCreateBit() {
					created++
				}
			}
			w.apply(j.cl, j.ex)
			if j.ex.applyErr != nil {
				c.failf("client %d cannot apply its first response: %v", j.cl.idx, j.ex.applyErr)
			}
		}
		w.env.WaitBackground(5 * time.Second)
		docs := 0
		for _, dd := range w.datatypeDocs() {
			if bstr(bget(dd, "key")) == k.Name {
				docs++
			}
		}
		if docs != 1 || created != 1 {
			c.failf("%d clients raced for the fresh key: %d were told 'created', %d datatype documents exist (want exactly one each)", n, created, docs)
		}
		ids := map[string]bool{}
		for _, j := range jobs {
			ids[j.cl.dts[k.Name].dt.GetDUID()] = true
		}
		if len(ids) != 1 {
			c.failf("the racing clients hold %d different datatype ids", len(ids))
		}
		if err := w.checkLogInvariants(); err != nil {
			c.failf("after the burst: %v", err)
		}
		// a few more concurrent rounds
		for r := rapid.IntRange(0, 3).Draw(rt, "rounds"); r > 0; r-- {
			var js []*job
			for _, cl := range w.clients {
				d := cl.dts[k.Name]
				sim.Exec(kind, d.dt, c06CheapCall(kind, 100+r))
				js = append(js, &job{cl: cl, req: cl.pc.BuildRequest()})
			}
			var wg2 sync.WaitGroup
			for _, j := range js {
				wg2.Add(1)
				go func(j *job) { defer wg2.Done(); j.ex = w.rawSend(j.req) }(j)
			}
			wg2.Wait()
			for _, j := range js {
				if j.ex.timedOut || j.ex.rpcErr != nil || len(j.ex.errPacks) > 0 {
					c.failf("concurrent push after the burst failed: timeout=%v err=%v packs=%v", j.ex.timedOut, j.ex.rpcErr, j.ex.errPacks)
				}
				w.record(j.cl, j.ex)
				w.apply(j.cl, j.ex)
			}
			w.env.WaitBackground(5 * time.Second)
			if err := w.checkLogInvariants(); err != nil {
				c.failf("after a concurrent round: %v", err)
			}
		}
		if err := w.applyL1(l1Action{K: "settle"}); err != nil {
			c.failf("final settle: %v", err)
		}
		col.Case(n >= 3, fmt.Sprint(kind, n, idseed), []string{fmt.Sprintf("racers=%d", n), "kind=" + string(kind)}, func() interface{} { return c.j.Header })
	})
}

// TestC12Abandoned: a caller gives up on its request (its context is cancelled: deadline, closed
// connection) while the request is inside the server holding the datatype's lock. The request has
// to return, and the datatype must stay usable for everybody: nothing may keep the lock.
func TestC12Abandoned(t *testing.T) {
	col := stats.New("C12", t.Name(),
		"one key (drawn kind) with 2-3 clients on a drawn deployment; the gate of the fake MongoDB holds the k-th (drawn, 1-7) database command naming the datatype or the client (the client lookup precedes the lock) that the next request of client 0 (for documents in half of the cases: a REST patch) issues for the datatype; while it is held the caller cancels the request's context (drawn: before the command is released / the command is released first and the cancellation follows at once / no cancellation at all, as control); in half of the cases the other clients send requests meanwhile (queueing for the lock) and give up 0-3000 us (drawn) after the release; then every client, client 0 included, issues operations and syncs the key one after the other; "+
			"oracle: the abandoned call returns within the deadline, every later sync is answered within the deadline and none is refused for the lock, at most one later request per client is refused at all (the roll-forward of a half-stored push refuses the request that discovers it), log invariants and convergence at the end; non-trivial = the request was cancelled while one of its commands was held; distinct = kind, k, mode, deployment, operation counts")
	checkProp(t, "C12", col, func(c *caseCtx) {
		rt := c.rt
		kind := kindFromDraw(rt)
		idseed := rapid.Uint64Range(1, 1<<40).Draw(rt, "idseed")
		dep := "deployment=one-instance+local-lock"
		switch rapid.IntRange(0, 5).Draw(rt, "deployment") {
		case 1:
			l1Deploy, dep = cluster.Options{Redis: true}, "deployment=one-instance+redis-lock"
		case 2:
			l1Deploy, dep = cluster.Options{Redis: true, Instances: 2}, "deployment=two-instances+redis-lock"
		case 3:
			l1Deploy, dep = cluster.Options{Redis: true, RemoteInstances: 1}, "deployment=two-processes+redis-lock"
		}
		w, err := newL1World(idseed, []sim.Kind{kind})
		if err != nil {
			c.failf("HARNESS-ERROR: %v", err)
		}
		defer w.close()
		defer w.env.Mongo.DisableGate()
		nc := rapid.IntRange(2, 3).Draw(rt, "clients")
		holdAt := rapid.IntRange(1, 7).Draw(rt, "hold_command")
		mode := rapid.SampledFrom([]string{"cancel-then-release", "cancel-then-release", "release-then-cancel", "no-cancel"}).Draw(rt, "mode")
		nops := rapid.IntRange(0, 3).Draw(rt, "ops_in_abandoned_request")
		// documents: the abandoned request is a REST patch in half of the cases
		viaPatch := kind == sim.Document && rapid.Bool().Draw(rt, "abandoned_request_is_a_rest_patch")
		c.j.Header = map[string]interface{}{"kind": kind, "id_seed": idseed, "deployment": dep, "clients": nc, "hold_command": holdAt, "mode": mode, "ops": nops, "abandoned_rest_patch": viaPatch}
		k := w.keys[0]
		var cls []*l1Client
		for i := 0; i < nc; i++ {
			cl, err := w.addClient()
			if err != nil {
				c.failf("HARNESS-ERROR: %v", err)
			}
			cls = append(cls, cl)
			if i == 0 {
				w.open(cl, k, "create")
			} else {
				w.open(cl, k, "subscribe")
			}
			sim.Exec(kind, cl.dts[k.Name].dt, c06CheapCall(kind, i))
			if ex := w.syncClient(cl); ex == nil || exchangeProblem(cl, ex) != nil {
				c.failf("HARNESS-ERROR: setup sync failed")
			}
		}
		w.env.WaitBackground(3 * time.Second)
		duid := []byte(k.duid)
		cuid0 := []byte(cls[0].pc.CUID())
		seen := 0
		// commands that name the datatype, or client 0 (its lookup comes before the handler takes the lock: a
		// request abandoned there reaches the lock with a context that is already done)
		w.env.Mongo.EnableGate(func(cmd *fakemongo.Cmd) bool {
			b, _ := bson.Marshal(cmd.Body)
			if !bytes.Contains(b, duid) && !bytes.Contains(b, cuid0) {
				return false
			}
			seen++
			return seen == holdAt
		})
		for i := 0; i < nops; i++ {
			sim.Exec(kind, cls[0].dts[k.Name].dt, c06CheapCall(kind, 20+i))
		}
		req := cls[0].pc.BuildRequest()
		ctx, cancel := gocontext.WithCancel(gocontext.Background())
		defer cancel()
		exA := &exchange{req: req, errPacks: map[string]string{}}
		done := make(chan struct{})
		go func() {
			defer close(done)
			if viaPatch {
				patchesHappened = true
				_, exA.rpcErr, exA.timedOut = w.env.PatchDocumentCtx(ctx, &model.PatchMessage{Collection: w.col, Key: k.Name, Json: fmt.Sprintf(`{"abandoned":%d,"arr":[1,2]}`, nops)}, l1Deadline)
				return
			}
			exA.resp, exA.rpcErr, exA.timedOut = w.env.ProcessPushPullCtx(ctx, req, l1Deadline)
		}()
		held := w.env.Mongo.WaitPending(1, 2*time.Second)
		heldVerb := ""
		// waiters: the other clients send a request for the key while client 0's is held (they queue for the lock
		// if it is taken) and give up a drawn number of microseconds after the held command is released
		type waiter struct {
			cl     *l1Client
			ex     *exchange
			cancel gocontext.CancelFunc
			delay  time.Duration
			done   chan struct{}
		}
		var waiters []*waiter
		if held && rapid.Bool().Draw(rt, "waiters") {
			for _, cl := range cls[1:] {
				sim.Exec(kind, cl.dts[k.Name].dt, c06CheapCall(kind, 30+cl.idx))
				wctx, wcancel := gocontext.WithCancel(gocontext.Background())
				wt := &waiter{cl: cl, cancel: wcancel, done: make(chan struct{}),
					delay: time.Duration(rapid.SampledFrom([]int{0, 20, 60, 150, 400, 1000, 3000}).Draw(rt, fmt.Sprintf("waiter%d_gives_up_after_us", cl.idx))) * time.Microsecond}
				wt.ex = &exchange{req: cl.pc.BuildRequest(), errPacks: map[string]string{}}
				waiters = append(waiters, wt)
				go func() {
					defer close(wt.done)
					wt.ex.resp, wt.ex.rpcErr, wt.ex.timedOut = w.env.ProcessPushPullCtx(wctx, wt.ex.req, l1Deadline)
				}()
			}
			time.Sleep(2 * time.Millisecond) // let them reach the lock
		}
		giveUp := func() {
			for _, wt := range waiters {
				wt := wt
				go func() { time.Sleep(wt.delay); wt.cancel() }()
			}
		}
		if held {
			if p := w.env.Mongo.Pending(); len(p) > 0 {
				heldVerb = p[0].Verb
			}
			defer giveUp() // (cancels are idempotent; makes sure no context outlives the case)
			if mode == "cancel-then-release" && heldVerb != "find" && heldVerb != "" {
				// A WRITE that is held back beyond the moment its issuer gave up would reach the database after the
				// requests of the clients that were let in meanwhile - a database that applies a command long after
				// its connection was abandoned. No listed property quantifies over that (C08's faults are: not applied,
				// applied but reported as failed, crash); orda's blind update of the datatype document has no fence
				// against it. Such a command is released first, so that it is applied (or not) when it was issued.
				mode = "release-then-cancel"
				col.Excluded("a write command held back beyond the cancellation of its request (released first instead)")
			}
			switch mode {
			case "cancel-then-release":
				cancel()
				if rapid.Bool().Draw(rt, "wait_for_return_before_release") {
					select {
					case <-done:
					case <-time.After(500 * time.Millisecond):
					}
				}
				w.env.Mongo.DisableGate()
			case "release-then-cancel":
				w.env.Mongo.DisableGate()
				cancel()
			default:
				w.env.Mongo.DisableGate()
			}
			giveUp()
		} else {
			w.env.Mongo.DisableGate()
		}
		for _, wt := range waiters {
			select {
			case <-wt.done:
			case <-time.After(l1Deadline + 2*time.Second):
				c.failf("the request of client %d, whose caller gave up while it waited behind another request, never returned", wt.cl.idx)
			}
			if wt.ex.timedOut {
				c.failf("the request of client %d, whose caller gave up while it waited behind another request, was not answered within %v", wt.cl.idx, l1Deadline)
			}
		}
		select {
		case <-done:
		case <-time.After(l1Deadline + 2*time.Second):
			c.failf("the request whose caller had given up never returned (held command: %s, mode %s)", heldVerb, mode)
		}
		if exA.timedOut {
			c.failf("the request whose caller had given up was not answered within %v (held command: %s, mode %s)", l1Deadline, heldVerb, mode)
		}
		refusals := 0
		if mode == "no-cancel" || !held {
			if exA.rpcErr != nil {
				// a waiter that gave up in the middle of its writes leaves stored operations behind; the next push
				// that meets them - here the held request itself, when it goes on - is refused once and takes them
				// into the log (same tolerance as for the later syncs below; a REST patch reports that refusal since
				// the S48 repair)
				if len(waiters) > 0 && strings.Contains(exA.rpcErr.Error(), "duplicate key") {
					refusals++
				} else {
					c.failf("a request that nobody cancelled failed: %v", exA.rpcErr)
				}
			}
		}
		if !viaPatch {
			w.record(cls[0], exA)
			if exA.rpcErr == nil {
				w.apply(cls[0], exA)
			}
		}
		for _, wt := range waiters {
			w.record(wt.cl, wt.ex)
			if wt.ex.rpcErr == nil {
				w.apply(wt.cl, wt.ex)
			}
		}
		w.env.WaitBackground(5 * time.Second)
		// everybody goes on using the datatype
		order := rapid.Permutation([]int{0, 1, 2}[:nc]).Draw(rt, "order")
		for round := 0; round < 2; round++ {
			for _, ci := range order {
				cl := cls[ci]
				for j := rapid.IntRange(0, 2).Draw(rt, fmt.Sprintf("later_ops_%d_%d", round, ci)); j > 0; j-- {
					sim.Exec(kind, cl.dts[k.Name].dt, c06CheapCall(kind, 40+10*round+j))
				}
				refused := 0
				for attempt := 0; ; attempt++ {
					ex := w.syncClient(cl)
					if ex.timedOut || ex.rpcErr != nil {
						c.failf("after a request for the datatype was abandoned by its caller (held command: %s, mode %s), the sync of client %d was not served: timeout=%v err=%v", heldVerb, mode, ci, ex.timedOut, ex.rpcErr)
					}
					e := ex.errPacks[k.Name]
					if e == "" {
						if ex.applyErr != nil {
							c.failf("client %d: applying the response failed: %v", ci, ex.applyErr)
						}
						break
					}
					if strings.Contains(e, "fail to lock") {
						c.failf("after a request for the datatype was abandoned by its caller (held command: %s, mode %s) and had returned, client %d cannot get the datatype's lock: %s", heldVerb, mode, ci, e)
					}
					refused++
					refusals++
					if refused > 1 || ((mode == "no-cancel" || !held) && len(waiters) == 0) {
						c.failf("client %d: sync refused (attempt %d) after the abandoned request (held command: %s, mode %s): %s", ci, attempt+1, heldVerb, mode, e)
					}
				}
			}
		}
		if kind == sim.Document {
			// the REST endpoint has a lock of its own for the key
			patchesHappened = true
			var perr error
			var pto bool
			for attempt := 0; attempt < 2; attempt++ {
				_, perr, pto = w.env.PatchDocument(&model.PatchMessage{Collection: w.col, Key: k.Name, Json: `{"after":true}`}, l1Deadline)
				if perr == nil || pto || strings.Contains(perr.Error(), "fail to lock") {
					break
				}
			}
			if perr != nil || pto {
				c.failf("after a request for the datatype was abandoned by its caller (held command: %s, mode %s, rest patch: %v), a REST patch of the document is not served: err=%v timeout=%v", heldVerb, mode, viaPatch, perr, pto)
			}
		}
		w.env.WaitBackground(5 * time.Second)
		if err := w.checkLogInvariants(); err != nil {
			c.failf("%v", err)
		}
		w.noConverge = false
		if err := w.applyL1(l1Action{K: "settle"}); err != nil {
			c.failf("final settle: %v", err)
		}
		if err := w.infraProblem(); err != nil {
			c.failf("%v", err)
		}
		cancelled := held && mode != "no-cancel"
		col.Case(cancelled, fmt.Sprint(kind, holdAt, mode, dep, nops, nc, order), []string{"mode=" + mode, fmt.Sprintf("held=%v", held), "held-command=" + heldVerb, dep, fmt.Sprintf("later-refusals=%d", refusals), fmt.Sprintf("abandoned-rest-patch=%v", viaPatch), fmt.Sprintf("waiters-that-give-up=%d", len(waiters))}, func() interface{} { return c.j.Header })
	})
}

// TestC12ConcurrentPatches: several REST patches of ONE document at the same moment. One at a time, each patch
// makes the document equal to its target, so whatever the order the document ends as the target of the patch
// that came last - never as a mixture.
func TestC12ConcurrentPatches(t *testing.T) {
	col := stats.New("C12", t.Name(),
		"a document key that is absent / exists (created by a client with a few operations, snapshot stored), on a drawn deployment; 1-3 rounds of 2-4 simultaneous PatchDocument calls (separate goroutines, each with its own request context; half of the calls over the HTTP route) with distinct generated targets; a subscribed client syncs after each round; "+
			"oracle: every call is answered without error and with its own target; after each round the server's rebuild of the document equals ONE of the round's targets, the subscribed client converges to it, one datatype document exists for the key, log invariants hold; non-trivial = >=3 patches in a round on an existing document; distinct = hash of the targets")
	col.Assume(deploymentNote)
	checkProp(t, "C12", col, func(c *caseCtx) {
		rt := c.rt
		idseed := rapid.Uint64Range(1, 1<<40).Draw(rt, "idseed")
		dep := drawDeployment(rt)
		w, err := newL1World(idseed, []sim.Kind{sim.Document})
		if err != nil {
			c.failf("HARNESS-ERROR: %v", err)
		}
		defer w.close()
		patchesHappened = true
		k := w.keys[0]
		exists := rapid.Bool().Draw(rt, "document_exists")
		c.j.Header = map[string]interface{}{"id_seed": idseed, "deployment": dep, "exists": exists}
		var cl *l1Client
		if exists {
			cl, err = w.addClient()
			if err != nil {
				c.failf("HARNESS-ERROR: %v", err)
			}
			d := w.open(cl, k, "create")
			for i := 0; i < 3; i++ {
				sim.Exec(sim.Document, d.dt, c06CheapCall(sim.Document, i))
			}
			if ex := w.syncClient(cl); ex == nil || exchangeProblem(cl, ex) != nil {
				c.failf("HARNESS-ERROR: setup sync failed")
			}
			w.env.WaitBackground(3 * time.Second)
		}
		many := false
		var canon strings.Builder
		for round := rapid.IntRange(1, 3).Draw(rt, "rounds"); round > 0; round-- {
			n := rapid.IntRange(2, 4).Draw(rt, "patches")
			var targets []string
			for i := 0; i < n; i++ {
				obj := c19Object(rt, fmt.Sprintf("r%d.t%d", round, i), 2)
				obj["who"] = fmt.Sprintf("r%d.p%d", round, i) // distinct targets
				b, _ := json.Marshal(obj)
				targets = append(targets, string(b))
			}
			overHTTP := make([]bool, n)
			for i := range overHTTP {
				overHTTP[i] = rapid.Bool().Draw(rt, fmt.Sprintf("r%d.http%d", round, i))
			}
			c.j.add(map[string]interface{}{"k": "concurrent-patches", "targets": targets})
			canon.WriteString(strings.Join(targets, "|") + ";")
			type res struct {
				json string
				err  error
				to   bool
			}
			out := make([]res, n)
			var wg sync.WaitGroup
			start := make(chan struct{})
			for i := 0; i < n; i++ {
				wg.Add(1)
				go func(i int) {
					defer wg.Done()
					<-start
					if overHTTP[i] {
						rr, herr := w.env.PatchDocumentREST(w.col, k.Name, targets[i], l1Deadline)
						if herr == nil && rr != nil && rr.Status == 200 {
							out[i] = res{json: rr.JSON}
							return
						}
						if rr != nil && rr.TimedOut {
							out[i] = res{to: true}
							return
						}
						if rr != nil && rr.Status != 404 && rr.Status != 405 {
							out[i] = res{err: fmt.Errorf("HTTP %d: %s", rr.Status, rr.Body)}
							return
						}
					}
					r, e, to := w.env.PatchDocument(&model.PatchMessage{Collection: w.col, Key: k.Name, Json: targets[i]}, l1Deadline)
					out[i] = res{err: e, to: to}
					if r != nil {
						out[i].json = r.Json
					}
				}(i)
			}
			close(start)
			wg.Wait()
			w.env.WaitBackground(5 * time.Second)
			var canonTargets []string
			for i, r := range out {
				var tv interface{}
				_ = json.Unmarshal([]byte(targets[i]), &tv)
				canonTargets = append(canonTargets, sim.Canon(tv))
				if r.to {
					c.failf("patch %d of %d simultaneous patches of one document was never answered", i+1, n)
				}
				if r.err != nil {
					c.failf("patch %d of %d simultaneous patches of one document failed: %v", i+1, n, r.err)
				}
				var gv interface{}
				if err := json.Unmarshal([]byte(r.json), &gv); err != nil || sim.Canon(gv) != canonTargets[i] {
					c.failf("patch %d of %d simultaneous patches was answered with %s, its target was %s", i+1, n, r.json, targets[i])
				}
			}
			nd := 0
			for _, dd := range w.datatypeDocs() {
				if bstr(bget(dd, "key")) == k.Name {
					nd++
					k.duid, k.created = bstr(bget(dd, "_id")), true
				}
			}
			if nd != 1 {
				c.failf("%d datatype documents exist for the key after %d simultaneous patches", nd, n)
			}
			got, _, err := w.serverCopyJSON(k)
			if err != nil {
				c.failf("the server cannot rebuild the document: %v", err)
			}
			hit := false
			for _, ct := range canonTargets {
				if sim.Canon(got) == ct {
					hit = true
				}
			}
			if !hit {
				c.failf("after %d simultaneous patches the document is none of their targets (one at a time, the last patch decides):\n  document: %s\n  targets:  %s", n, sim.Canon(got), strings.Join(canonTargets, "\n            "))
			}
			if err := w.checkLogInvariants(); err != nil {
				c.failf("%v", err)
			}
			if cl != nil {
				if ex := w.syncClient(cl); ex == nil || exchangeProblem(cl, ex) != nil {
					c.failf("the subscribed client cannot sync after the patches: %v", exchangeProblem(cl, ex))
				}
				if gotc := sim.Canon(sim.Normalize(cl.dts[k.Name].dt.(orda.Document).GetValue())); gotc != sim.Canon(got) {
					c.failf("the subscribed client shows %s, the server's document is %s", gotc, sim.Canon(got))
				}
			}
			if n >= 3 && (exists || round > 1) {
				many = true
			}
		}
		if err := w.infraProblem(); err != nil {
			c.failf("%v", err)
		}
		col.Case(many, canon.String(), []string{dep, fmt.Sprintf("exists=%v", exists)}, func() interface{} { return c.j.Header })
	})
}
