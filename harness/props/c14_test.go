package props

import (
	gocontext "context"
	"encoding/json"
	"fmt"
	"sort"
	"strings"
	"testing"
	"time"

	"github.com/orda-io/orda/client/pkg/iface"
	"github.com/orda-io/orda/client/pkg/model"
	"github.com/orda-io/orda/client/pkg/operations"
	"github.com/orda-io/orda/client/pkg/orda"
	"github.com/orda-io/orda/server/schema"
	"github.com/orda-io/orda/server/service"
	"go.mongodb.org/mongo-driver/bson"
	"google.golang.org/protobuf/proto"
	"pgregory.net/rapid"
	"verif/refmodel"
	"verif/sim"
	"verif/stats"
)

// opEquivalent: same identifier, type and body (JSON-canonical; snapshot bodies too).
func opEquivalent(a, b *model.Operation) string {
	if a == nil || b == nil {
		return fmt.Sprintf("nil operation (%v, %v)", a == nil, b == nil)
	}
	if !proto.Equal(a.ID, b.ID) {
		return fmt.Sprintf("identifier differs: %v vs %v", a.ID, b.ID)
	}
	if a.OpType != b.OpType {
		return fmt.Sprintf("type differs: %v vs %v", a.OpType, b.OpType)
	}
	var ja, jb interface{}
	ea, eb := json.Unmarshal(a.Body, &ja), json.Unmarshal(b.Body, &jb)
	if ea != nil || eb != nil {
		if string(a.Body) != string(b.Body) {
			return fmt.Sprintf("body differs (not JSON): %q vs %q", a.Body, b.Body)
		}
		return ""
	}
	if x, y := sim.Canon(ja), sim.Canon(jb); x != y {
		return fmt.Sprintf("body differs: %s vs %s", x, y)
	}
	// integers beyond 2^53 inside bodies (timestamps) must match digit by digit
	if a.OpType%10 != 0 && !sameBigInts(a.Body, b.Body) {
		return fmt.Sprintf("body differs in an integer beyond 2^53: %s vs %s", a.Body, b.Body)
	}
	return ""
}

func sameBigInts(a, b []byte) bool {
	da, db := json.NewDecoder(strings.NewReader(string(a))), json.NewDecoder(strings.NewReader(string(b)))
	da.UseNumber()
	db.UseNumber()
	var va, vb interface{}
	if da.Decode(&va) != nil || db.Decode(&vb) != nil {
		return true
	}
	var collect func(v interface{}, key string, out *[]string)
	collect = func(v interface{}, key string, out *[]string) {
		switch x := v.(type) {
		case map[string]interface{}:
			for k, e := range x {
				if k == "V" || k == "Value" {
					continue // user values are float64 by design
				}
				collect(e, key+"/"+k, out)
			}
		case []interface{}:
			for i, e := range x {
				collect(e, fmt.Sprintf("%s/%d", key, i), out)
			}
		case json.Number:
			*out = append(*out, key+"="+x.String())
		}
	}
	var la, lb []string
	collect(va, "", &la)
	collect(vb, "", &lb)
	ma := map[string]bool{}
	for _, s := range la {
		ma[s] = true
	}
	if len(la) != len(lb) {
		return false
	}
	for _, s := range lb {
		if !ma[s] {
			return false
		}
	}
	return true
}

var echoSvc = service.NewOrdaService(nil)

// roundTrips returns the operation after each encoding path, or an error description.
func c14RoundTrips(op *model.Operation, kind sim.Kind) (map[string]*model.Operation, string) {
	out := map[string]*model.Operation{}
	guard := func(name string, f func() (*model.Operation, error)) string {
		var res *model.Operation
		var err error
		var pan interface{}
		func() {
			defer func() { pan = recover() }()
			res, err = f()
		}()
		if pan != nil {
			return fmt.Sprintf("%s panicked on an operation produced by encoding: %v", name, pan)
		}
		if err != nil {
			return fmt.Sprintf("%s failed on an operation produced by encoding: %v", name, err)
		}
		out[name] = res
		return ""
	}
	if e := guard("model->operation->model", func() (*model.Operation, error) {
		return operations.ModelToOperation(proto.Clone(op).(*model.Operation)).ToModelOperation(), nil
	}); e != "" {
		return nil, e
	}
	if e := guard("protobuf", func() (*model.Operation, error) {
		b, err := proto.Marshal(op)
		if err != nil {
			return nil, err
		}
		var o model.Operation
		return &o, proto.Unmarshal(b, &o)
	}); e != "" {
		return nil, e
	}
	if e := guard("protobuf-message", func() (*model.Operation, error) {
		msg := &model.PushPullMessage{Header: model.NewMessageHeader(model.RequestType_PUSHPULLS), Collection: "c", Cuid: op.ID.CUID,
			PushPullPacks: []*model.PushPullPack{{Key: "k", DUID: "d", CheckPoint: &model.CheckPoint{Sseq: 1, Cseq: 2}, Operations: []*model.Operation{op}}}}
		b, err := proto.Marshal(msg)
		if err != nil {
			return nil, err
		}
		var m2 model.PushPullMessage
		if err := proto.Unmarshal(b, &m2); err != nil {
			return nil, err
		}
		return m2.PushPullPacks[0].Operations[0], nil
	}); e != "" {
		return nil, e
	}
	if e := guard("bson-operation-doc", func() (*model.Operation, error) {
		doc := schema.NewOperationDoc(op, "duid", 7, 1)
		b, err := bson.Marshal(doc)
		if err != nil {
			return nil, err
		}
		var d2 schema.OperationDoc
		if err := bson.Unmarshal(b, &d2); err != nil {
			return nil, err
		}
		if d2.Sseq != 7 || d2.DUID != "duid" || d2.ID != "duid:7" {
			return nil, fmt.Errorf("stored document lost its position: %+v", d2)
		}
		return d2.GetOperation(), nil
	}); e != "" {
		return nil, e
	}
	if e := guard("encoding-echo-service", func() (*model.Operation, error) {
		typ := map[sim.Kind]model.TypeOfDatatype{sim.Counter: model.TypeOfDatatype_COUNTER, sim.Map: model.TypeOfDatatype_MAP, sim.List: model.TypeOfDatatype_LIST, sim.Document: model.TypeOfDatatype_DOCUMENT}[kind]
		res, err := echoSvc.TestEncodingOperation(gocontext.Background(), &model.EncodingMessage{Type: typ, Op: proto.Clone(op).(*model.Operation)})
		if err != nil {
			return nil, err
		}
		return res.Op, nil
	}); e != "" {
		return nil, e
	}
	return out, ""
}

func valueClassLabels(vs []sim.Val, labels map[string]bool) (nontrivial bool) {
	for _, v := range vs {
		if v.Depth() >= 2 {
			labels["depth>=2"] = true
			nontrivial = true
		}
		var walk func(v sim.Val)
		walk = func(v sim.Val) {
			labels["type="+v.T] = true
			if strings.ContainsAny(v.S, "\"\\\u0000<>&  \n\t") {
				labels["string-needs-escaping"] = true
				nontrivial = true
			}
			for _, r := range v.S {
				if r > 0xFFFF {
					labels["astral-code-point"] = true
				}
			}
			if v.I > 1<<53 || v.I < -(1<<53) || v.U > 1<<53 {
				labels["integer-beyond-2^53"] = true
				nontrivial = true
			}
			for _, kv := range v.M {
				walk(kv.V)
			}
			for _, e := range v.L {
				walk(e)
			}
		}
		walk(v)
	}
	return
}

func testC14API(t *testing.T, kind sim.Kind) {
	col := stats.New("C14", t.Name(),
		"operations produced by real API calls with values of every §3.6 class (all Go numeric widths, pointers, structs with/without tags, string slices, typed maps, nested containers, strings with NUL/quotes/separators/astral code points, integers beyond 2^53), incl. snapshot and transaction operations; "+
			"each operation goes through 5 paths: model->operation->model, protobuf, protobuf inside a PushPullMessage, OperationDoc->BSON->OperationDoc, and the server's encoding-echo service; oracle: no decode error/panic, same identifier, type and JSON-canonical body; "+
			"SAME EFFECT: a fresh replica fed the original operations and fresh replicas fed each round-tripped stream expose identical state, equal to the issuing replica; "+
			"non-trivial = some value has depth >= 2, or a string needing JSON escaping, or an integer beyond 2^53; distinct = hash of the call sequence")
	checkProp(t, "C14", col, func(c *caseCtx) {
		idseed := rapid.Uint64Range(1, 1<<40).Draw(c.rt, "idseed")
		sim.SeedIDs(idseed)
		w := sim.NewWorld(kind, 1, 1)
		pm := newPlainModel(kind)
		if kind == sim.Document {
			pm.doc.bind(w.Reps[0].DT)
		}
		c.j.Header = map[string]interface{}{"kind": kind, "id_seed": idseed}
		n := rapid.IntRange(1, 25).Draw(c.rt, "steps")
		labels := map[string]bool{}
		nontrivial := false
		var canon strings.Builder
		for i := 0; i < n; i++ {
			if rapid.IntRange(0, 5).Draw(c.rt, "istx") == 0 {
				// a transaction of several calls anywhere in the history: its operations are encoded together when
				// it ends, after the later calls of the same transaction have run
				tx := sim.Tx{Tag: genString(c.rt, "tag"), FailAt: -1}
				shadow := pm.clone()
				for j, k := 0, rapid.IntRange(1, 4).Draw(c.rt, "txlen"); j < k; j++ {
					call := genC03Call(c.rt, shadow)
					ex := shadow.expect(call)
					if !sim.Mutating(call.M) || ex.class == mustErr {
						continue
					}
					tx.Calls = append(tx.Calls, call)
					if ex.class == mustOK && ex.apply != nil {
						ex.apply()
					}
				}
				c.j.add(c03Action{K: "tx", Tx: &tx})
				canon.WriteString(fmt.Sprintf("tx(%d calls);", len(tx.Calls)))
				if kind == sim.Document {
					pm.doc.beginTx()
				}
				rs, txErr, pan, _ := w.Transaction(0, tx)
				if pan != nil {
					c.failf("transaction panicked: %v", pan)
				}
				if txErr != nil {
					c.failf("a transaction whose body returns nil failed: %v", txErr)
				}
				for j, r := range rs {
					if ex := pm.expect(tx.Calls[j]); r.Err == nil && r.NavErr == nil && ex.apply != nil {
						ex.apply()
					}
				}
				if kind == sim.Document {
					pm.doc.endTx()
				}
				labels["transaction"] = true
				if len(tx.Calls) >= 2 {
					labels["transaction-of->=2-operations"] = true
				}
				continue
			}
			call := genC03Call(c.rt, pm)
			if !sim.Mutating(call.M) {
				continue
			}
			ex := pm.expect(call)
			if ex.class == mustErr {
				continue
			}
			c.j.add(c03Action{K: "call", Call: &call})
			canon.WriteString(call.String() + ";")
			res, _ := w.Call(0, call)
			if res.Panic != nil {
				c.failf("%s panicked: %v", call, res.Panic)
			}
			if res.Err == nil && res.NavErr == nil && ex.apply != nil {
				ex.apply()
				if valueClassLabels(call.Vals, labels) {
					nontrivial = true
				}
			}
		}
		if rapid.Bool().Draw(c.rt, "withtx") {
			tx := sim.Tx{Tag: genString(c.rt, "tag"), FailAt: -1}
			call := genC03Call(c.rt, pm)
			if sim.Mutating(call.M) {
				tx.Calls = []sim.Call{call}
			}
			c.j.add(c03Action{K: "tx", Tx: &tx})
			w.Transaction(0, tx)
			labels["transaction"] = true
		}
		ops := w.Reps[0].Emitted
		streams := map[string][]*model.Operation{"original": cloneOps(ops, 0)}
		for _, op := range ops {
			rts, e := c14RoundTrips(op, kind)
			if e != "" {
				c.failf("%s seq %d: %s", op.OpType, op.ID.Seq, e)
			}
			for name, r := range rts {
				if d := opEquivalent(op, r); d != "" {
					c.failf("%s seq %d after %s: %s", op.OpType, op.ID.Seq, name, d)
				}
				streams[name] = append(streams[name], r)
			}
			labels["op="+op.OpType.String()] = true
		}
		// same effect
		want := sim.Observe(kind, w.Reps[0].DT, keyPoolHostile)
		for name, st := range streams {
			_, dt := w.NewInstance("rx-"+name, true)
			var perr interface{}
			var derr error
			func() {
				defer func() { perr = recover() }()
				if _, e := dt.(iface.Datatype).ReceiveRemoteModelOperations(st, false); e != nil {
					derr = e
				}
			}()
			if perr != nil || derr != nil {
				c.failf("replica fed the %s operations: error=%v panic=%v", name, derr, perr)
			}
			if got := sim.Observe(kind, dt, keyPoolHostile); got != want {
				c.failf("replica fed the %s operations differs from the issuing replica:\n  issuer: %s\n  fed:    %s", name, want, got)
			}
		}
		// independent decoder: the harness' own body structs (wire field names as documented in
		// DESIGN.md Appendix A) must read the same effect out of the encoded operations
		st, rerr := refmodel.Compute(string(kind), cloneOps(ops, 0))
		if rerr != nil {
			c.failf("independent decoder cannot read an encoded operation: %v", rerr)
		}
		if len(st.Ignored) > 0 {
			c.failf("independent decoder cannot place encoded operations: %v", st.Ignored)
		}
		if got, wantJ := sim.Canon(st.JSON()), want.JSON; got != wantJ {
			c.failf("effect read by the independent decoder differs from the issuing replica:\n  issuer:  %s\n  decoded: %s", wantJ, got)
		}
		ll := []string{"kind=" + string(kind)}
		for l := range labels {
			ll = append(ll, l)
		}
		col.Case(nontrivial, string(kind)+canon.String(), ll, func() interface{} {
			return map[string]interface{}{"kind": kind, "calls": canon.String(), "operations": len(ops)}
		})
	})
}

func TestC14Counter(t *testing.T)  { testC14API(t, sim.Counter) }
func TestC14Map(t *testing.T)      { testC14API(t, sim.Map) }
func TestC14List(t *testing.T)     { testC14API(t, sim.List) }
func TestC14Document(t *testing.T) { testC14API(t, sim.Document) }

// ---------------------------------------------------------------------------------------------
// constructor-built operations with drawn identifiers and targets

func drawModelTS(rt *rapid.T, label string) *model.Timestamp {
	return model.NewTimestamp(uint32(rapid.SampledFrom([]int{0, 0, 0, 1, 7}).Draw(rt, label+".e")),
		rapid.SampledFrom([]uint64{0, 1, 2, 255, 65536, 1<<53 + 1, 1<<62 - 1, 123456789}).Draw(rt, label+".l"),
		rapid.SampledFrom(c15CUIDs).Draw(rt, label+".c"),
		uint32(rapid.SampledFrom([]int{0, 0, 1, 10, 11, 300, 1<<31 - 1}).Draw(rt, label+".d")))
}

func drawTSList(rt *rapid.T, label string) []*model.Timestamp {
	n := rapid.IntRange(0, 3).Draw(rt, label+".n")
	out := []*model.Timestamp{}
	for i := 0; i < n; i++ {
		out = append(out, drawModelTS(rt, fmt.Sprintf("%s.%d", label, i)))
	}
	return out
}

func drawJSONVals(rt *rapid.T, label string) []interface{} {
	n := rapid.IntRange(0, 3).Draw(rt, label+".n")
	out := []interface{}{}
	for i := 0; i < n; i++ {
		out = append(out, genJSONVal(rt, fmt.Sprintf("%s.%d", label, i), 3, keyPoolHostile).JSON())
	}
	return out
}

func TestC14Constructed(t *testing.T) {
	col := stats.New("C14", t.Name(),
		"operations built with the public operations.New* constructors for all 14 operation types + TRANSACTION + ERROR with drawn identifiers (lamport up to 2^62, era, seq), drawn anchors/targets/parents (delimiters up to 2^31) and JSON values; "+
			"oracle: the 5 encoding paths of TestC14<kind> return an operation with the same identifier, type and body, timestamps digit-exact; "+
			"non-trivial = the operation carries >=1 timestamp with lamport beyond 2^53 or a value of depth >= 2; distinct = hash of the encoded operation")
	checkProp(t, "C14", col, func(c *caseCtx) {
		rt := c.rt
		var op iface.Operation
		kind := sim.List
		typ := rapid.IntRange(0, 14).Draw(rt, "optype")
		switch typ {
		case 0:
			op = operations.NewIncreaseOperation(int32(rapid.SampledFrom([]int{0, 1, -1, 2147483647, -2147483648}).Draw(rt, "delta")))
			kind = sim.Counter
		case 1:
			op = operations.NewPutOperation(genString(rt, "key"), genJSONVal(rt, "v", 3, keyPoolHostile).JSON())
			kind = sim.Map
		case 2:
			op = operations.NewRemoveOperation(genString(rt, "key"))
			kind = sim.Map
		case 3:
			o := operations.NewInsertOperation(rapid.IntRange(0, 5).Draw(rt, "pos"), drawJSONVals(rt, "vs"))
			o.GetBody().T = drawModelTS(rt, "anchor")
			op = o
		case 4:
			o := operations.NewDeleteOperation(0, 1)
			o.GetBody().T = drawTSList(rt, "targets")
			op = o
		case 5:
			o := operations.NewUpdateOperation(0, drawJSONVals(rt, "vs"))
			o.GetBody().T = drawTSList(rt, "targets")
			op = o
		case 6:
			op = operations.NewDocPutInObjOperation(drawModelTS(rt, "parent"), genString(rt, "key"), genJSONVal(rt, "v", 3, keyPoolHostile).JSON())
			kind = sim.Document
		case 7:
			op = operations.NewDocRemoveInObjOperation(drawModelTS(rt, "parent"), genString(rt, "key"))
			kind = sim.Document
		case 8:
			o := operations.NewDocInsertToArrayOperation(drawModelTS(rt, "parent"), 0, drawJSONVals(rt, "vs"))
			o.GetBody().T = drawModelTS(rt, "anchor")
			op = o
			kind = sim.Document
		case 9:
			o := operations.NewDocDeleteInArrayOperation(drawModelTS(rt, "parent"), 0, 0)
			o.GetBody().T = drawTSList(rt, "targets")
			op = o
			kind = sim.Document
		case 10:
			o := operations.NewDocUpdateInArrayOperation(drawModelTS(rt, "parent"), 0, drawJSONVals(rt, "vs"))
			o.GetBody().T = drawTSList(rt, "targets")
			op = o
			kind = sim.Document
		case 11:
			o := operations.NewTransactionOperation(genString(rt, "tag"))
			o.SetNumOfOps(rapid.IntRange(1, 1000).Draw(rt, "n"))
			op = o
		case 12:
			op = operations.NewErrorOperationWithCodeAndMsg(301, genString(rt, "msg"))
		default:
			// snapshot operation of an empty datatype of a drawn kind
			kind = kindFromDraw(rt)
			sim.SeedIDs(5)
			w := sim.NewWorld(kind, 1, 1)
			so, err := w.Reps[0].DT.CreateSnapshotOperation()
			if err != nil {
				c.failf("CreateSnapshotOperation: %v", err)
			}
			op = so
		}
		id := drawModelTS(rt, "id")
		op.SetID(&model.OperationID{Era: id.Era, Lamport: id.Lamport, CUID: id.CUID, Seq: rapid.Uint64Range(0, 1<<40).Draw(rt, "seq")})
		mop := op.ToModelOperation()
		c.j.Header = map[string]interface{}{"type": mop.OpType.String(), "id": mop.ID, "body": string(mop.Body)}
		rts, e := c14RoundTrips(mop, kind)
		if e != "" {
			c.failf("%s: %s", mop.OpType, e)
		}
		for name, r := range rts {
			if name == "encoding-echo-service" && (mop.OpType == model.TypeOfOperation_ERROR) {
				continue // the echo re-creates error operations with a fresh (nil) identifier
			}
			if d := opEquivalent(mop, r); d != "" {
				c.failf("%s after %s: %s\n  body: %s", mop.OpType, name, d, mop.Body)
			}
		}
		big := strings.Contains(string(mop.Body), "9007199254740993") || strings.Contains(string(mop.Body), "4611686018427387903") || id.Lamport > 1<<53
		col.Case(big || strings.Count(string(mop.Body), "{") > 3, mop.OpType.String()+string(mop.Body)+fmt.Sprint(mop.ID), []string{"op=" + mop.OpType.String()}, func() interface{} { return c.j.Header })
	})
}

// c14BigCall is a call whose encoded body is far beyond what the usual value generators produce
// (hundreds to thousands of bytes): long strings over a drawn alphabet, long batches of numbers.
func c14BigCall(rt *rapid.T, kind sim.Kind, i int) sim.Call {
	big := func(label string) sim.Val {
		if rapid.Bool().Draw(rt, label+".numbers") {
			var l []sim.Val
			for j := rapid.SampledFrom([]int{60, 150, 400}).Draw(rt, label+".n"); j > 0; j-- {
				l = append(l, sim.I(int64(j*7919%100003)))
			}
			return sim.Val{T: "slice", L: l}
		}
		unit := rapid.SampledFrom([]string{"0123456789", "ab\"c\\d", "문서", "x y,z;", "\U0001F600é"}).Draw(rt, label+".alphabet")
		n := rapid.SampledFrom([]int{470, 505, 513, 700, 3000}).Draw(rt, label+".len")
		var sb strings.Builder
		for sb.Len() < n {
			sb.WriteString(unit)
		}
		return sim.S(sb.String())
	}
	l := fmt.Sprintf("big%d", i)
	switch kind {
	case sim.Map:
		return sim.Call{M: "Put", Key: rapid.SampledFrom([]string{"a", "b", "long"}).Draw(rt, l+".k"), Vals: []sim.Val{big(l)}}
	case sim.List:
		v := big(l)
		if v.T == "slice" {
			return sim.Call{M: "InsertMany", Pos: 0, Vals: v.L}
		}
		return sim.Call{M: "Insert", Pos: 0, Vals: []sim.Val{v}}
	case sim.Document:
		return sim.Call{M: "PutToObject", Key: rapid.SampledFrom([]string{"a", "b", "long"}).Draw(rt, l+".k"), Vals: []sim.Val{big(l)}}
	}
	return sim.Call{M: "IncreaseBy", Vals: []sim.Val{sim.I(int64(i))}}
}

// TestC14Server: "also after ... storage in MongoDB" taken literally - the operations travel through the
// real server (request decoding, the handler, the operations collection of the fake MongoDB) and back out
// to a second client.
func TestC14Server(t *testing.T) {
	col := stats.New("C14", t.Name(),
		"a client creates a datatype of a drawn kind on the real server and pushes, in 1-3 requests, operations produced by generated API calls (the C03 call generator with hostile values, plus calls whose encoded body is 0.5-3 kB: long strings over drawn alphabets, batches of 60-400 numbers); "+
			"oracle: every pushed operation is found in the operations collection with the same identifier, type and JSON-canonical body; a second client that subscribes afterwards, the server's own rebuild and the pushing client expose identical state; "+
			"non-trivial = at least one pushed operation has a body of more than 512 bytes; distinct = hash of the call sequence")
	checkProp(t, "C14", col, func(c *caseCtx) {
		rt := c.rt
		kind := kindFromDraw(rt)
		idseed := rapid.Uint64Range(1, 1<<40).Draw(rt, "idseed")
		w, err := newL1World(idseed, []sim.Kind{kind})
		if err != nil {
			c.failf("HARNESS-ERROR: %v", err)
		}
		defer w.close()
		c.j.Header = map[string]interface{}{"kind": kind, "id_seed": idseed}
		k := w.keys[0]
		a, err := w.addClient()
		if err != nil {
			c.failf("HARNESS-ERROR: %v", err)
		}
		d := w.open(a, k, "create")
		pm := newPlainModel(kind)
		if kind == sim.Document {
			pm.doc.bind(d.dt)
		}
		var canon strings.Builder
		bigBodies, pushed := 0, 0
		for round := rapid.IntRange(1, 3).Draw(rt, "requests"); round > 0; round-- {
			for i := rapid.IntRange(1, 8).Draw(rt, "calls"); i > 0; i-- {
				var call sim.Call
				if rapid.IntRange(0, 2).Draw(rt, "big") == 0 {
					call = c14BigCall(rt, kind, i)
				} else {
					call = genC03Call(rt, pm)
				}
				if !sim.Mutating(call.M) {
					continue
				}
				ex := pm.expect(call)
				if ex.class == mustErr {
					continue
				}
				c.j.add(c03Action{K: "call", Call: &call})
				canon.WriteString(call.String() + ";")
				res := sim.Exec(kind, d.dt, call)
				if res.Panic != nil {
					c.failf("%s panicked: %v", call, res.Panic)
				}
				if res.Err == nil && res.NavErr == nil && ex.apply != nil {
					ex.apply()
				}
			}
			sent := cloneOps(d.dt.CreatePushPullPack().Operations, 0)
			c.j.add(map[string]interface{}{"k": "sync"})
			if ex := w.syncClient(a); ex == nil || exchangeProblem(a, ex) != nil {
				c.failf("the push was not accepted: %v", exchangeProblem(a, ex))
			}
			log, _ := w.storedLog(d.dt.GetDUID())
			stored := map[string]*model.Operation{}
			for _, so := range log {
				stored[opKey(so.op)] = so.op
			}
			for _, op := range sent {
				pushed++
				if len(op.Body) > 512 {
					bigBodies++
				}
				got := stored[opKey(op)]
				if got == nil {
					c.failf("%s %s was pushed in an accepted request but is not in the operations collection", op.OpType, opKey(op))
				}
				if df := opEquivalent(op, got); df != "" {
					c.failf("%s %s (body of %d bytes) as stored by the server differs from what the client pushed: %s", op.OpType, opKey(op), len(op.Body), df)
				}
			}
		}
		b, err := w.addClient()
		if err != nil {
			c.failf("HARNESS-ERROR: %v", err)
		}
		db := w.open(b, k, "subscribe")
		var perr interface{}
		var exb *exchange
		func() {
			defer func() { perr = recover() }()
			exb = w.syncClient(b)
		}()
		if perr != nil {
			c.failf("the subscriber panicked on what the server delivered: %v", perr)
		}
		if exb == nil || exchangeProblem(b, exb) != nil {
			c.failf("the subscriber's sync failed: %v", exchangeProblem(b, exb))
		}
		want := sim.Observe(kind, d.dt, keyPoolHostile)
		if got := sim.Observe(kind, db.dt, keyPoolHostile); got != want {
			c.failf("the subscriber differs from the client that pushed the operations:\n  pusher:     %s\n  subscriber: %s", want, got)
		}
		w.env.WaitBackground(3 * time.Second)
		sc, _, err := w.serverCopy(k)
		if err != nil {
			c.failf("the server cannot rebuild the datatype from what it stored: %v", err)
		}
		if got := sim.Observe(kind, sc, keyPoolHostile); got != want {
			c.failf("the server's rebuild differs from the client that pushed the operations:\n  pusher: %s\n  server: %s", want, got)
		}
		if err := w.infraProblem(); err != nil {
			c.failf("%v", err)
		}
		col.Case(bigBodies > 0, string(kind)+canon.String(), []string{"kind=" + string(kind), fmt.Sprintf("bodies>512B=%v", bigBodies > 0)}, func() interface{} {
			return map[string]interface{}{"kind": kind, "pushed_operations": pushed, "bodies_over_512_bytes": bigBodies}
		})
	})
}

// TestC14IntegerBoundaries: every Go integer type (and pointer to it) at the boundaries of its range,
// through every value-carrying entry point.
func TestC14IntegerBoundaries(t *testing.T) {
	col := stats.New("C14", t.Name(),
		"EXHAUSTIVE: 20 Go integer types (int, int8..int64, uint, uint8..uint64 and pointers to them) x the boundaries of the type (min, min+1, -1, 0, 1, around half the range, max-1, max) x {Map.Put, List.Insert, List.Update, Document.PutToObject, Document.InsertToArray}; "+
			"oracle: the issuing replica shows the number the Go value has (as float64, what JSON carries), the operation survives the five round trips of TestC14*, and a replica fed the emitted operations shows the same; non-trivial = every case; distinct = the case")
	defer col.Flush()
	type entry struct {
		kind sim.Kind
		pre  []sim.Call
		call func(v sim.Val) sim.Call
		read func(js interface{}) interface{}
	}
	at := func(path ...interface{}) func(interface{}) interface{} {
		return func(js interface{}) interface{} {
			cur := sim.Normalize(js)
			for _, p := range path {
				switch k := p.(type) {
				case string:
					m, _ := cur.(map[string]interface{})
					cur = m[k]
				case int:
					l, _ := cur.([]interface{})
					if k >= len(l) {
						return nil
					}
					cur = l[k]
				}
			}
			return cur
		}
	}
	entries := map[string]entry{
		"Map.Put":              {sim.Map, nil, func(v sim.Val) sim.Call { return sim.Call{M: "Put", Key: "k", Vals: []sim.Val{v}} }, at("k")},
		"List.Insert":          {sim.List, nil, func(v sim.Val) sim.Call { return sim.Call{M: "Insert", Pos: 0, Vals: []sim.Val{v}} }, at("List", 0)},
		"List.Update":          {sim.List, []sim.Call{{M: "Insert", Pos: 0, Vals: []sim.Val{sim.S("x")}}}, func(v sim.Val) sim.Call { return sim.Call{M: "Update", Pos: 0, Vals: []sim.Val{v}} }, at("List", 0)},
		"Document.PutToObject": {sim.Document, nil, func(v sim.Val) sim.Call { return sim.Call{M: "PutToObject", Key: "k", Vals: []sim.Val{v}} }, at("k")},
		"Document.InsertToArray": {sim.Document, []sim.Call{{M: "PutToObject", Key: "arr", Vals: []sim.Val{sim.Arr()}}}, func(v sim.Val) sim.Call {
			return sim.Call{M: "InsertToArray", Path: []sim.Step{sim.KStep("arr")}, Pos: 0, Vals: []sim.Val{v}}
		}, at("arr", 0)},
	}
	names := make([]string, 0, len(entries))
	for n := range entries {
		names = append(names, n)
	}
	sort.Strings(names)
	for _, name := range names {
		e := entries[name]
		var vals []sim.Val
		for _, tag := range intTags {
			for _, b := range intBoundaries(tag) {
				vals = append(vals, sim.Val{T: tag, I: b})
			}
		}
		for _, tag := range uintTags {
			for _, b := range uintBoundaries(tag) {
				vals = append(vals, sim.Val{T: tag, U: b})
			}
		}
		for _, v := range vals {
			sim.SeedIDs(14)
			w := sim.NewWorld(e.kind, 1, 1)
			for _, c := range e.pre {
				w.Call(0, c)
			}
			call := e.call(v)
			res, _ := w.Call(0, call)
			fail := func(format string, a ...interface{}) {
				j := &Journal{Property: "C14", Test: t.Name(), Header: map[string]interface{}{"entry": name, "value": v}}
				col.Flush()
				enumFail(t, "C14", j, "%s with %s: %s", name, call, fmt.Sprintf(format, a...))
			}
			if res.Panic != nil || res.Err != nil || res.NavErr != nil {
				fail("the call failed: panic=%v err=%v nav=%v", res.Panic, res.Err, res.NavErr)
			}
			want := sim.Canon(v.JSON())
			if got := sim.Canon(e.read(w.Reps[0].DT.(orda.Datatype).ToJSON())); got != want {
				fail("the issuing replica shows %s, the value is %s", got, want)
			}
			ops := w.Reps[0].Emitted
			for _, op := range ops {
				rts, es := c14RoundTrips(op, e.kind)
				if es != "" {
					fail("%s seq %d: %s", op.OpType, op.ID.Seq, es)
				}
				for rn, r := range rts {
					if d := opEquivalent(op, r); d != "" {
						fail("%s seq %d after %s: %s", op.OpType, op.ID.Seq, rn, d)
					}
				}
			}
			_, dt := w.NewInstance("rx", true)
			if _, err := dt.(iface.Datatype).ReceiveRemoteModelOperations(cloneOps(ops, 0), false); err != nil {
				fail("a replica fed the emitted operations failed: %v", err)
			}
			if got := sim.Canon(e.read(dt.(orda.Datatype).ToJSON())); got != want {
				fail("a replica fed the emitted operations shows %s, the value is %s", got, want)
			}
			col.Case(true, name+"/"+v.T+"/"+want, []string{"entry=" + name, "type=" + v.T}, func() interface{} { return map[string]interface{}{"entry": name, "type": v.T, "value": want} })
		}
	}
	col.SetExhaustive(true)
}
