package props

import (
	"encoding/json"
	"fmt"
	"runtime"
	"sort"
	"strings"
	"sync"
	"sync/atomic"
	"testing"
	"time"

	"github.com/orda-io/orda/client/pkg/errors"
	"github.com/orda-io/orda/client/pkg/model"
	"github.com/orda-io/orda/client/pkg/orda"
	"github.com/wI2L/jsondiff"
	"pgregory.net/rapid"
	"verif/fakemongo"
	"verif/sim"
	"verif/stats"
)

var c19Keys = []string{"a", "b", "c", "k/1", "~", "~0", "~1", "a~b", "/", "//", "-", "0", "1", "10", "x y", "é", "\U0001F600", "q\"", "", "A", "a.b", "$set"}

func c19Prim(rt *rapid.T, label string) interface{} {
	switch rapid.IntRange(0, 4).Draw(rt, label+".p") {
	case 0:
		return genString(rt, label)
	case 1:
		return float64(rapid.IntRange(-100, 100).Draw(rt, label+".i"))
	case 2:
		return rapid.SampledFrom(floatPool).Draw(rt, label+".f")
	case 3:
		return rapid.Bool().Draw(rt, label+".b")
	default:
		return rapid.StringMatching(`[a-z]{1,3}`).Draw(rt, label+".s")
	}
}

// c19Value draws a JSON value without nulls.
func c19Value(rt *rapid.T, label string, depth int) interface{} {
	if depth <= 0 || rapid.IntRange(0, 9).Draw(rt, label+".shape") < 5 {
		return c19Prim(rt, label)
	}
	if rapid.Bool().Draw(rt, label+".obj") {
		return c19Object(rt, label, depth-1)
	}
	n := rapid.IntRange(0, 4).Draw(rt, label+".len")
	l := make([]interface{}, 0, n)
	for i := 0; i < n; i++ {
		l = append(l, c19Value(rt, fmt.Sprintf("%s.%d", label, i), depth-1))
	}
	return l
}

func c19Object(rt *rapid.T, label string, depth int) map[string]interface{} {
	n := rapid.IntRange(0, 4).Draw(rt, label+".n")
	m := map[string]interface{}{}
	for i := 0; i < n; i++ {
		k := rapid.SampledFrom(c19Keys).Draw(rt, fmt.Sprintf("%s.k%d", label, i))
		m[k] = c19Value(rt, fmt.Sprintf("%s.v%d", label, i), depth)
	}
	return m
}

func deepCopy(v interface{}) interface{} {
	b, _ := json.Marshal(v)
	var out interface{}
	_ = json.Unmarshal(b, &out)
	return out
}

// c19Edit derives a target from the current value by a few drawn edits.
func c19Edit(rt *rapid.T, label string, v interface{}, depth int, edits *[]string) interface{} {
	switch x := v.(type) {
	case map[string]interface{}:
		ks := make([]string, 0, len(x))
		for k := range x {
			ks = append(ks, k)
		}
		sort.Strings(ks)
		n := rapid.IntRange(0, 3).Draw(rt, label+".nedits")
		for i := 0; i < n; i++ {
			l := fmt.Sprintf("%s.e%d", label, i)
			switch c := rapid.IntRange(0, 4).Draw(rt, l+".kind"); {
			case c == 0 && len(ks) > 0:
				k := rapid.SampledFrom(ks).Draw(rt, l+".del")
				delete(x, k)
				*edits = append(*edits, "remove-member")
			case c == 1:
				k := rapid.SampledFrom(c19Keys).Draw(rt, l+".add")
				x[k] = c19Value(rt, l+".addv", 2)
				*edits = append(*edits, "add-member")
			case c == 2 && len(ks) > 0:
				k := rapid.SampledFrom(ks).Draw(rt, l+".chg")
				if _, ok := x[k]; ok {
					old := x[k]
					x[k] = c19Value(rt, l+".chgv", 2)
					if fmt.Sprintf("%T", old) != fmt.Sprintf("%T", x[k]) {
						*edits = append(*edits, "type-change")
					} else {
						*edits = append(*edits, "replace-member")
					}
				}
			case len(ks) > 0 && depth > 0:
				k := rapid.SampledFrom(ks).Draw(rt, l+".into")
				if _, ok := x[k]; ok {
					x[k] = c19Edit(rt, l+".in", x[k], depth-1, edits)
				}
			}
		}
		return x
	case []interface{}:
		n := rapid.IntRange(0, 3).Draw(rt, label+".naedits")
		for i := 0; i < n; i++ {
			l := fmt.Sprintf("%s.a%d", label, i)
			switch c := rapid.IntRange(0, 5).Draw(rt, l+".kind"); {
			case c == 5 && len(x) > 1:
				// the same elements in another order (a target that differs from the current value by order only)
				if rapid.Bool().Draw(rt, l+".reverse") {
					for a, b := 0, len(x)-1; a < b; a, b = a+1, b-1 {
						x[a], x[b] = x[b], x[a]
					}
				} else {
					a := rapid.IntRange(0, len(x)-2).Draw(rt, l+".swap")
					x[a], x[a+1] = x[a+1], x[a]
				}
				*edits = append(*edits, "array-reorder")
			case c == 0 && len(x) > 0:
				p := rapid.IntRange(0, len(x)-1).Draw(rt, l+".rm")
				x = append(append([]interface{}{}, x[:p]...), x[p+1:]...)
				*edits = append(*edits, "array-remove")
			case c == 1:
				p := rapid.IntRange(0, len(x)).Draw(rt, l+".ins")
				nv := c19Value(rt, l+".insv", 1)
				x = append(append(append([]interface{}{}, x[:p]...), nv), x[p:]...)
				*edits = append(*edits, "array-insert")
			case c == 2 && len(x) > 0:
				p := rapid.IntRange(0, len(x)-1).Draw(rt, l+".rep")
				x[p] = c19Value(rt, l+".repv", 1)
				*edits = append(*edits, "array-replace")
			case c == 3:
				x = append(x, c19Value(rt, l+".app", 1))
				*edits = append(*edits, "array-append")
			case len(x) > 0 && depth > 0:
				p := rapid.IntRange(0, len(x)-1).Draw(rt, l+".into")
				x[p] = c19Edit(rt, l+".in", x[p], depth-1, edits)
			}
		}
		return x
	}
	return v
}

func needsEscaping(v interface{}) bool {
	switch x := v.(type) {
	case map[string]interface{}:
		for k, e := range x {
			if strings.ContainsAny(k, "/~") || needsEscaping(e) {
				return true
			}
		}
	case []interface{}:
		for _, e := range x {
			if needsEscaping(e) {
				return true
			}
		}
	}
	return false
}

type c19Patch struct {
	K      string `json:"k"` // "patch"
	R      int    `json:"r"`
	Target string `json:"target"`
}

func testC19Local(t *testing.T) {
	col := stats.New("C19", t.Name(),
		"two document replicas; the current document is built by a chain of 1-5 PatchByJSON calls (alternating replicas, synced in between); each call made directly or (a quarter) inside a transaction of the user; each target is a generated JSON object WITHOUT nulls, either derived from the current value by drawn edits "+
			"(add/remove/replace member, type change, array insert/remove/replace/append, nested) or drawn independently; keys from a pool with '/', '~', '~0', '~1', '', '-', digits, unicode; "+
			"oracle: PatchByJSON returns no error, GetValue() JSON-equals the target, the call emitted nothing / one operation / exactly one TRANSACTION unit whose header announces its length, the other replica equals the target after delivery; "+
			"non-trivial = the jsondiff script has >=3 operations including an array index operation, or a key that needs JSON-pointer escaping is involved, or a type change; distinct = hash of the target chain")
	col.Assume("targets contain no JSON null (stated domain of C19); numbers compared as float64")
	checkProp(t, "C19", col, func(c *caseCtx) {
		idseed := rapid.Uint64Range(1, 1<<40).Draw(c.rt, "idseed")
		sim.SeedIDs(idseed)
		w := sim.NewWorld(sim.Document, 2, 2)
		c.j.Header = map[string]interface{}{"id_seed": idseed}
		chain := rapid.IntRange(1, 5).Draw(c.rt, "chain")
		var canon strings.Builder
		nontrivial := false
		labels := map[string]bool{}
		for i := 0; i < chain; i++ {
			r := rapid.IntRange(0, 1).Draw(c.rt, fmt.Sprintf("r%d", i))
			doc := w.Reps[r].DT.(orda.Document)
			cur := sim.Normalize(doc.GetValue())
			var target interface{}
			var edits []string
			if i == 0 || rapid.IntRange(0, 3).Draw(c.rt, fmt.Sprintf("indep%d", i)) == 0 {
				target = c19Object(c.rt, fmt.Sprintf("t%d", i), 3)
				edits = append(edits, "independent")
			} else {
				target = c19Edit(c.rt, fmt.Sprintf("t%d", i), deepCopy(cur), 3, &edits)
			}
			tb, _ := json.Marshal(target)
			c.j.add(c19Patch{K: "patch", R: r, Target: string(tb)})
			canon.WriteString(string(tb) + ";")
			before := len(w.Reps[r].Buffer())
			var patches int
			var scriptHasIndex bool
			var perr error
			var pan interface{}
			// the patch is applied directly, or inside a transaction of the user (DocumentInTx has PatchByJSON too)
			inUserTx := rapid.IntRange(0, 3).Draw(c.rt, fmt.Sprintf("in_user_tx%d", i)) == 0
			func() {
				defer func() { pan = recover() }()
				var ops []jsondiff.Operation
				var e error
				if inUserTx {
					labels["patch-inside-a-user-transaction"] = true
					if te := doc.Transaction("user", func(d orda.DocumentInTx) error {
						var pe errors.OrdaError
						ops, pe = d.PatchByJSON(string(tb))
						if pe != nil {
							return pe
						}
						return nil
					}); te != nil {
						e = te
					}
				} else if o, pe := doc.PatchByJSON(string(tb)); pe != nil {
					e = pe
				} else {
					ops = o
				}
				patches = len(ops)
				for _, op := range ops {
					segs := strings.Split(op.Path.String(), "/")
					last := segs[len(segs)-1]
					if last == "-" || (len(last) > 0 && last[0] >= '0' && last[0] <= '9') {
						scriptHasIndex = true
					}
				}
				if e != nil {
					perr = e
				}
			}()
			if pan != nil {
				c.failf("patch %d on replica %d panicked: %v\n  current: %s\n  target:  %s", i, r, pan, sim.Canon(cur), tb)
			}
			if perr != nil {
				c.failf("patch %d on replica %d failed: %v\n  current: %s\n  target:  %s", i, r, perr, sim.Canon(cur), tb)
			}
			if got, want := sim.Canon(doc.GetValue()), sim.Canon(target); got != want {
				c.failf("patch %d on replica %d: document is not the target afterwards\n  current: %s\n  target:  %s\n  got:     %s", i, r, sim.Canon(cur), want, got)
			}
			w.Reps[r].NoteEmitted()
			fresh := w.Reps[r].Buffer()[before:]
			switch {
			case len(fresh) == 0:
				if sim.Canon(cur) != sim.Canon(target) || inUserTx {
					c.failf("patch %d changed the document but emitted no operation", i)
				}
			case len(fresh) == 1:
				if fresh[0].OpType == model.TypeOfOperation_TRANSACTION && !inUserTx { // (a user transaction in which nothing had to change is a lone header)
					c.failf("patch %d emitted a lone TRANSACTION header", i)
				}
			default:
				var hb txHeader
				if fresh[0].OpType != model.TypeOfOperation_TRANSACTION || json.Unmarshal(fresh[0].Body, &hb) != nil || int(hb.NumOfOps) != len(fresh) {
					c.failf("patch %d emitted %d operations that are not one transaction unit (first is %s announcing %d)", i, len(fresh), fresh[0].OpType, hb.NumOfOps)
				}
				for _, op := range fresh[1:] {
					if op.OpType == model.TypeOfOperation_TRANSACTION {
						c.failf("patch %d emitted more than one unit", i)
					}
				}
			}
			if i > 0 && rapid.IntRange(0, 3).Draw(c.rt, fmt.Sprintf("concurrent%d", i)) == 0 {
				// the other replica patches too before anything is exchanged (a REST patch against a client's patch that
				// is not pushed yet looks like this): neither target survives as a whole, but what the two patches emit
				// has to bring both replicas to the SAME value
				var edits2 []string
				otherDoc := w.Reps[1-r].DT.(orda.Document)
				t2 := c19Edit(c.rt, fmt.Sprintf("t%d.other", i), deepCopy(cur), 3, &edits2)
				t2b, _ := json.Marshal(t2)
				c.j.add(c19Patch{K: "concurrent-patch", R: 1 - r, Target: string(t2b)})
				canon.WriteString("||" + string(t2b) + ";")
				if _, e := otherDoc.PatchByJSON(string(t2b)); e != nil {
					c.failf("concurrent patch %d on replica %d failed: %v\n  target: %s", i, 1-r, e, t2b)
				}
				if err := w.Quiesce(); err != nil {
					c.failf("delivering the concurrent patches %d: %v", i, err)
				}
				if a, b := sim.Canon(w.Reps[0].DT.(orda.Document).GetValue()), sim.Canon(w.Reps[1].DT.(orda.Document).GetValue()); a != b {
					c.failf("after two concurrent patches (step %d) and the exchange of their operations the replicas differ:\n  replica 0: %s\n  replica 1: %s\n  targets:   %s  ||  %s", i, a, b, tb, t2b)
				}
				labels["concurrent-patches-on-both-replicas"] = true
				continue
			}
			if err := w.Quiesce(); err != nil {
				c.failf("delivering patch %d: %v", i, err)
			}
			other := w.Reps[1-r].DT.(orda.Document)
			if got, want := sim.Canon(other.GetValue()), sim.Canon(target); got != want {
				c.failf("patch %d: the other replica is not the target after delivery\n  target: %s\n  got:    %s", i, want, got)
			}
			esc := needsEscaping(target) || needsEscaping(cur)
			typeChange := false
			for _, e := range edits {
				labels["edit="+e] = true
				if e == "type-change" {
					typeChange = true
				}
			}
			if esc {
				labels["key-needs-escaping"] = true
			}
			if patches >= 3 && scriptHasIndex {
				labels["script>=3-with-array-index"] = true
			}
			if (patches >= 3 && scriptHasIndex) || (esc && patches > 0) || typeChange {
				nontrivial = true
			}
		}
		var ll []string
		for l := range labels {
			ll = append(ll, l)
		}
		sort.Strings(ll)
		col.Case(nontrivial, canon.String(), ll, func() interface{} { return map[string]interface{}{"target_chain": canon.String()} })
	})
}

func TestC19Local(t *testing.T) { testC19Local(t) }

// c19Abandoned stands for "a valid patch inside a user transaction that returns an error" among the refused patches.
const c19Abandoned = "<a valid patch inside a transaction that the user abandons>"

// TestC19Invalid: targets outside the domain must be refused cleanly (no panic, nothing changes).
func TestC19Invalid(t *testing.T) {
	col := stats.New("C19", t.Name(),
		"two document replicas; replica 0 builds a generated start document, both sync; PatchByJSON with a target outside the stated domain (not JSON, JSON that is not an object, members that are null - also behind valid members, so that a unit of several patches is refused half-way) on replica 0 or on replica 1 (which holds the document only as remote operations): oracle = no panic; if an error is returned the document and the operations awaiting push of that replica are unchanged; then an accepted patch to a generated target on the same replica: after delivery both replicas equal the target; "+
			"non-trivial = the document was non-empty; distinct = (current, target)")
	checkProp(t, "C19", col, func(c *caseCtx) {
		sim.SeedIDs(rapid.Uint64Range(1, 1<<30).Draw(c.rt, "idseed"))
		w := sim.NewWorld(sim.Document, 2, 2)
		author := w.Reps[0].DT.(orda.Document)
		start := c19Object(c.rt, "start", 2)
		sb, _ := json.Marshal(start)
		if _, e := author.PatchByJSON(string(sb)); e != nil {
			c.rt.Skip("start document not reachable (covered by TestC19Local)")
		}
		// the refused patch hits the replica that wrote the document, or (half of the cases) the one that has
		// received all of it from the other replica
		r := rapid.IntRange(0, 1).Draw(c.rt, "replica")
		if err := w.Quiesce(); err != nil {
			c.failf("HARNESS-ERROR: %v", err)
		}
		doc := w.Reps[r].DT.(orda.Document)
		bad := rapid.SampledFrom([]string{`[1,2]`, `[]`, `"str"`, `12`, `true`, `null`, `{`, ``, `{"a":}`, `{"a":null}`, `{"a":{"b":null}}`, `{"a":[1,null]}`, `nul`, `{"zz1":1,"zz2":null}`, `{"zz1":1,"zz2":{"x":2},"zz3":[null]}`, c19Abandoned, c19Abandoned}).Draw(c.rt, "bad")
		c.j.Header = map[string]interface{}{"start": string(sb), "target": bad, "replica": r}
		before, bops := sim.Canon(doc.GetValue()), len(w.Reps[r].Buffer())
		var perr error
		var pan interface{}
		func() {
			defer func() { pan = recover() }()
			if bad == c19Abandoned {
				// a valid patch inside a transaction that the user abandons afterwards: everything is rolled back
				ab, _ := json.Marshal(c19Object(c.rt, "abandoned", 2))
				if te := doc.Transaction("abandoned", func(d orda.DocumentInTx) error {
					if _, pe := d.PatchByJSON(string(ab)); pe != nil {
						return pe
					}
					return fmt.Errorf("abandoned by the user")
				}); te != nil {
					perr = te
				}
				return
			}
			if _, e := doc.PatchByJSON(bad); e != nil {
				perr = e
			}
		}()
		if pan != nil {
			c.failf("PatchByJSON(%q) on %s panicked: %v", bad, before, pan)
		}
		after, aops := sim.Canon(doc.GetValue()), len(w.Reps[r].Buffer())
		if perr != nil && (after != before || aops != bops) {
			c.failf("PatchByJSON(%q) on replica %d returned an error but changed the document (%s -> %s) or queued operations (%d -> %d)", bad, r, before, after, bops, aops)
		}
		labels := []string{"bad=" + bad, fmt.Sprintf("refused-on-replica=%d", r)}
		if perr != nil && rapid.Bool().Draw(c.rt, "second_round") {
			// an accepted patch and a second abandoned transaction first: the second rollback starts from the point
			// the first one left behind
			mid, _ := json.Marshal(c19Object(c.rt, "mid", 2))
			if _, e := doc.PatchByJSON(string(mid)); e == nil {
				b2 := sim.Canon(doc.GetValue())
				ab, _ := json.Marshal(c19Object(c.rt, "abandoned2", 2))
				_ = doc.Transaction("abandoned2", func(d orda.DocumentInTx) error {
					_, _ = d.PatchByJSON(string(ab))
					return fmt.Errorf("abandoned by the user")
				})
				if a2 := sim.Canon(doc.GetValue()); a2 != b2 {
					c.failf("the second abandoned transaction on replica %d changed the document: %s -> %s", r, b2, a2)
				}
				labels = append(labels, "two-rollbacks-with-an-accepted-patch-between")
			}
		}
		if perr != nil {
			// life goes on: an accepted patch on the same replica reaches its target everywhere
			next := c19Object(c.rt, "next", 2)
			nb, _ := json.Marshal(next)
			if _, e := doc.PatchByJSON(string(nb)); e == nil {
				if err := w.Quiesce(); err != nil {
					c.failf("after the refused patch and an accepted one: %v", err)
				}
				for i, rep := range w.Reps {
					if got, want := sim.Canon(rep.DT.(orda.Document).GetValue()), sim.Canon(sim.Normalize(next)); got != want {
						c.failf("after a refused patch (%q) and an accepted one on replica %d, replica %d shows %s, the target is %s", bad, r, i, got, want)
					}
				}
				labels = append(labels, "accepted-patch-after-the-refused-one")
			}
		}
		col.Case(len(start) > 0, string(sb)+"|"+bad+fmt.Sprint(r), labels, func() interface{} { return c.j.Header })
	})
}

// ---------------------------------------------------------------------------------------------
// REST patch endpoint (L1)

func TestC19Rest(t *testing.T) {
	col := stats.New("C19", t.Name(),
		"the REST patch endpoint of the real server on a document key that is absent / exists with a stored snapshot / exists WITHOUT a stored snapshot (the background snapshot update is made to fail by the fake database's fault plan), with 0-2 subscribed clients, chains of 1-3 patches to generated targets (objects without nulls, hostile keys) interleaved with client pushes; half of the patches are HTTP requests (POST /api/v1/collections/<c>/documents/<k>, body {\"json\": ...}) through the generated grpc-gateway mux that the server's REST port serves, registered on the environment's gRPC listener; the others call the service method (also when the gateway's route does not match the name: keys with '/'); "+
			"oracle: the call is answered; the returned JSON equals the target; the patch operations are appended to the stored log (invariants intact, no snapshot operation inside the log); after settling every subscribed client and the server's rebuild equal refmodel(log), and equal the last target when no client pushed after it; "+
			"non-trivial = the key existed with stored operations and no stored snapshot, or a client pushed between two patches; distinct = hash of the scenario")
	checkProp(t, "C19", col, func(c *caseCtx) {
		rt := c.rt
		idseed := rapid.Uint64Range(1, 1<<40).Draw(rt, "idseed")
		dep := drawDeployment(rt)
		w, err := newL1World(idseed, []sim.Kind{sim.Document})
		if err != nil {
			c.failf("HARNESS-ERROR: %v", err)
		}
		defer w.close()
		w.labels[dep] = true
		patchesHappened = true
		k := w.keys[0]
		base := rapid.SampledFrom([]string{"absent", "with-snapshot", "without-snapshot"}).Draw(rt, "base")
		nclients := rapid.IntRange(0, 2).Draw(rt, "clients")
		if base != "absent" && nclients == 0 {
			nclients = 1
		}
		c.j.Header = map[string]interface{}{"base": base, "clients": nclients, "id_seed": idseed}
		var canon strings.Builder
		canon.WriteString(base + fmt.Sprint(nclients) + ";")
		if base == "without-snapshot" {
			w.env.Mongo.SetFaultHook(func(cmd *fakemongo.Cmd) fakemongo.Fault {
				if cmd.Verb == "insert" && strings.HasSuffix(cmd.NS, ".-_-Snapshots") {
					return fakemongo.FailBefore
				}
				return fakemongo.None
			})
		}
		for i := 0; i < nclients; i++ {
			cl, err := w.addClient()
			if err != nil {
				c.failf("HARNESS-ERROR: %v", err)
			}
			if base == "absent" {
				continue // they subscribe after the first patch created the document
			}
			mode := "subscribe"
			if i == 0 {
				mode = "create"
			}
			d := w.open(cl, k, mode)
			if i == 0 {
				start := c19Object(rt, "start", 2)
				sb, _ := json.Marshal(start)
				if _, e := d.dt.(orda.Document).PatchByJSON(string(sb)); e != nil {
					c.failf("HARNESS-ERROR: cannot build the start document: %v", e)
				}
				canon.WriteString("start=" + string(sb) + ";")
				c.j.add(map[string]interface{}{"k": "start", "json": string(sb)})
			}
			if ex := w.syncClient(cl); ex == nil || exchangeProblem(cl, ex) != nil {
				c.failf("HARNESS-ERROR: setup sync failed")
			}
		}
		w.env.WaitBackground(3 * time.Second)
		if base == "without-snapshot" {
			if n := len(w.env.Mongo.Dump()[w.env.DBName+".-_-Snapshots"]); n != 0 {
				c.failf("HARNESS-ERROR: a snapshot was stored although its insert is made to fail")
			}
		}
		pushedBetween, largeTarget := false, false
		var lastTarget interface{}
		clientPushedAfterLast := false
		npatch := rapid.IntRange(1, 3).Draw(rt, "patches")
		for pi := 0; pi < npatch; pi++ {
			cur, _, _ := w.serverCopyJSON(k)
			var target interface{}
			if cur == nil || rapid.Bool().Draw(rt, fmt.Sprintf("indep%d", pi)) {
				target = c19Object(rt, fmt.Sprintf("t%d", pi), 3)
			} else {
				var edits []string
				target = c19Edit(rt, fmt.Sprintf("t%d", pi), deepCopy(cur), 3, &edits)
			}
			if rapid.IntRange(0, 11).Draw(rt, fmt.Sprintf("large%d", pi)) == 0 {
				// a target whose patch needs more than a thousand operations (one transaction unit)
				if tm, ok := target.(map[string]interface{}); ok {
					n := rapid.SampledFrom([]int{1030, 1100, 2060}).Draw(rt, fmt.Sprintf("largen%d", pi))
					big := make([]interface{}, n)
					for i := range big {
						big[i] = float64(i)
					}
					tm["big"] = big
					largeTarget = true
				}
			}
			tb, _ := json.Marshal(target)
			c.j.add(map[string]interface{}{"k": "rest-patch", "target": string(tb)})
			canon.WriteString("patch=" + string(tb) + ";")
			w.env.WaitBackground(3 * time.Second)
			// half of the patches travel the whole way: HTTP + JSON -> grpc-gateway -> gRPC -> service (what
			// server/server/rest.go serves); the others call the service method
			var resp *model.PatchMessage
			var e error
			var timedOut bool
			if rapid.Bool().Draw(rt, fmt.Sprintf("over_http%d", pi)) {
				rr, herr := w.env.PatchDocumentREST(w.col, k.Name, string(tb), l1Deadline)
				switch {
				case herr != nil && rr == nil:
					c.failf("HARNESS-ERROR: the REST gateway cannot be set up: %v", herr)
				case herr != nil:
					c.failf("the REST endpoint answered HTTP %d with a body that is not JSON: %v", rr.Status, herr)
				case rr.TimedOut:
					timedOut = true
				case rr.Status == 200:
					resp = &model.PatchMessage{Json: rr.JSON}
					w.labels["patch-over-http"] = true
				case rr.Status == 404 || rr.Status == 405 || rr.Status == 400 && strings.Contains(rr.Body, "type mismatch"):
					// the route does not match this collection / key name (path escaping is the gateway's business,
					// not a statement of C19): the service method is called instead
					w.labels["name-not-routable-over-http"] = true
				default:
					e = fmt.Errorf("HTTP %d: %s", rr.Status, rr.Body)
				}
			}
			if resp == nil && e == nil && !timedOut {
				resp, e, timedOut = w.env.PatchDocument(&model.PatchMessage{Collection: w.col, Key: k.Name, Json: string(tb)}, l1Deadline)
			}
			if timedOut {
				c.failf("the REST patch was never answered")
			}
			if e != nil {
				c.failf("the REST patch to %s failed: %v", tb, e)
			}
			var got interface{}
			if err := json.Unmarshal([]byte(resp.Json), &got); err != nil {
				c.failf("the REST patch answered with invalid JSON %q", resp.Json)
			}
			if sim.Canon(got) != sim.Canon(target) {
				c.failf("the REST patch answered %s, the target was %s", sim.Canon(got), sim.Canon(target))
			}
			w.env.WaitBackground(3 * time.Second)
			lastTarget, clientPushedAfterLast = target, false
			// find the datatype the patch created/used
			for _, dd := range w.datatypeDocs() {
				if bstr(bget(dd, "key")) == k.Name {
					k.duid, k.created = bstr(bget(dd, "_id")), true
				}
			}
			if err := w.checkLogInvariants(); err != nil {
				c.failf("after the REST patch: %v", err)
			}
			if err := c19NoInnerSnapshot(w, k); err != nil {
				if isOpen("S17") && base == "without-snapshot" {
					reportKnown(col, "C19", "S17", "a REST patch of an existing document that has no stored snapshot pushes the temporary datatype's own creation SNAPSHOT operation into the log; every replica that applies it is reset to the empty document")
					col.Case(true, canon.String(), []string{"known=S17"}, nil)
					return
				}
				c.failf("after the REST patch: %v", err)
			}
			// late subscribers / client activity between patches
			for _, cl := range w.clients {
				if cl.dts[k.Name] == nil {
					w.open(cl, k, "subscribe")
				}
			}
			if pi+1 < npatch && len(w.clients) > 0 && rapid.Bool().Draw(rt, fmt.Sprintf("push%d", pi)) {
				cl := w.clients[rapid.IntRange(0, len(w.clients)-1).Draw(rt, fmt.Sprintf("pc%d", pi))]
				if ex := w.syncClient(cl); ex == nil || exchangeProblem(cl, ex) != nil {
					c.failf("a client sync after the REST patch failed: %v", exchangeProblem(cl, ex))
				}
				d := cl.dts[k.Name]
				sim.Exec(sim.Document, d.dt, sim.Call{M: "PutToObject", Key: fmt.Sprintf("c%d", pi), Vals: []sim.Val{sim.I(int64(pi))}})
				if ex := w.syncClient(cl); ex == nil || exchangeProblem(cl, ex) != nil {
					c.failf("a client push after the REST patch failed: %v", exchangeProblem(cl, ex))
				}
				pushedBetween, clientPushedAfterLast = true, true
				c.j.add(map[string]interface{}{"k": "client-push", "c": cl.idx})
				canon.WriteString(fmt.Sprintf("push(c%d);", cl.idx))
			}
		}
		w.env.Mongo.SetFaultHook(nil)
		w.noConverge = false
		if err := w.settle(); err != nil {
			c.failf("settle: %v", err)
		}
		if err := w.checkConverged(); err != nil {
			c.failf("after the REST patches: %v", err)
		}
		if !clientPushedAfterLast {
			for _, cl := range w.clients {
				if d := cl.dts[k.Name]; d != nil && d.entered {
					if got, want := sim.Canon(d.dt.(orda.Document).GetValue()), sim.Canon(lastTarget); got != want {
						c.failf("client %d did not converge to the target of the last REST patch:\n  client: %s\n  target: %s", cl.idx, got, want)
					}
				}
			}
		}
		extra := map[bool][]string{true: {"patch-of->1000-operations"}, false: nil}[largeTarget]
		for _, l := range []string{"patch-over-http", "name-not-routable-over-http"} {
			if w.labels[l] {
				extra = append(extra, l)
			}
		}
		col.Case(base == "without-snapshot" || pushedBetween, canon.String(), append([]string{"base=" + base, fmt.Sprintf("clients=%d", nclients), dep}, extra...), func() interface{} {
			return map[string]interface{}{"scenario": canon.String()}
		})
	})
}

// serverCopyJSON is the current value of the key as the server rebuilds it (nil if absent).
func (w *l1World) serverCopyJSON(k *l1Key) (interface{}, uint64, error) {
	dt, sseq, err := w.serverCopy(k)
	if err != nil || dt == nil {
		return nil, 0, err
	}
	return sim.Normalize(dt.(orda.Document).GetValue()), sseq, nil
}

func c19NoInnerSnapshot(w *l1World, k *l1Key) error {
	log, _ := w.storedLog(k.duid)
	for _, so := range log {
		if so.op.OpType%10 == 0 && so.sseq != 1 {
			return fmt.Errorf("a snapshot operation (%s of %s) sits inside the log at position %d: every replica that applies it is reset", so.op.OpType, so.op.ID.CUID, so.sseq)
		}
	}
	return nil
}

// TestC19KnownS17b is the probe of known finding S17b (REST patches reuse operation sequence numbers).
func TestC19KnownS17b(t *testing.T) {
	col := stats.New("C19", t.Name(), "probe of known finding S17b: two REST patches of a document that has a stored snapshot")
	defer col.Flush()
	col.Bulk(1, 0)
	w, err := newL1World(1717, []sim.Kind{sim.Document})
	if err != nil {
		fmt.Printf("HARNESS-ERROR: %v\n", err)
		t.Fatal(err)
	}
	defer w.close()
	k := w.keys[0]
	cl, _ := w.addClient()
	d := w.open(cl, k, "create")
	sim.Exec(sim.Document, d.dt, sim.Call{M: "PutToObject", Key: "x", Vals: []sim.Val{sim.I(1)}})
	w.syncClient(cl)
	w.env.WaitBackground(3 * time.Second)
	for i := 1; i <= 2; i++ {
		if _, e, to := w.env.PatchDocument(&model.PatchMessage{Collection: w.col, Key: k.Name, Json: fmt.Sprintf(`{"x":1,"a":%d}`, i)}, l1Deadline); e != nil || to {
			t.Fatalf("patch %d failed: %v %v", i, e, to)
		}
		w.env.WaitBackground(3 * time.Second)
	}
	log, _ := w.storedLog(k.duid)
	seen := map[string]int64{}
	dup := ""
	for _, so := range log {
		if prev, ok := seen[opKey(so.op)]; ok {
			dup = fmt.Sprintf("operations at log positions %d and %d both carry the identifier %s", prev, so.sseq, opKey(so.op))
		}
		seen[opKey(so.op)] = so.sseq
	}
	switch {
	case dup != "" && isOpen("S17b"):
		reportKnown(col, "C19", "S17b", "two REST patches of one document number their operations from 1 under the same client id: "+dup)
	case dup != "":
		j := &Journal{Property: "C19", Test: t.Name(), Header: "create doc, push, wait for snapshot, REST patch twice"}
		enumFail(t, "C19", j, "REST patches reuse operation identifiers: %s", dup)
	case isOpen("S17b"):
		col.Note("known finding S17b no longer reproduces")
	}
}

// TestC19Atomic: "applies as one atomic unit" as seen by the other goroutines of the application:
// while PatchByJSON runs, every read of the document shows the value before the patch or the target,
// never a mixture.
func TestC19Atomic(t *testing.T) {
	col := stats.New("C19", t.Name(),
		"one document replica; a chain of 2-6 PatchByJSON calls whose targets are generated objects (as in TestC19Local) widened by 5-40 flat members that change from target to target, so that each patch is a transaction of many operations; 1-3 reader goroutines read the whole value (GetValue) in a loop while the patches run; "+
			"oracle: every value a reader saw JSON-equals the initial value or one of the targets, and per reader the positions in the chain never go backwards; no panic; non-trivial = at least one read started while a patch call was in flight (atomic flag) and the chain has a patch of >=5 operations; distinct = hash of the target chain")
	col.Assume("targets contain no JSON null (stated domain of C19); the schedule is the Go scheduler's: how many reads fall inside a patch is measured, not controlled")
	if isOpen("S26") {
		t.Skip("reads concurrent with writes are known finding S26")
	}
	checkProp(t, "C19", col, func(c *caseCtx) {
		rt := c.rt
		idseed := rapid.Uint64Range(1, 1<<40).Draw(rt, "idseed")
		sim.SeedIDs(idseed)
		w := sim.NewWorld(sim.Document, 1, 1)
		doc := w.Reps[0].DT.(orda.Document)
		chain := rapid.IntRange(2, 6).Draw(rt, "chain")
		readers := rapid.IntRange(1, 3).Draw(rt, "readers")
		var targets []string
		for i := 0; i < chain; i++ {
			obj := c19Object(rt, fmt.Sprintf("t%d", i), 2)
			for j := rapid.IntRange(5, 40).Draw(rt, fmt.Sprintf("wide%d", i)); j > 0; j-- {
				obj[fmt.Sprintf("w%d", j)] = fmt.Sprintf("t%d.%d", i, j)
			}
			b, _ := json.Marshal(obj)
			targets = append(targets, string(b))
		}
		c.j.Header = map[string]interface{}{"id_seed": idseed, "targets": targets, "readers": readers}
		allowed := []string{sim.Canon(sim.Normalize(doc.GetValue()))}
		for _, tg := range targets {
			var v interface{}
			_ = json.Unmarshal([]byte(tg), &v)
			allowed = append(allowed, sim.Canon(v))
		}
		var inPatch, stop int32
		var duringPatch int64
		var mu sync.Mutex
		var problems []string
		var wg sync.WaitGroup
		for r := 0; r < readers; r++ {
			wg.Add(1)
			go func(r int) {
				defer wg.Done()
				defer func() {
					if p := recover(); p != nil {
						mu.Lock()
						problems = append(problems, fmt.Sprintf("reader %d panicked: %v", r, p))
						mu.Unlock()
					}
				}()
				pos := 0
				for atomic.LoadInt32(&stop) == 0 {
					during := atomic.LoadInt32(&inPatch) == 1
					got := sim.Canon(sim.Normalize(doc.GetValue()))
					if during {
						atomic.AddInt64(&duringPatch, 1)
					}
					at := -1
					for i := pos; i < len(allowed); i++ {
						if allowed[i] == got {
							at = i
							break
						}
					}
					if at < 0 {
						mu.Lock()
						problems = append(problems, fmt.Sprintf("reader %d saw a value that is neither the value before a patch nor its target (position in the chain so far: %d): %s", r, pos, got))
						mu.Unlock()
						return
					}
					pos = at
					runtime.Gosched()
				}
			}(r)
		}
		maxOps := 0
		var perr string
		for i, tg := range targets {
			atomic.StoreInt32(&inPatch, 1)
			ops, err := doc.PatchByJSON(tg)
			atomic.StoreInt32(&inPatch, 0)
			if err != nil {
				perr = fmt.Sprintf("patch %d failed: %v", i, err)
				break
			}
			if len(ops) > maxOps {
				maxOps = len(ops)
			}
			for y := rapid.IntRange(0, 3).Draw(rt, fmt.Sprintf("yield%d", i)); y > 0; y-- {
				runtime.Gosched()
			}
		}
		atomic.StoreInt32(&stop, 1)
		if watchdog(20*time.Second, wg.Wait) {
			c.failf("a reader goroutine never returned from reading the document")
		}
		if perr != "" {
			c.failf("%s", perr)
		}
		if len(problems) > 0 {
			c.failf("%s", problems[0])
		}
		if got := sim.Canon(sim.Normalize(doc.GetValue())); got != allowed[len(allowed)-1] {
			c.failf("the document is not the last target at the end: %s", got)
		}
		var labels []string
		if duringPatch > 0 {
			labels = append(labels, "reads-during-a-patch")
		}
		labels = append(labels, fmt.Sprintf("readers=%d", readers))
		col.Case(duringPatch > 0 && maxOps >= 5, strings.Join(targets, ";"), labels, func() interface{} {
			return map[string]interface{}{"chain": chain, "readers": readers, "largest_patch_ops": maxOps, "reads_during_patches": duringPatch}
		})
	})
}
