package props

import (
	"encoding/json"
	"fmt"
	"math"
	"sort"
	"strings"

	"pgregory.net/rapid"
	"verif/sim"
)

// ---------------------------------------------------------------------------------------------
// value generators (DESIGN.md §3.6)

var stringPool = []string{
	"", "a", "b", "x y", "\u0000", "nul\u0000inside", `q"uote`, `back\slash`, "/", "~", "~0", "~1", "a/b", "-", ".", "a.b",
	"<>&", " ", " ", "\U0001F600", "héllo", "123", "-0", "1e5", "null", "true", "{}", "[]",
	"$set", "_id", "_orda_ver_", " lead", "trail ", "tab\tnl\n",
	// text that LOOKS like an escape sequence (already-serialised JSON or HTML stored as a string): the
	// characters backslash, u, 0, 0, 3, c ... must come back as exactly those characters
	`\u003c`, `\u003e`, `\u0026`, `\u2028`, `\u0000`, `\n`, `\"`, `\\`, `{"html":"\u003cb\u003e"}`, `\\u003c`, "%s%d", "&lt;", "\u007f", "\ufeff",
}

var longString = strings.Repeat("long-string-0123456789-", 60)

func genString(rt *rapid.T, label string) string {
	switch rapid.IntRange(0, 9).Draw(rt, label+".strclass") {
	case 0, 1, 2, 3:
		return rapid.SampledFrom(stringPool).Draw(rt, label+".pool")
	case 4:
		return longString[:rapid.IntRange(200, len(longString)).Draw(rt, label+".longlen")]
	case 5:
		// arbitrary valid UTF-8 (rapid.String only yields valid runes)
		return rapid.StringN(0, 12, -1).Draw(rt, label+".any")
	case 6:
		// a string that is itself the JSON encoding of another pool string (escapes inside a string)
		inner := rapid.SampledFrom(stringPool).Draw(rt, label+".inner")
		b, _ := json.Marshal(map[string]string{"s": inner})
		return string(b)
	default:
		return rapid.StringMatching(`[a-z]{1,4}`).Draw(rt, label+".plain")
	}
}

var floatPool = []float64{0, 1, -1, 0.5, -0.25, 1e-9, 1e21, 123456789.125, math.MaxFloat64, math.SmallestNonzeroFloat64,
	9007199254740991, 9007199254740992, 9007199254740993, -9007199254740993, 4294967296, 2147483648}

// genPrim draws a JSON primitive (string, number, bool) as the natural Go type.
func genPrim(rt *rapid.T, label string) sim.Val {
	switch rapid.IntRange(0, 5).Draw(rt, label+".prim") {
	case 0, 1:
		return sim.S(genString(rt, label))
	case 2:
		return sim.F(rapid.SampledFrom(floatPool).Draw(rt, label+".f"))
	case 3:
		return sim.I(int64(rapid.IntRange(-1000, 1000).Draw(rt, label+".i")))
	case 4:
		return sim.B(rapid.Bool().Draw(rt, label+".b"))
	default:
		return sim.F(rapid.Float64Range(-1e6, 1e6).Draw(rt, label+".ff"))
	}
}

var keyPoolPlain = []string{"a", "b", "c", "d", "e", "f"}
var keyPoolHostile = []string{"a", "b", "k/1", "~", "~0", "~1", "-", "0", "1", "x y", "é", "\U0001F600", "q\"", "A", "", "_id", "_orda_ver_"}

// genJSONVal draws a JSON-like value of bounded depth; containers are map[string]interface{} and
// []interface{}.
func genJSONVal(rt *rapid.T, label string, depth int, keys []string) sim.Val {
	if depth <= 0 || rapid.IntRange(0, 9).Draw(rt, label+".shape") < 5 {
		return genPrim(rt, label)
	}
	if rapid.Bool().Draw(rt, label+".isobj") {
		n := rapid.IntRange(0, 3).Draw(rt, label+".nkeys")
		seen := map[string]bool{}
		var kvs []sim.KV
		for i := 0; i < n; i++ {
			k := rapid.SampledFrom(keys).Draw(rt, fmt.Sprintf("%s.k%d", label, i))
			if seen[k] {
				continue
			}
			seen[k] = true
			kvs = append(kvs, sim.KV{K: k, V: genJSONVal(rt, fmt.Sprintf("%s.v%d", label, i), depth-1, keys)})
		}
		if len(kvs) > 0 && rapid.IntRange(0, 4).Draw(rt, label+".confusable") == 0 {
			// a sibling whose name equals an existing one up to letter case, both holding containers: member names
			// are compared exactly, everywhere (visiting order, identities, lookups)
			k := kvs[0].K
			if alt := strings.ToUpper(k); alt != k && !seen[alt] {
				kvs[0].V = sim.Arr(genPrim(rt, label+".c0"))
				kvs = append(kvs, sim.KV{K: alt, V: sim.Obj(sim.KV{K: "in", V: genPrim(rt, label+".c1")})})
			}
		}
		return sim.Obj(kvs...)
	}
	n := rapid.IntRange(0, 3).Draw(rt, label+".nelems")
	var l []sim.Val
	for i := 0; i < n; i++ {
		l = append(l, genJSONVal(rt, fmt.Sprintf("%s.e%d", label, i), depth-1, keys))
	}
	return sim.Arr(l...)
}

var intTags = []string{"int", "int8", "int16", "int32", "int64", "*int", "*int8", "*int16", "*int32", "*int64"}
var uintTags = []string{"uint", "uint8", "uint16", "uint32", "uint64", "*uint", "*uint8", "*uint16", "*uint32", "*uint64"}

func clampInt(tag string, v int64) int64 {
	switch strings.TrimPrefix(tag, "*") {
	case "int8":
		return int64(int8(v))
	case "int16":
		return int64(int16(v))
	case "int32":
		return int64(int32(v))
	}
	return v
}

func clampUint(tag string, v uint64) uint64 {
	switch strings.TrimPrefix(tag, "*") {
	case "uint8":
		return uint64(uint8(v))
	case "uint16":
		return uint64(uint16(v))
	case "uint32":
		return uint64(uint32(v))
	}
	return v
}

func intBits(tag string) uint {
	switch strings.TrimPrefix(strings.TrimPrefix(tag, "*"), "u") {
	case "int8":
		return 8
	case "int16":
		return 16
	case "int32":
		return 32
	}
	return 64
}

// intBoundaries: min, min+1, -1, 0, 1, max-1, max of the signed type, and the values around half its range.
func intBoundaries(tag string) []int64 {
	b := intBits(tag)
	max := int64(1)<<(b-1) - 1
	return []int64{-max - 1, -max, -1, 0, 1, max - 1, max, max / 2, max/2 + 1, -(max / 2) - 1}
}

// uintBoundaries: 0, 1, the values around half the range (where the sign bit of the signed type of the same
// width sits), max-1, max.
func uintBoundaries(tag string) []uint64 {
	b := intBits(tag)
	var max uint64 = math.MaxUint64
	if b < 64 {
		max = uint64(1)<<b - 1
	}
	half := uint64(1) << (b - 1)
	return []uint64{0, 1, half - 1, half, half + 1, max - 1, max}
}

// genGoVal draws from every Go value class of §3.6 (all JSON-representable).
func genGoVal(rt *rapid.T, label string, depth int) sim.Val {
	switch rapid.IntRange(0, 15).Draw(rt, label+".goclass") {
	case 0:
		tag := rapid.SampledFrom(intTags).Draw(rt, label+".itag")
		if rapid.Bool().Draw(rt, label+".iboundary") {
			// the boundaries of the drawn width itself (a sign or width slip shows at the ends of the range)
			return sim.Val{T: tag, I: rapid.SampledFrom(intBoundaries(tag)).Draw(rt, label+".ibound")}
		}
		v := rapid.SampledFrom([]int64{0, 1, -1, 127, -128, 32767, 1 << 31, -(1 << 31), 1<<53 + 1, math.MaxInt64, math.MinInt64, 42}).Draw(rt, label+".ival")
		return sim.Val{T: tag, I: clampInt(tag, v)}
	case 1:
		tag := rapid.SampledFrom(uintTags).Draw(rt, label+".utag")
		if rapid.Bool().Draw(rt, label+".uboundary") {
			return sim.Val{T: tag, U: rapid.SampledFrom(uintBoundaries(tag)).Draw(rt, label+".ubound")}
		}
		v := rapid.SampledFrom([]uint64{0, 1, 255, 65535, 1 << 32, 1<<53 + 1, 1 << 63, math.MaxUint64, 7}).Draw(rt, label+".uval")
		return sim.Val{T: tag, U: clampUint(tag, v)}
	case 2:
		tag := rapid.SampledFrom([]string{"float32", "*float32", "*float64", "float64"}).Draw(rt, label+".ftag")
		return sim.Val{T: tag, F: rapid.SampledFrom([]float64{0, 1.5, -2.25, 1e10, 3.4028234663852886e38, 1e-3}).Draw(rt, label+".fval")}
	case 3:
		return sim.Val{T: rapid.SampledFrom([]string{"*string", "string"}).Draw(rt, label+".stag"), S: genString(rt, label)}
	case 4:
		return sim.Val{T: rapid.SampledFrom([]string{"*bool", "bool"}).Draw(rt, label+".btag"), B: rapid.Bool().Draw(rt, label+".bval")}
	case 5:
		inner := genJSONVal(rt, label+".inner", 1, keyPoolPlain)
		v := sim.Val{T: rapid.SampledFrom([]string{"tagged", "*tagged"}).Draw(rt, label+".sttag"), S: genString(rt, label+".name"), I: int64(rapid.IntRange(-5, 5).Draw(rt, label+".count"))}
		if inner.T == "map" {
			v.M = inner.M
		}
		return v
	case 6:
		return sim.Val{T: "plain", S: genString(rt, label+".alpha"), F: float64(rapid.IntRange(-3, 3).Draw(rt, label+".beta")),
			L: []sim.Val{genPrim(rt, label+".g0")}}
	case 7:
		n := rapid.IntRange(0, 3).Draw(rt, label+".nstr")
		v := sim.Val{T: "strslice"}
		for i := 0; i < n; i++ {
			v.L = append(v.L, sim.S(genString(rt, fmt.Sprintf("%s.ss%d", label, i))))
		}
		return v
	case 8:
		return sim.Val{T: rapid.SampledFrom([]string{"nilslice", "nilmap"}).Draw(rt, label+".niltag")}
	case 9:
		// byte slices (a base64 string for encoding/json) and fixed-size Go arrays (JSON arrays)
		switch rapid.IntRange(0, 2).Draw(rt, label+".arrclass") {
		case 0:
			return sim.Val{T: "bytes", S: rapid.SampledFrom([]string{"", "\x01\x02\x03", "hello", "\x00\x7f~"}).Draw(rt, label+".bytes")}
		case 1:
			return sim.Val{T: "f64array", L: []sim.Val{sim.F(float64(rapid.IntRange(-3, 3).Draw(rt, label+".a0"))), sim.F(1.5)}}
		}
		return sim.Val{T: "bytearray", U: uint64(rapid.IntRange(0, 1<<24-1).Draw(rt, label+".ba"))}
	case 11:
		// types whose JSON encoding is not their Go shape: time.Time (a string), big.Int (a number),
		// json.RawMessage (the JSON it holds), maps with integer keys (keys become strings), structs containing them
		tag := rapid.SampledFrom([]string{"time", "*time", "intkeymap", "rawjson", "bigint", "timestruct"}).Draw(rt, label+".enctag")
		v := sim.Val{T: tag, I: int64(rapid.SampledFrom([]int{0, 1, 1700000000, 86399}).Draw(rt, label+".encval")), S: genString(rt, label+".encstr")}
		if rapid.Bool().Draw(rt, label+".encnested") {
			return sim.Obj(sim.KV{K: "a", V: v}, sim.KV{K: "z", V: genPrim(rt, label+".encafter")})
		}
		return v
	case 10:
		// the special values as members / elements of an ordinary container
		sp := []sim.Val{{T: "nilslice"}, {T: "nilmap"}, {T: "bytes", S: "\x01\x02"}, {T: "f64array", L: []sim.Val{sim.F(2), sim.F(3)}}, {T: "bytearray", U: 0x030201}}
		x := rapid.SampledFrom(sp).Draw(rt, label+".special")
		if rapid.Bool().Draw(rt, label+".inobj") {
			return sim.Obj(sim.KV{K: "a", V: x}, sim.KV{K: "z", V: genPrim(rt, label+".after")})
		}
		return sim.Arr(x, genPrim(rt, label+".after"))
	default:
		return genJSONVal(rt, label, depth, keyPoolHostile)
	}
}

// ---------------------------------------------------------------------------------------------
// document view helpers

type containerRef struct {
	path  []sim.Step
	isArr bool
	size  int
	keys  []string
	depth int
}

// containersOf lists every container (object/array) reachable in a normalised JSON view,
// in a deterministic order.
func containersOf(view interface{}) []containerRef {
	var out []containerRef
	var walk func(v interface{}, path []sim.Step)
	walk = func(v interface{}, path []sim.Step) {
		switch x := v.(type) {
		case map[string]interface{}:
			ks := make([]string, 0, len(x))
			for k := range x {
				ks = append(ks, k)
			}
			sort.Strings(ks)
			out = append(out, containerRef{path: append([]sim.Step{}, path...), keys: ks, size: len(ks), depth: len(path)})
			for _, k := range ks {
				walk(x[k], append(append([]sim.Step{}, path...), sim.KStep(k)))
			}
		case []interface{}:
			out = append(out, containerRef{path: append([]sim.Step{}, path...), isArr: true, size: len(x), depth: len(path)})
			for i := range x {
				walk(x[i], append(append([]sim.Step{}, path...), sim.IStep(i)))
			}
		}
	}
	walk(view, nil)
	return out
}

func pathString(p []sim.Step) string {
	var sb strings.Builder
	for _, s := range p {
		sb.WriteString("/" + s.String())
	}
	return sb.String()
}
