package props

import (
	"encoding/json"
	"fmt"
	"strconv"
	"strings"
	"testing"
	"time"

	"github.com/orda-io/orda/client/pkg/model"
	"pgregory.net/rapid"
	"verif/fakemongo"
	"verif/sim"
	"verif/stats"
)

var c15Clocks = []uint64{0, 1, 2, 3, 9, 10, 11, 19, 20, 99, 100, 101, 999, 1000, 1001, 1<<31 - 1, 1 << 31, 1<<31 + 1, 1<<32 - 1, 1 << 32, 1<<32 + 1,
	1<<53 - 1, 1 << 53, 1<<53 + 1, 1<<62 - 1, 1 << 62}
var c15CUIDs = []string{"0000000000000000", "1000000000000000", "0100000000000000", "abcdefghijklmnop", "abcdefghijklmnoq", "Abcdefghijklmnop",
	"_-0123456789abcd", "zzzzzzzzzzzzzzzz", "9zzzzzzzzzzzzzzz", "10zzzzzzzzzzzzzz"}
var c15Eras = []uint32{0, 1, 2, 10}

type c15TS struct {
	Era   uint32 `json:"e"`
	L     uint64 `json:"l"`
	C     string `json:"c"`
	Delim uint32 `json:"d"`
}

func drawC15TS(rt *rapid.T, label string) c15TS {
	l := rapid.SampledFrom(c15Clocks).Draw(rt, label+".l")
	if rapid.Bool().Draw(rt, label+".jitter") {
		l += uint64(rapid.IntRange(0, 25).Draw(rt, label+".dl"))
	}
	return c15TS{
		Era:   rapid.SampledFrom(c15Eras).Draw(rt, label+".e"),
		L:     l,
		C:     rapid.SampledFrom(c15CUIDs).Draw(rt, label+".c"),
		Delim: uint32(rapid.IntRange(0, 400).Draw(rt, label+".d")),
	}
}

func (t c15TS) ts() *model.Timestamp { return model.NewTimestamp(t.Era, t.L, t.C, t.Delim) }
func (t c15TS) id(seq uint64) *model.OperationID {
	return &model.OperationID{Era: t.Era, Lamport: t.L, CUID: t.C, Seq: seq}
}
func (t c15TS) sameClock(o c15TS) bool { return t.Era == o.Era && t.L == o.L && t.C == o.C }

func sign(x int) int {
	switch {
	case x < 0:
		return -1
	case x > 0:
		return 1
	}
	return 0
}

// TestC15Order: timestamp / operation-id comparison is a strict total order over distinct
// (era, clock, cuid).
func TestC15Order(t *testing.T) {
	col := stats.New("C15", t.Name(),
		"triples of timestamps drawn from boundary clock values {0..20,10^k+-1,2^31+-1,2^32+-1,2^53+-1,..2^62} (+ jitter), eras {0,1,2,10}, CUIDs incl. digit-leading and prefix-related ones; "+
			"oracle: Timestamp.Compare and OperationID.Compare are irreflexive, antisymmetric, transitive, total over distinct (era,clock,cuid), agree with each other and ignore delimiter/seq; "+
			"non-trivial = the three clocks are pairwise distinct and at least two share era and lamport (the CUID decides) or differ only by era; distinct = hash of the triple")
	col.Assume("clock differences stay below 2^63 (the subtraction-based comparison is only meaningful there)")
	checkProp(t, "C15", col, func(c *caseCtx) {
		a, b, d := drawC15TS(c.rt, "a"), drawC15TS(c.rt, "b"), drawC15TS(c.rt, "c")
		c.j.Header = map[string]interface{}{"a": a, "b": b, "c": d}
		all := []c15TS{a, b, d}
		for i, x := range all {
			if x.ts().Compare(x.ts()) != 0 {
				c.failf("Compare(x,x) != 0 for %+v", x)
			}
			for j, y := range all {
				cxy, cyx := sign(x.ts().Compare(y.ts())), sign(y.ts().Compare(x.ts()))
				if cxy != -cyx {
					c.failf("antisymmetry: Compare(%+v,%+v)=%d but reverse=%d", x, y, cxy, cyx)
				}
				if x.sameClock(y) != (cxy == 0) {
					c.failf("totality: Compare(%+v,%+v)=%d, same clock=%v", x, y, cxy, x.sameClock(y))
				}
				if o := sign(x.id(uint64(i)).Compare(y.id(uint64(j + 7)))); o != cxy {
					c.failf("OperationID.Compare=%d disagrees with Timestamp.Compare=%d for %+v,%+v", o, cxy, x, y)
				}
				// expected order: era, then lamport, then cuid (bytewise)
				want := 0
				switch {
				case x.Era != y.Era:
					want = sign(int(int64(x.Era) - int64(y.Era)))
				case x.L != y.L:
					if x.L < y.L {
						want = -1
					} else {
						want = 1
					}
				case x.C != y.C:
					if x.C < y.C {
						want = -1
					} else {
						want = 1
					}
				}
				if want != cxy {
					c.failf("Compare(%+v,%+v)=%d, expected %d by (era, lamport, cuid)", x, y, cxy, want)
				}
			}
		}
		ab, bc, ac := sign(a.ts().Compare(b.ts())), sign(b.ts().Compare(d.ts())), sign(a.ts().Compare(d.ts()))
		if ab < 0 && bc < 0 && ac >= 0 || ab > 0 && bc > 0 && ac <= 0 {
			c.failf("transitivity: a?b=%d b?c=%d a?c=%d for %+v %+v %+v", ab, bc, ac, a, b, d)
		}
		nontrivial := !a.sameClock(b) && !b.sameClock(d) && !a.sameClock(d) &&
			((a.Era == b.Era && a.L == b.L) || (b.Era == d.Era && b.L == d.L) || (a.L == b.L && a.C == b.C))
		col.Case(nontrivial, fmt.Sprintf("%+v%+v%+v", a, b, d), nil, func() interface{} { return all })
	})
}

// TestC15HashGrid: exhaustive injectivity of the element key over a grid.
func TestC15HashGrid(t *testing.T) {
	col := stats.New("C15", t.Name(),
		"EXHAUSTIVE grid era x lamport x delimiter x cuid (bounds in coverage.grid); oracle: distinct (era,lamport,delimiter,cuid) => distinct Timestamp.Hash(); "+
			"non-trivial = a timestamp whose separator-free decimal concatenation era|lamport|delimiter|cuid coincides with that of another grid point (exactly the pairs a naive key confuses); "+
			"distinct = the timestamp itself")
	defer col.Flush()
	maxL, maxD := 700, 120
	if thorough() {
		maxL, maxD = 3000, 300
	}
	eras := []uint32{0, 1, 10}
	cuids := []string{"abcdefghijklmnop", "1bcdefghijklmnop", "11cdefghijklmnop"}
	col.Extra("grid", map[string]interface{}{"eras": eras, "lamport": []int{0, maxL}, "delimiter": []int{0, maxD}, "cuids": cuids})
	seen := make(map[string]c15TS, len(eras)*len(cuids)*(maxL+1)*(maxD+1))
	naive := make(map[string]int32, len(eras)*len(cuids)*(maxL+1)*(maxD+1))
	n := 0
	var firstSample []interface{}
	for _, e := range eras {
		for _, cu := range cuids {
			for l := 0; l <= maxL; l++ {
				for d := 0; d <= maxD; d++ {
					ts := c15TS{Era: e, L: uint64(l), C: cu, Delim: uint32(d)}
					h := ts.ts().Hash()
					if prev, dup := seen[h]; dup {
						j := &Journal{Property: "C15", Test: t.Name(), Header: map[string]interface{}{"a": prev, "b": ts, "hash": h}}
						col.Flush()
						enumFail(t, "C15", j, "distinct timestamps %+v and %+v have the same key %q", prev, ts, h)
					}
					seen[h] = ts
					naive[strconv.Itoa(int(e))+strconv.Itoa(l)+strconv.Itoa(d)+cu]++
					n++
				}
			}
		}
	}
	confusable := 0
	for k, cnt := range naive {
		if cnt > 1 {
			confusable += int(cnt)
			if len(firstSample) < 3 {
				firstSample = append(firstSample, map[string]interface{}{"separator_free_key": k, "grid_points_sharing_it": cnt})
			}
		}
	}
	// random part beyond the grid
	rapid.Check(t, func(rt *rapid.T) {
		a := c15TS{Era: uint32(rapid.IntRange(0, 12).Draw(rt, "e")), L: rapid.Uint64Range(0, 1<<40).Draw(rt, "l"), C: rapid.SampledFrom(c15CUIDs).Draw(rt, "c"), Delim: uint32(rapid.IntRange(0, 100000).Draw(rt, "d"))}
		// b: a re-split of the same digit string, the most likely collision
		s := strconv.FormatUint(a.L, 10) + strconv.Itoa(int(a.Delim))
		cut := rapid.IntRange(1, len(s)).Draw(rt, "cut")
		bl, _ := strconv.ParseUint(s[:cut], 10, 64)
		bd := uint64(0)
		if cut < len(s) {
			bd, _ = strconv.ParseUint(s[cut:], 10, 32)
		}
		b := c15TS{Era: a.Era, L: bl, C: a.C, Delim: uint32(bd)}
		if (a != b) && a.ts().Hash() == b.ts().Hash() {
			rt.Fatalf("distinct timestamps %+v and %+v have the same key %q", a, b, a.ts().Hash())
		}
		n++
	})
	col.LabelN("grid-points", n)
	col.LabelN("confusable-without-separators", confusable)
	col.Bulk(n, confusable)
	for _, fs := range firstSample {
		col.Sample(fs)
	}
	col.SetExhaustive(true)
}

// TestC15History: per-client sequence numbers are 1,2,3,... without gaps, every new local
// operation is ordered after everything its replica had applied, and the element identities that
// occur in a history have pairwise distinct keys.
func testC15History(t *testing.T, kind sim.Kind) {
	col := stats.New("C15", t.Name(),
		"L0 histories (all four kinds) with invalid calls, failing transactions (rollback replays and re-numbers), remote deliveries and batches >= 11; after every step: the replica's emitted operations have seq 1..n in order, "+
			"each newly emitted operation's (lamport,cuid) is greater than that of every operation the replica had applied before, no two operations share (lamport,cuid); at the end every identity occurring in any operation (element ids, anchors, targets, parents) has a distinct Timestamp.Hash; at every quiescent point every replica equals the reference model, which resolves each operation's targets by identity (an operation addressed to one element touches no other); "+
			"non-trivial = >=1 failed call or rollback between two successful calls of the same replica AND >=1 remote delivery before a later local operation; distinct = hash of the action sequence")
	checkProp(t, "C15", col, func(c *caseCtx) {
		cfg := drawL0Config(c.rt, kind)
		cfg.BigBatch = true
		failedBetween, remoteBefore := false, false
		hadFailure := map[int]bool{}
		perStep := func(m *l0Machine, a l0Action, si stepInfo) error {
			if a.K == "local" || a.K == "tx" {
				failed := si.txErr != nil
				for _, r := range si.results {
					if r.Err != nil {
						failed = true
					}
				}
				if failed {
					hadFailure[a.R] = true
				} else if si.emitted > 0 && hadFailure[a.R] {
					failedBetween = true
				}
			}
			for ri, rep := range m.w.Reps {
				if a.K == "local" || a.K == "tx" {
					if ri != a.R {
						continue
					}
				}
				for i, op := range rep.Emitted {
					if op.ID.Seq != uint64(i+1) {
						return fmt.Errorf("replica %d: operation %d awaiting push has seq %d (want %d): gap or repeat in the client's numbering", ri, i, op.ID.Seq, i+1)
					}
					if op.ID.CUID != rep.CUID {
						return fmt.Errorf("replica %d: emitted operation carries foreign cuid %s", ri, op.ID.CUID)
					}
				}
			}
			if (a.K == "local" || a.K == "tx") && si.emitted > 0 {
				rep := m.w.Reps[a.R]
				fresh := rep.Emitted[len(rep.Emitted)-si.emitted:]
				// everything in Seen before the fresh ones
				before := rep.Seen[:len(rep.Seen)-si.emitted]
				for _, old := range before {
					if old.ID.CUID != rep.CUID {
						remoteBefore = true
					}
				}
				prev := (*model.Operation)(nil)
				for _, f := range fresh {
					for _, old := range before {
						if old.OpType%10 == 0 && old.ID.CUID == "0000000000000000" {
							continue
						}
						if !clockGreater(f, old) {
							return fmt.Errorf("replica %d: new local operation %s seq %d has clock (%d,%s) which is not after already applied operation (%d,%s) seq %d",
								a.R, f.OpType, f.ID.Seq, f.ID.Lamport, f.ID.CUID, old.ID.Lamport, old.ID.CUID, old.ID.Seq)
						}
					}
					if prev != nil && !clockGreater(f, prev) {
						return fmt.Errorf("replica %d: consecutive local operations do not have increasing clocks", a.R)
					}
					prev = f
				}
			}
			return nil
		}
		// "an operation addressed to one element never touches another": at every quiescent point the replicas
		// show what the reference model computes from the operations, which resolves every target by its identity
		m, actions := runL0(c, cfg, maxStepsL0(), perStep, func(m *l0Machine) error {
			if err := m.matchesReference(); err != nil {
				return fmt.Errorf("an operation did not reach the element it is addressed to (or reached another one): %v", err)
			}
			return nil
		})
		// identity keys
		keys := map[string]string{}
		ids := 0
		for _, op := range m.w.Log {
			for _, ts := range identitiesOf(op) {
				h := ts.Hash()
				canon := fmt.Sprintf("%d:%d:%s:%d", ts.Era, ts.Lamport, ts.CUID, ts.Delimiter)
				if prev, ok := keys[h]; ok && prev != canon {
					c.failf("two distinct identities of this history share the key %q: %s and %s", h, prev, canon)
				}
				if _, ok := keys[h]; !ok {
					ids++
				}
				keys[h] = canon
			}
		}
		if failedBetween {
			m.labels["failure-between-successes"] = true
		}
		if remoteBefore {
			m.labels["remote-before-local"] = true
		}
		labels := append(m.labelList(), "kind="+string(kind))
		col.Case(failedBetween && remoteBefore, m.canonical(actions), labels, func() interface{} {
			return map[string]interface{}{"config": cfg, "actions": fmt.Sprint(actions), "distinct_identities": ids}
		})
	})
}

// identitiesOf returns every timestamp that an operation creates or addresses.
func identitiesOf(op *model.Operation) []*model.Timestamp {
	var out []*model.Timestamp
	var b struct {
		P *model.Timestamp
		T json.RawMessage
		V json.RawMessage
	}
	if json.Unmarshal(op.Body, &b) != nil {
		return nil
	}
	if b.P != nil {
		out = append(out, b.P)
	}
	if len(b.T) > 0 {
		var one model.Timestamp
		var many []*model.Timestamp
		if json.Unmarshal(b.T, &many) == nil {
			out = append(out, many...)
		} else if json.Unmarshal(b.T, &one) == nil {
			out = append(out, &one)
		}
	}
	switch op.OpType {
	case model.TypeOfOperation_LIST_INSERT, model.TypeOfOperation_DOC_ARR_INS, model.TypeOfOperation_DOC_ARR_UPD, model.TypeOfOperation_DOC_OBJ_PUT:
		// created identities: one per node of the value tree(s)
		var vals []interface{}
		var v interface{}
		if op.OpType == model.TypeOfOperation_DOC_OBJ_PUT {
			if json.Unmarshal(b.V, &v) == nil {
				vals = []interface{}{v}
			}
		} else {
			_ = json.Unmarshal(b.V, &vals)
		}
		n := 0
		for _, x := range vals {
			if op.OpType == model.TypeOfOperation_LIST_INSERT {
				n++
			} else {
				n += countNodes(x)
			}
		}
		for d := 0; d < n; d++ {
			out = append(out, model.NewTimestamp(op.ID.Era, op.ID.Lamport, op.ID.CUID, uint32(d)))
		}
	}
	return out
}

func countNodes(v interface{}) int {
	n := 1
	switch x := v.(type) {
	case map[string]interface{}:
		for _, e := range x {
			n += countNodes(e)
		}
	case []interface{}:
		for _, e := range x {
			n += countNodes(e)
		}
	}
	return n
}

func TestC15HistoryCounter(t *testing.T)  { testC15History(t, sim.Counter) }
func TestC15HistoryMap(t *testing.T)      { testC15History(t, sim.Map) }
func TestC15HistoryList(t *testing.T)     { testC15History(t, sim.List) }
func TestC15HistoryDocument(t *testing.T) { testC15History(t, sim.Document) }

// TestC15RestPatch: the operations the REST patch endpoint issues (through the server's own replica of
// the document, rebuilt from the latest snapshot and the later operations) obey the same identifier
// rules as a client's: ordered after everything that replica had applied, and never sharing a
// timestamp with another operation.
func TestC15RestPatch(t *testing.T) {
	col := stats.New("C15", t.Name(),
		"a document on the real server: a client creates it and pushes 1-6 operations (a snapshot is stored or - drawn - its insert is made to fail), then 1-4 REST patches interleaved with further client pushes; "+
			"oracle on the stored log after every patch: every operation a patch appended has a clock value greater than that of every operation stored before it (its replica had applied them all), no two operations of the log share (era, clock, client id), and the operations of each client id in the log are numbered 1,2,3,... without gap or repeat; "+
			"non-trivial = >=2 patches with a stored snapshot in between; distinct = the drawn scenario")
	if isOpen("S17b") {
		col.Assume("identifier reuse of the kind (client id, sequence number) by REST patches is known finding S17b (C19) and not asserted here; timestamps (clock, client id) are")
	}
	checkProp(t, "C15", col, func(c *caseCtx) {
		rt := c.rt
		idseed := rapid.Uint64Range(1, 1<<40).Draw(rt, "idseed")
		w, err := newL1World(idseed, []sim.Kind{sim.Document})
		if err != nil {
			c.failf("HARNESS-ERROR: %v", err)
		}
		defer w.close()
		patchesHappened = true
		k := w.keys[0]
		noSnapshot := rapid.IntRange(0, 3).Draw(rt, "no_snapshot") == 0
		if noSnapshot {
			w.env.Mongo.SetFaultHook(func(cmd *fakemongo.Cmd) fakemongo.Fault {
				if cmd.Verb == "insert" && strings.HasSuffix(cmd.NS, ".-_-Snapshots") {
					return fakemongo.FailBefore
				}
				return fakemongo.None
			})
		}
		cl, err := w.addClient()
		if err != nil {
			c.failf("HARNESS-ERROR: %v", err)
		}
		d := w.open(cl, k, "create")
		n0 := rapid.IntRange(1, 6).Draw(rt, "initial_ops")
		for i := 0; i < n0; i++ {
			sim.Exec(sim.Document, d.dt, c06CheapCall(sim.Document, i))
		}
		if ex := w.syncClient(cl); ex == nil || exchangeProblem(cl, ex) != nil {
			c.failf("HARNESS-ERROR: setup sync failed")
		}
		w.env.WaitBackground(3 * time.Second)
		check := func(when string, from int) int {
			log, _ := w.storedLog(k.duid)
			seen := map[string]int{}
			lastSeq := map[string]uint64{}
			var maxClock uint64
			for i, so := range log {
				id := so.op.ID
				key := fmt.Sprintf("%d:%d:%s", id.Era, id.Lamport, id.CUID)
				if j, dup := seen[key]; dup && so.op.OpType != model.TypeOfOperation_TRANSACTION && log[j].op.OpType != model.TypeOfOperation_TRANSACTION {
					c.failf("%s: the operations at log positions %d and %d share the timestamp %s", when, j+1, i+1, key)
				}
				seen[key] = i
				if !isOpen("S17b") {
					// "each client numbers its operations on a datatype 1,2,3,... without gaps": in the log the
					// operations of one client id carry consecutive sequence numbers from 1
					if want := lastSeq[id.CUID] + 1; id.Seq != want {
						c.failf("%s: the operation at log position %d is number %d of client id %s, but the previous operation of that client id in the log was number %d", when, i+1, id.Seq, id.CUID, want-1)
					}
					lastSeq[id.CUID] = id.Seq
				}
				if i >= from && !knownCUIDs[id.CUID] && id.Lamport <= maxClock {
					c.failf("%s: the REST patch operation at log position %d has clock %d, but the replica that issued it had already applied an operation with clock %d (log positions 1..%d)", when, i+1, id.Lamport, maxClock, i)
				}
				if id.Lamport > maxClock {
					maxClock = id.Lamport
				}
			}
			return len(log)
		}
		end := check("after the setup", 1<<30)
		np := rapid.IntRange(1, 4).Draw(rt, "patches")
		var canon strings.Builder
		canon.WriteString(fmt.Sprintf("nosnap=%v;init=%d;", noSnapshot, n0))
		for pi := 0; pi < np; pi++ {
			if rapid.Bool().Draw(rt, fmt.Sprintf("client_push%d", pi)) {
				sim.Exec(sim.Document, d.dt, c06CheapCall(sim.Document, 50+pi))
				if ex := w.syncClient(cl); ex == nil || exchangeProblem(cl, ex) != nil {
					c.failf("client sync between patches failed")
				}
				w.env.WaitBackground(3 * time.Second)
				end = check("after a client push", 1<<30)
				canon.WriteString("push;")
			}
			js := fmt.Sprintf(`{"patch":%d,"arr":[%d,%d],"o":{"x":%d}}`, pi, pi, pi+1, pi)
			if _, e, to := w.env.PatchDocument(&model.PatchMessage{Collection: w.col, Key: k.Name, Json: js}, l1Deadline); e != nil || to {
				c.failf("REST patch %d: err=%v timeout=%v", pi, e, to)
			}
			w.env.WaitBackground(3 * time.Second)
			end = check(fmt.Sprintf("after REST patch %d", pi+1), end)
			canon.WriteString("patch;")
		}
		if err := w.infraProblem(); err != nil {
			c.failf("%v", err)
		}
		col.Case(np >= 2 && !noSnapshot, canon.String(), []string{fmt.Sprintf("patches=%d", np), fmt.Sprintf("stored-snapshot=%v", !noSnapshot)}, func() interface{} {
			return map[string]interface{}{"scenario": canon.String(), "log_length": end}
		})
	})
}

// TestC15LostResponse: identifiers after a client had to enter a datatype twice. The answer to a
// subscribe-or-create (or create) that carried operations is lost; the retry is answered as a subscription that
// hands the client its own stored operations back; everything the client issues afterwards must still be ordered
// after them and must not reuse their identifiers.
func TestC15LostResponse(t *testing.T) {
	col := stats.New("C15", t.Name(),
		"a client opens a List / Document / Map key (create or subscribe-or-create), issues 1-4 element-creating operations and sends its first request; the answer is lost (not applied) in a drawn number of attempts (1-2), the next one is applied; it then issues 1-4 more operations and syncs; a second client subscribes, and one of its operations addresses what the first client created; "+
			"oracle on the stored log: no two operations share (era, clock, client id); per client the clock values increase with the sequence numbers; both clients and the server's rebuild equal the reference model of the log (an operation addressed to one element touches no other); non-trivial = the lost request had stored operations; distinct = the drawn scenario")
	checkProp(t, "C15", col, func(c *caseCtx) {
		rt := c.rt
		kind := rapid.SampledFrom([]sim.Kind{sim.List, sim.Document, sim.Map}).Draw(rt, "kind")
		idseed := rapid.Uint64Range(1, 1<<40).Draw(rt, "idseed")
		mode := rapid.SampledFrom([]string{"create", "subscribe-or-create"}).Draw(rt, "mode")
		w, err := newL1World(idseed, []sim.Kind{kind})
		if err != nil {
			c.failf("HARNESS-ERROR: %v", err)
		}
		defer w.close()
		k := w.keys[0]
		a, err := w.addClient()
		if err != nil {
			c.failf("HARNESS-ERROR: %v", err)
		}
		d := w.open(a, k, mode)
		n1 := rapid.IntRange(1, 4).Draw(rt, "ops_before")
		for i := 0; i < n1; i++ {
			sim.Exec(kind, d.dt, c06CheapCall(kind, i))
		}
		lost := rapid.IntRange(1, 2).Draw(rt, "lost_answers")
		c.j.Header = map[string]interface{}{"kind": kind, "id_seed": idseed, "mode": mode, "ops_before": n1, "lost_answers": lost}
		for i := 0; i < lost; i++ {
			ex := w.send(a, a.pc.BuildRequest(d.dt)) // stored by the server, the answer never reaches the client
			if ex.timedOut || ex.rpcErr != nil {
				c.failf("HARNESS-ERROR: the request whose answer is to be lost failed: %v", ex.rpcErr)
			}
			w.env.WaitBackground(3 * time.Second)
		}
		if ex := w.syncClient(a); ex == nil || exchangeProblem(a, ex) != nil {
			c.failf("the retry after the lost answer is refused: %v", exchangeProblem(a, ex))
		}
		n2 := rapid.IntRange(1, 4).Draw(rt, "ops_after")
		for i := 0; i < n2; i++ {
			sim.Exec(kind, d.dt, c06CheapCall(kind, 10+i))
		}
		if ex := w.syncClient(a); ex == nil || exchangeProblem(a, ex) != nil {
			c.failf("the sync after the re-entry is refused: %v", exchangeProblem(a, ex))
		}
		b, err := w.addClient()
		if err != nil {
			c.failf("HARNESS-ERROR: %v", err)
		}
		db := w.open(b, k, "subscribe")
		if ex := w.syncClient(b); ex == nil || exchangeProblem(b, ex) != nil {
			c.failf("the second client cannot subscribe: %v", exchangeProblem(b, ex))
		}
		// an operation of the second client that addresses an element of the first one by identity
		switch kind {
		case sim.List:
			sim.Exec(kind, db.dt, sim.Call{M: "Delete", Pos: rapid.IntRange(0, n1+n2-1).Draw(rt, "victim")})
		case sim.Document:
			sim.Exec(kind, db.dt, sim.Call{M: "DeleteInObject", Key: fmt.Sprintf("b%d", rapid.IntRange(0, 6).Draw(rt, "victim"))})
		default:
			sim.Exec(kind, db.dt, sim.Call{M: "Remove", Key: fmt.Sprintf("b%d", rapid.IntRange(0, 6).Draw(rt, "victim"))})
		}
		w.noConverge = false
		if err := w.applyL1(l1Action{K: "settle"}); err != nil {
			c.failf("settle: %v", err)
		}
		log, _ := w.storedLog(k.duid)
		seen := map[string]int{}
		lastClock := map[string]uint64{}
		for i, so := range log {
			id := so.op.ID
			if so.op.OpType != model.TypeOfOperation_TRANSACTION {
				key := fmt.Sprintf("%d:%d:%s", id.Era, id.Lamport, id.CUID)
				if j, dup := seen[key]; dup {
					c.failf("the operations at log positions %d and %d share the timestamp %s (the client re-entered the datatype after a lost answer)", j+1, i+1, key)
				}
				seen[key] = i
			}
			if id.Lamport < lastClock[id.CUID] {
				c.failf("the operation at log position %d (seq %d of %s) has clock %d, an earlier operation of the same client has %d", i+1, id.Seq, id.CUID, id.Lamport, lastClock[id.CUID])
			}
			lastClock[id.CUID] = id.Lamport
		}
		if err := w.infraProblem(); err != nil {
			c.failf("%v", err)
		}
		col.Case(true, fmt.Sprint(kind, mode, n1, n2, lost), []string{"kind=" + string(kind), "mode=" + mode, fmt.Sprintf("lost-answers=%d", lost)}, func() interface{} { return c.j.Header })
	})
}
