package props

import (
	"fmt"
	"strings"
	"sync"
	"testing"
	"time"

	"github.com/orda-io/orda/client/pkg/model"
	"github.com/orda-io/orda/client/pkg/orda"
	"google.golang.org/protobuf/proto"
	"verif/fakemongo"
	"verif/refmodel"
	"verif/sim"
	"verif/stats"
)

// c08RealPlan: one failure while a REAL orda client (manual sync mode, gRPC) synchronises.
type c08RealPlan struct {
	Kind  sim.Kind `json:"kind"`
	Phase string   `json:"phase"` // create: the failing sync is the one that creates the datatype | push: a later sync that pushes
	Fault string   `json:"fault"` // db | drop-request | drop-response | none
	K     int      `json:"k,omitempty"`
	Mode  string   `json:"mode,omitempty"` // fail-before | apply-then-error
}

type c08RealResult struct {
	err        error
	commands   int
	firstErr   bool // the faulty Sync() returned an error
	faultedOn  string
	faultedNS  string
	s15Pattern bool
	retries    int
}

func syncWithDeadline(cl orda.Client, d time.Duration) (err error, hung bool) {
	hung = watchdog(d, func() { err = cl.Sync() })
	return err, hung
}

// c08RealRun: client A creates the key and makes local calls; one of its Sync() calls meets the
// fault; then the store is healthy, A makes another call and retries; client B subscribes.
func c08RealRun(p c08RealPlan, idseed uint64) (res c08RealResult) {
	w, err := newL1World(idseed, []sim.Kind{p.Kind})
	if err != nil {
		res.err = fmt.Errorf("HARNESS-ERROR: %v", err)
		return res
	}
	defer w.close()
	k := w.keys[0]
	var smu sync.Mutex
	record := func(method string, req proto.Message) bool {
		if m, ok := req.(*model.PushPullMessage); ok {
			smu.Lock()
			knownCUIDs[m.Cuid] = true
			for _, pack := range m.PushPullPacks {
				for _, op := range pack.Operations {
					if op.ID != nil {
						w.sentAny[opKey(op)] = true
					}
				}
			}
			smu.Unlock()
		}
		return false
	}
	w.env.SetGRPCRequestHook(record)
	var closers []orda.Client
	defer func() {
		for _, c := range closers {
			c := c
			watchdog(3*time.Second, func() { _ = c.Close() })
		}
	}()
	newClient := func(alias string) (orda.Client, error) {
		cl, e := w.env.NewRealClient(w.col, alias, model.SyncType_MANUALLY)
		if e != nil {
			return nil, e
		}
		if e := cl.Connect(); e != nil {
			return nil, e
		}
		closers = append(closers, cl)
		return cl, nil
	}
	a, e := newClient("A")
	if e != nil {
		res.err = fmt.Errorf("HARNESS-ERROR: connect A: %v", e)
		return res
	}
	ra := &rtClient{cl: a}
	ra.dt = openRealtime(a, p.Kind, k.Name, true, ra.handlers())
	n := 0
	op := func() {
		n++
		sim.Exec(p.Kind, ra.dt, c06CheapCall(p.Kind, n))
	}
	op()
	if p.Phase == "push" {
		if err, hung := syncWithDeadline(a, l1Deadline); err != nil || hung {
			res.err = fmt.Errorf("HARNESS-ERROR: fault-free first Sync() of A: err=%v hung=%v", err, hung)
			return res
		}
		op()
	}
	// the faulty sync
	w.env.Mongo.ResetLog()
	switch p.Fault {
	case "db":
		mode := fakemongo.FailBefore
		if p.Mode == "apply-then-error" {
			mode = fakemongo.ApplyThenError
		}
		w.env.Mongo.SetFaultHook(func(c *fakemongo.Cmd) fakemongo.Fault {
			if c.Seq == p.K {
				return mode
			}
			return fakemongo.None
		})
	case "drop-request":
		w.env.SetGRPCRequestHook(func(method string, req proto.Message) bool { record(method, req); return method == "ProcessPushPull" })
	case "drop-response":
		w.env.SetGRPCHook(func(method string, req proto.Message) bool { return method == "ProcessPushPull" })
	}
	ferr, hung := syncWithDeadline(a, l1Deadline)
	if hung {
		res.err = fmt.Errorf("Sync() of the real client did not return within %v when the request met the fault", l1Deadline)
		return res
	}
	res.firstErr = ferr != nil
	w.env.WaitBackground(3 * time.Second)
	res.commands = w.env.Mongo.CommandCount()
	if p.Fault == "db" {
		log := w.env.Mongo.CommandLog()
		for i, r := range log {
			if r.Seq != p.K {
				continue
			}
			res.faultedOn, res.faultedNS = r.Verb, r.NS
			after := false
			for j := i - 1; j >= 0 && j >= i-12; j-- {
				if log[j].Verb == "update" && strings.HasSuffix(log[j].NS, ".-_-Datatypes") {
					break
				}
				if log[j].Verb == "insert" && strings.HasSuffix(log[j].NS, ".-_-Operations") {
					after = true
					break
				}
			}
			if r.Verb == "insert" && strings.HasSuffix(r.NS, ".-_-Operations") && p.Mode != "fail-before" {
				res.s15Pattern = true
			}
			if r.Verb == "update" && strings.HasSuffix(r.NS, ".-_-Datatypes") && after && p.Mode != "apply-then-error" {
				res.s15Pattern = true
			}
		}
	}
	// healthy again
	w.env.Mongo.SetFaultHook(nil)
	w.env.SetGRPCHook(nil)
	w.env.SetGRPCRequestHook(record)
	op()
	var lastErr error
	ok := false
	for try := 0; try < 4 && !ok; try++ {
		res.retries++
		lastErr, hung = syncWithDeadline(a, l1Deadline)
		if hung {
			res.err = fmt.Errorf("the retried Sync() (attempt %d) after a failed one (first error: %v) never returned: the client is stuck", try+1, ferr)
			return res
		}
		ok = lastErr == nil && !ra.dt.NeedPush()
	}
	if !ok {
		res.err = fmt.Errorf("retrying Sync() against the healthy server still fails after %d attempts: err=%v, unpushed=%v (first error: %v)", res.retries, lastErr, ra.dt.NeedPush(), ferr)
		return res
	}
	b, e := newClient("B")
	if e != nil {
		res.err = fmt.Errorf("connecting a second client after recovery failed: %v", e)
		return res
	}
	rb := &rtClient{cl: b}
	rb.dt = openRealtime(b, p.Kind, k.Name, false, rb.handlers())
	for try := 0; try < 3; try++ {
		if err, hung := syncWithDeadline(b, l1Deadline); hung {
			res.err = fmt.Errorf("Sync() of the subscribing client never returned")
			return res
		} else if err == nil && rb.dt.GetState() == model.StateOfDatatype_SUBSCRIBED {
			break
		}
	}
	waitHandlers()
	w.env.WaitBackground(3 * time.Second)
	va, vb := sim.Observe(p.Kind, ra.dt, nil), sim.Observe(p.Kind, rb.dt, nil)
	if va != vb {
		res.err = fmt.Errorf("after recovery the subscriber differs from the creator:\n  creator:    %s\n  subscriber: %s", va, vb)
		return res
	}
	if err := w.checkLogInvariants(); err != nil {
		res.err = fmt.Errorf("after recovery: %v", err)
		return res
	}
	// the stored log defines the same state
	for _, dd := range w.datatypeDocs() {
		if bstr(bget(dd, "key")) != k.Name {
			continue
		}
		log, _ := w.storedLog(bstr(bget(dd, "_id")))
		var ops []*model.Operation
		for _, so := range log {
			ops = append(ops, so.op)
		}
		st, rerr := refmodel.Compute(string(p.Kind), ops)
		if rerr != nil {
			res.err = fmt.Errorf("HARNESS-ERROR: refmodel: %v", rerr)
			return res
		}
		if got, want := sim.Canon(ra.dt.(orda.Datatype).ToJSON()), sim.Canon(st.JSON()); got != want {
			res.err = fmt.Errorf("after recovery the creator's state %s differs from the state defined by the stored log %s", got, want)
			return res
		}
		if len(log) != n+1 {
			res.err = fmt.Errorf("after recovery the stored log has %d operations, the client issued %d (+1 snapshot operation)", len(log), n)
			return res
		}
	}
	if u := w.env.Mongo.UnknownCommands(); len(u) > 0 {
		res.err = fmt.Errorf("HARNESS-ERROR: unknown commands %v", u)
	}
	return res
}

// TestC08RealClient: the same single-fault enumeration as TestC08Enum, but through the real
// client library (gRPC, manual sync): a failed Sync() must come back with an error, and the
// same client must be able to retry.
func TestC08RealClient(t *testing.T) {
	col := stats.New("C08", t.Name(),
		"EXHAUSTIVE single-fault enumeration through the REAL client (orda.NewClient, manual sync mode, gRPC to the in-process server): client A creates a Counter / List / Map, makes local calls and calls Sync(); "+
			"the Sync() that creates the datatype, or a later one that pushes, meets one fault: every database command k of that request x {fails before being applied, applied then reported as failed}, the request is lost before the server (RPC error), or the response is lost after the server committed (RPC error); "+
			"then the store is healthy, A makes another call and calls Sync() up to 4 times, client B subscribes; "+
			"oracle: every Sync() returns within the deadline (a hang of the retry is a violation), the retry succeeds and leaves nothing unpushed, B == A, stored-log invariants, the log holds exactly the issued operations, state == refmodel(log); "+
			"non-trivial = the faulty Sync() returned an error to the caller; distinct = (kind, phase, fault, k, mode)")
	defer col.Flush()
	shard, nshards := envInt("VERIF_SHARD", 0), envInt("VERIF_NSHARDS", 1)
	for ki, kind := range []sim.Kind{sim.Counter, sim.List, sim.Map} {
		for _, phase := range []string{"create", "push"} {
			base := c08RealRun(c08RealPlan{Kind: kind, Phase: phase, Fault: "none"}, uint64(900+ki))
			if base.err != nil {
				j := &Journal{Property: "C08", Test: t.Name(), Header: map[string]interface{}{"plan": c08RealPlan{Kind: kind, Phase: phase, Fault: "none"}}}
				col.Flush()
				if strings.Contains(base.err.Error(), "HARNESS-ERROR") {
					fmt.Printf("HARNESS-ERROR: %v\n", base.err)
					t.Fatalf("%v", base.err)
				}
				enumFail(t, "C08", j, "real client, %s/%s, no fault: %v", kind, phase, base.err)
			}
			plans := []c08RealPlan{{Kind: kind, Phase: phase, Fault: "drop-request"}, {Kind: kind, Phase: phase, Fault: "drop-response"}}
			for k := 1; k <= base.commands; k++ {
				for _, mode := range []string{"fail-before", "apply-then-error"} {
					plans = append(plans, c08RealPlan{Kind: kind, Phase: phase, Fault: "db", K: k, Mode: mode})
				}
			}
			for _, p := range plans {
				// sharded by the plan itself: the number of commands of a run may differ by one between
				// processes (background snapshot work), a running index would not be the same everywhere
				canon := fmt.Sprintf("%s|%s|%s|%d|%s", kind, phase, p.Fault, p.K, p.Mode)
				if int(hashString(canon)%uint64(nshards)) != shard {
					continue
				}
				r := c08RealRun(p, uint64(900+ki))
				if r.err != nil {
					if strings.Contains(r.err.Error(), "HARNESS-ERROR") {
						fmt.Printf("HARNESS-ERROR: %v\n", r.err)
						t.Fatalf("%v", r.err)
					}
					if isOpen("S15") && r.s15Pattern && (strings.Contains(r.err.Error(), "still fails") || strings.Contains(r.err.Error(), "recorded end of the log") || strings.Contains(r.err.Error(), "stored log has")) {
						reportKnown(col, "C08", "S15", c08KnownText["S15"])
						col.Case(true, canon, []string{"known=S15"}, nil)
						continue
					}
					j := &Journal{Property: "C08", Test: t.Name(), Header: map[string]interface{}{"plan": p, "faulted_command": r.faultedOn + " " + r.faultedNS}}
					col.Flush()
					enumFail(t, "C08", j, "real client, %s/%s, fault %s k=%d %s (%s %s): %v", kind, phase, p.Fault, p.K, p.Mode, r.faultedOn, r.faultedNS, r.err)
				}
				labels := []string{"real-client", "fault=" + p.Fault, "phase=" + phase, "kind=" + string(kind)}
				if r.firstErr {
					labels = append(labels, "sync-returned-error")
				}
				if r.retries > 1 {
					labels = append(labels, "needed-more-than-one-retry")
				}
				col.Case(r.firstErr, canon, labels, func() interface{} {
					return map[string]interface{}{"plan": p, "faulted_command": r.faultedOn + " " + r.faultedNS, "sync_returned_error": r.firstErr, "retries": r.retries}
				})
			}
		}
	}
	col.SetExhaustive(true)
}
