package props

import (
	"fmt"
	"sort"
	"strconv"
	"strings"

	"github.com/orda-io/orda/client/pkg/iface"
	"github.com/orda-io/orda/client/pkg/orda"
	"pgregory.net/rapid"
	"verif/sim"
	"verif/stats"
)

// mnode is a node of the plain JSON tree with stable identity, so that child Document handles
// obtained earlier can be followed after their container was deleted or replaced.
type mnode struct {
	kind   byte // 'E', 'O', 'A'
	val    interface{}
	obj    map[string]*mnode
	tomb   map[string]*mnode // removed members (the API hands the old node back on a later put)
	arr    []*mnode
	parent *mnode
	dead   bool // removed from / replaced in its container
	holes  bool // array: an element other than the last one was deleted (a tombstone sits between live elements)
}

// c03BatchOverHole counts successful multi-value updates of arrays that had an inner deletion.
var c03BatchOverHole int

func buildNode(v interface{}, parent *mnode) *mnode {
	switch x := v.(type) {
	case map[string]interface{}:
		n := &mnode{kind: 'O', obj: map[string]*mnode{}, tomb: map[string]*mnode{}, parent: parent}
		for k, e := range x {
			n.obj[k] = buildNode(e, n)
		}
		return n
	case []interface{}:
		n := &mnode{kind: 'A', parent: parent}
		for _, e := range x {
			n.arr = append(n.arr, buildNode(e, n))
		}
		return n
	}
	return &mnode{kind: 'E', val: v, parent: parent}
}

func (n *mnode) view() interface{} {
	switch n.kind {
	case 'O':
		m := map[string]interface{}{}
		for k, c := range n.obj {
			m[k] = c.view()
		}
		return m
	case 'A':
		l := []interface{}{}
		for _, c := range n.arr {
			l = append(l, c.view())
		}
		return l
	}
	return n.val
}

func (n *mnode) garbage() bool {
	for p := n; p != nil; p = p.parent {
		if p.dead {
			return true
		}
	}
	return false
}

func (n *mnode) typeOf() float64 {
	switch n.kind {
	case 'E':
		return 1
	case 'O':
		return 2
	}
	return 3
}

// cloneTree deep-copies a tree and returns the old->new node mapping.
func cloneTree(n *mnode, parent *mnode, mp map[*mnode]*mnode) *mnode {
	c := &mnode{kind: n.kind, val: n.val, parent: parent, dead: n.dead, holes: n.holes}
	mp[n] = c
	if n.kind == 'O' {
		c.obj, c.tomb = map[string]*mnode{}, map[string]*mnode{}
		for k, e := range n.obj {
			c.obj[k] = cloneTree(e, c, mp)
		}
		for k, e := range n.tomb {
			c.tomb[k] = cloneTree(e, c, mp)
		}
	}
	for _, e := range n.arr {
		c.arr = append(c.arr, cloneTree(e, c, mp))
	}
	return c
}

type docHandle struct {
	doc orda.Document
	n   *mnode
}

type docModel struct {
	root    *mnode
	handles []docHandle
	inTx    bool
	focus   bool // array-focused case: most path calls go to one planted array
}

func newDocModel() *docModel {
	return &docModel{root: buildNode(map[string]interface{}{}, nil)}
}

func (d *docModel) bind(dt iface.Datatype) {
	root := dt.(orda.Document)
	if len(d.handles) == 0 {
		d.handles = []docHandle{{doc: root, n: d.root}}
	} else {
		d.handles[0] = docHandle{doc: root, n: d.root}
	}
}

func (d *docModel) clone() *docModel {
	mp := map[*mnode]*mnode{}
	c := &docModel{root: cloneTree(d.root, nil, mp), focus: d.focus}
	for _, h := range d.handles {
		nn := mp[h.n]
		if nn == nil {
			// a handle to a detached subtree: clone that subtree separately
			top := h.n
			for top.parent != nil && mp[top.parent] == nil {
				top = top.parent
			}
			cloneTree(top, mp[top.parent], mp)
			nn = mp[h.n]
		}
		if nn == nil {
			// the node was unlinked from a parent that is itself detached (a replaced member of a replaced
			// member): clone the chain of unlinked ancestors one by one, each with its parent pointer only
			var ensure func(n *mnode)
			ensure = func(n *mnode) {
				if n == nil || mp[n] != nil {
					return
				}
				ensure(n.parent)
				cloneTree(n, mp[n.parent], mp)
			}
			ensure(h.n)
			nn = mp[h.n]
		}
		c.handles = append(c.handles, docHandle{doc: h.doc, n: nn})
	}
	return c
}

func (d *docModel) beginTx() { d.inTx = true }
func (d *docModel) endTx()   { d.inTx = false }

// afterRollback: see known finding S21 - child handles obtained before a failed transaction
// keep pointing at the node graph that the rollback replaced.
func (d *docModel) afterRollback(col *stats.Collector) {
	d.inTx = false
	if isOpen("S21") && len(d.handles) > 1 {
		col.Excluded("S21: child handles dropped after a rolled-back transaction")
		d.handles = d.handles[:1]
	}
}

// resolve follows a path from the root the way GetFromObject / GetFromArray do.
func (d *docModel) resolve(path []sim.Step) *mnode {
	cur := d.root
	for _, s := range path {
		switch {
		case s.K != nil && cur.kind == 'O':
			c := cur.obj[*s.K]
			if c == nil || c.garbage() {
				return nil
			}
			cur = c
		case s.I != nil && cur.kind == 'A':
			if *s.I < 0 || *s.I >= len(cur.arr) {
				return nil
			}
			cur = cur.arr[*s.I]
		default:
			return nil
		}
	}
	return cur
}

func (d *docModel) expectPath(c sim.Call) expectation {
	n := d.resolve(c.Path)
	if n == nil {
		return expectation{class: mustErr, why: "no such child"}
	}
	return d.expectOn(n, c)
}

func hasNestedNil(v sim.Val) bool {
	for _, kv := range v.M {
		if kv.V.IsNullLike() || hasNestedNil(kv.V) {
			return true
		}
	}
	for _, e := range v.L {
		if e.IsNullLike() || hasNestedNil(e) {
			return true
		}
	}
	return false
}

// dropNulls removes JSON nulls from a normalised value (observed behaviour for nested nil values).
func dropNulls(v interface{}) interface{} {
	switch x := v.(type) {
	case map[string]interface{}:
		m := map[string]interface{}{}
		for k, e := range x {
			if e != nil {
				m[k] = dropNulls(e)
			}
		}
		return m
	case []interface{}:
		l := []interface{}{}
		for _, e := range x {
			if e != nil {
				l = append(l, dropNulls(e))
			}
		}
		return l
	}
	return v
}

func (d *docModel) expectOn(n *mnode, c sim.Call) expectation {
	needObj := map[string]bool{"PutToObject": true, "DeleteInObject": true, "GetFromObject": true}
	needArr := map[string]bool{"InsertToArray": true, "UpdateManyInArray": true, "DeleteInArray": true, "DeleteManyInArray": true, "GetFromArray": true, "GetManyFromArray": true}
	if needObj[c.M] && n.kind != 'O' {
		return expectation{class: mustErr, why: "wrong container kind (not an object)"}
	}
	if needArr[c.M] && n.kind != 'A' {
		return expectation{class: mustErr, why: "wrong container kind (not an array)"}
	}
	if sim.Mutating(c.M) && c.M != "PatchByJSON" && n.garbage() {
		return expectation{class: mustErr, why: "container already deleted"}
	}
	nested := false
	for _, v := range c.Vals {
		if hasNestedNil(v) {
			nested = true
		}
	}
	mk := func(v sim.Val, parent *mnode) *mnode { return buildNode(dropNulls(v.JSON()), parent) }
	switch c.M {
	case "GetValue":
		return expectation{class: mustOK, ret: n.view(), checkRet: true}
	case "GetTypeOfJSON":
		return expectation{class: mustOK, ret: n.typeOf(), checkRet: true}
	case "IsGarbage":
		return expectation{class: mustOK, ret: n.garbage(), checkRet: true}
	case "GetRootDocument":
		return expectation{class: mustOK, ret: d.root.view(), checkRet: true}
	case "ToJSONBytes":
		return expectation{class: mustOK}
	case "GetParentDocument":
		if n.parent == nil {
			return expectation{class: mustOK, ret: nil, checkRet: true} // no parent: nil, never a panic
		}
		return expectation{class: mustOK, ret: n.parent.view(), checkRet: true}
	case "PutToObject":
		if len(c.Vals) == 0 || anyNil(c.Vals) {
			return expectation{class: mustErr, why: "null value"}
		}
		old := n.obj[c.Key]
		_, wasTomb := n.tomb[c.Key]
		ex := expectation{class: mustOK, ops: 1}
		if c.Key == "" || nested {
			ex.class, ex.why = either, "empty key or nested null"
		}
		if old != nil {
			ex.ret, ex.checkRet = old.view(), true
		} else if !wasTomb {
			ex.ret, ex.checkRet = nil, true
		}
		ex.apply = func() {
			if old != nil {
				old.dead = true
			}
			delete(n.tomb, c.Key)
			n.obj[c.Key] = mk(c.Vals[0], n)
		}
		return ex
	case "DeleteInObject":
		old := n.obj[c.Key]
		if old == nil {
			return expectation{class: either, why: "delete of an absent member", apply: func() {}, ops: 1}
		}
		return expectation{class: mustOK, ret: old.view(), checkRet: true, ops: 1, apply: func() {
			old.dead = true
			delete(n.obj, c.Key)
			n.tomb[c.Key] = old
		}}
	case "InsertToArray":
		if c.Pos < 0 || c.Pos > len(n.arr) {
			return expectation{class: mustErr, why: "insert position out of range"}
		}
		if anyNil(c.Vals) {
			return expectation{class: mustErr, why: "null value"}
		}
		ex := expectation{class: mustOK, ops: 1}
		if len(c.Vals) == 0 || nested {
			ex.class, ex.why = either, "insert of zero values or nested null"
		}
		ex.apply = func() {
			var ins []*mnode
			for _, v := range c.Vals {
				ins = append(ins, mk(v, n))
			}
			na := append([]*mnode{}, n.arr[:c.Pos]...)
			na = append(na, ins...)
			n.arr = append(na, n.arr[c.Pos:]...)
		}
		return ex
	case "UpdateManyInArray":
		if !rangeOK(c.Pos, len(c.Vals), len(n.arr)) {
			return expectation{class: mustErr, why: "range out of bounds"}
		}
		if anyNil(c.Vals) {
			return expectation{class: mustErr, why: "null value"}
		}
		var olds []interface{}
		for i := range c.Vals {
			olds = append(olds, n.arr[c.Pos+i].view())
		}
		ex := expectation{class: mustOK, ret: olds, checkRet: true, ops: 1}
		if nested {
			ex.class, ex.why = either, "nested null"
		}
		ex.apply = func() {
			if len(c.Vals) >= 2 && n.holes {
				c03BatchOverHole++
			}
			for i, v := range c.Vals {
				n.arr[c.Pos+i].dead = true
				n.arr[c.Pos+i] = mk(v, n)
			}
		}
		return ex
	case "DeleteInArray":
		if c.Pos < 0 || c.Pos >= len(n.arr) {
			return expectation{class: mustErr, why: "index out of range"}
		}
		old := n.arr[c.Pos]
		return expectation{class: mustOK, ret: old.view(), checkRet: true, ops: 1, apply: func() {
			old.dead = true
			if c.Pos < len(n.arr)-1 {
				n.holes = true
			}
			n.arr = append(append([]*mnode{}, n.arr[:c.Pos]...), n.arr[c.Pos+1:]...)
		}}
	case "DeleteManyInArray":
		if !rangeOK(c.Pos, c.N, len(n.arr)) {
			return expectation{class: mustErr, why: "range out of bounds"}
		}
		var olds []interface{}
		for i := 0; i < c.N; i++ {
			olds = append(olds, n.arr[c.Pos+i].view())
		}
		return expectation{class: mustOK, ret: olds, checkRet: true, ops: 1, apply: func() {
			for i := 0; i < c.N; i++ {
				n.arr[c.Pos+i].dead = true
			}
			if c.N > 0 && c.Pos+c.N < len(n.arr) {
				n.holes = true
			}
			n.arr = append(append([]*mnode{}, n.arr[:c.Pos]...), n.arr[c.Pos+c.N:]...)
		}}
	case "GetFromObject":
		ch := n.obj[c.Key]
		if ch == nil || ch.garbage() {
			return expectation{class: mustOK, ret: nil, checkRet: true}
		}
		return expectation{class: mustOK, ret: ch.view(), checkRet: true}
	case "GetFromArray":
		if c.Pos < 0 || c.Pos >= len(n.arr) {
			return expectation{class: mustErr, why: "index out of range"}
		}
		return expectation{class: mustOK, ret: n.arr[c.Pos].view(), checkRet: true}
	case "GetManyFromArray":
		if !rangeOK(c.Pos, c.N, len(n.arr)) {
			return expectation{class: mustErr, why: "range out of bounds"}
		}
		var vs []interface{}
		for i := 0; i < c.N; i++ {
			vs = append(vs, n.arr[c.Pos+i].view())
		}
		return expectation{class: mustOK, ret: vs, checkRet: true}
	case "GetByPath":
		return d.expectGetByPath(n, c.Key)
	}
	panic("docModel.expectOn: " + c.M)
}

// expectGetByPath: the path is resolved from the ROOT (whatever the handle), segments separated
// by '/', no escaping; the empty path returns the handle itself.
func (d *docModel) expectGetByPath(n *mnode, path string) expectation {
	trimmed := strings.Trim(path, "/")
	if trimmed == "" {
		return expectation{class: mustOK, ret: n.view(), checkRet: true}
	}
	segs := strings.Split(trimmed, "/")
	cur := d.root
	ambiguous := trimmed != strings.TrimPrefix(path, "/") && false
	for _, s := range segs {
		if s == "" {
			ambiguous = true
		}
		switch cur.kind {
		case 'O':
			c := cur.obj[s]
			if c == nil || c.garbage() {
				// keys containing '/' cannot be addressed; the plain lookup fails
				return expectation{class: mustErr, why: "no such path"}
			}
			cur = c
		case 'A':
			i, err := strconv.Atoi(s)
			if err != nil || i < 0 || i >= len(cur.arr) {
				return expectation{class: mustErr, why: "no such index in path"}
			}
			cur = cur.arr[i]
		default:
			return expectation{class: either, why: "path continues below a primitive"}
		}
	}
	if ambiguous {
		return expectation{class: either, why: "empty segment"}
	}
	return expectation{class: mustOK, ret: cur.view(), checkRet: true}
}

// ---------------------------------------------------------------------------------------------
// generation

func (d *docModel) containers() []containerRef { return containersOf(sim.Normalize(d.root.view())) }

func genDocVal(rt *rapid.T, label string) sim.Val {
	switch rapid.IntRange(0, 19).Draw(rt, label+".docclass") {
	case 0:
		return sim.Nil()
	case 1:
		return sim.Val{T: "nilptr"}
	case 2:
		// nested null
		return sim.Obj(sim.KV{K: "n", V: sim.Nil()}, sim.KV{K: "z", V: sim.I(1)})
	case 3:
		return sim.Arr(sim.I(1), sim.Nil(), sim.S("x"))
	case 4, 5, 6, 7:
		return genGoVal(rt, label, 3)
	default:
		return genJSONVal(rt, label, 3, keyPoolHostile[:len(keyPoolHostile)-1])
	}
}

func genDocBatch(rt *rapid.T, label string) []sim.Val {
	n := rapid.SampledFrom([]int{0, 1, 1, 1, 2, 3, 12}).Draw(rt, label+".n")
	vs := make([]sim.Val, 0, n)
	for i := 0; i < n; i++ {
		if n > 4 {
			vs = append(vs, sim.I(int64(i)))
		} else {
			vs = append(vs, genDocVal(rt, fmt.Sprintf("%s.%d", label, i)))
		}
	}
	return vs
}

// genCallOn draws a call for a node of known shape (kind, member keys, length).
func genCallOn(rt *rapid.T, kind byte, keys []string, size int, paths []string) sim.Call {
	key := rapid.SampledFrom(keyPoolHostile).Draw(rt, "k")
	if len(keys) > 0 && rapid.Bool().Draw(rt, "existingkey") {
		key = rapid.SampledFrom(keys).Draw(rt, "exk")
	}
	pos, n := genIntArg(rt, "pos", size), genIntArg(rt, "n", size)
	// mostly calls that fit the container kind, sometimes the wrong kind
	objCalls := []string{"PutToObject", "PutToObject", "PutToObject", "DeleteInObject", "GetFromObject"}
	arrCalls := []string{"InsertToArray", "InsertToArray", "UpdateManyInArray", "DeleteInArray", "DeleteManyInArray", "GetFromArray", "GetManyFromArray"}
	anyCalls := []string{"GetValue", "GetTypeOfJSON", "IsGarbage", "GetRootDocument", "GetParentDocument", "GetByPath", "ToJSONBytes"}
	var pool []string
	switch {
	case rapid.IntRange(0, 9).Draw(rt, "wrongkind") == 0:
		pool = append(append([]string{}, objCalls...), arrCalls...)
	case kind == 'O':
		pool = objCalls
	case kind == 'A':
		pool = arrCalls
	case kind == 'F':
		// array-focused: mutate one array again and again (batches across earlier deletions and updates)
		pool = []string{"InsertToArray", "UpdateManyInArray", "UpdateManyInArray", "UpdateManyInArray", "DeleteInArray", "DeleteInArray", "DeleteManyInArray", "GetManyFromArray", "GetFromArray"}
	default:
		pool = anyCalls
	}
	if kind != 'F' && rapid.IntRange(0, 4).Draw(rt, "anycall") == 0 {
		pool = anyCalls
	}
	m := rapid.SampledFrom(pool).Draw(rt, "method")
	c := sim.Call{M: m}
	switch m {
	case "PutToObject":
		c.Key, c.Vals = key, []sim.Val{genDocVal(rt, "v")}
	case "DeleteInObject", "GetFromObject":
		c.Key = key
	case "InsertToArray", "UpdateManyInArray":
		c.Pos, c.Vals = pos, genDocBatch(rt, "vs")
		if m == "UpdateManyInArray" && size >= 2 && rapid.Bool().Draw(rt, "fit") {
			// a batch that fits: ranges that cross earlier deletions / updates must be reachable
			c.Pos = rapid.IntRange(0, size-2).Draw(rt, "fitpos")
			cnt := rapid.IntRange(2, minInt(size-c.Pos, 4)).Draw(rt, "fitn")
			c.Vals = c.Vals[:0]
			for i := 0; i < cnt; i++ {
				c.Vals = append(c.Vals, genDocVal(rt, fmt.Sprintf("fit.%d", i)))
			}
		}
	case "DeleteInArray", "GetFromArray":
		c.Pos = pos
	case "DeleteManyInArray", "GetManyFromArray":
		c.Pos, c.N = pos, n
		if size >= 2 && rapid.Bool().Draw(rt, "fit") {
			c.Pos = rapid.IntRange(0, size-2).Draw(rt, "fitpos")
			c.N = rapid.IntRange(2, size-c.Pos).Draw(rt, "fitn")
		}
	case "GetByPath":
		c.Key = rapid.SampledFrom(append([]string{"", "/", "nope", "a/0/zz", "0"}, paths...)).Draw(rt, "path")
	}
	return c
}

func (d *docModel) allPaths() []string {
	var out []string
	for _, c := range d.containers() {
		var segs []string
		for _, s := range c.path {
			if s.K != nil {
				segs = append(segs, *s.K)
			} else {
				segs = append(segs, strconv.Itoa(*s.I))
			}
		}
		p := strings.Join(segs, "/")
		out = append(out, p, "/"+p, p+"/7", p+"/-1", p+"/x")
	}
	return out
}

func (d *docModel) genPathCall(rt *rapid.T) sim.Call {
	cs := d.containers()
	bigArr := false
	for _, c := range cs {
		if c.isArr && c.size >= 3 {
			bigArr = true
		}
	}
	if d.focus && bigArr && rapid.IntRange(0, 3).Draw(rt, "focus") > 0 {
		var arrs []containerRef
		for _, c := range cs {
			if c.isArr && c.size >= 3 {
				arrs = append(arrs, c)
			}
		}
		cr := arrs[rapid.IntRange(0, len(arrs)-1).Draw(rt, "focus.arr")]
		c := genCallOn(rt, 'F', cr.keys, cr.size, nil)
		c.Path = cr.path
		return c
	}
	if !bigArr && (d.focus || rapid.IntRange(0, 3).Draw(rt, "seedarray") == 0) {
		// arrays grow slowly under uniform call choice: plant one with 4-7 elements (some nested)
		n := rapid.IntRange(4, 7).Draw(rt, "seedarray.n")
		var vs []sim.Val
		for i := 0; i < n; i++ {
			if rapid.IntRange(0, 3).Draw(rt, fmt.Sprintf("seedarray.nested%d", i)) == 0 {
				vs = append(vs, []sim.Val{sim.Obj(sim.KV{K: "x", V: sim.I(int64(i))}), sim.Arr(sim.S("p"), sim.S("q")), sim.Obj()}[i%3])
			} else {
				vs = append(vs, sim.S(fmt.Sprintf("s%d", i)))
			}
		}
		return sim.Call{M: "PutToObject", Key: rapid.SampledFrom([]string{"L", "a", "arr"}).Draw(rt, "seedarray.key"), Vals: []sim.Val{sim.Arr(vs...)}}
	}
	cr := cs[rapid.IntRange(0, len(cs)-1).Draw(rt, "container")]
	kind := byte('O')
	if cr.isArr {
		kind = 'A'
	}
	c := genCallOn(rt, kind, cr.keys, cr.size, d.allPaths())
	c.Path = cr.path
	return c
}

// handle calls ---------------------------------------------------------------------------------

type hcall struct {
	K    string     `json:"k"` // "hcall"
	H    int        `json:"h"`
	Call sim.Call   `json:"call"`
	Keep bool       `json:"keep"`          // keep the returned document as a new handle
	H2   int        `json:"h2"`            // Equal: other handle
	Nav  []sim.Step `json:"nav,omitempty"` // obtain a handle to the container at this path (from the root) and keep it
}

func (h hcall) String() string {
	if h.Nav != nil {
		return "keep-handle-to " + pathString(h.Nav)
	}
	return fmt.Sprintf("h%d.%s keep=%v", h.H, h.Call, h.Keep)
}

func (d *docModel) genHandleCall(rt *rapid.T) hcall {
	if cs := d.containers(); len(cs) > 1 && len(d.handles) < 12 && rapid.IntRange(0, 3).Draw(rt, "deepnav") == 0 {
		// a handle to a (possibly deeply nested) container: later calls go through it after an
		// ancestor was deleted or replaced
		deep := cs[1:]
		sort.SliceStable(deep, func(i, j int) bool { return deep[i].depth > deep[j].depth })
		pick := rapid.IntRange(0, len(deep)-1).Draw(rt, "deepwhich")
		if rapid.Bool().Draw(rt, "deepest") {
			pick = pick % (1 + len(deep)/3)
		}
		return hcall{K: "hcall", Nav: deep[pick].path}
	}
	// prefer handles whose node sits below a deleted ancestor, if there are any
	var below []int
	for i, h := range d.handles {
		if h.n.garbage() && !h.n.dead {
			below = append(below, i)
		}
	}
	if len(below) > 0 && rapid.Bool().Draw(rt, "usebelow") {
		hi := below[rapid.IntRange(0, len(below)-1).Draw(rt, "belowwhich")]
		n := d.handles[hi].n
		var keys []string
		for k := range n.obj {
			keys = append(keys, k)
		}
		sort.Strings(keys)
		return hcall{K: "hcall", H: hi, Call: genCallOn(rt, n.kind, keys, len(n.arr), d.allPaths())}
	}
	hi := rapid.IntRange(0, len(d.handles)-1).Draw(rt, "handle")
	n := d.handles[hi].n
	var keys []string
	for k := range n.obj {
		keys = append(keys, k)
	}
	sort.Strings(keys)
	c := genCallOn(rt, n.kind, keys, len(n.arr), d.allPaths())
	hc := hcall{K: "hcall", H: hi, Call: c, Keep: rapid.Bool().Draw(rt, "keep")}
	if rapid.IntRange(0, 14).Draw(rt, "equal") == 0 {
		hc.Call = sim.Call{M: "Equal"}
		hc.H2 = rapid.IntRange(0, len(d.handles)-1).Draw(rt, "other")
	}
	return hc
}

// execHandleCall runs a call through a stored handle, checks it like any other call and keeps
// returned child documents as new handles.
func (d *docModel) execHandleCall(m *c03Machine, hc hcall) error {
	if hc.Nav != nil {
		n := d.resolve(hc.Nav)
		var doc orda.DocumentInTx
		var nerr error
		var pan interface{}
		func() {
			defer func() { pan = recover() }()
			doc, nerr = sim.Navigate(d.handles[0].doc, hc.Nav)
		}()
		if pan != nil {
			return fmt.Errorf("navigating to %s panicked: %v", pathString(hc.Nav), pan)
		}
		if (n == nil) != (nerr != nil) {
			return fmt.Errorf("navigating to %s: error=%v, the plain structure says exists=%v", pathString(hc.Nav), nerr, n != nil)
		}
		if n != nil {
			d.handles = append(d.handles, docHandle{doc: doc.(orda.Document), n: n})
			m.col.Label("handle-kept")
			m.col.Label("deep-handle-kept")
		}
		return nil
	}
	h := d.handles[hc.H]
	if h.n.garbage() && !h.n.dead && sim.Mutating(hc.Call.M) {
		m.col.Label("mutation-through-handle-below-deleted-ancestor")
	}
	c := hc.Call
	if c.M == "Equal" {
		o := d.handles[hc.H2]
		var got bool
		var pan interface{}
		func() {
			defer func() { pan = recover() }()
			got = h.doc.Equal(o.doc)
		}()
		if pan != nil {
			return fmt.Errorf("Equal panicked: %v", pan)
		}
		if want := h.n == o.n; got != want {
			return fmt.Errorf("h%d.Equal(h%d)=%v, want %v", hc.H, hc.H2, got, want)
		}
		return nil
	}
	// the expectation must be computed on the handle's node, not by path
	ex := d.expectOn(h.n, c)
	var target *mnode // node the returned document stands for
	switch c.M {
	case "GetFromObject":
		if h.n.kind == 'O' {
			if ch := h.n.obj[c.Key]; ch != nil && !ch.garbage() {
				target = ch
			}
		}
	case "GetFromArray":
		if h.n.kind == 'A' && c.Pos >= 0 && c.Pos < len(h.n.arr) {
			target = h.n.arr[c.Pos]
		}
	case "GetParentDocument":
		target = h.n.parent
	case "GetRootDocument":
		target = d.root
	case "DeleteInObject":
		if h.n.kind == 'O' {
			target = h.n.obj[c.Key]
		}
	case "DeleteInArray":
		if h.n.kind == 'A' && c.Pos >= 0 && c.Pos < len(h.n.arr) {
			target = h.n.arr[c.Pos]
		}
	case "PutToObject":
		if h.n.kind == 'O' {
			target = h.n.obj[c.Key]
		}
	}
	var ret orda.Document
	res, emitted := d.callKeeping(m, h.doc, c, &ret)
	// reuse the generic comparison with a one-off model whose expect() returns ex
	if err := m.checkCallWith(c, res, emitted, ex); err != nil {
		return fmt.Errorf("through handle %d (%s, garbage=%v): %v", hc.H, string(h.n.kind), h.n.garbage(), err)
	}
	if hc.Keep && res.Err == nil && res.Panic == nil && ret != nil && target != nil && len(d.handles) < 12 {
		d.handles = append(d.handles, docHandle{doc: ret, n: target})
		m.col.Label("handle-kept")
		if target.garbage() {
			m.col.Label("handle-to-deleted-node")
		}
	}
	return nil
}

// callKeeping executes the call on a document handle and keeps the returned Document.
func (d *docModel) callKeeping(m *c03Machine, doc orda.Document, c sim.Call, ret *orda.Document) (res sim.Result, emitted int) {
	rep := m.w.Reps[0]
	before := len(rep.Buffer())
	func() {
		defer func() {
			if p := recover(); p != nil {
				res = sim.Result{Panic: p}
			}
		}()
		switch c.M {
		case "GetFromObject":
			r, e := doc.GetFromObject(c.Key)
			*ret = r
			res = sim.ResultOfDoc(r, e)
		case "GetFromArray":
			r, e := doc.GetFromArray(c.Pos)
			*ret = r
			res = sim.ResultOfDoc(r, e)
		case "GetParentDocument":
			r := doc.GetParentDocument()
			*ret = r
			res = sim.ResultOfDoc(r, nil)
		case "GetRootDocument":
			r := doc.GetRootDocument()
			*ret = r
			res = sim.ResultOfDoc(r, nil)
		case "DeleteInObject":
			r, e := doc.DeleteInObject(c.Key)
			*ret = r
			res = sim.ResultOfDoc(r, e)
		case "DeleteInArray":
			r, e := doc.DeleteInArray(c.Pos)
			*ret = r
			res = sim.ResultOfDoc(r, e)
		case "PutToObject":
			var v interface{}
			if len(c.Vals) > 0 {
				v = c.Vals[0].Go()
			}
			r, e := doc.PutToObject(c.Key, v)
			*ret = r
			res = sim.ResultOfDoc(r, e)
		default:
			res = sim.Exec(sim.Document, doc, c)
		}
	}()
	if sim.IsNilDoc(*ret) {
		*ret = nil
	}
	m.w.Reps[0].NoteEmitted()
	return res, len(rep.Buffer()) - before
}

// checkCallWith is checkCall with a precomputed expectation.
func (m *c03Machine) checkCallWith(c sim.Call, res sim.Result, emitted int, ex expectation) error {
	return m.checkCallEx(c, res, emitted, false, ex)
}

func minInt(a, b int) int {
	if a < b {
		return a
	}
	return b
}
