package props

import (
	"encoding/json"
	"fmt"
	"runtime"
	"strings"
	"sync"
	"testing"
	"time"

	"github.com/anishathalye/porcupine"
	"github.com/orda-io/orda/client/pkg/model"
	"github.com/orda-io/orda/client/pkg/orda"
	"pgregory.net/rapid"
	"verif/sim"
	"verif/stats"
)

// "Calls from several goroutines on one datatype behave as if made one at a time" is linearizability of the
// history of calls WITH their returned values. The other C20 tests judge the end state and the queued operations;
// here every call's interval and result go to a linearizability checker (porcupine) with the plain structure as
// the sequential specification. A transaction is one operation of the history (all its calls, in order); a failed
// transaction is an operation without effect whose inner results are not judged.

// c20LinStep is one top-level step of a goroutine: a single call or a transaction.
type c20LinStep struct {
	Calls []sim.Call `json:"calls"`
	Tx    bool       `json:"tx,omitempty"`
	Fail  bool       `json:"fail,omitempty"`
	Yield int        `json:"yield,omitempty"`
}

type c20LinInput struct {
	kind  sim.Kind
	calls []sim.Call
	tx    bool
	fail  bool
	// remote: the calls were made on another replica; their operations are delivered here by a sync goroutine
	// (counters only: increments commute, so the delivery is one more operation of the history)
	remote bool
}

// c20LinMapState: the two keys the workloads use.
type c20LinMapState struct {
	A, B       string
	HasA, HasB bool
}

func c20LinOutput(r sim.Result) string {
	if r.Panic != nil {
		return "PANIC"
	}
	if r.Err != nil || r.NavErr != nil {
		return "ERR"
	}
	return sim.Canon(r.Ret)
}

func c20LinModel(kind sim.Kind) porcupine.Model {
	return porcupine.Model{
		Init: func() interface{} {
			switch kind {
			case sim.Counter:
				return int32(0)
			case sim.List:
				return "" // the elements, each followed by '|'
			}
			return c20LinMapState{}
		},
		Step: func(state, input, output interface{}) (bool, interface{}) {
			in := input.(c20LinInput)
			outs := output.([]string)
			if in.tx && in.fail {
				return true, state // rolled back: no effect; what its calls returned is its own business
			}
			cur := state
			for i, c := range in.calls {
				var want string
				judged := !in.remote
				switch kind {
				case sim.Counter:
					v := cur.(int32)
					switch c.M {
					case "Get":
						want = sim.Canon(float64(v))
					case "Increase":
						v++
						want = sim.Canon(float64(v))
					default:
						v += int32(c.Vals[0].I)
						want = sim.Canon(float64(v))
					}
					cur = v
				case sim.List:
					var l []string
					if cs := cur.(string); cs != "" {
						l = strings.Split(strings.TrimSuffix(cs, "|"), "|")
					}
					switch c.M {
					case "Size":
						want = sim.Canon(float64(len(l)))
					case "Get":
						if c.Pos < 0 || c.Pos >= len(l) {
							want = "ERR"
						} else {
							want = sim.Canon(l[c.Pos])
						}
					case "Insert":
						if c.Pos < 0 || c.Pos > len(l) {
							want = "ERR"
						} else {
							want = sim.Canon([]interface{}{c.Vals[0].S})
							l = append(append(append([]string{}, l[:c.Pos]...), c.Vals[0].S), l[c.Pos:]...)
						}
					case "Update":
						if c.Pos < 0 || c.Pos >= len(l) {
							want = "ERR"
						} else {
							want = sim.Canon([]interface{}{l[c.Pos]})
							l = append([]string{}, l...)
							l[c.Pos] = c.Vals[0].S
						}
					case "Delete":
						if c.Pos < 0 || c.Pos >= len(l) {
							want = "ERR"
						} else {
							want = sim.Canon(l[c.Pos])
							l = append(append([]string{}, l[:c.Pos]...), l[c.Pos+1:]...)
						}
					}
					ns := ""
					for _, e := range l {
						ns += e + "|"
					}
					cur = ns
				default:
					m := cur.(c20LinMapState)
					val, has := &m.A, &m.HasA
					if c.Key == "b" {
						val, has = &m.B, &m.HasB
					}
					old := "null"
					if *has {
						old = sim.Canon(*val)
					}
					switch c.M {
					case "Get", "GetFromObject":
						want = old
					case "Size":
						n := 0
						if m.HasA {
							n++
						}
						if m.HasB {
							n++
						}
						want = sim.Canon(float64(n))
					case "Put", "PutToObject":
						want = old
						if c.M == "PutToObject" && !*has {
							// a Document's PutToObject on a member that was deleted before hands back the deleted value
							// (tolerated by the sequential model of C03 as well): not judged
							judged = false
						}
						*val, *has = c.Vals[0].S, true
					case "Remove", "DeleteInObject":
						if !*has {
							judged = false // removing an absent key may be refused or accepted; it changes nothing
						}
						want = old
						*val, *has = "", false
					}
					cur = m
				}
				if judged && i < len(outs) && outs[i] != want {
					return false, state
				}
			}
			return true, cur
		},
		DescribeOperation: func(input, output interface{}) string {
			in := input.(c20LinInput)
			var cs []string
			for _, c := range in.calls {
				cs = append(cs, c.String())
			}
			s := strings.Join(cs, "; ")
			if in.tx {
				s = fmt.Sprintf("tx(fail=%v){%s}", in.fail, s)
			}
			return fmt.Sprintf("%s -> %v", s, output)
		},
	}
}

func c20LinGenCall(rt *rapid.T, kind sim.Kind, label string, tagN *int, g int) sim.Call {
	if kind == sim.Counter {
		switch rapid.IntRange(0, 4).Draw(rt, label+".m") {
		case 0:
			return sim.Call{M: "Get"}
		case 1:
			return sim.Call{M: "Increase"}
		}
		return sim.Call{M: "IncreaseBy", Vals: []sim.Val{sim.I(int64(rapid.IntRange(-3, 5).Draw(rt, label+".d")))}}
	}
	if kind == sim.List {
		pos := rapid.IntRange(0, 2).Draw(rt, label+".pos")
		switch rapid.IntRange(0, 6).Draw(rt, label+".m") {
		case 0:
			return sim.Call{M: "Size"}
		case 1:
			return sim.Call{M: "Get", Pos: pos}
		case 2:
			return sim.Call{M: "Delete", Pos: pos}
		case 3:
			*tagN++
			return sim.Call{M: "Update", Pos: pos, Vals: []sim.Val{sim.S(fmt.Sprintf("u%d.%d", g, *tagN))}}
		}
		*tagN++
		return sim.Call{M: "Insert", Pos: pos, Vals: []sim.Val{sim.S(fmt.Sprintf("g%d.%d", g, *tagN))}}
	}
	k := rapid.SampledFrom([]string{"a", "b"}).Draw(rt, label+".k")
	if kind == sim.Document {
		switch rapid.IntRange(0, 4).Draw(rt, label+".m") {
		case 0:
			return sim.Call{M: "GetFromObject", Key: k}
		case 1:
			return sim.Call{M: "DeleteInObject", Key: k}
		}
		*tagN++
		return sim.Call{M: "PutToObject", Key: k, Vals: []sim.Val{sim.S(fmt.Sprintf("g%d.%d", g, *tagN))}}
	}
	switch rapid.IntRange(0, 5).Draw(rt, label+".m") {
	case 0:
		return sim.Call{M: "Get", Key: k}
	case 1:
		return sim.Call{M: "Size"}
	case 2:
		return sim.Call{M: "Remove", Key: k}
	}
	*tagN++
	return sim.Call{M: "Put", Key: k, Vals: []sim.Val{sim.S(fmt.Sprintf("g%d.%d", g, *tagN))}}
}

func testC20Linearizable(t *testing.T, kind sim.Kind) {
	col := stats.New("C20", t.Name(),
		"2-6 real goroutines on ONE "+string(kind)+" instance, each running a drawn script of 5-40 steps: single calls (reads included) and transactions of 1-3 calls that commit or fail, with drawn Gosched yields (counters: plus a goroutine that delivers 0-10 increments made on another replica, each delivery one more operation of the history); every step is recorded with its call and return time (monotonic clock) and everything it returned; "+
			"oracle: the history is linearizable with respect to the plain structure (porcupine, 10 s budget: a transaction is one operation, a failed one has no effect) - i.e. also every RETURNED value is what some one-at-a-time order of the steps returns; no panic, all goroutines finish; "+
			"non-trivial = the intervals of steps of different goroutines overlapped (measured); distinct = hash of the scripts; a checker time-out makes the case inconclusive (skipped, counted)")
	col.Assume("schedule coverage is sampled: the Go scheduler decides the interleaving")
	if isOpen("S26") {
		t.Skip("reads concurrent with writes are known finding S26")
	}
	checkProp(t, "C20", col, func(c *caseCtx) {
		rt := c.rt
		idseed := rapid.Uint64Range(1, 1<<40).Draw(rt, "idseed")
		g := rapid.IntRange(2, 6).Draw(rt, "goroutines")
		scripts := make([][]c20LinStep, g)
		for gi := range scripts {
			tagN := 0
			for si := rapid.IntRange(5, 40).Draw(rt, fmt.Sprintf("len%d", gi)); si > 0; si-- {
				l := fmt.Sprintf("g%d.s%d", gi, si)
				st := c20LinStep{Yield: rapid.IntRange(0, 2).Draw(rt, l+".y")}
				n := 1
				if rapid.IntRange(0, 4).Draw(rt, l+".tx") == 0 {
					st.Tx, n = true, rapid.IntRange(1, 3).Draw(rt, l+".n")
					st.Fail = rapid.IntRange(0, 3).Draw(rt, l+".fail") == 0
				}
				for x := 0; x < n; x++ {
					st.Calls = append(st.Calls, c20LinGenCall(rt, kind, fmt.Sprintf("%s.c%d", l, x), &tagN, gi))
				}
				scripts[gi] = append(scripts[gi], st)
			}
		}
		c.j.Header = map[string]interface{}{"kind": kind, "id_seed": idseed, "scripts": scripts}
		sim.SeedIDs(idseed)
		w := sim.NewWorld(kind, 2, 2)
		dt := w.Reps[0].DT
		// counters: increments made on a second replica are delivered while the goroutines run
		var remoteCalls []sim.Call
		if kind == sim.Counter {
			for i := rapid.IntRange(0, 10).Draw(rt, "remote_increments"); i > 0; i-- {
				cc := sim.Call{M: "IncreaseBy", Vals: []sim.Val{sim.I(int64(rapid.IntRange(-3, 5).Draw(rt, "rd")))}}
				remoteCalls = append(remoteCalls, cc)
				w.Call(1, cc)
			}
		}
		remoteOps := cloneOps(w.Reps[1].Emitted[len(w.Reps[1].Emitted)-w.Unpushed(1):], 0)
		t0 := time.Now()
		var mu sync.Mutex
		var history []porcupine.Operation
		var panics []string
		var wg sync.WaitGroup
		if len(remoteCalls) > 0 {
			wg.Add(1)
			go func() {
				defer wg.Done()
				defer func() {
					if p := recover(); p != nil {
						mu.Lock()
						panics = append(panics, fmt.Sprint(p))
						mu.Unlock()
					}
				}()
				// (the creator's snapshot operation of the second replica is not among the unpushed operations that count:
				// the increments are the last len(remoteCalls) of them)
				incs := remoteOps[len(remoteOps)-len(remoteCalls):]
				for i, op := range incs {
					call := time.Since(t0).Nanoseconds()
					if _, err := dt.ReceiveRemoteModelOperations(cloneOps([]*model.Operation{op}, 0), true); err != nil {
						panic("remote delivery failed: " + err.Error())
					}
					ret := time.Since(t0).Nanoseconds()
					mu.Lock()
					history = append(history, porcupine.Operation{ClientId: g, Input: c20LinInput{kind: kind, calls: remoteCalls[i : i+1], remote: true}, Call: call, Output: []string{}, Return: ret})
					mu.Unlock()
					runtime.Gosched()
				}
			}()
		}
		for gi, script := range scripts {
			wg.Add(1)
			go func(gi int, script []c20LinStep) {
				defer wg.Done()
				defer func() {
					if p := recover(); p != nil {
						mu.Lock()
						panics = append(panics, fmt.Sprint(p))
						mu.Unlock()
					}
				}()
				for _, st := range script {
					for y := 0; y < st.Yield; y++ {
						runtime.Gosched()
					}
					var outs []string
					call := time.Since(t0).Nanoseconds()
					if !st.Tx {
						outs = append(outs, c20LinOutput(sim.Exec(kind, dt, st.Calls[0])))
					} else {
						body := func(view interface{}) error {
							for _, cc := range st.Calls {
								outs = append(outs, c20LinOutput(sim.Exec(kind, view, cc)))
								runtime.Gosched()
							}
							if st.Fail {
								return fmt.Errorf("generated failure")
							}
							return nil
						}
						switch kind {
						case sim.Counter:
							_ = dt.(orda.Counter).Transaction("t", func(v orda.CounterInTx) error { return body(v) })
						case sim.List:
							_ = dt.(orda.List).Transaction("t", func(v orda.ListInTx) error { return body(v) })
						case sim.Document:
							_ = dt.(orda.Document).Transaction("t", func(v orda.DocumentInTx) error { return body(v) })
						default:
							_ = dt.(orda.Map).Transaction("t", func(v orda.MapInTx) error { return body(v) })
						}
					}
					ret := time.Since(t0).Nanoseconds()
					mu.Lock()
					history = append(history, porcupine.Operation{ClientId: gi, Input: c20LinInput{kind: kind, calls: st.Calls, tx: st.Tx, fail: st.Fail}, Call: call, Output: outs, Return: ret})
					mu.Unlock()
				}
			}(gi, script)
		}
		if watchdog(20*time.Second, wg.Wait) {
			c.failf("deadlock: the goroutines did not finish within 20 s")
		}
		if len(panics) > 0 {
			c.failf("panic in a goroutine using the datatype: %s", panics[0])
		}
		for _, op := range history {
			for _, o := range op.Output.([]string) {
				if o == "PANIC" {
					c.failf("a call panicked: %s", c20LinModel(kind).DescribeOperation(op.Input, op.Output))
				}
			}
		}
		overlap := false
		for i := range history {
			for j := range history {
				if history[i].ClientId != history[j].ClientId && history[i].Call < history[j].Return && history[j].Call < history[i].Return {
					overlap = true
				}
			}
		}
		res, info := porcupine.CheckOperationsVerbose(c20LinModel(kind), history, 10*time.Second)
		_ = info
		switch res {
		case porcupine.Unknown:
			col.Label("linearizability-check-timed-out")
			rt.Skip("checker budget")
		case porcupine.Illegal:
			var lines []string
			model := c20LinModel(kind)
			for _, op := range history {
				lines = append(lines, fmt.Sprintf("  g%d [%d,%d] %s", op.ClientId, op.Call/1000, op.Return/1000, model.DescribeOperation(op.Input, op.Output)))
			}
			if len(lines) > 60 {
				lines = append(lines[:60], "  ...")
			}
			c.failf("the calls and what they returned fit NO one-at-a-time order of the steps (not linearizable; intervals in microseconds):\n%s", strings.Join(lines, "\n"))
		}
		b, _ := json.Marshal(scripts)
		col.Case(overlap, string(b), []string{"kind=" + string(kind), fmt.Sprintf("goroutines=%d", g), fmt.Sprintf("overlap=%v", overlap)}, func() interface{} {
			return map[string]interface{}{"kind": kind, "goroutines": g, "steps": len(history)}
		})
	})
}

func TestC20LinearizableCounter(t *testing.T) { testC20Linearizable(t, sim.Counter) }
func TestC20LinearizableMap(t *testing.T)     { testC20Linearizable(t, sim.Map) }
func TestC20LinearizableList(t *testing.T)    { testC20Linearizable(t, sim.List) }
func TestC20LinearizableDocument(t *testing.T) {
	testC20Linearizable(t, sim.Document)
}
