package props

import (
	"encoding/json"
	"fmt"
	"sort"
	"strings"
	"sync"
	"testing"
	"time"

	ordaerrors "github.com/orda-io/orda/client/pkg/errors"
	"github.com/orda-io/orda/client/pkg/iface"
	"github.com/orda-io/orda/client/pkg/model"
	"github.com/orda-io/orda/client/pkg/orda"
	"google.golang.org/protobuf/proto"
	"pgregory.net/rapid"
	"verif/sim"
	"verif/stats"
)

// C05 through the public client API: real orda clients (manual sync mode) over gRPC, several
// datatypes per client, Client.Sync() = one message with a pack per datatype.

type c05rDT struct {
	key    *l1Key
	mode   string
	dt     iface.Datatype
	synced bool
	lastCP *model.CheckPoint

	mu      sync.Mutex
	subs    int
	errs    []string
	applied []string // "cuid:seq" of every remote operation reported to the handler, in order
}

type c05rClient struct {
	idx int
	cl  orda.Client
	dts map[string]*c05rDT
}

// appliedIDs extracts "cuid:seq" of every operation in what the remote-operation handler was given
// (a nested list of the operations' JSON forms; transaction markers included).
func appliedIDs(opList []interface{}) []string {
	b, err := json.Marshal(opList)
	if err != nil {
		return []string{"!unmarshalable:" + err.Error()}
	}
	var v interface{}
	if err := json.Unmarshal(b, &v); err != nil {
		return []string{"!undecodable:" + err.Error()}
	}
	var out []string
	var walk func(x interface{})
	walk = func(x interface{}) {
		switch t := x.(type) {
		case []interface{}:
			for _, e := range t {
				walk(e)
			}
		case map[string]interface{}:
			if id, ok := t["ID"].(map[string]interface{}); ok {
				cuid, _ := id["CUID"].(string)
				seq, ok2 := id["Seq"].(float64)
				if !ok2 {
					seq, _ = id["seq"].(float64)
				}
				typ, _ := t["Type"].(string)
				if cuid != "" && typ != "" && typ != "TRANSACTION" {
					out = append(out, fmt.Sprintf("%s:%d", cuid, uint64(seq)))
				}
				return
			}
			for _, e := range t {
				walk(e)
			}
		}
	}
	walk(v)
	return out
}

func (d *c05rDT) handlers() *orda.Handlers {
	return orda.NewHandlers(
		func(dt orda.Datatype, old model.StateOfDatatype, nw model.StateOfDatatype) {
			d.mu.Lock()
			if nw == model.StateOfDatatype_SUBSCRIBED {
				d.subs++
			}
			d.mu.Unlock()
		},
		func(dt orda.Datatype, opList []interface{}) {
			ids := appliedIDs(opList)
			d.mu.Lock()
			d.applied = append(d.applied, ids...)
			d.mu.Unlock()
		},
		func(dt orda.Datatype, errs ...ordaerrors.OrdaError) {
			d.mu.Lock()
			for _, e := range errs {
				d.errs = append(d.errs, firstLineOf(e.Error()))
			}
			d.mu.Unlock()
		})
}

func openReal(cl orda.Client, kind sim.Kind, key, mode string, h *orda.Handlers) iface.Datatype {
	var v interface{}
	switch kind {
	case sim.Counter:
		switch mode {
		case "create":
			v = cl.CreateCounter(key, h)
		case "subscribe":
			v = cl.SubscribeCounter(key, h)
		default:
			v = cl.SubscribeOrCreateCounter(key, h)
		}
	case sim.Map:
		switch mode {
		case "create":
			v = cl.CreateMap(key, h)
		case "subscribe":
			v = cl.SubscribeMap(key, h)
		default:
			v = cl.SubscribeOrCreateMap(key, h)
		}
	case sim.List:
		switch mode {
		case "create":
			v = cl.CreateList(key, h)
		case "subscribe":
			v = cl.SubscribeList(key, h)
		default:
			v = cl.SubscribeOrCreateList(key, h)
		}
	default:
		switch mode {
		case "create":
			v = cl.CreateDocument(key, h)
		case "subscribe":
			v = cl.SubscribeDocument(key, h)
		default:
			v = cl.SubscribeOrCreateDocument(key, h)
		}
	}
	return v.(iface.Datatype)
}

func TestC05RealClient(t *testing.T) {
	col := stats.New("C05", t.Name(),
		"rapid state machine over REAL orda clients (orda.NewClient in manual sync mode, Connect, Create/Subscribe/SubscribeOrCreate of 1-3 keys of drawn kinds per client, local operations, Client.Sync() = one gRPC request carrying a pack per datatype of the client) against the real server on the fakes, on a drawn deployment; entry sequences are well-formed (create only on a key nobody has opened, subscribe only on a key the server has); "+
			"oracle: every Sync() returns without error and no error handler fires; after every Sync() the stored-log invariants hold and the client's checkpoints have not moved backwards; at every settle point (everybody synced until nothing is left) every client, the server's rebuild and a replay of the stored log agree in JSON view, size and every element read, and equal refmodel(stored log); "+
			"the operations reported to each datatype's remote-operation handler are exactly the stored operations of the other clients, each once, in the order of the server's log; every datatype reported SUBSCRIBED exactly once; "+
			"non-trivial = >=2 clients pushed operations on one key and some client holds >=2 datatypes; distinct = hash of the action sequence")
	col.Assume("MongoDB, MQTT (and Redis) are the in-process wire-protocol stand-ins; gRPC on loopback")
	col.Assume(deploymentNote)
	checkProp(t, "C05", col, func(c *caseCtx) {
		rt := c.rt
		nk := rapid.IntRange(1, 3).Draw(rt, "keys")
		var kinds []sim.Kind
		for i := 0; i < nk; i++ {
			kinds = append(kinds, kindFromDraw(rt))
		}
		idseed := rapid.Uint64Range(1, 1<<40).Draw(rt, "idseed")
		dep := drawDeployment(rt)
		w, err := newL1World(idseed, kinds)
		if err != nil {
			c.failf("HARNESS-ERROR: cannot start the environment: %v", err)
		}
		defer w.close()
		c.j.Header = map[string]interface{}{"kinds": kinds, "id_seed": idseed, "deployment": dep}
		var smu sync.Mutex
		w.env.SetGRPCRequestHook(func(method string, req proto.Message) bool {
			if m, ok := req.(*model.PushPullMessage); ok {
				smu.Lock()
				knownCUIDs[m.Cuid] = true
				for _, pack := range m.PushPullPacks {
					for _, op := range pack.Operations {
						if op.ID != nil {
							w.sentAny[opKey(op)] = true
						}
					}
				}
				smu.Unlock()
			}
			return false
		})
		var clients []*c05rClient
		defer func() {
			for _, rc := range clients {
				rc := rc
				watchdog(3*time.Second, func() { _ = rc.cl.Close() })
			}
		}()
		// who has opened a key with a creating mode and not synced yet
		pendingCreate := map[string]int{}
		pendingMode := map[string]string{}
		var canon strings.Builder
		note := func(format string, a ...interface{}) {
			s := fmt.Sprintf(format, a...)
			c.j.add(s)
			canon.WriteString(s + ";")
		}
		opN := 0
		syncClient := func(rc *c05rClient) {
			err, hung := syncWithDeadline(rc.cl, l1Deadline)
			if hung {
				c.failf("Sync() of client %d did not return within %v", rc.idx, l1Deadline)
			}
			if err != nil {
				c.failf("Sync() of client %d failed: %v", rc.idx, err)
			}
			w.reqs++
			waitHandlers()
			if w.waitBG {
				w.env.WaitBackground(5 * time.Second)
			}
			for name, d := range rc.dts {
				d.mu.Lock()
				errs := append([]string{}, d.errs...)
				d.mu.Unlock()
				if len(errs) > 0 {
					c.failf("client %d, key %s (%s): the error handler was called during a well-formed history: %v", rc.idx, name, d.mode, errs)
				}
				if st := d.dt.GetState(); st != model.StateOfDatatype_SUBSCRIBED {
					c.failf("client %d, key %s (%s): state %v after a successful Sync()", rc.idx, name, d.mode, st)
				}
				d.synced = true
				if !d.key.created {
					d.key.created, d.key.duid = true, d.dt.GetDUID()
				} else if d.key.duid != d.dt.GetDUID() {
					c.failf("client %d holds datatype id %s for key %s, the key was created as %s", rc.idx, d.dt.GetDUID(), name, d.key.duid)
				}
				if pendingCreate[name] == rc.idx+1 {
					delete(pendingCreate, name)
				}
				pack := d.dt.CreatePushPullPack()
				cur := &model.CheckPoint{Sseq: pack.CheckPoint.Sseq, Cseq: pack.CheckPoint.Cseq - uint64(len(pack.Operations))}
				if d.lastCP != nil && (cur.Sseq < d.lastCP.Sseq || cur.Cseq < d.lastCP.Cseq) {
					c.failf("client %d key %s: checkpoint moved backwards from (s:%d c:%d) to (s:%d c:%d)", rc.idx, name, d.lastCP.Sseq, d.lastCP.Cseq, cur.Sseq, cur.Cseq)
				}
				d.lastCP = cur
			}
			if err := w.checkLogInvariants(); err != nil {
				c.failf("after Sync() of client %d: %v", rc.idx, err)
			}
		}
		settle := func() {
			for round := 0; round < 3; round++ {
				for _, rc := range clients {
					if len(rc.dts) > 0 {
						syncClient(rc)
					}
				}
			}
			// the convergence check of the pack-level machine, fed with the real clients' datatypes
			w.clients = nil
			for _, rc := range clients {
				lc := &l1Client{idx: rc.idx, dts: map[string]*l1DT{}}
				for name, d := range rc.dts {
					lc.dts[name] = &l1DT{key: d.key, mode: d.mode, dt: d.dt, entered: d.synced}
				}
				w.clients = append(w.clients, lc)
			}
			if err := w.checkConverged(); err != nil {
				c.failf("after everybody synced: %v", err)
			}
			// applied exactly once, in log order
			for _, rc := range clients {
				for name, d := range rc.dts {
					if !d.synced {
						continue
					}
					log, _ := w.storedLog(d.key.duid)
					var want []string
					for _, so := range log {
						if so.op.ID.CUID != d.dt.GetCUID() && so.op.OpType != model.TypeOfOperation_TRANSACTION {
							want = append(want, opKey(so.op))
						}
					}
					d.mu.Lock()
					got := append([]string{}, d.applied...)
					subs := d.subs
					d.mu.Unlock()
					if strings.Join(got, " ") != strings.Join(want, " ") {
						c.failf("client %d, key %s: the remote operations reported to its handler are not the other clients' stored operations, each once, in log order:\n  reported: %v\n  log:      %v", rc.idx, name, got, want)
					}
					if subs != 1 {
						c.failf("client %d, key %s: the state-change handler reported SUBSCRIBED %d times", rc.idx, name, subs)
					}
				}
			}
		}
		n := rapid.IntRange(4, 40).Draw(rt, "steps")
		for i := 0; i < n; i++ {
			x := rapid.IntRange(0, 99).Draw(rt, "action")
			switch {
			case len(clients) == 0 || (x < 8 && len(clients) < 4):
				cl, e := w.env.NewRealClient(w.col, fmt.Sprintf("r%d", len(clients)), model.SyncType_MANUALLY)
				if e != nil {
					c.failf("HARNESS-ERROR: %v", e)
				}
				if e := cl.Connect(); e != nil {
					c.failf("HARNESS-ERROR: connect: %v", e)
				}
				clients = append(clients, &c05rClient{idx: len(clients), cl: cl, dts: map[string]*c05rDT{}})
				note("new-client")
			case x < 30:
				rc := clients[rapid.IntRange(0, len(clients)-1).Draw(rt, "oc")]
				k := w.keys[rapid.IntRange(0, len(w.keys)-1).Draw(rt, "ok")]
				if rc.dts[k.Name] != nil {
					continue
				}
				var modes []string
				switch {
				case k.created:
					modes = []string{"subscribe", "subscribe-or-create"}
				case pendingCreate[k.Name] != 0 && pendingMode[k.Name] == "create":
					continue // whoever syncs first would create the key and the pending create would be refused: ill-formed
				case pendingCreate[k.Name] == 0:
					modes = []string{"create", "subscribe-or-create"}
				default:
					modes = []string{"subscribe-or-create"}
				}
				mode := rapid.SampledFrom(modes).Draw(rt, "mode")
				d := &c05rDT{key: k, mode: mode}
				d.dt = openReal(rc.cl, k.Kind, k.Name, mode, d.handlers())
				rc.dts[k.Name] = d
				if !k.created && pendingCreate[k.Name] == 0 {
					pendingCreate[k.Name] = rc.idx + 1
					pendingMode[k.Name] = mode
				}
				note("open(r%d,%s,%s)", rc.idx, k.Name, mode)
			case x < 70:
				rc := clients[rapid.IntRange(0, len(clients)-1).Draw(rt, "lc")]
				var names []string
				for name, d := range rc.dts {
					// a datatype that has not synced yet keeps its operations only if it turns out to be the creator
					if d.synced || (pendingCreate[name] == rc.idx+1 && d.mode == "create") {
						names = append(names, name)
					}
				}
				if len(names) == 0 {
					continue
				}
				sort.Strings(names)
				d := rc.dts[names[rapid.IntRange(0, len(names)-1).Draw(rt, "lk")]]
				call := genLocalCall(rt, d.key.Kind, d.dt, rapid.Bool().Draw(rt, "conflict"))
				opN++
				res := sim.Exec(d.key.Kind, d.dt, call)
				if res.Panic != nil {
					c.failf("client %d: %s panicked: %v", rc.idx, call, res.Panic)
				}
				note("local(r%d,%s,%s)", rc.idx, d.key.Name, call)
			case x < 95:
				rc := clients[rapid.IntRange(0, len(clients)-1).Draw(rt, "sc")]
				if len(rc.dts) == 0 {
					continue
				}
				note("sync(r%d)", rc.idx)
				syncClient(rc)
			default:
				note("settle")
				settle()
			}
		}
		note("settle")
		settle()
		if err := w.infraProblem(); err != nil {
			c.failf("%v", err)
		}
		multiDT, multiPush := false, false
		for _, rc := range clients {
			if len(rc.dts) >= 2 {
				multiDT = true
			}
		}
		for _, k := range w.keys {
			if !k.created {
				continue
			}
			log, _ := w.storedLog(k.duid)
			cu := map[string]bool{}
			for _, so := range log {
				cu[so.op.ID.CUID] = true
			}
			if len(cu) >= 2 {
				multiPush = true
			}
		}
		labels := []string{dep, fmt.Sprintf("clients=%d", len(clients))}
		if multiDT {
			labels = append(labels, "client-with->=2-datatypes")
		}
		if multiPush {
			labels = append(labels, ">=2-pushers-on-one-key")
		}
		col.Case(multiDT && multiPush, canon.String(), labels, func() interface{} {
			return map[string]interface{}{"kinds": kinds, "actions": canon.String(), "syncs": w.reqs}
		})
	})
}
