package props

import (
	"encoding/json"
	"fmt"
	"sort"
	"strings"
	"testing"

	"github.com/orda-io/orda/client/pkg/model"
	"google.golang.org/protobuf/proto"
	"pgregory.net/rapid"
	"verif/sim"
	"verif/stats"
)

// c07Step is one step of a scenario: a client opens the key, performs a local operation, or
// exchanges a sync message (where a message fault can be placed).
type c07Step struct {
	K    string   `json:"k"` // client | open | op | x
	C    int      `json:"c"`
	Mode string   `json:"mode,omitempty"`
	Call sim.Call `json:"call,omitempty"`
	Tx   *sim.Tx  `json:"tx,omitempty"` // K = "tx": a committed transaction of the user (C08 scenarios)
}

type c07Scenario struct {
	Name  string    `json:"name"`
	Kind  sim.Kind  `json:"kind"`
	Steps []c07Step `json:"steps"`
}

// c07Fault: what happens to the exchange at position X (index among the "x" steps).
type c07Fault struct {
	X    int    `json:"x"`
	Kind string `json:"kind"` // drop | dup-first | dup-second | delay | retry
	N    int    `json:"n,omitempty"`
}

func (f c07Fault) String() string { return fmt.Sprintf("%s@x%d/%d", f.Kind, f.X, f.N) }

var c07FaultKinds = []c07Fault{{Kind: "drop"}, {Kind: "dup-first"}, {Kind: "dup-second"}, {Kind: "delay", N: 1}, {Kind: "delay", N: 2}, {Kind: "retry", N: 1}, {Kind: "retry", N: 3}}

func c07Op(kind sim.Kind, i int) sim.Call {
	if kind == sim.Counter {
		return sim.Call{M: "IncreaseBy", Vals: []sim.Val{sim.I(int64(1 << uint(i%20)))}}
	}
	return sim.Call{M: "Insert", Pos: 0, Vals: []sim.Val{sim.S(fmt.Sprintf("e%d", i))}}
}

// c07Scenarios is the fixed list of small multi-client histories that are enumerated.
func c07Scenarios() []c07Scenario {
	var out []c07Scenario
	for _, kind := range []sim.Kind{sim.Counter, sim.List} {
		for _, bmode := range []string{"subscribe", "subscribe-or-create"} {
			n := 0
			op := func(c int) c07Step { n++; return c07Step{K: "op", C: c, Call: c07Op(kind, n)} }
			x := func(c int) c07Step { return c07Step{K: "x", C: c} }
			out = append(out, c07Scenario{Name: fmt.Sprintf("%s/2clients/%s", kind, bmode), Kind: kind, Steps: []c07Step{
				{K: "client", C: 0}, {K: "client", C: 1},
				{K: "open", C: 0, Mode: "create"}, op(0), x(0),
				{K: "open", C: 1, Mode: bmode}, x(1),
				op(1), op(0), x(0), x(1), op(0), op(1), x(1), x(0), x(1),
			}})
		}
		{
			// exchanges that carry different numbers of operations: a push of three right after another client's
			// push of one (whose second write may have failed), and the other way round
			n := 0
			op := func(c int) c07Step { n++; return c07Step{K: "op", C: c, Call: c07Op(kind, n)} }
			x := func(c int) c07Step { return c07Step{K: "x", C: c} }
			out = append(out, c07Scenario{Name: fmt.Sprintf("%s/2clients/bursts", kind), Kind: kind, Steps: []c07Step{
				{K: "client", C: 0}, {K: "client", C: 1},
				{K: "open", C: 0, Mode: "create"}, op(0), x(0),
				{K: "open", C: 1, Mode: "subscribe"}, x(1),
				op(0), x(0), op(1), op(1), op(1), x(1), op(0), op(0), op(0), x(0), op(1), x(1), x(0), x(1),
			}})
		}
		n := 0
		op := func(c int) c07Step { n++; return c07Step{K: "op", C: c, Call: c07Op(kind, n)} }
		x := func(c int) c07Step { return c07Step{K: "x", C: c} }
		out = append(out, c07Scenario{Name: fmt.Sprintf("%s/3clients", kind), Kind: kind, Steps: []c07Step{
			{K: "client", C: 0}, {K: "client", C: 1}, {K: "client", C: 2},
			{K: "open", C: 0, Mode: "subscribe-or-create"}, op(0), x(0),
			{K: "open", C: 1, Mode: "subscribe"}, x(1),
			{K: "open", C: 2, Mode: "subscribe-or-create"}, x(2),
			op(1), x(1), op(2), op(0), x(2), x(0), op(1), x(1), x(2), x(0),
		}})
	}
	return out
}

type c07Held struct {
	c     int
	ex    *exchange
	after int // apply after this many further exchanges of the same client
	kind  string
	req   *model.PushPullMessage
}

// c07Outcome describes a finished execution.
type c07Outcome struct {
	err        error
	lostPushed bool // a response was lost/delayed on an exchange that carried operations
	lostEntry  bool // a response was lost/delayed on an exchange that carried a create/subscribe bit
	foreignGap bool // another client's operations were stored between a lost response and the client's next applied exchange
	pushedAt   []int
}

// c07Run executes a scenario with the given faults, then settles fault-free and checks.
func c07Run(sc c07Scenario, faults []c07Fault, idseed uint64) c07Outcome {
	var out c07Outcome
	w, err := newL1World(idseed, []sim.Kind{sc.Kind})
	if err != nil {
		out.err = fmt.Errorf("HARNESS-ERROR: %v", err)
		return out
	}
	defer w.close()
	w.waitBG = true
	k := w.keys[0]
	byX := map[int]c07Fault{}
	for _, f := range faults {
		byX[f.X] = f
	}
	var held []*c07Held
	pendingLoss := map[int]int{} // client -> log length when its response was lost
	xi := 0
	logLen := func() int {
		n := 0
		for _, dd := range w.datatypeDocs() {
			n += int(bint(bget(dd, "sseq", "end")))
		}
		return n
	}
	flush := func(c int, force bool) {
		var rest []*c07Held
		for _, h := range held {
			if h.c == c || force {
				h.after--
				if h.after < 0 || force {
					if h.kind == "retry" {
						ex := w.send(w.clients[h.c], proto.Clone(h.req).(*model.PushPullMessage))
						w.apply(w.clients[h.c], ex)
					} else {
						w.apply(w.clients[h.c], h.ex)
					}
					continue
				}
			}
			rest = append(rest, h)
		}
		held = rest
	}
	for _, st := range sc.Steps {
		switch st.K {
		case "client":
			if _, err := w.addClient(); err != nil {
				out.err = fmt.Errorf("HARNESS-ERROR: %v", err)
				return out
			}
		case "open":
			w.open(w.clients[st.C], k, st.Mode)
		case "op":
			c := w.clients[st.C]
			d := c.dts[k.Name]
			if d.entered || d.mode == "create" || d.mode == "subscribe-or-create" && !k.created {
				sim.Exec(sc.Kind, d.dt, st.Call)
			}
		case "x":
			c := w.clients[st.C]
			d := c.dts[k.Name]
			req := c.pc.BuildRequest(d.dt)
			carried := len(req.PushPullPacks[0].Operations) > 0
			entry := req.PushPullPacks[0].Option&3 != 0
			f, faulty := byX[xi]
			xi++
			if before, ok := pendingLoss[st.C]; ok {
				if logLen() > before {
					out.foreignGap = true
				}
				delete(pendingLoss, st.C)
			}
			before := logLen()
			ex := w.send(c, req)
			switch {
			case !faulty:
				w.apply(c, ex)
			case f.Kind == "drop":
				if carried {
					out.lostPushed = true
				}
				if entry {
					out.lostEntry = true
				}
				pendingLoss[st.C] = logLen()
			case f.Kind == "dup-first":
				w.send(c, proto.Clone(req).(*model.PushPullMessage))
				w.apply(c, ex)
			case f.Kind == "dup-second":
				ex2 := w.send(c, proto.Clone(req).(*model.PushPullMessage))
				w.apply(c, ex2)
			case f.Kind == "delay":
				if carried {
					out.lostPushed = true
				}
				if entry {
					out.lostEntry = true
				}
				pendingLoss[st.C] = logLen()
				held = append(held, &c07Held{c: st.C, ex: ex, after: f.N, kind: "delay"})
				_ = before
				continue
			case f.Kind == "retry":
				w.apply(c, ex)
				held = append(held, &c07Held{c: st.C, after: f.N, kind: "retry", req: proto.Clone(req).(*model.PushPullMessage)})
				continue
			}
			flush(st.C, false)
		}
	}
	flush(0, true)
	// fault-free recovery
	w.noConverge = false
	if err := w.settle(); err != nil {
		out.err = err
		return out
	}
	if err := w.checkLogInvariants(); err != nil {
		out.err = err
		return out
	}
	// every emitted operation exactly once in the log, none invented
	log, _ := w.storedLog(k.duid)
	stored := map[string]int{}
	for _, so := range log {
		stored[opKey(so.op)]++
		if so.op.OpType%10 == 0 && so.sseq != 1 {
			out.err = fmt.Errorf("a snapshot operation of client %s sits in the middle of the log at position %d: every replica that applies it is reset", so.op.ID.CUID, so.sseq)
			return out
		}
	}
	for _, c := range w.clients {
		d := c.dts[k.Name]
		if d == nil || !d.entered {
			continue
		}
		for _, op := range d.dt.CreatePushPullPack().Operations {
			out.err = fmt.Errorf("client %d still has operation %s unpushed after settling", c.idx, opKey(op))
			return out
		}
	}
	out.err = w.checkConverged()
	return out
}

// c07Classify maps a failing execution to a listed known finding, or "".
func c07Classify(out c07Outcome, faults []c07Fault) string {
	if out.err == nil {
		return ""
	}
	msg := out.err.Error()
	if isOpen("S12") && out.lostEntry && (strings.Contains(msg, "snapshot operation of client") || strings.Contains(msg, "differs from the state defined by the stored log")) {
		return "S12"
	}
	if isOpen("S10") && out.lostPushed && out.foreignGap && strings.Contains(msg, "differs from the state defined by the stored log") {
		return "S10"
	}
	return ""
}

func c07Placements(nx int, maxFaults int) [][]c07Fault {
	var out [][]c07Fault
	out = append(out, nil)
	for x := 0; x < nx; x++ {
		for _, fk := range c07FaultKinds {
			f := fk
			f.X = x
			out = append(out, []c07Fault{f})
		}
	}
	if maxFaults >= 2 {
		for x1 := 0; x1 < nx; x1++ {
			for x2 := x1 + 1; x2 < nx; x2++ {
				for _, f1 := range c07FaultKinds {
					for _, f2 := range c07FaultKinds {
						a, b := f1, f2
						a.X, b.X = x1, x2
						out = append(out, []c07Fault{a, b})
					}
				}
			}
		}
	}
	return out
}

func countX(sc c07Scenario) int {
	n := 0
	for _, s := range sc.Steps {
		if s.K == "x" {
			n++
		}
	}
	return n
}

// TestC07Enum enumerates every placement of <= 1 (quick: plus a stride of the 2-fault ones;
// thorough: all <= 2) message faults over every exchange of the fixed scenarios.
func TestC07Enum(t *testing.T) {
	col := stats.New("C07", t.Name(),
		"EXHAUSTIVE enumeration: for each fixed scenario (2-3 clients, Counter and List, creator + subscribe / subscribe-or-create joiners, 8-10 exchanges) every placement of <=1 fault (quick: plus every 7th placement of 2 faults; thorough: all placements of <=2 faults) from "+
			"{drop response, duplicate request (first or second response applied), delay response past 1-2 later exchanges, resend the identical request after 1-3 later exchanges} on every exchange; after the faulty run a fault-free settle; "+
			"oracle: stored-log invariants, no snapshot operation inside the log, nothing left unpushed, every client = server rebuild = refmodel(stored log); "+
			"non-trivial = a fault hit an exchange that carried operations or an entry (create/subscribe) bit; distinct = (scenario, fault placement)")
	defer col.Flush()
	maxFaults := 2
	stride := 7
	if thorough() {
		stride = 1
	}
	shard, nshards := envInt("VERIF_SHARD", 0), envInt("VERIF_NSHARDS", 1)
	complete := true
	idx := 0
	for _, sc := range c07Scenarios() {
		nx := countX(sc)
		for pi, faults := range c07Placements(nx, maxFaults) {
			if len(faults) == 2 && pi%stride != 0 {
				complete = false
				continue
			}
			idx++
			if idx%nshards != shard {
				continue
			}
			out := c07Run(sc, faults, uint64(1000+pi))
			labels := []string{"scenario=" + sc.Name, fmt.Sprintf("faults=%d", len(faults))}
			for _, f := range faults {
				labels = append(labels, "fault="+f.Kind)
			}
			canon := sc.Name + fmt.Sprint(faults)
			if out.err != nil && strings.Contains(out.err.Error(), "HARNESS-ERROR") {
				fmt.Printf("HARNESS-ERROR: %v\n", out.err)
				t.Fatalf("%v", out.err)
			}
			if id := c07Classify(out, faults); id != "" {
				reportKnown(col, "C07", id, c07KnownText[id])
				labels = append(labels, "known="+id)
				col.Case(true, canon, labels, nil)
				continue
			}
			if out.err != nil {
				j := &Journal{Property: "C07", Test: t.Name(), Header: map[string]interface{}{"scenario": sc, "faults": faults}}
				col.Flush()
				enumFail(t, "C07", j, "scenario %s with faults %v: %v", sc.Name, faults, out.err)
			}
			col.Case(out.lostPushed || out.lostEntry || len(faults) > 0, canon, labels, func() interface{} {
				return map[string]interface{}{"scenario": sc.Name, "faults": fmt.Sprint(faults)}
			})
		}
	}
	col.Extra("two_fault_stride", stride)
	col.SetExhaustive(complete)
}

var c07KnownText = map[string]string{
	"S10": "a push-pull response is lost or applied late and another client pushes before the retry: the retry pulls the client's own operations too and the client's arithmetic skips the foreign operation(s) and re-applies its own",
	"S12": "the response to a create / subscribe-or-create is lost and the request is retried: the server treats the retry as an ordinary push and stores the client's SNAPSHOT operation in the middle of the log",
}

// TestC07Random: random fault placements on longer generated histories.
func TestC07Random(t *testing.T) {
	col := stats.New("C07", t.Name(),
		"rapid: generated histories (2-4 clients, all four kinds, up to 30 steps) with up to 6 faults drawn from the same alphabet at drawn exchanges, then a fault-free settle; same oracle as TestC07Enum; "+
			"non-trivial = a fault hit an exchange that carried operations and another client pushed between the fault and the recovery; distinct = hash of (scenario, faults)")
	checkProp(t, "C07", col, func(c *caseCtx) {
		rt := c.rt
		kind := kindFromDraw(rt)
		nc := rapid.IntRange(2, 4).Draw(rt, "clients")
		sc := c07Scenario{Name: "random", Kind: kind}
		for i := 0; i < nc; i++ {
			sc.Steps = append(sc.Steps, c07Step{K: "client", C: i})
		}
		sc.Steps = append(sc.Steps, c07Step{K: "open", C: 0, Mode: rapid.SampledFrom([]string{"create", "subscribe-or-create"}).Draw(rt, "m0")}, c07Step{K: "x", C: 0})
		for i := 1; i < nc; i++ {
			sc.Steps = append(sc.Steps, c07Step{K: "open", C: i, Mode: rapid.SampledFrom([]string{"subscribe", "subscribe-or-create"}).Draw(rt, fmt.Sprintf("m%d", i))}, c07Step{K: "x", C: i})
		}
		n := rapid.IntRange(4, 30).Draw(rt, "steps")
		for i := 0; i < n; i++ {
			ci := rapid.IntRange(0, nc-1).Draw(rt, fmt.Sprintf("c%d", i))
			if rapid.Bool().Draw(rt, fmt.Sprintf("isx%d", i)) {
				sc.Steps = append(sc.Steps, c07Step{K: "x", C: ci})
			} else {
				call := c06CheapCall(kind, i)
				if kind == sim.Counter {
					call = c07Op(kind, i)
				}
				sc.Steps = append(sc.Steps, c07Step{K: "op", C: ci, Call: call})
			}
		}
		nx := countX(sc)
		nf := rapid.IntRange(1, 6).Draw(rt, "nfaults")
		used := map[int]bool{}
		var faults []c07Fault
		for i := 0; i < nf; i++ {
			x := rapid.IntRange(0, nx-1).Draw(rt, fmt.Sprintf("fx%d", i))
			if used[x] {
				continue
			}
			used[x] = true
			f := rapid.SampledFrom(c07FaultKinds).Draw(rt, fmt.Sprintf("fk%d", i))
			f.X = x
			faults = append(faults, f)
		}
		sort.Slice(faults, func(i, j int) bool { return faults[i].X < faults[j].X })
		c.j.Header = map[string]interface{}{"scenario": sc, "faults": faults}
		idseed := rapid.Uint64Range(1, 1<<30).Draw(rt, "idseed")
		out := c07Run(sc, faults, idseed)
		b, _ := json.Marshal(c.j.Header)
		if id := c07Classify(out, faults); id != "" {
			reportKnown(col, "C07", id, c07KnownText[id])
			col.Case(true, string(b), []string{"known=" + id, "kind=" + string(kind)}, nil)
			return
		}
		if out.err != nil {
			c.failf("faults %v: %v", faults, out.err)
		}
		col.Case(out.lostPushed && out.foreignGap, string(b), []string{"kind=" + string(kind), fmt.Sprintf("faults=%d", len(faults))}, func() interface{} { return c.j.Header })
	})
}
