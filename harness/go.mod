module verif

go 1.23

toolchain go1.23.5

require (
	github.com/eclipse/paho.mqtt.golang v1.4.1
	github.com/go-redis/redis/v8 v8.11.5
	github.com/go-redsync/redsync/v4 v4.5.1
	github.com/grpc-ecosystem/grpc-gateway/v2 v2.11.3
	github.com/orda-io/orda v0.0.0
	github.com/orda-io/orda/client v0.0.0
	github.com/orda-io/orda/server v0.0.0
	github.com/sirupsen/logrus v1.9.0
	github.com/wI2L/jsondiff v0.2.0
	go.mongodb.org/mongo-driver v1.10.1
	google.golang.org/grpc v1.49.0
	google.golang.org/protobuf v1.28.1
	pgregory.net/rapid v1.3.0
)

require (
	github.com/TylerBrock/colorjson v0.0.0-20200706003622-8a50f05110d2 // indirect
	github.com/anishathalye/porcupine v1.3.0
	github.com/cespare/xxhash/v2 v2.1.2 // indirect
	github.com/dgryski/go-rendezvous v0.0.0-20200823014737-9f7001d12a5f // indirect
	github.com/fatih/color v1.13.0 // indirect
	github.com/golang/protobuf v1.5.2 // indirect
	github.com/golang/snappy v0.0.4 // indirect
	github.com/gorilla/websocket v1.5.0 // indirect
	github.com/hashicorp/errwrap v1.1.0 // indirect
	github.com/hashicorp/go-multierror v1.1.1 // indirect
	github.com/klauspost/compress v1.15.9 // indirect
	github.com/logrusorgru/aurora v2.0.3+incompatible // indirect
	github.com/matoous/go-nanoid/v2 v2.0.0 // indirect
	github.com/mattn/go-colorable v0.1.13 // indirect
	github.com/mattn/go-isatty v0.0.16 // indirect
	github.com/mitchellh/mapstructure v1.5.0 // indirect
	github.com/montanaflynn/stats v0.6.6 // indirect
	github.com/pkg/errors v0.9.1 // indirect
	github.com/tidwall/gjson v1.14.3 // indirect
	github.com/tidwall/match v1.1.1 // indirect
	github.com/tidwall/pretty v1.2.0 // indirect
	github.com/viney-shih/go-lock v1.1.2 // indirect
	github.com/xdg-go/pbkdf2 v1.0.0 // indirect
	github.com/xdg-go/scram v1.1.1 // indirect
	github.com/xdg-go/stringprep v1.0.3 // indirect
	github.com/youmark/pkcs8 v0.0.0-20201027041543-1326539a0a0a // indirect
	github.com/ztrue/tracerr v0.3.0 // indirect
	golang.org/x/crypto v0.0.0-20220826181053-bd7e27e6170d // indirect
	golang.org/x/net v0.0.0-20220826154423-83b083e8dc8b // indirect
	golang.org/x/sync v0.0.0-20220819030929-7fc1605a5dde // indirect
	golang.org/x/sys v0.0.0-20220825204002-c680a09ffe64 // indirect
	golang.org/x/text v0.3.7 // indirect
	google.golang.org/genproto v0.0.0-20220822174746-9e6da59bd2fc // indirect
)

replace (
	github.com/orda-io/orda => /repo
	github.com/orda-io/orda/client => /repo/client
	github.com/orda-io/orda/server => /repo/server
)
