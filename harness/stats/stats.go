// Package stats collects what a property run actually covered: evaluations, the set of distinct
// non-trivial cases, label histograms, samples, exclusions and known-finding hits. Each test
// function owns one Collector and flushes it to $VERIF_STATS_DIR/<name>.json; bin/vcheck merges
// those partial files into /verif/evidence/<id>.json.
package stats

import (
	"encoding/json"
	"fmt"
	"hash/fnv"
	"os"
	"path/filepath"
	"sort"
	"sync"
)

const maxSamples = 4

// Collector is safe for concurrent use.
type Collector struct {
	mu          sync.Mutex
	Name        string
	Property    string
	Rule        string
	evaluations int
	nontrivial  map[uint64]struct{}
	labels      map[string]int
	samples     []interface{}
	excluded    map[string]int
	known       map[string]int
	notes       []string
	assumptions []string
	exhaustive  *bool
	extra       map[string]interface{}
	bulkEval    int
	bulkNontriv int
}

// New creates a collector for one test function of a property.
func New(property, name, rule string) *Collector {
	return &Collector{
		Name: name, Property: property, Rule: rule,
		nontrivial: map[uint64]struct{}{},
		labels:     map[string]int{},
		excluded:   map[string]int{},
		known:      map[string]int{},
		extra:      map[string]interface{}{},
	}
}

func hash(s string) uint64 {
	h := fnv.New64a()
	_, _ = h.Write([]byte(s))
	return h.Sum64()
}

// Case records one evaluated case. canonical is the canonical text of the case (used for
// distinctness), nontrivial says whether it satisfies the property's non-triviality rule.
// sample is only invoked when a sample slot is free.
func (c *Collector) Case(nontrivial bool, canonical string, labels []string, sample func() interface{}) {
	c.mu.Lock()
	defer c.mu.Unlock()
	c.evaluations++
	for _, l := range labels {
		c.labels[l]++
	}
	if nontrivial {
		h := hash(canonical)
		if _, ok := c.nontrivial[h]; !ok {
			c.nontrivial[h] = struct{}{}
			if len(c.samples) < maxSamples && sample != nil {
				c.samples = append(c.samples, sample())
			}
		}
	}
}

// Bulk adds cases that were enumerated without being stored one by one: n evaluations of which
// k were distinct and non-trivial (both measured by the caller).
func (c *Collector) Bulk(n, k int) {
	c.mu.Lock()
	c.bulkEval += n
	c.bulkNontriv += k
	c.mu.Unlock()
}

// Sample adds a sample case directly.
func (c *Collector) Sample(s interface{}) {
	c.mu.Lock()
	if len(c.samples) < maxSamples {
		c.samples = append(c.samples, s)
	}
	c.mu.Unlock()
}

// Label bumps a label counter outside of Case.
func (c *Collector) Label(l string) {
	c.mu.Lock()
	c.labels[l]++
	c.mu.Unlock()
}

// LabelN adds n to a label counter.
func (c *Collector) LabelN(l string, n int) {
	c.mu.Lock()
	c.labels[l] += n
	c.mu.Unlock()
}

// Excluded counts a case/choice that was excluded by construction because of a known finding.
func (c *Collector) Excluded(what string) {
	c.mu.Lock()
	c.excluded[what]++
	c.mu.Unlock()
}

// Known counts a reproduction of a listed known finding.
func (c *Collector) Known(sig string) {
	c.mu.Lock()
	c.known[sig]++
	c.mu.Unlock()
}

// Note appends a free-text note (deduplicated).
func (c *Collector) Note(format string, a ...interface{}) {
	s := fmt.Sprintf(format, a...)
	c.mu.Lock()
	defer c.mu.Unlock()
	for _, n := range c.notes {
		if n == s {
			return
		}
	}
	if len(c.notes) < 50 {
		c.notes = append(c.notes, s)
	}
}

// Assume records an assumption of the check.
func (c *Collector) Assume(s string) {
	c.mu.Lock()
	defer c.mu.Unlock()
	for _, n := range c.assumptions {
		if n == s {
			return
		}
	}
	c.assumptions = append(c.assumptions, s)
}

// SetExhaustive marks the enumerated part complete or not.
func (c *Collector) SetExhaustive(b bool) {
	c.mu.Lock()
	c.exhaustive = &b
	c.mu.Unlock()
}

// Extra stores an additional coverage key.
func (c *Collector) Extra(k string, v interface{}) {
	c.mu.Lock()
	c.extra[k] = v
	c.mu.Unlock()
}

// LabelCount returns the current value of a label.
func (c *Collector) LabelCount(l string) int {
	c.mu.Lock()
	defer c.mu.Unlock()
	return c.labels[l]
}

// Evaluations returns the number of cases recorded.
func (c *Collector) Evaluations() int {
	c.mu.Lock()
	defer c.mu.Unlock()
	return c.evaluations
}

// Partial is the on-disk form of one collector.
type Partial struct {
	Name        string                 `json:"name"`
	Property    string                 `json:"property"`
	Rule        string                 `json:"rule"`
	Evaluations int                    `json:"evaluations"`
	Nontrivial  []uint64               `json:"nontrivial_hashes"`
	Labels      map[string]int         `json:"labels"`
	Samples     []interface{}          `json:"samples"`
	Excluded    map[string]int         `json:"excluded_by_construction"`
	Known       map[string]int         `json:"known_finding_hits"`
	Notes       []string               `json:"notes"`
	Assumptions []string               `json:"assumptions"`
	Exhaustive  *bool                  `json:"exhaustive,omitempty"`
	Extra       map[string]interface{} `json:"extra"`
	BulkEval    int                    `json:"bulk_evaluations"`
	BulkNontriv int                    `json:"bulk_nontrivial"`
}

// Flush writes the partial evidence file if VERIF_STATS_DIR is set.
func (c *Collector) Flush() {
	dir := os.Getenv("VERIF_STATS_DIR")
	if dir == "" {
		return
	}
	c.mu.Lock()
	defer c.mu.Unlock()
	p := Partial{
		Name: c.Name, Property: c.Property, Rule: c.Rule, Evaluations: c.evaluations,
		Labels: c.labels, Samples: c.samples, Excluded: c.excluded, Known: c.known,
		Notes: c.notes, Assumptions: c.assumptions, Exhaustive: c.exhaustive, Extra: c.extra,
		BulkEval: c.bulkEval, BulkNontriv: c.bulkNontriv,
	}
	for h := range c.nontrivial {
		p.Nontrivial = append(p.Nontrivial, h)
	}
	sort.Slice(p.Nontrivial, func(i, j int) bool { return p.Nontrivial[i] < p.Nontrivial[j] })
	b, err := json.Marshal(p)
	if err != nil {
		b, _ = json.Marshal(map[string]string{"name": c.Name, "property": c.Property, "error": err.Error()})
	}
	_ = os.MkdirAll(dir, 0o755)
	shard := os.Getenv("VERIF_SHARD")
	_ = os.WriteFile(filepath.Join(dir, fmt.Sprintf("%s.%s.json", c.Name, shard)), b, 0o644)
}
