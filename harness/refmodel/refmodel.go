// Package refmodel computes the state a datatype must have from nothing but the set of emitted
// operations (ids, targets, values). It is written from the property statements (C02), not from
// the implementation: counters are sums, map/object members are last-writer-wins registers over
// (lamport, cuid), lists/arrays are the pre-order traversal of the timestamped insertion tree
// with siblings newest first, an element is deleted iff some delete targets it and otherwise
// carries the value of its newest write.
//
// Operation bodies are decoded with this package's own structs and encoding/json.
package refmodel

import (
	"encoding/json"
	"fmt"
	"sort"
	"strings"

	"github.com/orda-io/orda/client/pkg/model"
)

// TS is an identity: operation timestamp plus delimiter.
type TS struct {
	E uint32 `json:"e,omitempty"`
	L uint64 `json:"l,omitempty"`
	C string `json:"c,omitempty"`
	D uint32 `json:"d,omitempty"`
}

func (t TS) String() string { return fmt.Sprintf("%d:%d:%s:%d", t.E, t.L, t.C, t.D) }

// clockLess orders by (era, lamport, cuid); the delimiter is not part of the clock.
func clockLess(a, b TS) bool {
	if a.E != b.E {
		return a.E < b.E
	}
	if a.L != b.L {
		return a.L < b.L
	}
	return strings.Compare(a.C, b.C) < 0
}

func opTS(op *model.Operation) TS {
	return TS{E: op.ID.Era, L: op.ID.Lamport, C: op.ID.CUID}
}

// HeadID is the identity of the list head / document root.
var HeadID = TS{C: "0000000000000000"}

// Options tune the model.
type Options struct {
	// MapOrderKnown: member order of multi-key object values is sorted by key (the identity rule
	// after the S5 repair). Always true in this harness; kept for documentation.
	MapOrderKnown bool
}

// State is the outcome of a set of operations.
type State struct {
	Kind    string
	Counter int32
	Map     map[string]interface{} // present keys only
	List    []interface{}
	Doc     interface{} // JSON view of the document root
	// Ignored counts operations the model could not place (unknown parent/target); a correct
	// causal history has none.
	Ignored []string
	// Elems are the live list/array element identities in order (List) for C04.
	Elems []TS
}

// JSON returns the value that the datatype's ToJSON() should show (canonical via sim.Canon).
func (s *State) JSON() interface{} {
	switch s.Kind {
	case "counter":
		return map[string]interface{}{"Counter": float64(s.Counter)}
	case "map":
		return s.Map
	case "list":
		return map[string]interface{}{"List": s.List}
	case "document":
		return s.Doc
	}
	return nil
}

// ---------------------------------------------------------------------------------------------

type txBody struct {
	Tag      string
	NumOfOps int32
}
type incBody struct{ Delta int32 }
type putBody struct {
	Key   string
	Value interface{}
}
type rmvBody struct{ Key string }
type insBody struct {
	T *TS
	V []interface{}
}
type delBody struct{ T []*TS }
type updBody struct {
	T []*TS
	V []interface{}
}
type docPutBody struct {
	P *TS
	K string
	V interface{}
}
type docRmvBody struct {
	P *TS
	K string
}
type docInsBody struct {
	P *TS
	T *TS
	V []interface{}
}
type docDelBody struct {
	P *TS
	T []*TS
}
type docUpdBody struct {
	P *TS
	T []*TS
	V []interface{}
}

func dec(op *model.Operation, into interface{}) error {
	if err := json.Unmarshal(op.Body, into); err != nil {
		return fmt.Errorf("refmodel: cannot decode body of %s %v: %v (%s)", op.OpType, op.ID, err, string(op.Body))
	}
	return nil
}

// ---------------------------------------------------------------------------------------------
// RGA sequence

type slot struct {
	id        TS
	parent    TS
	deleted   bool
	value     interface{} // list: value; array: *node
	valueTS   TS          // clock of the write that set value
	children  []*slot
	insertSeq int
}

type sequence struct {
	slots map[TS]*slot
	head  *slot
	n     int
}

func newSequence() *sequence {
	h := &slot{id: HeadID}
	return &sequence{slots: map[TS]*slot{HeadID: h}, head: h}
}

// insert adds a chain of elements anchored at anchor.
func (s *sequence) insert(anchor TS, ids []TS, vals []interface{}, clock TS) bool {
	p, ok := s.slots[anchor]
	if !ok {
		return false
	}
	for i, id := range ids {
		if _, dup := s.slots[id]; dup {
			return false
		}
		s.n++
		sl := &slot{id: id, parent: p.id, value: vals[i], valueTS: clock, insertSeq: s.n}
		p.children = append(p.children, sl)
		s.slots[id] = sl
		p = sl
	}
	return true
}

// order returns the slots in document order: pre-order, siblings descending by clock.
func (s *sequence) order() []*slot {
	var out []*slot
	var walk func(p *slot)
	walk = func(p *slot) {
		kids := append([]*slot{}, p.children...)
		sort.SliceStable(kids, func(i, j int) bool { return clockLess(kids[j].id, kids[i].id) })
		for _, k := range kids {
			out = append(out, k)
			walk(k)
		}
	}
	walk(s.head)
	return out
}

// ---------------------------------------------------------------------------------------------
// Document forest

type node struct {
	id      TS
	kind    byte // 'E','O','A'
	value   interface{}
	members map[string]*member
	seq     *sequence
}

type member struct {
	clock TS
	n     *node // nil = removed
}

type forest struct {
	containers map[TS]*node
	root       *node
}

func newForest() *forest {
	r := &node{id: HeadID, kind: 'O', members: map[string]*member{}}
	return &forest{containers: map[TS]*node{HeadID: r}, root: r}
}

// expand turns a JSON value into nodes with the wire identity rule: pre-order, a container takes
// its delimiter before its children, array elements in index order, object members in sorted
// key order. next is the running delimiter.
func (f *forest) expand(v interface{}, clock TS, next *uint32) *node {
	id := clock
	id.D = *next
	*next++
	switch x := v.(type) {
	case map[string]interface{}:
		n := &node{id: id, kind: 'O', members: map[string]*member{}}
		f.containers[id] = n
		keys := make([]string, 0, len(x))
		for k := range x {
			keys = append(keys, k)
		}
		sort.Strings(keys)
		for _, k := range keys {
			if x[k] == nil {
				continue // a null member has no node (it cannot be stored) and takes no identity
			}
			n.members[k] = &member{clock: clock, n: f.expand(x[k], clock, next)}
		}
		return n
	case []interface{}:
		n := &node{id: id, kind: 'A', seq: newSequence()}
		f.containers[id] = n
		anchor := HeadID
		for _, e := range x {
			if e == nil {
				continue
			}
			c := f.expand(e, clock, next)
			n.seq.insert(anchor, []TS{c.id}, []interface{}{c}, clock)
			anchor = c.id
		}
		return n
	default:
		return &node{id: id, kind: 'E', value: v}
	}
}

func (n *node) view() interface{} {
	switch n.kind {
	case 'E':
		return n.value
	case 'O':
		m := map[string]interface{}{}
		for k, mem := range n.members {
			if mem.n != nil {
				m[k] = mem.n.view()
			}
		}
		return m
	case 'A':
		l := []interface{}{}
		for _, sl := range n.seq.order() {
			if !sl.deleted {
				l = append(l, sl.value.(*node).view())
			}
		}
		return l
	}
	return nil
}

// ---------------------------------------------------------------------------------------------

// Compute returns the state that results from the given operations. kind is one of "counter",
// "map", "list", "document". The slice may be in any order that respects causality (log order,
// or the order in which one replica saw them).
func Compute(kind string, ops []*model.Operation) (*State, error) {
	st := &State{Kind: kind}
	type reg struct {
		clock   TS
		present bool
		value   interface{}
	}
	regs := map[string]*reg{}
	seq := newSequence()
	f := newForest()
	ignore := func(op *model.Operation, why string) {
		st.Ignored = append(st.Ignored, fmt.Sprintf("%s %v: %s", op.OpType, opTS(op), why))
	}
	for _, op := range ops {
		clock := opTS(op)
		switch op.OpType {
		case model.TypeOfOperation_TRANSACTION, model.TypeOfOperation_ERROR:
			continue
		case model.TypeOfOperation_COUNTER_SNAPSHOT, model.TypeOfOperation_MAP_SNAPSHOT,
			model.TypeOfOperation_LIST_SNAPSHOT, model.TypeOfOperation_DOC_SNAPSHOT:
			// The only snapshot operation of a well-formed log is the creator's first operation,
			// which carries the empty state.
			continue
		case model.TypeOfOperation_COUNTER_INCREASE:
			var b incBody
			if err := dec(op, &b); err != nil {
				return nil, err
			}
			st.Counter += b.Delta
		case model.TypeOfOperation_MAP_PUT:
			var b putBody
			if err := dec(op, &b); err != nil {
				return nil, err
			}
			r := regs[b.Key]
			if r == nil || clockLess(r.clock, clock) {
				regs[b.Key] = &reg{clock: clock, present: true, value: b.Value}
			}
		case model.TypeOfOperation_MAP_REMOVE:
			var b rmvBody
			if err := dec(op, &b); err != nil {
				return nil, err
			}
			r := regs[b.Key]
			if r == nil {
				ignore(op, "remove of a key that was never put")
			} else if clockLess(r.clock, clock) {
				regs[b.Key] = &reg{clock: clock, present: false}
			}
		case model.TypeOfOperation_LIST_INSERT:
			var b insBody
			if err := dec(op, &b); err != nil {
				return nil, err
			}
			if b.T == nil {
				ignore(op, "insert without anchor")
				continue
			}
			ids := make([]TS, len(b.V))
			for i := range b.V {
				ids[i] = clock
				ids[i].D = uint32(i)
			}
			if !seq.insert(*b.T, ids, b.V, clock) {
				ignore(op, "unknown anchor or duplicate element id "+b.T.String())
			}
		case model.TypeOfOperation_LIST_DELETE:
			var b delBody
			if err := dec(op, &b); err != nil {
				return nil, err
			}
			for _, t := range b.T {
				if sl, ok := seq.slots[*t]; ok && sl != seq.head {
					sl.deleted = true
				} else {
					ignore(op, "unknown delete target "+t.String())
				}
			}
		case model.TypeOfOperation_LIST_UPDATE:
			var b updBody
			if err := dec(op, &b); err != nil {
				return nil, err
			}
			for i, t := range b.T {
				sl, ok := seq.slots[*t]
				if !ok || sl == seq.head || i >= len(b.V) {
					ignore(op, "unknown update target "+t.String())
					continue
				}
				if clockLess(sl.valueTS, clock) {
					sl.value, sl.valueTS = b.V[i], clock
				}
			}
		case model.TypeOfOperation_DOC_OBJ_PUT:
			var b docPutBody
			if err := dec(op, &b); err != nil {
				return nil, err
			}
			var next uint32
			n := f.expand(b.V, clock, &next)
			p := f.containers[deref(b.P)]
			if p == nil || p.kind != 'O' {
				ignore(op, "unknown parent object")
				continue
			}
			m := p.members[b.K]
			if m == nil || clockLess(m.clock, clock) {
				p.members[b.K] = &member{clock: clock, n: n}
			}
		case model.TypeOfOperation_DOC_OBJ_RMV:
			var b docRmvBody
			if err := dec(op, &b); err != nil {
				return nil, err
			}
			p := f.containers[deref(b.P)]
			if p == nil || p.kind != 'O' {
				ignore(op, "unknown parent object")
				continue
			}
			m := p.members[b.K]
			if m == nil {
				ignore(op, "remove of a member that was never put")
			} else if clockLess(m.clock, clock) {
				p.members[b.K] = &member{clock: clock, n: nil}
			}
		case model.TypeOfOperation_DOC_ARR_INS:
			var b docInsBody
			if err := dec(op, &b); err != nil {
				return nil, err
			}
			var next uint32
			nodes := make([]interface{}, len(b.V))
			ids := make([]TS, len(b.V))
			for i, v := range b.V {
				n := f.expand(v, clock, &next)
				nodes[i], ids[i] = n, n.id
			}
			p := f.containers[deref(b.P)]
			if p == nil || p.kind != 'A' {
				ignore(op, "unknown parent array")
				continue
			}
			if b.T == nil || !p.seq.insert(*b.T, ids, nodes, clock) {
				ignore(op, "unknown anchor in array")
			}
		case model.TypeOfOperation_DOC_ARR_DEL:
			var b docDelBody
			if err := dec(op, &b); err != nil {
				return nil, err
			}
			p := f.containers[deref(b.P)]
			if p == nil || p.kind != 'A' {
				ignore(op, "unknown parent array")
				continue
			}
			for _, t := range b.T {
				if sl, ok := p.seq.slots[*t]; ok && sl != p.seq.head {
					sl.deleted = true
				} else {
					ignore(op, "unknown delete target in array")
				}
			}
		case model.TypeOfOperation_DOC_ARR_UPD:
			var b docUpdBody
			if err := dec(op, &b); err != nil {
				return nil, err
			}
			var next uint32
			p := f.containers[deref(b.P)]
			for i, t := range b.T {
				if i >= len(b.V) {
					break
				}
				n := f.expand(b.V[i], clock, &next)
				if p == nil || p.kind != 'A' {
					continue
				}
				sl, ok := p.seq.slots[*t]
				if !ok || sl == p.seq.head {
					ignore(op, "unknown update target in array")
					continue
				}
				if clockLess(sl.valueTS, clock) {
					sl.value, sl.valueTS = n, clock
				}
			}
			if p == nil || p.kind != 'A' {
				ignore(op, "unknown parent array")
			}
		default:
			return nil, fmt.Errorf("refmodel: unexpected operation type %v", op.OpType)
		}
	}
	switch kind {
	case "map":
		st.Map = map[string]interface{}{}
		for k, r := range regs {
			if r.present {
				st.Map[k] = r.value
			}
		}
	case "list":
		st.List = []interface{}{}
		for _, sl := range seq.order() {
			if !sl.deleted {
				st.List = append(st.List, sl.value)
				st.Elems = append(st.Elems, sl.id)
			}
		}
	case "document":
		st.Doc = f.root.view()
	}
	return st, nil
}

func deref(t *TS) TS {
	if t == nil {
		return TS{C: "?nil"}
	}
	return *t
}
