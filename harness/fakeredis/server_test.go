package fakeredis

import (
	"context"
	"fmt"
	"sync"
	"sync/atomic"
	"testing"
	"time"

	goredislib "github.com/go-redis/redis/v8"
	"github.com/go-redsync/redsync/v4"
	"github.com/go-redsync/redsync/v4/redis/goredis/v8"
	"pgregory.net/rapid"
)

func newSync(t *testing.T) (*Server, *redsync.Redsync, goredislib.UniversalClient) {
	s, err := Start()
	if err != nil {
		t.Fatal(err)
	}
	cl := goredislib.NewUniversalClient(&goredislib.UniversalOptions{Addrs: []string{s.Addr()}})
	return s, redsync.New(goredis.NewPool(cl)), cl
}

// The lock library orda uses works against the fake: mutual exclusion, release, expiry, extension.
func TestRedsyncOnFake(t *testing.T) {
	s, rs, cl := newSync(t)
	defer s.Close()
	defer cl.Close()
	m1 := rs.NewMutex("L", redsync.WithTries(3), redsync.WithExpiry(300*time.Millisecond))
	m2 := rs.NewMutex("L", redsync.WithTries(1), redsync.WithExpiry(300*time.Millisecond))
	if err := m1.Lock(); err != nil {
		t.Fatalf("first lock: %v", err)
	}
	if err := m2.Lock(); err == nil {
		t.Fatalf("second lock succeeded while the first is held")
	}
	if ok, err := m2.Unlock(); ok || err != nil {
		// redsync reports a failed unlock by (false, nil) or an error depending on version
		_ = err
	}
	if _, held := s.Keys()["L"]; !held {
		t.Fatalf("a foreign unlock removed the lock")
	}
	if ok, err := m1.Extend(); !ok || err != nil {
		t.Fatalf("extend: %v %v", ok, err)
	}
	if ok, err := m1.Unlock(); !ok || err != nil {
		t.Fatalf("unlock: %v %v", ok, err)
	}
	if len(s.Keys()) != 0 {
		t.Fatalf("keys left: %v", s.Keys())
	}
	if err := m2.Lock(); err != nil {
		t.Fatalf("lock after release: %v", err)
	}
	time.Sleep(350 * time.Millisecond)
	if len(s.Keys()) != 0 {
		t.Fatalf("lock did not expire: %v", s.Keys())
	}
	if err := m1.Lock(); err != nil {
		t.Fatalf("lock after expiry: %v", err)
	}
	if u := s.UnknownCommands(); len(u) != 0 {
		t.Fatalf("unknown commands: %v", u)
	}
}

// Many goroutines increment a plain counter under the lock: no lost update.
func TestRedsyncMutualExclusion(t *testing.T) {
	s, rs, cl := newSync(t)
	defer s.Close()
	defer cl.Close()
	var inside int32
	counter := 0
	var wg sync.WaitGroup
	for g := 0; g < 8; g++ {
		wg.Add(1)
		go func() {
			defer wg.Done()
			for i := 0; i < 5; i++ {
				m := rs.NewMutex("X", redsync.WithTries(1000), redsync.WithExpiry(5*time.Second),
					redsync.WithRetryDelay(2*time.Millisecond))
				if err := m.LockContext(context.Background()); err != nil {
					t.Errorf("lock: %v", err)
					return
				}
				if atomic.AddInt32(&inside, 1) != 1 {
					t.Errorf("two holders")
				}
				counter++
				atomic.AddInt32(&inside, -1)
				if ok, err := m.Unlock(); !ok || err != nil {
					t.Errorf("unlock %v %v", ok, err)
				}
			}
		}()
	}
	wg.Wait()
	if counter != 40 {
		t.Fatalf("counter %d", counter)
	}
}

// Model-based: random command sequences against a trivially simple model with a manual clock.
func TestFakeAgainstModel(t *testing.T) {
	rapid.Check(t, func(rt *rapid.T) {
		s, err := Start()
		if err != nil {
			rt.Fatal(err)
		}
		defer s.Close()
		clock := time.Unix(1000, 0)
		s.mu.Lock()
		s.now = func() time.Time { return clock }
		s.mu.Unlock()
		cl := goredislib.NewClient(&goredislib.Options{Addr: s.Addr()})
		defer cl.Close()
		ctx := context.Background()
		type ment struct {
			v   string
			exp int64 // ms since start, 0 = never
		}
		model := map[string]ment{}
		nowMs := int64(0)
		get := func(k string) (ment, bool) {
			e, ok := model[k]
			if ok && e.exp != 0 && nowMs >= e.exp {
				delete(model, k)
				return ment{}, false
			}
			return e, ok
		}
		delSrc := `
	if redis.call("GET", KEYS[1]) == ARGV[1] then
		return redis.call("DEL", KEYS[1])
	else
		return 0
	end
`
		rt.Repeat(map[string]func(*rapid.T){
			"setnx": func(rt *rapid.T) {
				k := rapid.SampledFrom([]string{"a", "b"}).Draw(rt, "k")
				v := rapid.SampledFrom([]string{"1", "2", "3"}).Draw(rt, "v")
				ttl := rapid.Int64Range(1, 50).Draw(rt, "ttl")
				got, err := cl.SetNX(ctx, k, v, time.Duration(ttl)*time.Millisecond).Result()
				if err != nil {
					rt.Fatal(err)
				}
				_, exists := get(k)
				if got == exists {
					rt.Fatalf("setnx %s: got %v, model exists %v", k, got, exists)
				}
				if !exists {
					model[k] = ment{v, nowMs + ttl}
				}
			},
			"get": func(rt *rapid.T) {
				k := rapid.SampledFrom([]string{"a", "b"}).Draw(rt, "k")
				got, err := cl.Get(ctx, k).Result()
				e, ok := get(k)
				if ok != (err == nil) || (ok && got != e.v) {
					rt.Fatalf("get %s: %q %v, model %v %v", k, got, err, e, ok)
				}
			},
			"release": func(rt *rapid.T) {
				k := rapid.SampledFrom([]string{"a", "b"}).Draw(rt, "k")
				v := rapid.SampledFrom([]string{"1", "2", "3"}).Draw(rt, "v")
				got, err := cl.Eval(ctx, delSrc, []string{k}, v).Result()
				if err != nil {
					rt.Fatal(err)
				}
				e, ok := get(k)
				want := int64(0)
				if ok && e.v == v {
					want = 1
					delete(model, k)
				}
				if got.(int64) != want {
					rt.Fatalf("release %s %s: got %v want %v", k, v, got, want)
				}
			},
			"tick": func(rt *rapid.T) {
				d := rapid.Int64Range(1, 40).Draw(rt, "ms")
				nowMs += d
				s.mu.Lock()
				clock = clock.Add(time.Duration(d) * time.Millisecond)
				s.mu.Unlock()
			},
			"": func(rt *rapid.T) {
				keys := s.Keys()
				for _, k := range []string{"a", "b"} {
					e, ok := get(k)
					v, ok2 := keys[k]
					if ok != ok2 || (ok && v != e.v) {
						rt.Fatalf("key %s: fake %q/%v model %v/%v", k, v, ok2, e, ok)
					}
				}
			},
		})
		if u := s.UnknownCommands(); len(u) != 0 {
			rt.Fatalf("unknown: %v", u)
		}
	})
}

func ExampleServer() {
	s, _ := Start()
	defer s.Close()
	fmt.Println(len(s.Keys()))
	// Output: 0
}
