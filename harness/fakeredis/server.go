// Package fakeredis is a minimal Redis (RESP2) server for tests.
//
// It implements what orda's distributed lock needs: github.com/go-redsync/redsync/v4 on top of
// github.com/go-redis/redis/v8 sends SET key value NX PX ms to acquire, and the two Lua scripts
// "delete if the value is mine" / "extend if the value is mine" through EVALSHA (falling back to EVAL
// on NOSCRIPT) to release and to extend. The two scripts are recognised by their text; any other
// script and any other command is answered with an error and counted, so that a run in which the
// server under test needed more than this fake offers can be called inconclusive.
// Keys expire by the wall clock like in Redis (orda's locks expire after 10 s; the harness never
// lets a request take that long unless it wants to see the expiry).
package fakeredis

import (
	"bufio"
	"crypto/sha1"
	"encoding/hex"
	"errors"
	"fmt"
	"io"
	"net"
	"strconv"
	"strings"
	"sync"
	"time"
)

// Cmd is one command received by the server.
type Cmd struct {
	Seq    int
	ConnID int
	Name   string // upper case
	Args   []string
	Start  time.Time
	// Result is a short rendering of the reply ("OK", "nil", "1", "0", "ERR ...").
	Result string
}

type entry struct {
	val     string
	expires time.Time // zero: never
}

// Server is the fake Redis server.
type Server struct {
	ln   net.Listener
	addr string
	wg   sync.WaitGroup

	mu       sync.Mutex
	closed   bool
	conns    map[net.Conn]struct{}
	data     map[string]entry
	scripts  map[string]string // sha1 -> kind ("delete" / "touch")
	log      []Cmd
	seq      int
	connSeq  int
	unknown  []string
	failNext map[string]int // command name -> how many of the next ones are answered with an error
	latency  func(c *Cmd) time.Duration
	now      func() time.Time
}

// Start launches a server on 127.0.0.1:0.
func Start() (*Server, error) {
	ln, err := net.Listen("tcp", "127.0.0.1:0")
	if err != nil {
		return nil, err
	}
	s := &Server{ln: ln, addr: ln.Addr().String(), conns: map[net.Conn]struct{}{}, data: map[string]entry{},
		scripts: map[string]string{}, failNext: map[string]int{}, now: time.Now}
	s.wg.Add(1)
	go s.acceptLoop()
	return s, nil
}

// Addr is host:port of the listener.
func (s *Server) Addr() string { return s.addr }

// Close stops the server and drops every connection.
func (s *Server) Close() {
	s.mu.Lock()
	if s.closed {
		s.mu.Unlock()
		return
	}
	s.closed = true
	for c := range s.conns {
		_ = c.Close()
	}
	s.mu.Unlock()
	_ = s.ln.Close()
	s.wg.Wait()
}

// CommandLog returns a copy of every command received so far.
func (s *Server) CommandLog() []Cmd {
	s.mu.Lock()
	defer s.mu.Unlock()
	return append([]Cmd(nil), s.log...)
}

// ResetLog forgets the recorded commands.
func (s *Server) ResetLog() {
	s.mu.Lock()
	s.log = nil
	s.mu.Unlock()
}

// UnknownCommands lists commands (or scripts) the fake does not implement and answered with an error.
func (s *Server) UnknownCommands() []string {
	s.mu.Lock()
	defer s.mu.Unlock()
	return append([]string(nil), s.unknown...)
}

// Keys returns the live (unexpired) keys with their values.
func (s *Server) Keys() map[string]string {
	s.mu.Lock()
	defer s.mu.Unlock()
	out := map[string]string{}
	now := s.now()
	for k, e := range s.data {
		if e.expires.IsZero() || now.Before(e.expires) {
			out[k] = e.val
		}
	}
	return out
}

// SetLatencyHook delays every command by what the hook returns (nil removes it).
func (s *Server) SetLatencyHook(f func(c *Cmd) time.Duration) {
	s.mu.Lock()
	s.latency = f
	s.mu.Unlock()
}

// FailNext makes the next n commands of that name (upper case, e.g. "SET") fail with an error reply.
func (s *Server) FailNext(name string, n int) {
	s.mu.Lock()
	s.failNext[strings.ToUpper(name)] = n
	s.mu.Unlock()
}

// Expire removes a key as if its time to live had run out. It reports whether the key existed.
func (s *Server) Expire(key string) bool {
	s.mu.Lock()
	defer s.mu.Unlock()
	_, ok := s.data[key]
	delete(s.data, key)
	return ok
}

func (s *Server) acceptLoop() {
	defer s.wg.Done()
	for {
		c, err := s.ln.Accept()
		if err != nil {
			return
		}
		s.mu.Lock()
		if s.closed {
			s.mu.Unlock()
			_ = c.Close()
			return
		}
		s.conns[c] = struct{}{}
		s.connSeq++
		id := s.connSeq
		s.mu.Unlock()
		s.wg.Add(1)
		go s.serve(c, id)
	}
}

var errProto = errors.New("fakeredis: protocol error")

func readCommand(r *bufio.Reader) ([]string, error) {
	line, err := r.ReadString('\n')
	if err != nil {
		return nil, err
	}
	line = strings.TrimRight(line, "\r\n")
	if line == "" {
		return nil, nil
	}
	if line[0] != '*' { // inline command
		return strings.Fields(line), nil
	}
	n, err := strconv.Atoi(line[1:])
	if err != nil || n < 0 || n > 1<<20 {
		return nil, errProto
	}
	out := make([]string, 0, n)
	for i := 0; i < n; i++ {
		h, err := r.ReadString('\n')
		if err != nil {
			return nil, err
		}
		h = strings.TrimRight(h, "\r\n")
		if h == "" || h[0] != '$' {
			return nil, errProto
		}
		l, err := strconv.Atoi(h[1:])
		if err != nil || l < 0 || l > 64<<20 {
			return nil, errProto
		}
		buf := make([]byte, l+2)
		if _, err := io.ReadFull(r, buf); err != nil {
			return nil, err
		}
		out = append(out, string(buf[:l]))
	}
	return out, nil
}

func (s *Server) serve(c net.Conn, id int) {
	defer s.wg.Done()
	defer func() {
		s.mu.Lock()
		delete(s.conns, c)
		s.mu.Unlock()
		_ = c.Close()
	}()
	r := bufio.NewReader(c)
	w := bufio.NewWriter(c)
	for {
		args, err := readCommand(r)
		if err != nil {
			return
		}
		if len(args) == 0 {
			continue
		}
		cmd := &Cmd{ConnID: id, Name: strings.ToUpper(args[0]), Args: args[1:], Start: time.Now()}
		s.mu.Lock()
		lat := s.latency
		s.mu.Unlock()
		if lat != nil {
			if d := lat(cmd); d > 0 {
				time.Sleep(d)
			}
		}
		reply := s.exec(cmd)
		if _, err := w.WriteString(reply); err != nil {
			return
		}
		if err := w.Flush(); err != nil {
			return
		}
		if cmd.Name == "QUIT" {
			return
		}
	}
}

func bulk(v string) string     { return fmt.Sprintf("$%d\r\n%s\r\n", len(v), v) }
func integer(n int64) string   { return fmt.Sprintf(":%d\r\n", n) }
func errReply(m string) string { return "-" + m + "\r\n" }

const (
	nilBulk = "$-1\r\n"
	okReply = "+OK\r\n"
)

func classify(src string) string {
	hasGet := strings.Contains(src, `redis.call("GET", KEYS[1]) == ARGV[1]`)
	switch {
	case hasGet && strings.Contains(src, `redis.call("DEL", KEYS[1])`):
		return "delete"
	case hasGet && strings.Contains(src, `redis.call("PEXPIRE", KEYS[1], ARGV[2])`):
		return "touch"
	}
	return ""
}

// live returns the entry of a key if it exists and has not expired (s.mu held).
func (s *Server) live(key string) (entry, bool) {
	e, ok := s.data[key]
	if !ok {
		return entry{}, false
	}
	if !e.expires.IsZero() && !s.now().Before(e.expires) {
		delete(s.data, key)
		return entry{}, false
	}
	return e, true
}

func (s *Server) runScript(kind string, keys, argv []string) string {
	if len(keys) != 1 || len(argv) < 1 {
		return errReply("ERR wrong number of keys or arguments for the script")
	}
	e, ok := s.live(keys[0])
	switch kind {
	case "delete":
		if ok && e.val == argv[0] {
			delete(s.data, keys[0])
			return integer(1)
		}
		return integer(0)
	case "touch":
		if len(argv) < 2 {
			return errReply("ERR wrong number of arguments for the script")
		}
		ms, err := strconv.ParseInt(argv[1], 10, 64)
		if err != nil {
			return errReply("ERR value is not an integer or out of range")
		}
		if ok && e.val == argv[0] {
			e.expires = s.now().Add(time.Duration(ms) * time.Millisecond)
			s.data[keys[0]] = e
			return integer(1)
		}
		return integer(0)
	}
	return errReply("ERR unknown script")
}

func (s *Server) exec(cmd *Cmd) (reply string) {
	s.mu.Lock()
	defer s.mu.Unlock()
	s.seq++
	cmd.Seq = s.seq
	defer func() {
		switch {
		case reply == nilBulk:
			cmd.Result = "nil"
		case strings.HasPrefix(reply, "+"), strings.HasPrefix(reply, ":"):
			cmd.Result = strings.TrimSpace(reply[1:])
		case strings.HasPrefix(reply, "-"):
			cmd.Result = strings.TrimSpace(reply[1:])
		default:
			cmd.Result = "bulk"
		}
		s.log = append(s.log, *cmd)
	}()
	if n := s.failNext[cmd.Name]; n > 0 {
		s.failNext[cmd.Name] = n - 1
		return errReply("ERR injected failure")
	}
	a := cmd.Args
	switch cmd.Name {
	case "PING":
		if len(a) == 1 {
			return bulk(a[0])
		}
		return "+PONG\r\n"
	case "AUTH", "SELECT", "QUIT", "READONLY", "READWRITE":
		return okReply
	case "CLIENT":
		if len(a) > 0 && strings.ToUpper(a[0]) == "GETNAME" {
			return nilBulk
		}
		return okReply
	case "SET":
		if len(a) < 2 {
			return errReply("ERR wrong number of arguments for 'set' command")
		}
		var nx, xx bool
		var ttl time.Duration
		for i := 2; i < len(a); i++ {
			switch strings.ToUpper(a[i]) {
			case "NX":
				nx = true
			case "XX":
				xx = true
			case "PX", "EX":
				if i+1 >= len(a) {
					return errReply("ERR syntax error")
				}
				n, err := strconv.ParseInt(a[i+1], 10, 64)
				if err != nil || n <= 0 {
					return errReply("ERR invalid expire time in 'set' command")
				}
				if strings.ToUpper(a[i]) == "PX" {
					ttl = time.Duration(n) * time.Millisecond
				} else {
					ttl = time.Duration(n) * time.Second
				}
				i++
			case "KEEPTTL":
			default:
				return errReply("ERR syntax error")
			}
		}
		_, exists := s.live(a[0])
		if (nx && exists) || (xx && !exists) {
			return nilBulk
		}
		e := entry{val: a[1]}
		if ttl > 0 {
			e.expires = s.now().Add(ttl)
		}
		s.data[a[0]] = e
		return okReply
	case "SETNX":
		if len(a) != 2 {
			return errReply("ERR wrong number of arguments for 'setnx' command")
		}
		if _, exists := s.live(a[0]); exists {
			return integer(0)
		}
		s.data[a[0]] = entry{val: a[1]}
		return integer(1)
	case "GET":
		if len(a) != 1 {
			return errReply("ERR wrong number of arguments for 'get' command")
		}
		if e, ok := s.live(a[0]); ok {
			return bulk(e.val)
		}
		return nilBulk
	case "DEL":
		n := int64(0)
		for _, k := range a {
			if _, ok := s.live(k); ok {
				delete(s.data, k)
				n++
			}
		}
		return integer(n)
	case "PEXPIRE":
		if len(a) != 2 {
			return errReply("ERR wrong number of arguments for 'pexpire' command")
		}
		ms, err := strconv.ParseInt(a[1], 10, 64)
		if err != nil {
			return errReply("ERR value is not an integer or out of range")
		}
		if e, ok := s.live(a[0]); ok {
			e.expires = s.now().Add(time.Duration(ms) * time.Millisecond)
			s.data[a[0]] = e
			return integer(1)
		}
		return integer(0)
	case "PTTL":
		if len(a) != 1 {
			return errReply("ERR wrong number of arguments for 'pttl' command")
		}
		e, ok := s.live(a[0])
		if !ok {
			return integer(-2)
		}
		if e.expires.IsZero() {
			return integer(-1)
		}
		return integer(int64(e.expires.Sub(s.now()) / time.Millisecond))
	case "SCRIPT":
		if len(a) == 2 && strings.ToUpper(a[0]) == "LOAD" {
			kind := classify(a[1])
			if kind == "" {
				s.unknown = append(s.unknown, "SCRIPT LOAD of an unknown script")
				return errReply("ERR fakeredis does not run this script")
			}
			sum := sha1.Sum([]byte(a[1]))
			h := hex.EncodeToString(sum[:])
			s.scripts[h] = kind
			return bulk(h)
		}
		s.unknown = append(s.unknown, "SCRIPT "+strings.Join(a, " "))
		return errReply("ERR unknown SCRIPT subcommand")
	case "EVAL", "EVALSHA":
		if len(a) < 2 {
			return errReply("ERR wrong number of arguments for '" + strings.ToLower(cmd.Name) + "' command")
		}
		nk, err := strconv.Atoi(a[1])
		if err != nil || nk < 0 || 2+nk > len(a) {
			return errReply("ERR value is not an integer or out of range")
		}
		keys, argv := a[2:2+nk], a[2+nk:]
		var kind string
		if cmd.Name == "EVALSHA" {
			k, ok := s.scripts[strings.ToLower(a[0])]
			if !ok {
				return errReply("NOSCRIPT No matching script. Please use EVAL.")
			}
			kind = k
		} else {
			kind = classify(a[0])
			if kind == "" {
				s.unknown = append(s.unknown, "EVAL of an unknown script")
				return errReply("ERR fakeredis does not run this script")
			}
			sum := sha1.Sum([]byte(a[0]))
			s.scripts[hex.EncodeToString(sum[:])] = kind
		}
		return s.runScript(kind, keys, argv)
	}
	s.unknown = append(s.unknown, cmd.Name)
	return errReply("ERR unknown command '" + strings.ToLower(cmd.Name) + "'")
}
